"""C20 — callers' arrays are not modified; fit_transform = fit then transform (DESIGN.md §6 C20)."""
import os
import warnings

from ..shim import dp, np, REPO
from .. import leanio
from ..translate import alias

PROPERTY = "C20"
LEAN_MODULE = "DPL.Properties.C20"
TRUSTED = [
    "translator harness/translate/alias.py (Python AST -> alias IR: versioning / reaching definitions, callee binding) "
    "and its tables classifying numpy/sklearn calls as returning new memory, possibly a view, or writing in place",
    "modelled, not verified: what numpy/sklearn copy in the installed versions (observed by the bitwise-snapshot run, "
    "not modelled from their source); nested closures are not analysed by the translator",
    "the heap model counts writes per allocation; a write of an identical value still counts as a write",
]
UNPROVED = [
    "that the IR is a sound abstraction of the Python functions (trusted translator); the run-time snapshot experiment "
    "is the independent check of the property on the implementation",
]
RULE = ("entry point x dtype (float64/float32/int64) x layout (C, Fortran, strided view) x bounds form (scalars, float "
        "arrays incl. zero-width features, int arrays) x dataset; every caller-owned array (data, labels, weights, "
        "bounds arrays, base of a view) is snapshotted bitwise before and compared after the call; non-trivial = the "
        "call returned normally; distinct by (entry, dtype, layout, bounds form, shape); container kinds of the data "
        "argument (ndarray subclass view, np.memmap, read-only) x entry x dtype with out-of-bounds values; label vectors "
        "(int64/int32/float64) containing labels outside an explicit `classes`")

GEN_PATH = os.path.join(leanio.LEAN, "DPL", "Generated", "C20IR.lean")


def generate(ctx):
    res = alias.analyse(REPO)
    src, n = alias.lean_source(res)
    os.makedirs(os.path.dirname(GEN_PATH), exist_ok=True)
    old = open(GEN_PATH).read() if os.path.exists(GEN_PATH) else None
    if old != src:
        with open(GEN_PATH, "w") as f:
            f.write(src)
    ctx.ir = res
    for e, r in res.items():
        if "missing" in r:
            ctx.note(f"translator: entry {e}: function {r['missing']} not found")
        for where, names in r.get("unsafe", [])[:3]:
            ctx.note(f"alias IR: {e}: in-place write at {where} through {names} may reach caller-owned memory")
    ctx.count("ir_entries", n)
    ctx.count("ir_statements", sum(len(r.get("stmts", ())) for r in res.values()))
    ctx.sample({"alias_ir_entry": "tools.quantile", "statements": len(res["tools.quantile"].get("stmts", ())),
                "first": [list(map(str, s[:3])) for s in res["tools.quantile"].get("stmts", [])[:5]]})
    return {"build": ["DPL.Generated.C20IR"], "obligations": n}


# ---------------------------------------------------------------------------------------------- run-time experiment

def snap(a):
    b = a
    while getattr(b, "base", None) is not None and isinstance(b.base, np.ndarray):
        b = b.base
    return (a.tobytes(), a.dtype.str, a.shape, b.tobytes())


def layouts(r, A):
    """yield (layout name, array with the same values as A)"""
    yield "C", np.ascontiguousarray(A).copy(order="C")
    if A.ndim == 2:
        yield "F", np.array(A, order="F", copy=True)
        yield "T-view", np.ascontiguousarray(A.T).copy(order="C").T      # transposed view of a C array (F-contiguous)
        big = np.zeros((A.shape[0] * 2, A.shape[1] * 2), dtype=A.dtype)
        big[::2, ::2] = A
        yield "strided", big[::2, ::2]
    else:
        big = np.zeros(A.shape[0] * 3, dtype=A.dtype)
        big[::3] = A
        yield "strided", big[::3]


def make_data(r, n, d, dtype):
    X = np.array([[r.uniform(-1.5, 2.5) for _ in range(d)] for _ in range(n)])
    if dtype == "int64":
        X = np.round(X * 3).astype(np.int64)
    else:
        X = X.astype(dtype)
    return X


def bounds_forms(r, d, per_feature=True):
    yield "scalar", (0.0, 1.0), []
    if per_feature:
        lo = np.array([r.uniform(-1, 0) for _ in range(d)])
        up = lo + np.array([r.uniform(0.5, 2) for _ in range(d)])
        yield "float-arrays", (lo, up), [lo, up]
        lo2 = np.array([0.0] * d)
        up2 = np.array([1.0] * d)
        up2[0] = 0.0               # zero-width feature: exercises min_separation
        yield "zero-width-arrays", (lo2, up2), [lo2, up2]
        lo3 = np.zeros(d, dtype=np.int64)
        up3 = np.ones(d, dtype=np.int64) * 2
        yield "int-arrays", (lo3, up3), [lo3, up3]
        lo4 = np.array([0.25])
        up4 = np.array([0.25])      # one-element float arrays, zero width: the scalar-broadcast branch of check_bounds
        yield "size1-zero-width", (lo4, up4), [lo4, up4]
        lo5 = np.array(0.5)
        up5 = np.array(0.5000001)   # 0-d arrays
        yield "0d-arrays", (lo5, up5), [lo5, up5]


def entries():
    T = dp.tools
    M = dp.models
    E = []

    def tool(name, fn, axis_modes=(None, 0)):
        for ax in axis_modes:
            E.append((f"tools.{name}" + ("" if ax is None else f"[axis={ax}]"), "tool", fn, ax))
    for nm in ("mean", "var", "std", "sum", "nanmean", "nanvar", "nanstd", "nansum"):
        tool(nm, getattr(T, nm))
    tool("count_nonzero", T.count_nonzero)
    for nm in ("median",):
        tool(nm, getattr(T, nm))
    E.append(("tools.quantile[multi]", "quantile", T.quantile, None))
    E.append(("tools.quantile[multi,axis=0]", "quantile", T.quantile, 0))
    E.append(("tools.percentile", "percentile", T.percentile, None))
    E.append(("tools.histogram", "hist1", T.histogram, None))
    E.append(("tools.histogram2d", "hist2", T.histogram2d, None))
    E.append(("tools.histogramdd", "histd", T.histogramdd, None))
    E.append(("validation.clip_to_bounds", "helper", dp.validation.clip_to_bounds, None))
    E.append(("validation.clip_to_norm", "helper", dp.validation.clip_to_norm, None))
    E.append(("validation.check_bounds", "helper", dp.validation.check_bounds, None))
    for nm in ("GaussianNB", "KMeans", "StandardScaler", "LinearRegression", "LogisticRegression", "PCA",
               "RandomForestClassifier", "DecisionTreeClassifier"):
        E.append((f"models.{nm}", "model", getattr(M, nm), None))
    return E


def run_entry(ctx, r, ent, X, layout, bname, bounds, owned_bounds, seed):
    """returns list of (argname, before, after) that differ"""
    name, kind, fn, ax = ent
    n, d = X.shape if X.ndim == 2 else (X.shape[0], 1)
    owned = {"X": X}
    for i, b in enumerate(owned_bounds):
        owned[f"bounds[{i}]"] = b
    y = None
    extra = {}
    if kind == "model":
        cls = fn.__name__
        if cls in ("GaussianNB", "LogisticRegression", "RandomForestClassifier", "DecisionTreeClassifier"):
            y = np.array([i % 3 for i in range(n)], dtype=np.int64)
        elif cls == "LinearRegression":
            if r.chance(0.5):
                y = np.array([r.uniform(-1, 2) for _ in range(n)]).astype(X.dtype if X.dtype.kind == "f" else float)
            else:
                y = np.array([[r.uniform(-3, 4), r.uniform(-3, 4)] for _ in range(n)], order="F" if r.chance(0.6) else "C")
        if y is not None:
            owned["y"] = y
    w = None
    if kind in ("hist1", "hist2", "histd") and r.chance(0.5):
        w = np.array([r.uniform(0, 1) for _ in range(n)])
        owned["weights"] = w
    before = {k: snap(v) for k, v in owned.items()}
    ok = True
    outs = {}
    try:
        with warnings.catch_warnings():
            warnings.simplefilter("ignore")
            if kind == "tool":
                arr = X if name.startswith("tools.count") or True else X
                if name.startswith("tools.count_nonzero"):
                    fn(arr, epsilon=1.0, axis=ax, random_state=seed)
                else:
                    b = bounds
                    if ax is None and bname not in ("scalar", "size1-zero-width", "0d-arrays"):
                        b = (float(np.min(bounds[0])), float(np.max(bounds[1]) + 1))
                    if ax is not None and bname in ("size1-zero-width", "0d-arrays") and X.ndim == 2 and X.shape[1] != 1:
                        pass    # broadcast by check_bounds
                    fn(arr, epsilon=1.0, bounds=b, axis=ax, random_state=seed)
            elif kind == "helper":
                if name.endswith("clip_to_bounds"):
                    fn(X, bounds)
                elif name.endswith("clip_to_norm"):
                    fn(X if X.dtype.kind == "f" else X.astype(float), 1.0)
                else:
                    fn(bounds, X.shape[1] if X.ndim == 2 else 1, min_separation=r.choice([0.0, 1e-5, 0.5]))
            elif kind == "quantile":
                b = bounds if (ax == 0 or bname in ("scalar", "size1-zero-width", "0d-arrays")) else \
                    (float(np.min(bounds[0])), float(np.max(bounds[1]) + 1))
                q = np.array([0.25, 0.5, 0.9])
                owned["quant"] = q
                before["quant"] = snap(q)
                fn(X, q, epsilon=1.0, bounds=b, axis=ax, random_state=seed)
            elif kind == "percentile":
                q = np.array([10.0, 50.0])
                owned["percent"] = q
                before["percent"] = snap(q)
                fn(X, q, epsilon=1.0, bounds=(0.0, 1.0), random_state=seed)
            elif kind == "hist1":
                rng = np.array([0.0, 1.0])
                owned["range"] = rng
                before["range"] = snap(rng)
                fn(X.ravel() if X.ndim > 1 else X, epsilon=1.0, bins=4, range=(rng[0], rng[1]) if r.chance(0.5) else rng,
                   weights=None if w is None else np.resize(w, X.size), random_state=seed, density=r.chance(0.5))
            elif kind == "hist2":
                x0 = X[:, 0]
                x1 = X[:, 1 % d]
                edges = np.array([0.0, 0.3, 0.6, 1.0])
                owned["bins"] = edges
                before["bins"] = snap(edges)
                fn(x0, x1, epsilon=1.0, bins=edges if r.chance(0.5) else 3, range=[(0, 1), (0, 1)], weights=w,
                   random_state=seed)
            elif kind == "histd":
                fn(X, epsilon=1.0, bins=3, range=[(0, 1)] * d, weights=w, random_state=seed)
            else:
                cls = fn.__name__
                kw = dict(epsilon=2.0, random_state=seed)
                if cls in ("GaussianNB", "KMeans", "StandardScaler", "RandomForestClassifier", "DecisionTreeClassifier"):
                    kw["bounds"] = bounds
                if cls == "KMeans":
                    kw["n_clusters"] = 2
                if cls in ("RandomForestClassifier", "DecisionTreeClassifier"):
                    kw["classes"] = [0, 1, 2]
                    if r.chance(0.6):
                        # array-typed constructor arguments are the caller's arrays too: contiguous, in the caller's own
                        # (not ascending) order, integer / float / string-free variants
                        ca = np.array(r.choice([[2, 0, 1], [1, 2, 0], [0, 1, 2], [2, 1, 0]]),
                                      dtype=r.choice([np.int64, np.int32, np.float64]))
                        kw["classes"] = ca
                        owned["classes"] = ca
                        before["classes"] = snap(ca)
                if cls == "RandomForestClassifier":
                    kw["n_estimators"] = 3
                if cls == "GaussianNB" and r.chance(0.6):
                    pr = np.array(r.choice([[0.5, 0.5, 0.0], [0.2, 0.3, 0.5], [0.0, 1.0, 0.0], [1 / 3, 1 / 3, 1 / 3]]),
                                  dtype=np.float64)
                    kw["priors"] = pr
                    owned["priors"] = pr
                    before["priors"] = snap(pr)
                if cls == "LinearRegression":
                    kw["bounds_X"] = bounds
                    yb = np.array([-1.0]) if y.ndim == 1 else np.array([-1.0, -2.0])
                    yu = np.array([2.0]) if y.ndim == 1 else np.array([1.0, 2.0])
                    kw["bounds_y"] = (yb, yu) if (bname != "scalar" or y.ndim == 2) else (-1.0, 2.0)
                    if bname == "scalar" and y.ndim == 2:
                        owned["bounds_y[0]"], owned["bounds_y[1]"] = yb, yu
                        before["bounds_y[0]"], before["bounds_y[1]"] = snap(yb), snap(yu)
                    if bname != "scalar":
                        owned["bounds_y[0]"], owned["bounds_y[1]"] = yb, yu
                        before["bounds_y[0]"], before["bounds_y[1]"] = snap(yb), snap(yu)
                    kw["fit_intercept"] = r.chance(0.5)
                if cls == "LogisticRegression":
                    kw["data_norm"] = 1.5
                if cls == "PCA":
                    kw["data_norm"] = 3.0
                    kw["n_components"] = min(2, d)
                    kw["centered"] = r.chance(0.3)
                    if not kw["centered"]:
                        kw["bounds"] = bounds
                est = fn(**kw)
                if y is not None:
                    est.fit(X, y)
                else:
                    est.fit(X)
                for meth in ("predict", "transform", "predict_proba", "score_samples"):
                    if hasattr(est, meth):
                        try:
                            getattr(est, meth)(X)
                        except Exception:
                            pass
                if cls in ("PCA", "StandardScaler"):
                    a = fn(**kw).fit_transform(X)
                    b_ = fn(**kw).fit(X).transform(X)
                    outs["fit_transform"] = (a, b_)
                if cls in ("GaussianNB", "StandardScaler"):
                    est2 = fn(**kw)
                    if y is not None:
                        est2.partial_fit(X, y, classes=[0, 1, 2])
                    else:
                        est2.partial_fit(X)
    except Exception as e:  # a refusal is fine; a mutation before it is still a mutation
        ok = False
        ctx.count("calls_raising")
        ctx.count("raise:" + type(e).__name__)
    changed = []
    for k, v in owned.items():
        after = snap(v)
        if after != before[k]:
            changed.append(k)
    return ok, changed, outs


def describe(X):
    return {"dtype": X.dtype.str, "shape": list(X.shape), "values": X.tolist()}


def one_case(ctx, r, ent, n, d, dtype, seed, forms=None):
    Xv = make_data(r, n, d, dtype)
    for layout, X in layouts(r, Xv):
        for bname, bounds, owned_b in bounds_forms(r, d):
            if forms and (layout, bname) not in forms:
                continue
            ok, changed, outs = run_entry(ctx, r, ent, X, layout, bname, bounds, owned_b, seed)
            key = (ent[0], dtype, layout, bname, n, d)
            ctx.case(key if ok else None)
            data = {"entry": ent[0], "dtype": dtype, "layout": layout, "bounds_form": bname, "n": n, "d": d,
                    "seed": seed, "X": Xv.tolist(), "rng_state": None}
            for arg in changed:
                ctx.violation(f"C20:{ent[0].split('[')[0]}:mutates:{arg.split('[')[0]}",
                              f"{ent[0]} modified caller-owned `{arg}` (dtype {dtype}, layout {layout}, bounds {bname}, "
                              f"shape {(n, d)})", data)
            if "fit_transform" in outs:
                a, b_ = outs["fit_transform"]
                if not (a.shape == b_.shape and np.array_equal(a, b_, equal_nan=True)):
                    ctx.violation(f"C20:{ent[0]}:fit_transform-differs",
                                  f"{ent[0]}: fit_transform(X) != fit(X).transform(X) with the same seed "
                                  f"(max abs diff {float(np.max(np.abs(a - b_))) if a.shape == b_.shape else 'shape'})",
                                  data)
                else:
                    ctx.trace_ok()


# ------------------------------------------------------------------------------------------------ life-cycle sequences

LIFE_MODELS = ("GaussianNB", "KMeans", "StandardScaler", "LinearRegression", "LogisticRegression", "PCA",
               "RandomForestClassifier", "DecisionTreeClassifier")


def life_kwargs(cls, d, seed, acc, r):
    kw = dict(epsilon=2.0, random_state=seed, accountant=acc)
    if cls in ("GaussianNB", "KMeans", "StandardScaler", "RandomForestClassifier", "DecisionTreeClassifier"):
        kw["bounds"] = (0.0, 1.0)
    if cls == "KMeans":
        kw["n_clusters"] = 2
    if cls in ("RandomForestClassifier", "DecisionTreeClassifier"):
        kw["classes"] = [0, 1, 2]
    if cls == "RandomForestClassifier":
        kw["n_estimators"] = 3
    if cls == "LinearRegression":
        kw.update(bounds_X=(0.0, 1.0), bounds_y=(-1.0, 2.0), fit_intercept=r.chance(0.5))
    if cls == "LogisticRegression":
        kw["data_norm"] = 1.5
    if cls == "PCA":
        kw.update(data_norm=3.0, n_components=min(2, d), centered=r.chance(0.3))
        if not kw["centered"]:
            kw["bounds"] = (0.0, 1.0)
    return kw


def lifecycle_case(ctx, r, cls, dtype, seed):
    """One estimator OBJECT used through a random sequence of calls - successful ones, refused ones (budget exhausted,
    wrong number of features) and parameter changes.  After every step every array the caller ever handed over must be
    byte-identical to its snapshot (a refused call that leaves the estimator in a state in which LATER calls write into
    the caller's arrays is found here), and on that same object fit_transform(X) must equal fit(X).transform(X)."""
    M = dp.models
    fn = getattr(M, cls)
    n, d = r.randint(12, 24), r.randint(2, 4)
    supervised = cls in ("GaussianNB", "LogisticRegression", "RandomForestClassifier", "DecisionTreeClassifier", "LinearRegression")

    def fresh_X(k=None, dd=None):
        A = make_data(r, k or n, dd or d, dtype)
        return np.array(A, order=r.choice(["C", "F"]), copy=True)

    def fresh_y(k=None):
        k = k or n
        if cls == "LinearRegression":
            return np.array([r.uniform(-1, 2) for _ in range(k)])
        return np.array([i % 3 for i in range(k)], dtype=np.int64)

    acc = dp.BudgetAccountant(epsilon=2.0 * r.choice([1, 2, 3]) + 0.5)     # room for 1-3 fits, then refusals
    est = fn(**life_kwargs(cls, d, seed, acc, r))
    owned, before, steps = {}, {}, []

    def own(tag, a):
        owned[tag] = a
        before[tag] = snap(a)
        return a

    menu = ["fit", "fit", "use", "fit-refused-budget", "fit-wrong-features", "set_params", "use"]
    if hasattr(est, "fit_transform") and cls in ("PCA", "StandardScaler"):
        menu += ["fit_transform", "fit_transform", "fit_transform-refused-budget"]
    if hasattr(est, "partial_fit"):
        menu += ["partial_fit"]
    data = {"kind": "lifecycle", "model": cls, "dtype": dtype, "seed": seed, "fork": None}
    for i in range(r.randint(3, 7)):
        st = r.choice(menu)
        steps.append(st)
        try:
            with warnings.catch_warnings():
                warnings.simplefilter("ignore")
                if st in ("fit", "fit_transform", "partial_fit"):
                    X = own(f"X{i}", fresh_X())
                    y = own(f"y{i}", fresh_y()) if supervised else None
                    if st == "fit":
                        est.fit(X, y) if supervised else est.fit(X)
                    elif st == "fit_transform":
                        est.fit_transform(X)
                    elif supervised:
                        est.partial_fit(X, y, classes=[0, 1, 2])
                    else:
                        est.partial_fit(X)
                elif st in ("fit-refused-budget", "fit_transform-refused-budget"):
                    spare = acc.remaining()[0]
                    if spare > 0 and not np.isinf(spare):
                        acc.spend(spare * 0.999, 0)                  # what is left cannot pay for a fit
                    X = own(f"X{i}", fresh_X())
                    y = own(f"y{i}", fresh_y()) if supervised else None
                    if st == "fit-refused-budget":
                        est.fit(X, y) if supervised else est.fit(X)
                    else:
                        est.fit_transform(X)
                elif st == "fit-wrong-features":
                    X = own(f"X{i}", fresh_X(dd=d + 1))
                    y = own(f"y{i}", fresh_y()) if supervised else None
                    if hasattr(est, "partial_fit") and r.chance(0.5):
                        est.partial_fit(X, y, classes=[0, 1, 2]) if supervised else est.partial_fit(X)
                    else:
                        est.transform(X) if hasattr(est, "transform") else est.predict(X)
                elif st == "set_params":
                    est.set_params(epsilon=r.choice([0.4, 1.0, 2.0]))
                    if r.chance(0.5):
                        acc = dp.BudgetAccountant()
                        est.set_params(accountant=acc)
                else:
                    X = own(f"X{i}", fresh_X())
                    for meth in ("transform", "predict", "predict_proba", "score_samples", "inverse_transform"):
                        if hasattr(est, meth) and meth != "inverse_transform":
                            try:
                                getattr(est, meth)(X)
                            except Exception:  # noqa - not fitted yet / refused: fine
                                pass
        except Exception as e:  # noqa - refusals are part of the sequence
            ctx.count("lifecycle_raise:" + type(e).__name__)
        for tag, a in owned.items():
            if snap(a) != before[tag]:
                ctx.violation(f"C20:models.{cls}:lifecycle:mutates",
                              f"models.{cls} (dtype {dtype}): after the call sequence {steps} on one estimator object the "
                              f"caller's array `{tag}` (handed over at step {tag[1:]}) was modified by step {i} `{st}`",
                              dict(data, steps=list(steps)))
                before[tag] = snap(a)
    ctx.case(("lifecycle", cls, dtype, tuple(steps)))
    # same object, integer seed: fit_transform(X) == fit(X).transform(X), in either order
    if cls in ("PCA", "StandardScaler"):
        est2 = fn(**life_kwargs(cls, d, seed, dp.BudgetAccountant(), r))
        X = fresh_X()
        with warnings.catch_warnings():
            warnings.simplefilter("ignore")
            if r.chance(0.5):
                a = est2.fit_transform(X)
                b_ = est2.fit(X).transform(X)
                order = "fit_transform first"
            else:
                b_ = est2.fit(X).transform(X)
                a = est2.fit_transform(X)
                order = "fit().transform() first"
        if not (a.shape == b_.shape and np.array_equal(a, b_, equal_nan=True)):
            ctx.violation(f"C20:models.{cls}:fit_transform-differs:same-object",
                          f"models.{cls}(random_state={seed}): on ONE estimator object fit_transform(X) != "
                          f"fit(X).transform(X) ({order}; max abs diff "
                          f"{float(np.max(np.abs(a - b_))) if a.shape == b_.shape else 'shape'})",
                          dict(data, steps=["same-object"]))
        else:
            ctx.trace_ok()


def lifecycle(ctx):
    r = ctx.fork("c20-lifecycle")
    for cls in LIFE_MODELS:
        for rep in range(ctx.budget(4, 40)):
            for dtype in ("float64", "float32", "int64"):
                seed = r.randint(0, 10 ** 6)
                f = (cls, rep, dtype)
                lifecycle_case(ctx, r.fork(f), cls, dtype, seed)


# ------------------------------------------------------------------------ container kinds / labels outside `classes`

class TaggedArray(np.ndarray):
    """a do-nothing ndarray subclass (stands for np.memmap, np.recarray, unit-carrying arrays, ...)"""


CONTAINERS = ("subclass-view", "memmap", "read-only", "read-only-subclass")


def in_container(kind, A, tmpdir, tag):
    """a caller's array holding the values of A in the container `kind` (own memory, C order)"""
    A = np.ascontiguousarray(A)
    if kind == "subclass-view":
        return A.copy().view(TaggedArray)
    if kind == "memmap":
        mm = np.memmap(os.path.join(tmpdir, f"{tag}.dat"), dtype=A.dtype, mode="w+", shape=A.shape)
        mm[...] = A
        return mm
    X = A.copy() if kind == "read-only" else A.copy().view(TaggedArray)
    X.setflags(write=False)
    return X


def container_case(ctx, r, ent, kind, dtype, seed, tmpdir):
    n = r.randint(8, 14) if ent[1] != "model" else r.randint(12, 20)
    d = r.randint(2, 3)
    Xv = make_data(r, n, d, dtype)
    Xv[0, 0], Xv[1, d - 1] = Xv.dtype.type(2.5), Xv.dtype.type(-1.5)    # certainly outside every bounds form used
    forms = list(bounds_forms(r, d))
    bname, bounds, owned_b = forms[r.choice([0, 1, 3])]
    X = in_container(kind, Xv, tmpdir, "X")
    ok, changed, outs = run_entry(ctx, r, ent, X, kind, bname, bounds, owned_b, seed)
    ctx.case(("container", ent[0], kind, dtype, bname) if ok else None)
    data = {"kind": "container", "entry": ent[0], "container": kind, "dtype": dtype, "bounds_form": bname,
            "n": n, "d": d, "seed": seed, "X": Xv.tolist()}
    for arg in changed:
        now = np.array(X, copy=True, subok=False) if arg == "X" else None
        where = ""
        if now is not None and now.shape == Xv.shape:
            idx = np.argwhere(now != Xv)
            if len(idx):
                i, j = (int(t) for t in idx[0])
                where = f"; e.g. X[{i},{j}] was {Xv[i, j].item()!r}, now {now[i, j].item()!r} ({len(idx)} entries changed)"
        ctx.violation(f"C20:{ent[0].split('[')[0]}:mutates:{arg.split('[')[0]}:{kind}",
                      f"{ent[0]} modified caller-owned `{arg}` held in a {kind} container (dtype {dtype}, bounds {bname} "
                      f"{[np.asarray(b).tolist() for b in bounds]}, shape {(n, d)}, random_state={seed}){where}", data)
    # fit_transform(X) against fit(X).transform(X), each on a fresh container holding the ORIGINAL values
    if ent[1] == "model" and ent[2].__name__ in ("StandardScaler", "PCA") and kind in ("subclass-view", "memmap"):
        cls = ent[2].__name__
        kw = dict(epsilon=2.0, random_state=seed, bounds=bounds)
        if cls == "PCA":
            kw.update(data_norm=3.0, n_components=min(2, d), centered=False)
        try:
            with warnings.catch_warnings():
                warnings.simplefilter("ignore")
                X1 = in_container(kind, Xv, tmpdir, "X1")
                a = np.asarray(ent[2](**kw).fit_transform(X1))
                X2 = in_container(kind, Xv, tmpdir, "X2")
                est = ent[2](**kw).fit(X2)
                b_ = np.asarray(est.transform(in_container(kind, Xv, tmpdir, "X3")))   # the data as the caller holds them
                b2 = np.asarray(est.transform(X2))
        except Exception as e:  # noqa - refusal
            ctx.count("container_raise:" + type(e).__name__)
            return
        for other, what in ((b_, "fit(X).transform(X0), X0 a second holder of the same values"),
                            (b2, "fit(X).transform(X)")):
            if not (a.shape == other.shape and np.array_equal(a, other, equal_nan=True)):
                ctx.violation(f"C20:{ent[0]}:fit_transform-differs:{kind}",
                              f"{ent[0]}(random_state={seed}, bounds {bname}): fit_transform(X) != {what} for X in a {kind} "
                              f"container (dtype {dtype}, shape {(n, d)}; max abs diff "
                              f"{float(np.max(np.abs(a - other))) if a.shape == other.shape else 'shape'})", data)
                break
        else:
            ctx.trace_ok()


def containers(ctx, only=None):
    import shutil
    import tempfile
    r = ctx.fork("c20-containers")
    tmpdir = tempfile.mkdtemp(prefix="c20_")
    try:
        for ent in entries():
            for kind in CONTAINERS:
                for dtype in ("float64", "float32", "int64"):
                    for rep in range(ctx.budget(1, 3)):
                        rr = r.fork((ent[0], kind, dtype, rep))
                        if only and only != ent[0]:
                            continue
                        container_case(ctx, rr, ent, kind, dtype, rr.randint(0, 10 ** 6), tmpdir)
    finally:
        shutil.rmtree(tmpdir, ignore_errors=True)


LABEL_MODELS = ("RandomForestClassifier", "DecisionTreeClassifier", "GaussianNB.partial_fit")


def labels_case(ctx, r, model, ydtype, seed):
    """labels that are NOT among the `classes` the caller declared: whatever the estimator does with them (refuse,
    ignore, miscount), the caller's label vector must stay byte-identical"""
    M = dp.models
    n, d = r.randint(12, 24), r.randint(2, 3)
    X = make_data(r, n, d, "float64")
    classes_l = r.choice([[0, 1, 2], [1, 2, 3], [0, 2], [1, 2]])
    pool = classes_l + [c for c in (-1, 0, 1, 3, 4, 7) if c not in classes_l]
    yl = [r.choice(pool) for _ in range(n)]
    yl[r.randint(0, n - 1)] = r.choice([c for c in (-1, 4, 7) if c not in classes_l])      # at least one unknown label
    y = np.ascontiguousarray(np.array(yl, dtype=ydtype))
    as_array = r.chance(0.5)
    classes = np.array(classes_l, dtype=r.choice([np.int64, np.int32, np.float64])) if as_array else list(classes_l)
    owned = {"X": X, "y": y}
    if as_array:
        owned["classes"] = classes
    before = {k: snap(v) for k, v in owned.items()}
    ok = True
    try:
        with warnings.catch_warnings():
            warnings.simplefilter("ignore")
            if model == "GaussianNB.partial_fit":
                est = M.GaussianNB(epsilon=2.0, bounds=(0.0, 1.0), random_state=seed)
                est.partial_fit(X, y, classes=classes)
            else:
                kw = dict(epsilon=2.0, bounds=(0.0, 1.0), classes=classes, random_state=seed)
                if model == "RandomForestClassifier":
                    kw["n_estimators"] = 3
                est = getattr(M, model)(**kw)
                est.fit(X, y)
            try:
                est.predict(X)
            except Exception:  # noqa
                pass
    except Exception as e:  # a refusal is fine; a mutation before it is still a mutation
        ok = False
        ctx.count("labels_raise:" + type(e).__name__)
    ctx.case(("labels", model, ydtype, as_array, tuple(classes_l)) if ok else None)
    data = {"kind": "labels", "model": model, "y_dtype": ydtype, "seed": seed, "classes": classes_l, "y": yl,
            "X": X.tolist()}
    for k, v in owned.items():
        if snap(v) != before[k]:
            extra = ""
            if k == "y":
                idx = [i for i in range(n) if v[i] != yl[i]]
                extra = (f"; e.g. y[{idx[0]}] was {yl[idx[0]]}, now {v[idx[0]].item()} ({len(idx)} labels rewritten)"
                         if idx else "")
            ctx.violation(f"C20:models.{model}:mutates:{k}:labels-outside-classes",
                          f"models.{model}(classes={classes_l}{' as ' + classes.dtype.str + ' array' if as_array else ''}, "
                          f"bounds=(0,1), random_state={seed}) modified caller-owned `{k}`: y = {yl} ({ydtype}, contiguous) "
                          f"contains labels not in classes{extra}", data)


def labels(ctx, only=None):
    r = ctx.fork("c20-labels")
    for model in LABEL_MODELS:
        for ydtype in ("int64", "int32", "float64"):
            for rep in range(ctx.budget(3, 12)):
                rr = r.fork((model, ydtype, rep))
                if only and only != model:
                    continue
                labels_case(ctx, rr, model, ydtype, rr.randint(0, 10 ** 6))


def check(ctx):
    labels(ctx)
    containers(ctx)
    lifecycle(ctx)
    r = ctx.fork("c20")
    ents = entries()
    reps = ctx.budget(1, 6)
    for ent in ents:
        for rep in range(reps):
            for dtype in ("float64", "float32", "int64"):
                n = r.randint(6, 14) if ent[1] != "model" else r.randint(12, 30)
                d = r.randint(2, 4)
                rr = r.fork((ent[0], rep, dtype))
                one_case(ctx, rr, ent, n, d, dtype, seed=r.randint(0, 10 ** 6))
    ctx.sample({"entry": "models.PCA", "what": "snapshot X (and base of strided view), bounds arrays; fit; transform; compare bytes; "
                "fit_transform(X, seed) vs fit(X, seed).transform(X)"})


def replay(ctx, data):
    d = data["data"]
    if d.get("kind") == "lifecycle":
        n0 = len(ctx.violations)
        lifecycle(ctx)
        return len(ctx.violations) > n0
    if d.get("kind") == "container":
        n0 = len(ctx.violations)
        containers(ctx, only=d["entry"])
        return len(ctx.violations) > n0
    if d.get("kind") == "labels":
        n0 = len(ctx.violations)
        labels(ctx, only=d["model"])
        return len(ctx.violations) > n0
    from ..gen import SplitMix64
    ents = {e[0]: e for e in entries()}
    ent = ents[d["entry"]]
    r = SplitMix64(1)
    Xv = np.array(d["X"], dtype=d["dtype"])
    before = len(ctx.violations)
    for layout, X in layouts(r, Xv):
        for bname, bounds, owned_b in bounds_forms(r, d["d"]):
            if layout != d["layout"] or bname != d["bounds_form"]:
                continue
            ok, changed, outs = run_entry(ctx, r, ent, X, layout, bname, bounds, owned_b, d["seed"])
            if changed:
                return True
            if "fit_transform" in outs and not np.array_equal(*outs["fit_transform"], equal_nan=True):
                return True
    return False
