"""C03 — sampler conformance: input-independent noise with the calibrated law (DESIGN.md §6 C03).

(K) correspondence: the real `randomise` of every additive mechanism vs the Lean model (`DPL/Model/Samplers.lean`, run on
    doubles by `Drivers/Samplers.lean`) on the same scripted random streams, several inputs per stream; the number of
    uniforms / normals / gammas / random bits consumed is compared too.
(S) direct, on the implementation alone:
    * `randomise(x; u) − x` is the same for all `x` (tolerance 8 ulp of max(|x|, |noise|));
    * the noise is proportional to the calibrated scale (`sensitivity/epsilon_eff` …) across parameter settings;
    * truncation / folding = a function of the bounds applied to the plain mechanism's output for the same stream;
    * the rejection samplers return the first in-range draw of the stream;
    * the law of the unit noise: sup-distance between the empirical CDF of n draws of the real sampler and the
      reference CDF, threshold from the Dvoretzky–Kiefer–Wolfowitz inequality (see `dkw_threshold`).
    The KS tests are supporting validation of the RUNNING code.  For the model they are no longer the only evidence:
    Lean (C03.lean §8) proves, as push-forwards of Lebesgue measure on [0,1)^4 resp. of N(0,1)⊗N(0,1), that the 4-uniform
    expression is standard Laplace (`laplace4_law`), that `Laplace.randomise` has C02's Laplace law with the coded scale and
    is (ε,δ)-DP as sampled, truncated/folded included (`laplace_mech_law`, `laplace_sampler_dp`,
    `laplace_truncated_folded_sampler_dp`), that (N1+N2)/√2 is standard normal and `Gaussian.randomise` ~ N(value, scale²)
    (`gauss_unit_law`, `gauss_mech_law`), −log(1−U) ~ Exp(1) (`exp_of_uniform_map`), that four independent Gamma(d/4) draws
    times scale sum to Gamma(d, rate 1/scale) (`gamma_sum_law`, push-forward of the product of Mathlib's `gammaMeasure`), and
    acceptance–rejection over an i.i.d. stream (`rejection_conditional_law`, `boundedDomain_law`,
    `discrete_gauss_loop_law`).  C03.lean §9–§11 prove, over the i.i.d. UNIFORM stream (product measure on ℕ → ℝ): the
    Canonne–Kamath–Steinke loop has the discrete Gaussian law (`cks_pass_law`, `cks_renewal`, `cks_unbounded_loop_law`,
    `cks_loop_law_full` for the model with its fuel, `cks_growing_fuel_law`), the batch layout of the rejection loop yields an
    i.i.d. Laplace candidate stream (`batch_layout_iid`, `boundedDomain_stream_law`, `boundedNoise_stream_law`; the samplers
    are (ε,δ)-DP as sampled: `boundedDomain_sampler_dp`, `boundedNoise_sampler_dp`), and Snapping's released
    value is `snapPost` of a Laplace variable with the grid point's cell probability (`snapping_sign_log_law`,
    `snapping_release_law`, `snapping_grid_pmf`).  What is still only validated is listed in UNPROVED.
"""
import math
import secrets

from ..shim import dp, np
from .. import gen, leanio, seams
from ..gen import f2b, b2f

PROPERTY = "C03"
LEAN_MODULE = "DPL.Properties.C03"
M = dp.mechanisms
EPS = 2.220446049250313e-16

TRUSTED = [
    "modelled, not verified: numpy/CPython float arithmetic = IEEE binary64 = Lean `Float` (+,-,*,/,sqrt,cos,pow "
    "bit-exact; exp/log within 1 ulp); `random()` uniform on [0,1) with independent successive draws (in Lean: the "
    "product of `unif01 = volume.restrict [0,1)`); the laws of the library samplers `normalvariate` (in Lean: "
    "`gaussianReal 0 1`, independent draws), `gammavariate` (in Lean: `gammaMeasure (d/4) 1` times scale, independent "
    "draws), `RandomState.geometric`, `multivariate_normal`; the law "
    "theorems of C03 section 8 are about exact real arithmetic on those ideal draws, not about binary64 rounding or the "
    "53-bit grid of `random()`",
    "GaussianAnalytic / GaussianDiscrete / LaplaceBoundedDomain: the calibrated `_scale` is read from the mechanism "
    "object (its correctness is C02's subject); C03 checks that the noise is that scale times the unit noise",
    "Bingham: only the acceptance test is modelled (coded ratio, tied by measuring the real sampler's acceptance "
    "probability of a scripted proposal); eigen-decomposition, the bisection for b and multivariate_normal are numpy's; the "
    "law of the released direction is validated statistically in 2 dimensions only",
    "parameter validation (`_check_all`) is not modelled here (C13)",
    "C03 sections 9-11 (laws over the uniform stream): the stream is the product measure of `unif01` on N -> R; the model's "
    "loops carry fuel where Python's are unbounded (the theorems quantify over all fuels / take the union over all caps, "
    "cks_loop_law_full keeps the model's fixed inner fuels and an explicit abort event); Snapping: `getrandbits(1)` is a "
    "fair bit and the output of `_uniform_sampler` is idealised as a continuous uniform on [0,1)",
]
UNPROVED = [
    "Vector: a normalised Gaussian vector is uniform on the sphere (validated: KS of every coordinate of b/|b| against "
    "its Beta marginal, of the angle for d = 2; the norm's law - four Gamma(d/4, scale) draws sum to Gamma(d, scale) - is "
    "now proved, gamma_sum_law, and its KS test of |b|/scale against Gamma(d,1) stays as supporting validation)",
    "GaussianDiscrete: PROVED over the i.i.d. uniform stream (C03.lean section 9): geometric proposal, one-pass law = "
    "cksPassProb (cks_pass_law; composition of the branches inside a pass, recursion of bernoulli_neg_exp for g > 1), "
    "renewal (cks_renewal), the loop with unbounded inner loops returns y with the discrete Gaussian probability "
    "(cks_unbounded_loop_law), the executable model is a restriction of it (cks_model_refines) and has that law up to "
    "its fuel-exhaustion event: ret <= dG <= ret + abort (theorem cks_loop_law_full, formerly a def Prop); conversely "
    "every run of the unbounded loop is a run of the model with its inner fuels as parameters (cksLoopG; the model is the "
    "instance 64/4096/4096, cks_model_is_instance) for all large enough fuels (cks_unbounded_refines_model), so with "
    "growing fuels the law is exactly discrete Gaussian and P[abort] = 0 (cks_growing_fuel_law). NOT proved: an "
    "explicit bound on P[abort] for the model's FIXED inner fuels 64/4096/4096 (not small for large scales: the cap 4096 "
    "on the geometric count is reached with probability about exp(-4096/(1+floor(scale))); the Python loops are "
    "unbounded and have no such event); validated: sup over atoms of the real sampler's noise against the discrete "
    "Gaussian CDF",
    "Bingham's rejection sampler (validated in 2-D: KS of the doubled angle against the von Mises law; at HEAD this "
    "FAILS — known finding C03:bingham:law:acceptance-inverted, counter-example theorem bingham_accept_cex)",
    "the rejection samplers (LaplaceBoundedDomain / LaplaceBoundedNoise): PROVED (C03.lean section 10): the batch layout "
    "(sample i of a batch of s uses uniforms i, s+i, 2s+i, 3s+i) is an injective reindexing, turns the i.i.d. uniform "
    "stream into an i.i.d. standard-Laplace candidate stream (batch_layout_iid), the model's candidates are a prefix of "
    "it, hence the value returned on the uniform stream has the conditioned Laplace law (boundedDomain_stream_law, "
    "boundedNoise_stream_law, boundedNoise_release_law) and the samplers themselves satisfy C02's (eps, delta) inequality "
    "over the uniform stream (boundedDomain_sampler_dp for every scale on the private side of the fixed point, "
    "boundedNoise_sampler_dp); exact real arithmetic, loop unbounded (any fuel); the KS test against the conditioned "
    "Laplace CDF stays as supporting validation of the running code",
    "Snapping: PROVED (C03.lean section 11) with a fair bit and a CONTINUOUS uniform U on [0,1): (-1)^bit log U is standard "
    "Laplace (snapping_sign_log_law), the model's rounding is round-half-up to the grid with cells [(k-1/2)L, (k+1/2)L) "
    "(snapping_round_half_up), the released value has the law snapPost#Laplace(clamped, 1/eps_eff) (snapping_release_law) "
    "and the grid point L*k the Laplace probability of its cell (snapping_grid_pmf); in exact arithmetic the release is "
    "pure eps_eff-DP with eps_eff <= eps (snapping_release_dp; not Mironov's floating-point theorem). NOT proved: that the law of the "
    "model's snapUniform (the dyadic double mantissa*2^exponent from getrandbits) is the round-down of a continuous "
    "uniform, and the rounding of crlibm/numpy log; validated: sup over atoms against the rounded, clamped Laplace law",
]
RULE = ("per mechanism kind, parameters, inputs and random streams are generated from the seed; every stream is run on the "
        "real mechanism (scripted SystemRandom / RandomState through the public random_state= argument) for 3 inputs and "
        "on the Lean model; a case is non-trivial when the noise is non-zero and, for rejection samplers, when at least "
        "one draw was rejected; distinct by (kind, parameters, stream). Staircase: gamma = None (default), interior values, the "
        "end points 0 / 0.0 / 1 / 1.0 and values next to them; the reference (model line and the direct check) is built from "
        "the REQUESTED gamma, never from the attribute read back from the object")

KINDS = ["lap", "trunc", "fold", "bdom", "bnoise", "gauss", "gaussA", "dgauss", "stair", "unif", "vec", "snap"]


# ------------------------------------------------------------------------------------------------ randomness seams

class FastRandom(secrets.SystemRandom):
    """SystemRandom whose random()/getrandbits come from a seeded numpy bit generator (fast, reproducible).
    normalvariate / gammavariate are CPython's own (they call self.random())."""

    def __new__(cls, *a, **k):
        return super().__new__(cls)

    def __init__(self, seed):
        self.g = np.random.Generator(np.random.PCG64(int(seed)))
        self.buf = []
        self.i = 0
        self.n_uniform = 0

    def random(self):
        if self.i >= len(self.buf):
            self.buf = self.g.random(1 << 16).tolist()
            self.i = 0
        v = self.buf[self.i]
        self.i += 1
        self.n_uniform += 1
        return v

    def getrandbits(self, k):
        v = 0
        got = 0
        while got < k:
            v |= int(self.g.integers(0, 1 << 32)) << got
            got += 32
        return v & ((1 << k) - 1)


class ScriptedRS2(np.random.RandomState):
    """RandomState whose standard_normal / gamma are scripted: drives the `except AttributeError` (seeded) branches of
    Gaussian.randomise and Vector.randomise.  gamma(shape, scale, size) returns unit gammas × scale, like numpy does."""

    def __init__(self, normals=(), gammas=(), uniforms=(), bits=()):
        super().__init__(0)
        self.normals = list(normals)
        self.gammas = list(gammas)
        self.u = list(uniforms)
        self.bits = list(bits)
        self.n_normal = 0
        self.n_gamma = 0
        self.n_uniform = 0
        self.n_bits = 0
        self.log = []

    def random(self, size=None):
        """`rng.random()` and the vectorised `rng.random(4 * samples)` of the rejection samplers"""
        k = 1 if size is None else int(np.prod(size))
        if self.n_uniform + k > len(self.u):
            raise seams.ScriptExhausted("uniform script exhausted")
        v = self.u[self.n_uniform:self.n_uniform + k]
        self.n_uniform += k
        return v[0] if size is None else np.array(v, dtype=float).reshape(size)

    def randint(self, low, high=None, size=None, dtype=int):
        """Snapping's `_getrandbits` fallback: `rng.randint(0, 2 ** bits)`"""
        if high is None:
            low, high = 0, low
        i = self.n_bits
        self.n_bits += 1
        if i >= len(self.bits):
            raise seams.ScriptExhausted("bits script exhausted")
        self.log.append(("getrandbits", int(high).bit_length() - 1))
        return low + self.bits[i] % (high - low)

    def standard_normal(self, size=None):
        k = 1 if size is None else int(np.prod(size))
        if self.n_normal + k > len(self.normals):
            raise seams.ScriptExhausted("normal script exhausted")
        v = self.normals[self.n_normal:self.n_normal + k]
        self.n_normal += k
        return v[0] if size is None else np.array(v, dtype=float).reshape(size)

    def gamma(self, shape, scale=1.0, size=None):
        k = 1 if size is None else int(np.prod(size))
        if self.n_gamma + k > len(self.gammas):
            raise seams.ScriptExhausted("gamma script exhausted")
        v = [g * scale for g in self.gammas[self.n_gamma:self.n_gamma + k]]
        self.n_gamma += k
        self.log += [("gammavariate", shape, scale)] * k
        return v[0] if size is None else np.array(v, dtype=float).reshape(size)


def make_rng(kind, script):
    if script.get("rs"):
        return ScriptedRS2(normals=script.get("normals", ()), gammas=script.get("gammas", ()),
                           uniforms=script.get("u", ()), bits=script.get("bits", ()))
    if kind == "stair":
        return seams.ScriptedRandomState(uniforms=script.get("u", ()), geometrics=script.get("geom", ()))
    return seams.ScriptedSystemRandom(uniforms=script.get("u", ()), bits=script.get("bits", ()),
                                      normals=script.get("normals", ()), gammas=script.get("gammas", ()))


def rng_counts(rng):
    return {"u": getattr(rng, "n_uniform", 0), "bits": getattr(rng, "n_bits", 0), "normals": getattr(rng, "n_normal", 0),
            "gammas": getattr(rng, "n_gamma", 0), "geom": getattr(rng, "n_geom", 0)}


def mk_mech(kind, p, rng):
    if kind == "lap":
        return M.Laplace(epsilon=p["eps"], delta=p["delta"], sensitivity=p["sens"], random_state=rng)
    if kind == "trunc":
        return M.LaplaceTruncated(epsilon=p["eps"], delta=p["delta"], sensitivity=p["sens"], lower=p["lo"],
                                  upper=p["hi"], random_state=rng)
    if kind == "fold":
        return M.LaplaceFolded(epsilon=p["eps"], delta=p["delta"], sensitivity=p["sens"], lower=p["lo"],
                               upper=p["hi"], random_state=rng)
    if kind == "bdom":
        return M.LaplaceBoundedDomain(epsilon=p["eps"], delta=p["delta"], sensitivity=p["sens"], lower=p["lo"],
                                      upper=p["hi"], random_state=rng)
    if kind == "bnoise":
        return M.LaplaceBoundedNoise(epsilon=p["eps"], delta=p["delta"], sensitivity=p["sens"], random_state=rng)
    if kind == "gauss":
        return M.Gaussian(epsilon=p["eps"], delta=p["delta"], sensitivity=p["sens"], random_state=rng)
    if kind == "gaussA":
        return M.GaussianAnalytic(epsilon=p["eps"], delta=p["delta"], sensitivity=p["sens"], random_state=rng)
    if kind == "dgauss":
        return M.GaussianDiscrete(epsilon=p["eps"], delta=p["delta"], sensitivity=p["sens"], random_state=rng)
    if kind == "stair":
        return M.Staircase(epsilon=p["eps"], sensitivity=p["sens"], gamma=p["gamma"], random_state=rng)
    if kind == "unif":
        return M.Uniform(delta=p["delta"], sensitivity=p["sens"], random_state=rng)
    if kind == "vec":
        return M.Vector(epsilon=p["eps"], function_sensitivity=p["fs"], data_sensitivity=p["ds"], dimension=p["d"],
                        alpha=p["alpha"], n=p["n"], random_state=rng)
    if kind == "snap":
        return M.Snapping(epsilon=p["eps"], sensitivity=p["sens"], lower=p["lo"], upper=p["hi"], random_state=rng)
    raise KeyError(kind)


def zero_fn(d):
    def f(w, *a):
        return 0.0, np.zeros(d)
    return f


def quad_fn(d):
    def f(w, *a):
        return float(np.dot(w, w)) + 1.5, 2.0 * np.asarray(w, dtype=float)
    return f


def vec_extract(out, d, n, fn):
    """(b, Delta) of a noisy objective returned by Vector.randomise(fn): gradient at 0 and at e_1"""
    z = np.zeros(d)
    f0, g0 = out(z.copy())
    c0, cg0 = fn(z.copy())
    b = (np.asarray(g0, dtype=float) - cg0) * n
    e1 = np.zeros(d)
    e1[0] = 1.0
    f1, g1 = out(e1.copy())
    c1, cg1 = fn(e1.copy())
    delta = float((g1 - cg1)[0] - (g0 - cg0)[0])
    return b, delta, (f0 - c0, f1 - c1)


def run(kind, p, x, script):
    """one real `randomise` on a scripted stream.  Returns (out, counts, mech, rng) or None if the script ran out."""
    rng = make_rng(kind, script)
    m = mk_mech(kind, p, rng)
    try:
        if kind == "vec":
            fn = zero_fn(p["d"]) if x == 0 else quad_fn(p["d"])
            o = m.randomise(fn)
            b, delta, _ = vec_extract(o, p["d"], p["n"], fn)
            out = (b, delta)
        else:
            out = m.randomise(x)
    except seams.ScriptExhausted:
        return None
    rng2 = m._rng if kind == "stair" else rng
    return out, rng_counts(rng2), m, rng2


# ------------------------------------------------------------------------------------------------ reference formulas
# (independent of the Lean model: used by the direct checks and by the statistical validation)

def ref_lap4(u1, u2, u3, u4):
    return math.log(1 - u1) * math.cos(math.pi * u2) + math.log(1 - u3) * math.cos(math.pi * u4)


def ref_scale(kind, p):
    """the calibrated scale the noise must be proportional to (closed forms of the calibration, C02)"""
    if kind in ("lap", "trunc", "fold"):
        return p["sens"] / (p["eps"] - math.log(1 - p["delta"]))
    if kind == "bnoise":
        return p["sens"] / p["eps"]
    if kind == "gauss":
        return math.sqrt(2 * math.log(1.25 / p["delta"])) * p["sens"] / p["eps"]
    if kind == "unif":
        return p["sens"] / p["delta"] / 2
    if kind == "stair":
        return p["sens"]
    raise KeyError(kind)


def ref_truncate(lo, hi, v):
    return min(max(v, lo), hi)


def ref_fold(lo, hi, v):
    """reflection into [lo, hi] (triangle wave), computed independently of the implementation's loop"""
    if lo == hi:
        return lo
    w = hi - lo
    y = math.fmod(v - lo, 2 * w)
    if y < 0:
        y += 2 * w
    if y > w:
        y = 2 * w - y
    return lo + y


def batches(us):
    """the standard-Laplace candidates in the order the batch-doubling loop looks at them, with the number of
    uniforms consumed once each candidate's batch has been drawn"""
    out = []
    s, pos = 1, 0
    while pos + 4 * s <= len(us):
        b = us[pos:pos + 4 * s]
        for i in range(s):
            out.append((ref_lap4(b[i], b[s + i], b[2 * s + i], b[3 * s + i]), pos + 4 * s))
        pos += 4 * s
        s = min(100000, 2 * s)
    return out


def laplace_cdf(t):
    t = np.asarray(t, dtype=float)
    return np.where(t < 0, 0.5 * np.exp(np.minimum(t, 0)), 1 - 0.5 * np.exp(-np.maximum(t, 0)))


def normal_cdf(t):
    from scipy.special import ndtr
    return ndtr(np.asarray(t, dtype=float))


def staircase_cdf(t, eps, gamma):
    """CDF of the staircase law with sensitivity 1 (Geng–Viswanath density)"""
    t = np.asarray(t, dtype=float)
    r = np.abs(t)
    k = np.floor(r)
    f = r - k
    b = math.exp(-eps)
    p0 = gamma / (gamma + (1 - gamma) * b)
    head = 1 - b ** k
    step = (1 - b) * b ** k
    with np.errstate(divide="ignore", invalid="ignore"):
        inner = np.where(f < gamma, p0 * (f / gamma) if gamma > 0 else 0.0,
                         p0 + (1 - p0) * ((f - gamma) / (1 - gamma) if gamma < 1 else 0.0))
    g = head + step * inner
    return np.where(t < 0, 0.5 - 0.5 * g, 0.5 + 0.5 * g)


def discrete_gauss_cdf(sigma):
    kmax = int(12 * sigma + 20)
    ks = np.arange(-kmax, kmax + 1)
    pmf = np.exp(-ks.astype(float) ** 2 / 2 / sigma ** 2)
    pmf /= pmf.sum()
    cum = np.cumsum(pmf)

    def cdf(t):
        idx = np.floor(np.asarray(t, dtype=float)).astype(np.int64) + kmax
        return np.where(idx < 0, 0.0, cum[np.clip(idx, 0, len(cum) - 1)])
    return cdf


# ------------------------------------------------------------------------------------------------ statistics

ALPHA = 1e-14     # per test; a run performs < 100 tests, so the per-run false-alarm probability is < 1e-12


def dkw_threshold(n, alpha=ALPHA):
    """Dvoretzky–Kiefer–Wolfowitz (Massart's constant): P(sup|F_n − F| > t) ≤ 2 exp(−2 n t²) for EVERY law F
    (continuous or not), so t = sqrt(ln(2/alpha) / (2n)) has false-alarm probability ≤ alpha."""
    return math.sqrt(math.log(2.0 / alpha) / (2.0 * n))


def sup_distance(sample, cdf, discrete=False):
    """sup_x |F_n(x) − F(x)| (exact for continuous F; for a discrete F also the left limits at the sample's atoms,
    evaluated 1e-9 (relative and absolute) below each atom — the discrete reference laws used here have atoms at
    least 2^-20 apart)"""
    x = np.sort(np.asarray(sample, dtype=float))
    n = len(x)
    if not discrete:
        F = cdf(x)
        i = np.arange(1, n + 1)
        return float(max(np.max(i / n - F), np.max(F - (i - 1) / n)))
    atoms, counts = np.unique(x, return_counts=True)
    Fn = np.cumsum(counts) / n
    Fn_left = Fn - counts / n
    F = cdf(atoms)
    F_left = cdf(atoms - np.maximum(np.abs(atoms) * 1e-9, 1e-9))
    return float(max(np.max(np.abs(Fn - F)), np.max(np.abs(Fn_left - F_left))))


def bingham_inverted_cdf(kappa):
    """CDF (in the doubled angle) of the law a Kent–Ganeiber–Mardia sampler produces when its acceptance ratio DIVIDES by
    the angular-central-Gaussian factor instead of multiplying: density ∝ exp(-u'Au) (u'Omega u)^(-q), q = 2"""
    lo, hi = 1.0, 2.0
    for _ in range(200):
        mid = (lo + hi) / 2
        if 1 / mid + 1 / (mid + 2 * kappa) <= 1:
            hi = mid
        else:
            lo = mid
    b = (lo + hi) / 2
    grid = np.linspace(-math.pi, math.pi, 8001)
    xax = kappa * np.sin(grid / 2) ** 2
    dens = np.exp(-xax) * (1 + 2 * xax / b) ** (-2)
    cum = np.concatenate([[0.0], np.cumsum((dens[1:] + dens[:-1]) / 2 * np.diff(grid))])
    cum /= cum[-1]
    return lambda t: np.interp(t, grid, cum)


def stat_cases(r):
    """the statistical tests of a run: (name, params); parameters drawn from the seed"""
    cases = []
    e = r.loguniform(0.2, 5.0)
    cases.append(("lap", {"eps": e, "delta": r.choice([0.0, r.uniform(0.01, 0.3)]), "sens": r.loguniform(0.1, 10)}))
    lo = r.uniform(-3, 3)
    cases.append(("bdom", {"eps": r.loguniform(0.3, 3.0), "delta": 0.0, "sens": 1.0, "lo": lo,
                           "hi": lo + r.uniform(1.0, 4.0)}))
    cases.append(("bnoise", {"eps": r.loguniform(0.3, 3.0), "delta": r.uniform(0.02, 0.4), "sens": r.loguniform(0.1, 10)}))
    cases.append(("gauss", {"eps": r.uniform(0.1, 1.0), "delta": r.loguniform(1e-6, 0.1), "sens": r.loguniform(0.1, 10)}))
    cases.append(("gaussA", {"eps": r.loguniform(0.1, 8.0), "delta": r.loguniform(1e-6, 0.1), "sens": r.loguniform(0.1, 10)}))
    cases.append(("dgauss", {"eps": r.loguniform(0.2, 3.0), "delta": r.loguniform(1e-5, 0.1), "sens": r.choice([1, 1, 2, 3])}))
    cases.append(("stair", {"eps": r.loguniform(0.3, 4.0), "gamma": r.choice([None, r.uniform(0.05, 0.95)]),
                            "sens": r.loguniform(0.1, 10)}))
    cases.append(("unif", {"delta": r.uniform(0.01, 0.5), "sens": r.loguniform(0.1, 10)}))
    d = r.randint(1, 6)
    cases.append(("vec", {"eps": r.loguniform(0.3, 5.0), "fs": 0.0, "ds": r.loguniform(0.3, 3), "d": d,
                          "alpha": 1.0, "n": 1}))
    cases.append(("vec", {"eps": r.loguniform(0.3, 5.0), "fs": 0.0, "ds": 1.0, "d": 2, "alpha": 1.0, "n": 1}))
    cases.append(("vec", {"eps": r.loguniform(0.3, 5.0), "fs": 0.0, "ds": 1.0, "d": r.randint(2, 5), "alpha": 1.0, "n": 1, "rs": True}))
    cases.append(("gauss", {"eps": r.uniform(0.1, 1.0), "delta": r.loguniform(1e-6, 0.1), "sens": 1.0, "rs": True}))
    lo2 = r.uniform(-3, 3)
    cases.append(("bdom", {"eps": r.loguniform(0.3, 3.0), "delta": 0.0, "sens": 1.0, "lo": lo2, "hi": lo2 + r.uniform(1.0, 4.0), "rs": True}))
    cases.append(("bnoise", {"eps": r.loguniform(0.3, 3.0), "delta": r.uniform(0.02, 0.4), "sens": 1.0, "rs": True}))
    cases.append(("gaussA", {"eps": r.loguniform(0.1, 8.0), "delta": r.loguniform(1e-6, 0.1), "sens": 1.0, "rs": True}))
    cases.append(("snap", {"eps": r.loguniform(0.3, 4.0), "sens": 1.0, "lo": -40.0, "hi": 40.0, "rs": True}))
    cases.append(("snapu", {"rs": True}))
    cases.append(("snapu", {}))
    cases.append(("snap", {"eps": r.loguniform(0.3, 4.0), "sens": 1.0, "lo": -40.0, "hi": 40.0}))
    cases.append(("bingham", {"eps": r.loguniform(0.5, 6.0), "sens": 1.0, "l1": r.uniform(1.0, 3.0),
                              "l2": r.uniform(0.0, 1.0), "theta": r.uniform(0, math.pi)}))
    return cases


def stat_test(name, p, seed, n):
    """draw n values from the REAL sampler (driven by a seeded fast stream) and compare with the reference law.
    Returns a list of (label, statistic, threshold, n)."""
    res = []
    thr = dkw_threshold(n)
    if name == "bingham":
        n = max(2000, n // 5)
        thr = dkw_threshold(n)
        from scipy.stats import vonmises
        c, s = math.cos(p["theta"]), math.sin(p["theta"])
        R = np.array([[c, -s], [s, c]])
        A = R @ np.diag([p["l1"], p["l2"]]) @ R.T
        A = (A + A.T) / 2
        m = M.Bingham(epsilon=p["eps"], sensitivity=p["sens"], random_state=np.random.RandomState(seed % (2 ** 32)))
        ang = np.empty(n)
        for i in range(n):
            v = m.randomise(A)
            ang[i] = math.atan2(v[1], v[0])
        # density of the angle phi from the top eigenvector ∝ exp(kappa cos^2 phi) = exp(kappa/2 cos 2phi) · const
        kappa = p["eps"] * (p["l1"] - p["l2"]) / (4 * p["sens"])
        two_phi = np.mod(2 * (ang - p["theta"]) + math.pi, 2 * math.pi) - math.pi
        d_ref = sup_distance(two_phi, lambda t: vonmises.cdf(t, kappa / 2))
        suffix = "law"
        if not d_ref <= thr and sup_distance(two_phi, bingham_inverted_cdf(kappa)) <= thr:
            suffix = "law:acceptance-inverted"    # the sample follows exp(-u'Au)(u'Omega u)^(-q): ratio inverted
        res.append(("bingham-2d:doubled-angle~vonMises", d_ref, thr, n, suffix))
        # antipodal symmetry: the sign of the released vector is a fair coin
        k = int(np.sum(ang >= 0))
        res.append(("bingham-2d:antipodal", abs(k / n - 0.5), thr, n))
        return res
    if name == "stair" or p.get("rs"):
        rng = np.random.RandomState(seed % (2 ** 32))     # seeded path: numpy's own standard_normal / gamma / geometric
    else:
        rng = FastRandom(seed)
    if name == "snapu":
        m = mk_mech("snap", {"eps": 1.0, "sens": 1.0, "lo": 0.0, "hi": 1.0}, rng)
        xs = np.array([float(m._uniform_sampler()) for _ in range(n)])
        res.append(("snapping-uniform~U(0,1)", sup_distance(xs, lambda t: np.clip(t, 0, 1)), thr, n))
        return res
    m = mk_mech(name, p, rng)
    if name == "vec":
        d = p["d"]
        fn = zero_fn(d)
        z = np.zeros(d)
        B = np.empty((n, d))
        for i in range(n):
            B[i] = m.randomise(fn)(z)[1]
        from scipy.special import gammainc, betainc
        norms = np.linalg.norm(B, axis=1)
        scale = 2 * p["ds"] / p["eps"]
        res.append((f"vector:norm/scale~Gamma({d},1)", sup_distance(norms / scale, lambda t: gammainc(d, np.maximum(t, 0))), thr, n))
        U = B / norms[:, None]
        if d == 1:
            res.append(("vector:direction d=1 fair sign", abs(float(np.mean(U[:, 0] > 0)) - 0.5), thr, n))
        else:
            a = (d - 1) / 2.0
            for j in range(d):
                res.append((f"vector:direction coord {j}~Beta", sup_distance((U[:, j] + 1) / 2,
                                                                            lambda t: betainc(a, a, np.clip(t, 0, 1))), thr, n))
        if d == 2:
            ang = np.arctan2(U[:, 1], U[:, 0])
            res.append(("vector:direction angle~U(-pi,pi)", sup_distance(ang, lambda t: (t + math.pi) / (2 * math.pi)), thr, n))
        return res
    xs_cycle = {"dgauss": [0, 7, -3], "bdom": [p.get("lo", 0) + 0.3 * (p.get("hi", 1) - p.get("lo", 0))],
                "snap": [0.3]}.get(name, [0.0, 1.5, -20.25])
    out = np.empty(n)
    k = len(xs_cycle)
    for i in range(n):
        x = xs_cycle[i % k]
        out[i] = m.randomise(x) - x
    if name == "lap":
        res.append(("laplace:noise/scale~Laplace(0,1)", sup_distance(out / ref_scale("lap", p), laplace_cdf), thr, n))
    elif name == "gauss":
        res.append(("gaussian:noise/scale~N(0,1)", sup_distance(out / ref_scale("gauss", p), normal_cdf), thr, n))
    elif name == "gaussA":
        res.append(("gaussian-analytic:noise/_scale~N(0,1)", sup_distance(out / m._scale, normal_cdf), thr, n))
    elif name == "unif":
        res.append(("uniform:noise/scale~U(-1,1)", sup_distance(out / ref_scale("unif", p), lambda t: np.clip((t + 1) / 2, 0, 1)), thr, n))
    elif name == "stair":
        g = m.gamma
        res.append(("staircase:noise/sens~staircase(eps,gamma)", sup_distance(out / p["sens"], lambda t: staircase_cdf(t, p["eps"], g)), thr, n))
    elif name == "dgauss":
        res.append(("discrete-gaussian:noise~N_Z(0,_scale^2)", sup_distance(out, discrete_gauss_cdf(float(m._scale)), discrete=True), thr, n))
    elif name == "bnoise":
        sc = ref_scale("bnoise", p)
        B = math.log(1 + (math.exp(p["eps"]) - 1) / 2 / p["delta"])       # bound in units of the scale
        lo_, hi_ = laplace_cdf(-B), laplace_cdf(B)
        res.append(("bounded-noise:noise/scale~Laplace | |.|<=B", sup_distance(
            out / sc, lambda t: np.clip((laplace_cdf(np.clip(t, -B, B)) - lo_) / (hi_ - lo_), 0, 1)), thr, n))
    elif name == "bdom":
        x = xs_cycle[0]
        sc = float(m._scale)
        a, b = (p["lo"] - x) / sc, (p["hi"] - x) / sc
        lo_, hi_ = laplace_cdf(a), laplace_cdf(b)
        res.append(("bounded-domain:(out-x)/_scale~Laplace | domain", sup_distance(
            out / sc, lambda t: np.clip((laplace_cdf(np.clip(t, a, b)) - lo_) / (hi_ - lo_), 0, 1)), thr, n))
    elif name == "snap":
        x = xs_cycle[0]
        bound = (p["hi"] - p["lo"]) / 2 / p["sens"]
        eeff = float(m.effective_epsilon())
        sc = 1.0 / eeff
        lam = 2.0 ** math.ceil(math.log2(sc))
        xc = x / p["sens"] - bound - p["lo"] / p["sens"]

        # out = released − x; grid points in the centred frame are released − (lo + bound·sens)
        centred = out + x - (p["lo"] + bound * p["sens"])

        def cdf_c(t):
            t = np.asarray(t, dtype=float)
            k = np.floor(t / lam)
            g = k * lam
            val = laplace_cdf((g + lam / 2 - xc) / sc)
            val = np.where(g >= bound, 1.0, val)
            val = np.where(g < -bound, 0.0, val)
            return val
        res.append(("snapping:released grid point~round(clamp(x)+Laplace/eps_eff)", sup_distance(centred, cdf_c, discrete=True), thr, n))
    return res


def run_stats(ctx):
    r = ctx.fork("stats")
    n = ctx.budget(20000, 1000000)
    n = min(n, 1000000)
    for idx, (name, p) in enumerate(stat_cases(r)):
        seed = r.next()
        for rec in stat_test(name, p, seed, n):
            label, stat, thr, nn = rec[:4]
            suffix = rec[4] if len(rec) > 4 else "law"
            ctx.case(("stat", label, idx))
            ctx.count("stat_tests")
            ctx.note(f"stat {label}: n={nn} sup-distance={stat:.5f} threshold={thr:.5f}")
            if not stat <= thr:
                ctx.violation(f"C03:{name}:{suffix}",
                              f"{label}: sup-distance {stat:.5f} > DKW threshold {thr:.5f} at n={nn} "
                              f"(false-alarm probability <= {ALPHA:g}) with parameters {p}",
                              {"check": "stat", "name": name, "params": p, "seed": seed, "n": n, "label": label,
                               "statistic": stat, "threshold": thr})
            else:
                ctx.trace_ok()


# ------------------------------------------------------------------------------------------------ case generation

def gen_x(r):
    m = r.u01()
    if m < 0.25:
        return 0.0
    if m < 0.6:
        return r.uniform(-10, 10)
    if m < 0.8:
        return float(r.randint(-1000, 1000))
    return r.choice([-1, 1]) * r.loguniform(1e-3, 1e6)


def gen_u(r):
    m = r.u01()
    if m < 0.9:
        return r.u01()
    if m < 0.94:
        return 0.0
    if m < 0.97:
        return r.loguniform(1e-12, 1e-3)
    return 1 - r.loguniform(1e-12, 1e-3)


def gen_case(kind, r):
    p = {}
    sens = r.choice([1.0, 1.0, r.loguniform(1e-3, 1e3), r.loguniform(0.1, 10)])
    xs = [gen_x(r) for _ in range(3)]
    if r.chance(0.5):
        xs[0] = 0.0
    script = {}
    if kind in ("lap", "trunc", "fold"):
        delta = r.choice([0.0, 0.0, r.loguniform(1e-9, 1e-2), r.uniform(0.01, 0.6)])
        eps = r.epsilon(1e-3, 20.0)
        if delta > 0 and r.chance(0.05):
            eps = 0.0
        if r.chance(0.03):
            sens = 0.0
        p = {"eps": eps, "delta": delta, "sens": sens}
        script["u"] = [gen_u(r) for _ in range(4)]
        if kind != "lap":
            lo = r.choice([0.0, r.uniform(-10, 10), float(r.randint(-5, 5))])
            w = r.choice([1.0, r.loguniform(1e-2, 1e2), 0.0 if r.chance(0.2) else 2.0])
            p["lo"], p["hi"] = lo, lo + w
            sc = ref_scale("lap", p)
            xs = [lo + w * r.uniform(-0.5, 1.5), lo + w * r.u01(), lo + r.choice([-1, 1]) * sc * r.uniform(0, 8)]
    elif kind == "bdom":
        lo = r.choice([0.0, r.uniform(-10, 10)])
        w = r.choice([1.0, r.loguniform(1e-1, 1e2)])
        eps = r.loguniform(0.05, 5.0)
        sens = w * r.choice([1.0, r.uniform(0.05, 1.0), r.uniform(0.3, 1.0), r.uniform(1.0, 3.0)])   # HEAD caps at the diameter
        p = {"eps": eps, "delta": r.choice([0.0, 0.0, r.loguniform(1e-6, 0.2)]), "sens": sens, "lo": lo, "hi": lo + w}
        xs = [lo + w * r.u01(), lo + w * r.choice([0.0, 1.0, r.uniform(-0.5, 1.5)]), lo + w * r.u01()]
        script["u"] = [gen_u(r) for _ in range(4 * (127 if r.chance(0.1) else 31))]
    elif kind == "bnoise":
        p = {"eps": r.loguniform(0.05, 5.0), "delta": r.choice([r.loguniform(1e-6, 0.1), r.uniform(0.1, 0.49)]), "sens": sens}
        script["u"] = [gen_u(r) for _ in range(4 * (127 if r.chance(0.1) else 31))]
    elif kind == "gauss":
        p = {"eps": r.choice([1.0, r.loguniform(1e-3, 1.0)]), "delta": r.choice([r.loguniform(1e-9, 1e-2), r.uniform(0.01, 0.9)]),
             "sens": sens}
        script["normals"] = [r.normal(), r.normal()]
        script["rs"] = r.chance(0.4)
    elif kind == "gaussA":
        p = {"eps": r.loguniform(1e-2, 10.0), "delta": r.choice([r.loguniform(1e-9, 1e-2), r.uniform(0.01, 0.9)]), "sens": sens}
        script["normals"] = [r.normal(), r.normal()]
        script["rs"] = r.chance(0.4)
    elif kind == "dgauss":
        p = {"eps": r.loguniform(0.05, 5.0), "delta": r.loguniform(1e-8, 0.3), "sens": r.choice([1, 1, 2, 3, 5])}
        xs = [0, r.randint(-1000, 1000), r.randint(-10, 10)]
        script["u"] = [r.u01() for _ in range(400)]
    elif kind == "stair":
        # gamma: default (None), interior, and the documented end points of [0, 1] — as int and as float (0 and 0.0 are
        # falsy, 1 and 1.0 are not) — and values next to the end points
        tiny = r.choice([5e-324, 2.0 ** -1022, 1e-300, 2.0 ** -53, 1e-12, 1e-6])
        p = {"eps": r.loguniform(0.05, 10.0),
             "gamma": r.choice([None, None, r.u01(), r.u01(), 0.5, 0.0, 0, 1.0, 1, tiny, 1 - r.choice([2.0 ** -53, 1e-12, 1e-6])]),
             "sens": sens}
        g = 1
        while r.chance(0.5) and g < 12:
            g += 1
        script["u"] = [r.u01(), r.u01(), r.u01()]
        script["geom"] = [g]
    elif kind == "unif":
        p = {"delta": r.choice([0.5, r.loguniform(1e-6, 0.5), r.uniform(0.01, 0.5)]), "sens": sens}
        script["u"] = [gen_u(r)]
    elif kind == "vec":
        d = r.randint(1, 6)
        p = {"eps": r.loguniform(1e-2, 20.0), "fs": r.choice([0.0, 0.25, 0.25, r.loguniform(1e-2, 2)]),
             "ds": r.choice([1.0, r.loguniform(0.1, 10)]), "d": d, "alpha": r.choice([1.0, r.loguniform(1e-2, 1e2)]),
             "n": r.choice([1, 1, 10, 137])}
        xs = [0, 1, 0]       # 0: the zero function, 1: a quadratic with gradient (the "input" of Vector is a function)
        script["normals"] = [r.normal() for _ in range(4 * d)]
        a = d / 4.0
        script["gammas"] = [max(1e-300, -math.log(1 - r.u01()) * a * r.uniform(0.2, 2.0)) for _ in range(4)]
        script["rs"] = r.chance(0.4)
    elif kind == "snap":
        lo = r.choice([0.0, r.uniform(-10, 10)])
        w = r.choice([1.0, r.loguniform(1e-1, 1e3)])
        if r.chance(0.05):
            sens = 0.0
        else:
            sens = r.choice([1.0, r.loguniform(0.1, 10)])
        p = {"eps": r.loguniform(1e-2, 50.0), "sens": sens, "lo": lo, "hi": lo + w}
        xs = [lo + w * r.u01(), lo + w * r.uniform(-0.3, 1.3), lo + w / 2]
        words = []
        while r.chance(0.15) and len(words) < 3:
            words.append(0)
        words.append(r.choice([1, r.randint(1, 2 ** 32 - 1), r.randint(1, 2 ** 32 - 1), r.randint(1, 255)]))
        script["bits"] = [r.randint(0, 1), r.randint(0, 2 ** 52 - 1)] + words
    if kind in ("lap", "trunc", "fold", "bdom", "bnoise", "dgauss", "unif", "snap"):
        # numpy back-end (random_state an int / RandomState): rng.random(size), rng.randint instead of getrandbits
        script["rs"] = r.chance(0.4)
    return {"kind": kind, "params": p, "xs": xs, "script": script}


# ------------------------------------------------------------------------------------------------ driver lines

def F(x):
    return str(f2b(x))


def case_lines(case, info):
    """driver lines of one case; `info` = per-x implementation results (for scales that are read from the object)"""
    kind, p, xs, sc = case["kind"], case["params"], case["xs"], case["script"]
    L = []
    if kind == "lap":
        for x in xs:
            L.append("lap " + " ".join(F(v) for v in [p["eps"], p["delta"], p["sens"], x] + sc["u"]))
    elif kind in ("trunc", "fold"):
        for x in xs:
            L.append(kind + " " + " ".join(F(v) for v in [p["eps"], p["delta"], p["sens"], p["lo"], p["hi"], x] + sc["u"]))
    elif kind == "bdom":
        for x in xs:
            L.append("bdom " + " ".join(F(v) for v in [info["scale"], p["lo"], p["hi"], x] + sc["u"]))
    elif kind == "bnoise":
        for x in xs:
            L.append("bnoise " + " ".join(F(v) for v in [p["eps"], p["delta"], p["sens"], x] + sc["u"]))
    elif kind == "gauss":
        L.append("gscale " + " ".join(F(v) for v in [p["eps"], p["delta"], p["sens"]]))
        for x in xs:
            L.append("gauss " + " ".join(F(v) for v in [info["scale"], x] + sc["normals"]))
    elif kind == "gaussA":
        for x in xs:
            L.append("gauss " + " ".join(F(v) for v in [info["scale"], x] + sc["normals"]))
    elif kind == "dgauss":
        for x in xs:
            L.append(f"dgauss {F(info['scale'])} {int(x)} " + " ".join(F(v) for v in sc["u"]))
    elif kind == "stair":
        L.append("stairgamma " + F(p["eps"]))
        for x in xs:
            u = sc["u"]
            L.append(f"stair {F(p['eps'])} {F(info['gamma'])} {F(p['sens'])} {F(x)} {F(u[0])} {sc['geom'][0] - 1} {F(u[1])} {F(u[2])}")
    elif kind == "unif":
        for x in xs:
            L.append("unif " + " ".join(F(v) for v in [p["delta"], p["sens"], x] + sc["u"]))
    elif kind == "vec":
        L.append(f"calib {F(p['eps'])} {F(p['fs'])} {F(p['ds'])} {F(p['alpha'])} {p['n']}")
        L.append(f"vec {F(info['scale'])} {p['d']} " + " ".join(F(v) for v in sc["normals"] + sc["gammas"]))
    elif kind == "snap":
        b = sc["bits"]
        L.append(f"snapu {b[1]} " + " ".join(str(w) for w in b[2:]))
        for x in xs:
            L.append(f"snap {F(p['eps'])} {F(p['sens'])} {F(p['lo'])} {F(p['hi'])} {F(x)} {b[0]} {b[1]} " + " ".join(str(w) for w in b[2:]))
    return L


def close(a, b, scale, tol=1e-13):
    """|a − b| ≤ tol·scale (scale = magnitude of the operands that went into the value)"""
    if a == b:
        return True
    if a != a or b != b or math.isinf(a) or math.isinf(b):
        return False
    return abs(a - b) <= tol * scale + 5e-324


EXPECTED_DRAWS = {"lap": {"u": 4}, "trunc": {"u": 4}, "fold": {"u": 4}, "gauss": {"normals": 2}, "gaussA": {"normals": 2},
                  "stair": {"u": 3, "geom": 1}, "unif": {"u": 1}}


# ------------------------------------------------------------------------------------------------ one case: impl, S

def eval_case(ctx, case):
    """run the real mechanism on every input of the case; direct (S) checks; returns what the K comparison needs"""
    kind, p, xs, sc = case["kind"], case["params"], case["xs"], case["script"]
    runs = [run(kind, p, x, sc) for x in xs]
    info = {"runs": runs}
    first = next((rr for rr in runs if rr is not None), None)
    if first is None:
        return info
    m = first[2]
    if kind in ("bdom", "gauss", "gaussA", "dgauss"):
        info["scale"] = float(m._scale) if m._scale is not None else float("nan")
    if kind == "stair":
        # the reference is built from the REQUESTED gamma (the stored attribute may have been rewritten by the constructor);
        # only the default (gamma=None) is read back, and that one is compared with the model's stairgamma line
        info["gamma"] = float(m.gamma) if p["gamma"] is None else float(p["gamma"])
        info["stored_gamma"] = float(m.gamma)
    if kind == "vec":
        e = p["eps"] - 2 * math.log(1 + p["fs"] * p["ds"] / p["alpha"])
        info["scale"] = p["ds"] * 2 / (e if e > 0 else p["eps"] / 2)
    direct_checks(ctx, case, info)
    return info


def violation(ctx, case, sig, what, extra=None):
    d = {"check": sig, "case": case}
    if extra:
        d.update(extra)
    ctx.violation(f"C03:{case['kind']}:{sig}", f"{case['kind']} {case['params']}: {what}", d)


def noise_of(kind, out, x):
    if kind == "vec":
        return out[0]
    return out - x


def vector_fixed_check(p, sc, n):
    """Evaluate the function returned by Vector.randomise (value and gradient) at several points, several times each, in
    different orders.  (a) every evaluation at the same point returns bit-identical results; (b) with
    function_sensitivity 0 (Delta = 0) the noise read off EVERY evaluation, b = n·(grad − clean grad) and
    value − clean value = b·w/n, equals the b determined by the stream (direction of the normals, norm scale·Σ gammas).
    Returns a description of the failure or None."""
    d = p["d"]
    fn = quad_fn(d)
    pts = [np.zeros(d), np.array([((-1) ** j) * (0.5 + 0.25 * j) for j in range(d)]),
           np.array([0.3 - 0.7 * ((j * 5) % 3) for j in range(d)])]
    order = [0, 1, 2, 1, 0, 2, 2, 0, 1]
    # (a)
    rng = make_rng("vec", sc)
    try:
        out = mk_mech("vec", dict(p, n=n), rng).randomise(fn)
    except seams.ScriptExhausted:
        return None
    seen = {}
    for k, i in enumerate(order):
        v, g = out(pts[i].copy())
        v, g = float(v), np.array(g, dtype=float)
        if i in seen and not (seen[i][0] == v and np.array_equal(seen[i][1], g)):
            return (f"evaluation #{k} of the released function at w={pts[i].tolist()} returned ({v!r}, {g.tolist()}), an earlier "
                    f"evaluation at the same point returned ({seen[i][0]!r}, {seen[i][1].tolist()})")
        seen.setdefault(i, (v, g))
    # (b)
    rng = make_rng("vec", sc)
    out = mk_mech("vec", dict(p, n=n, fs=0.0), rng).randomise(fn)
    nm = sc["normals"]
    dirv = np.array([(nm[4 * i] + nm[4 * i + 1] + nm[4 * i + 2] + nm[4 * i + 3]) / 2 for i in range(d)])
    ref_b = dirv / math.sqrt(float(np.dot(dirv, dirv))) * (2 * p["ds"] / p["eps"] * sum(sc["gammas"][:4]))
    mag = float(np.max(np.abs(ref_b)))
    for k, i in enumerate(order):
        w = pts[i]
        v, g = out(w.copy())
        cv, cg = fn(w.copy())
        b_k = (np.asarray(g, dtype=float) - cg) * n
        tol = 1e-11 * mag + n * 1e-13
        if not np.all(np.abs(b_k - ref_b) <= tol):
            return (f"evaluation #{k} (w={w.tolist()}): noise read off the gradient n·(grad − clean) = {b_k.tolist()}, the "
                    f"stream-determined b = {ref_b.tolist()}")
        want = float(np.dot(ref_b, w)) / n
        if not abs((float(v) - cv) - want) <= 1e-11 * (abs(want) + mag) + 1e-13 * (abs(cv) + 1):
            return (f"evaluation #{k} (w={w.tolist()}): value − clean value = {float(v) - cv!r}, expected b·w/n = {want!r}")
    return None


def ref_staircase_noise(eps, gamma, sens, u1, g, u2, u3):
    """reference staircase draw (Geng–Viswanath): sign, geometric index g >= 0, position u2 inside the step, u3 selects the
    first (width gamma) or second (width 1 - gamma) part of the step.  Returns (noise, threshold of the selection draw)"""
    sign = -1.0 if u1 < 0.5 else 1.0
    b = math.exp(-eps)
    den = gamma + (1 - gamma) * b
    thr = gamma / den if den > 0 else float("nan")
    mag = (g + gamma * u2) if u3 < thr else (g + gamma + (1 - gamma) * u2)
    return sign * mag * sens, thr


def staircase_requested_gamma(p, ok, sc):
    """None, or a description of how a release deviates from the staircase draw for the requested gamma on its stream"""
    gam = float(p["gamma"])
    u1, u2, u3 = sc["u"][0], sc["u"][1], sc["u"][2]
    g = sc["geom"][0] - 1
    want, thr = ref_staircase_noise(p["eps"], gam, p["sens"], u1, g, u2, u3)
    if thr != thr or abs(u3 - thr) <= 1e-13 or abs(u1 - 0.5) <= 1e-15:
        return None         # on a break-point of the sampler (exp rounding): not informative
    for x, rr in ok:
        n = noise_of("stair", rr[0], x)
        tol = 1e-12 * p["sens"] * (g + 1) + 8 * EPS * max(abs(x), abs(n))
        if not abs(n - want) <= tol:
            return (f"Staircase(epsilon={p['eps']!r}, sensitivity={p['sens']!r}, gamma={p['gamma']!r}).randomise({x!r}) on the "
                    f"stream (sign draw {u1!r}, geometric {g + 1}, position {u2!r}, part draw {u3!r}) adds noise {n!r}; the staircase "
                    f"draw for the requested gamma={p['gamma']!r} on that stream is {want!r} (part threshold {thr!r}); the object "
                    f"stores gamma={float(rr[2].gamma)!r}")
    return None


def direct_checks(ctx, case, info):
    kind, p, xs, sc = case["kind"], case["params"], case["xs"], case["script"]
    runs = info["runs"]
    ok = [(x, rr) for x, rr in zip(xs, runs) if rr is not None]
    # --- 1. the noise does not depend on the input
    if kind in ("lap", "bnoise", "gauss", "gaussA", "dgauss", "stair", "unif", "vec"):
        for i in range(len(ok)):
            for j in range(i + 1, len(ok)):
                (x1, r1), (x2, r2) = ok[i], ok[j]
                n1, n2 = noise_of(kind, r1[0], x1), noise_of(kind, r2[0], x2)
                if kind == "vec":
                    mag = max(1e-300, float(np.max(np.abs(n1))), float(np.max(np.abs(n2))))
                    dmag = abs(r1[0][1]) + mag / p["n"] + 2.0      # Delta is read off gradient differences
                    bad = not (np.all(np.abs(n1 - n2) <= 64 * EPS * mag) and close(r1[0][1], r2[0][1], dmag, 1e-13))
                elif kind == "dgauss":
                    bad = n1 != n2
                else:
                    mag = max(abs(x1), abs(x2), abs(n1), abs(n2))
                    bad = not abs(n1 - n2) <= 8 * EPS * mag
                if bad:
                    violation(ctx, case, "input-dependent-noise",
                              f"randomise(x;u) − x differs across inputs for the same stream: x={x1!r} gives noise {n1!r}, "
                              f"x={x2!r} gives noise {n2!r} (tolerance 8 ulp of max(|x|,|noise|))")
                    return
    # --- 2. the noise is proportional to the calibrated scale
    if kind in ("lap", "gauss", "unif", "bnoise", "stair", "gaussA", "vec") and ok:
        x0, r0 = ok[0]
        n0 = noise_of(kind, r0[0], x0)
        k = 3.7
        p2 = dict(p)
        if kind == "vec":
            p2["ds"] = p["ds"] * k
            p2["fs"] = 0.0
            p0 = dict(p, fs=0.0)
            ra = run(kind, p0, 0, sc)
            rb = run(kind, p2, 0, sc)
            if ra and rb:
                na, nb = ra[0][0], rb[0][0]
                mag = max(1e-300, float(np.max(np.abs(nb))))
                if not np.all(np.abs(nb - k * na) <= 256 * EPS * mag):
                    violation(ctx, case, "nonlinear-scale", f"noise vector at data_sensitivity·{k} is {nb!r}, expected {k}× {na!r}")
                    return
                # |b| = scale · Σ unit gammas with scale = 2 s / eps (function_sensitivity 0)
                want = 2 * p["ds"] / p["eps"] * sum(sc["gammas"])
                if not close(float(np.linalg.norm(na)), want, abs(want), 1e-11):
                    violation(ctx, case, "nonlinear-scale", f"|b| = {float(np.linalg.norm(na))!r}, calibrated scale × Σ unit gammas = {want!r}")
                    return
        else:
            p2["sens"] = p["sens"] * k
            rb = run(kind, p2, 0.0, sc)
            ra = run(kind, p, 0.0, sc)
            if ra and rb:
                na, nb = ra[0], rb[0]
                if not abs(nb - k * na) <= 64 * EPS * abs(k * na):
                    violation(ctx, case, "nonlinear-scale",
                              f"noise at sensitivity·{k} is {nb!r}, expected {k} × {na!r} (same stream)")
                    return
            if kind in ("lap", "gauss", "unif") and ra:
                # across (epsilon, delta, sensitivity): noise / calibrated scale is a function of the stream only
                p3 = dict(p)
                if kind == "unif":
                    p3["delta"] = min(0.5, p["delta"] * 1.9 + 1e-3)
                else:
                    p3["eps"] = min(1.0, p["eps"] * 0.37 + 1e-3) if kind == "gauss" else p["eps"] * 2.3 + 0.01
                    p3["delta"] = min(0.8, p["delta"] * 1.7 + 1e-4)
                p3["sens"] = p["sens"] * 0.77 + 0.1
                rc = run(kind, p3, 0.0, sc)
                s1, s3 = ref_scale(kind, p), ref_scale(kind, p3)
                if rc and s1 > 0 and s3 > 0 and math.isfinite(s1) and math.isfinite(s3):
                    ua, uc = ra[0] / s1, rc[0] / s3
                    if not abs(ua - uc) <= 256 * EPS * max(abs(ua), abs(uc)):
                        violation(ctx, case, "nonlinear-scale",
                                  f"noise/scale differs across parameter settings for the same stream: {ua!r} at {p} "
                                  f"vs {uc!r} at {p3} (scale = calibrated closed form)")
                        return
    # --- 2a. Staircase: the unit noise is the staircase draw for the gamma THE CALLER ASKED FOR (every gamma of [0, 1], end
    # points included), computed here from the same stream independently of the object's stored attributes
    if kind == "stair" and p["gamma"] is not None and ok:
        bad = staircase_requested_gamma(p, ok, sc)
        if bad:
            violation(ctx, case, "requested-gamma-not-used", bad)
            return
    # --- 2b. Vector: the noise is fixed at release — the returned function is the same function on every evaluation
    if kind == "vec":
        for n_ in (1, 7, 50):
            bad = vector_fixed_check(p, sc, n_)
            if bad:
                violation(ctx, case, "noise-not-fixed-at-release", f"with n={n_}: {bad}", {"n": n_})
                return
    # --- 2c. Snapping: the release is proportional to the sensitivity (compare on the sensitivity-1 frame, same random bits)
    if kind == "snap" and p["sens"] != 0:
        lo1, hi1, x1 = p["lo"], p["hi"], xs[0]
        unit = run("snap", {"eps": p["eps"], "sens": 1.0, "lo": lo1, "hi": hi1}, x1, sc)
        if unit is not None:
            r1 = float(unit[0])
            lam = float(unit[2]._get_nearest_power_of_2(1.0 / unit[2].effective_epsilon()))
            for s_ in (0.25, 4.0, 2.0 ** -10, 2.0 ** 10, 1e-3, 1e3):
                ps = {"eps": p["eps"], "sens": s_, "lo": lo1 * s_, "hi": hi1 * s_}
                rs_ = run("snap", ps, x1 * s_, sc)
                if rs_ is None:
                    continue
                a, b = (float(rs_[0]) - ps["lo"]) / s_, r1 - lo1
                pow2 = math.frexp(s_)[0] == 0.5
                tol = 0.0 if pow2 else 1e-9 * (1 + abs(a) + abs(lo1) + abs(hi1))
                if abs(a - b) <= tol:
                    continue
                if not pow2 and abs(abs(a - b) - lam) <= 1e-6 * lam:
                    ctx.boundary_skipped += 1          # x·s is rounded: the noisy value may sit on a grid mid-point
                    continue
                violation(ctx, case, "nonlinear-scale",
                          f"Snapping(sensitivity={s_!r}, lower={ps['lo']!r}, upper={ps['hi']!r}).randomise({x1 * s_!r}) releases "
                          f"{float(rs_[0])!r}, i.e. {a!r} above the lower bound in units of the sensitivity; the sensitivity-1 mechanism on "
                          f"[{lo1!r}, {hi1!r}] releases {r1!r}, i.e. {b!r} above its lower bound, on the same random bits (grid {lam!r})")
                return
    # --- 3. truncation / folding = post-processing of the plain mechanism's output for the same stream
    if kind in ("trunc", "fold"):
        for x, rr in ok:
            plain = run("lap", p, x, sc)
            if plain is None:
                continue
            v = plain[0]
            want = ref_truncate(p["lo"], p["hi"], v) if kind == "trunc" else ref_fold(p["lo"], p["hi"], v)
            mag = abs(v) + abs(p["lo"]) + abs(p["hi"])
            if not close(rr[0], want, mag, 1e-13 if kind == "fold" else 0.0):
                violation(ctx, case, "not-postprocessing",
                          f"x={x!r}: released {rr[0]!r}, but {'truncating' if kind == 'trunc' else 'folding'} the plain "
                          f"Laplace output {v!r} (same stream) into [{p['lo']},{p['hi']}] gives {want!r}")
                return
            if not (p["lo"] <= rr[0] <= p["hi"]):
                violation(ctx, case, "out-of-range", f"x={x!r}: released {rr[0]!r} outside [{p['lo']},{p['hi']}]")
                return
    # --- 4. rejection samplers: first in-range draw of the stream
    if kind in ("bdom", "bnoise"):
        cands = batches(sc["u"])
        for x, rr in ok:
            out, cnt = rr[0], rr[1]
            if kind == "bdom":
                scale = info["scale"]
                xc = max(min(x, p["hi"]), p["lo"])
                vals = [xc + scale * l for l, _ in cands]
                lo, hi = p["lo"], p["hi"]
                if lo == hi:
                    continue
            else:
                scale = p["sens"] / p["eps"]
                bnd = 0 if scale == 0 else scale * math.log(1 + (math.exp(p["eps"]) - 1) / 2 / p["delta"])
                vals = [scale * l for l, _ in cands]
                lo, hi = -bnd, bnd
            margin = 1e-12 * (abs(lo) + abs(hi) + scale)
            sure_in = [lo + margin <= v <= hi - margin for v in vals]
            maybe_in = [lo - margin <= v <= hi + margin for v in vals]
            released = out if kind == "bdom" else out - x
            if kind == "bdom" and not (lo <= out <= hi):
                violation(ctx, case, "out-of-range", f"x={x!r}: released {out!r} outside [{lo},{hi}]")
                return
            if kind == "bnoise" and not abs(released) <= hi * (1 + 1e-12) + 8 * EPS * abs(x):
                violation(ctx, case, "out-of-range", f"x={x!r}: noise {released!r} exceeds the noise bound {hi!r}")
                return
            idx = next((i for i, s_ in enumerate(maybe_in) if s_), None)
            if idx is None:
                continue
            if maybe_in[idx] and not sure_in[idx]:
                ctx.boundary_skipped += 1
                continue
            tol = 1e-13 * (abs(vals[idx]) + abs(x) + scale * 50)
            if not abs(released - vals[idx]) <= tol or cnt["u"] != cands[idx][1]:
                violation(ctx, case, "not-first-accepted",
                          f"x={x!r}: released {released!r} after {cnt['u']} uniforms; the first in-range candidate of the "
                          f"stream is #{idx} = {vals[idx]!r} (after {cands[idx][1]} uniforms)")
                return


# ------------------------------------------------------------------------------------------------ K comparison

def compare_case(ctx, case, info, outs):
    """model output lines vs implementation; False at the first disagreement"""
    kind, p, xs, sc = case["kind"], case["params"], case["xs"], case["script"]
    runs = info["runs"]

    def dis(what, model, impl, x=None):
        ctx.disagree("sampler." + kind, {"params": p, "x": x, "script": {k: (v[:12] if isinstance(v, list) else v) for k, v in sc.items()}}, model, impl, what)
        return False

    def words(line):
        w = line.split()
        return w[0], w[1:]
    pos = 0
    exp_draws = EXPECTED_DRAWS.get(kind)
    if exp_draws:
        for x, rr in zip(xs, runs):
            if rr is None:
                return dis("the implementation asked for more random draws than the model uses", exp_draws, "script exhausted", x)
            got = {k: v for k, v in rr[1].items() if v}
            if got != exp_draws:
                return dis("number of random draws consumed", exp_draws, got, x)
    if kind == "lap":
        for x, rr, line in zip(xs, runs, outs):
            st, w = words(line)
            mo, ms, mu = b2f(int(w[0])), b2f(int(w[1])), b2f(int(w[2]))
            mag = abs(x) + abs(ms) * (abs(math.log(1 - sc["u"][0])) + abs(math.log(1 - sc["u"][2])))
            if not close(mo, rr[0], mag):
                return dis("released value", mo, rr[0], x)
        return True
    if kind in ("trunc", "fold", "unif"):
        for x, rr, line in zip(xs, runs, outs):
            st, w = words(line)
            mo = b2f(int(w[0]))
            if kind == "unif":
                mag = abs(x) + abs(p["sens"] / p["delta"])
            else:
                s_ = ref_scale("lap", p)
                mag = abs(x) + abs(p["lo"]) + abs(p["hi"]) + abs(s_) * (abs(math.log(1 - sc["u"][0])) + abs(math.log(1 - sc["u"][2])))
            if not close(mo, rr[0], mag, 1e-13 if kind != "fold" else 4e-13):
                return dis("released value", mo, rr[0], x)
        return True
    if kind in ("bdom", "bnoise"):
        for x, rr, line in zip(xs, runs, outs):
            st, w = words(line)
            if st == "exhausted" or rr is None:
                if (st == "exhausted") != (rr is None):
                    if rejection_boundary(kind, p, x, sc, info):
                        ctx.boundary_skipped += 1
                        continue
                    return dis("acceptance", line, None if rr is None else rr[0], x)
                continue
            mo, used = b2f(int(w[0])), int(w[1])
            scale = info["scale"] if kind == "bdom" else p["sens"] / p["eps"]
            mag = abs(x) + abs(mo) + abs(scale) * 50
            if used != rr[1]["u"] or not close(mo, rr[0], mag):
                if rejection_boundary(kind, p, x, sc, info):
                    ctx.boundary_skipped += 1
                    continue
                return dis("released value / uniforms consumed", [mo, used], [rr[0], rr[1]["u"]], x)
            if kind == "bnoise":
                mb = b2f(int(w[2]))
                ib = rr[2]._noise_bound
                if not close(mb, float(ib), abs(mb), 1e-12):
                    return dis("noise bound", mb, ib, x)
        return True
    if kind in ("gauss", "gaussA"):
        if kind == "gauss":
            st, w = words(outs[0])
            msc = b2f(int(w[0]))
            if not close(msc, info["scale"], abs(msc), 1e-13):
                return dis("calibrated scale", msc, info["scale"])
            pos = 1
        for x, rr, line in zip(xs, runs, outs[pos:]):
            st, w = words(line)
            mo = b2f(int(w[0]))
            mag = abs(x) + abs(info["scale"]) * (abs(sc["normals"][0]) + abs(sc["normals"][1]))
            if not close(mo, rr[0], mag):
                return dis("released value", mo, rr[0], x)
        return True
    if kind == "dgauss":
        for x, rr, line in zip(xs, runs, outs):
            st, w = words(line)
            if st == "exhausted" or rr is None:
                if (st == "exhausted") != (rr is None):
                    ctx.boundary_skipped += 1       # the last comparison of a truncated script; not informative
                continue
            mo, used = int(w[0]), int(w[1])
            if mo != int(rr[0]) or used != rr[1]["u"]:
                if dgauss_boundary(info["scale"], sc["u"]):
                    ctx.boundary_skipped += 1
                    continue
                return dis("released value / uniforms consumed", [mo, used], [int(rr[0]), rr[1]["u"]], x)
        return True
    if kind == "stair":
        st, w = words(outs[0])
        if p["gamma"] is None and not close(b2f(int(w[0])), info["gamma"], 1.0, 1e-14):
            return dis("default gamma", b2f(int(w[0])), info["gamma"])
        for x, rr, line in zip(xs, runs, outs[1:]):
            st, w = words(line)
            mo, gp, bp = b2f(int(w[0])), b2f(int(w[1])), b2f(int(w[2]))
            logp = [e[1] for e in rr[3].log if e[0] == "geometric"]
            if len(logp) != 1 or not close(gp, logp[0], 1.0, 1e-14):
                return dis("parameter handed to rng.geometric", gp, logp, x)
            if abs(sc["u"][2] - bp) <= 1e-13 or abs(sc["u"][0] - 0.5) <= 1e-15:
                ctx.boundary_skipped += 1
                continue
            mag = abs(x) + abs(p["sens"]) * (sc["geom"][0] + 1)
            if not close(mo, rr[0], mag):
                return dis("released value", mo, rr[0], x)
        return True
    if kind == "vec":
        st, w = words(outs[0])
        me, md, ms = b2f(int(w[0])), b2f(int(w[1])), b2f(int(w[2]))
        rr = next((r_ for r_ in runs if r_ is not None), None)
        if rr is None:
            return dis("the implementation asked for more random draws than the model uses", "4d normals, 4 gammas", "script exhausted")
        if rr[1]["normals"] != 4 * p["d"] or rr[1]["gammas"] != 4:
            return dis("number of random draws consumed", {"normals": 4 * p["d"], "gammas": 4}, rr[1])
        glog = [e for e in rr[3].log if e[0] == "gammavariate"]
        for e in glog:
            if not (e[1] == p["d"] / 4 and close(e[2], ms, abs(ms), 1e-9)):
                return dis("gammavariate(shape, scale) arguments", [p["d"] / 4, ms], list(e[1:]))
        if not close(md, rr[0][1], abs(md) + 1e-5 * (float(np.max(np.abs(rr[0][0]))) / p["n"] + 2.0), 1e-8):
            return dis("quadratic coefficient Delta", md, rr[0][1])
        st, w = words(outs[1])
        mb = np.array([b2f(int(t)) for t in w])
        if not close(info["scale"], ms, abs(ms), 1e-9):
            return dis("scale", ms, info["scale"])
        for x, r_ in zip(xs, runs):
            ib = r_[0][0]
            mag = float(np.max(np.abs(mb))) + 1e-300
            if mb.shape != ib.shape or not np.all(np.abs(mb - ib) <= 1e-11 * mag):
                return dis("noise vector b", mb, ib, x)
        return True
    if kind == "snap":
        st, w = words(outs[0])
        rr0 = next((r_ for r_ in runs if r_ is not None), None)
        if p["sens"] != 0:
            if rr0 is None or st != "ok":
                return dis("uniform sampler", outs[0], None)
            klog = [e[1] for e in rr0[3].log if e[0] == "getrandbits"]
            nwords = int(w[1])
            if klog != [1, 52] + [32] * nwords:
                return dis("random bits requested", [1, 52] + [32] * nwords, klog)
            rng = make_rng("snap", {"bits": sc["bits"][1:], "rs": sc.get("rs")})
            mm = mk_mech("snap", p, rng)
            iu = float(mm._uniform_sampler())
            if b2f(int(w[0])) != iu:
                return dis("uniform sampler value", b2f(int(w[0])), iu)
        for x, rr, line in zip(xs, runs, outs[1:]):
            st, w = words(line)
            mo = b2f(int(w[0]))
            if not close(mo, rr[0], abs(p["lo"]) + abs(p["hi"]) + abs(x), 1e-13):
                if snap_boundary(rr[2], p, x, sc):
                    ctx.boundary_skipped += 1
                    continue
                return dis("released value", mo, rr[0], x)
        return True
    return True


def rejection_boundary(kind, p, x, sc, info):
    cands = batches(sc["u"])
    if kind == "bdom":
        scale = info["scale"]
        xc = max(min(x, p["hi"]), p["lo"])
        vals = [xc + scale * l for l, _ in cands]
        lo, hi = p["lo"], p["hi"]
    else:
        scale = p["sens"] / p["eps"]
        bnd = 0 if scale == 0 else scale * math.log(1 + (math.exp(p["eps"]) - 1) / 2 / p["delta"])
        vals = [scale * l for l, _ in cands]
        lo, hi = -bnd, bnd
    margin = 1e-12 * (abs(lo) + abs(hi) + abs(scale))
    return any(abs(v - lo) <= margin or abs(v - hi) <= margin for v in vals)


def dgauss_boundary(scale, us):
    """does any comparison of the CKS loop sit within rounding of its threshold? (re-run the real sampler with the
    scale moved by a few ulps and see whether the outcome changes)"""
    outs = set()
    for k in (-4, 0, 4):
        rng = seams.ScriptedSystemRandom(uniforms=us)
        m = M.GaussianDiscrete(epsilon=1.0, delta=0.1, sensitivity=1, random_state=rng)
        m._scale = gen.offset_ulps(scale, k)
        try:
            outs.add((int(m.randomise(0)), rng.n_uniform))
        except seams.ScriptExhausted:
            outs.add(None)
    return len(outs) > 1


def snap_boundary(m, p, x, sc):
    """is the noisy value within rounding of a grid mid-point or of the clamp? (model and code differ by one ulp in log)"""
    try:
        rng = make_rng("snap", {"bits": sc["bits"][1:], "rs": sc.get("rs")})
        mm = mk_mech("snap", p, rng)
        u = float(mm._uniform_sampler())
        scale = 1.0 / mm.effective_epsilon()
        lam = mm._get_nearest_power_of_2(scale)
        v = mm._truncate(mm._scale_and_offset_value(x)) + scale * float(mm._laplace_sampler(sc["bits"][0], u))
        rem = v % lam
        return abs(rem - lam / 2) <= 1e-12 * (abs(v) + lam) or abs(abs(v) - mm._bound) <= 1e-12 * (abs(v) + lam)
    except Exception:
        return False


# ------------------------------------------------------------------------------------------------ Bingham acceptance

class BinghamRS(np.random.RandomState):
    """RandomState whose multivariate_normal / random are scripted: one proposal, one acceptance uniform"""

    def __init__(self, rows, u):
        super().__init__(0)
        self.rows = np.array(rows, dtype=float)
        self.u = u
        self.n_mvn = 0
        self.n_uniform = 0

    def multivariate_normal(self, mean, cov, size=None, **k):
        self.n_mvn += 1
        if self.n_mvn > 1:
            raise seams.ScriptExhausted("second proposal requested: the first one was rejected")
        return self.rows.copy()

    def random(self, size=None):
        self.n_uniform += 1
        return self.u


def bingham_accept_threshold(eps, sens, A, rows):
    """sup of the uniforms for which the real sampler accepts the scripted proposal = its acceptance probability"""
    def accepted(u):
        m = M.Bingham(epsilon=eps, sensitivity=sens, random_state=BinghamRS(rows, u))
        try:
            m.randomise(A)
            return True
        except seams.ScriptExhausted:
            return False
    if accepted(1.0):
        return 1.0
    if not accepted(0.0):
        return 0.0
    lo, hi = 0.0, 1.0
    for _ in range(60):
        mid = (lo + hi) / 2
        if accepted(mid):
            lo = mid
        else:
            hi = mid
    return lo


def bingham_reference(eps, sens, A, rows):
    """u'A'u, u'Omega u, b for the scripted proposal (the quantities of Kent–Ganeiber–Mardia), computed here"""
    dims = A.shape[0]
    eig = np.linalg.eigvalsh(A)
    At = eps * (eig.max() * np.eye(dims) - A) / 4 / sens
    te = np.linalg.eigvalsh(At)
    left, right, mid = 1, dims, (1 + dims) / 2
    old = (right - left) * 2
    while right - left < old:
        old = right - left
        mid = (right + left) / 2
        f = np.array([1 / (mid + 2 * e) for e in te]).sum()
        if f <= 1:
            right = mid
        if f >= 1:
            left = mid
    b = mid
    omega = np.eye(dims) + 2 * At / b
    v = np.array(rows, dtype=float).sum(axis=0)
    u = v / np.linalg.norm(v)
    return float(u.dot(At).dot(u)), float(u.dot(omega).dot(u)), float(b)


def gen_bingham_case(r):
    dims = r.choice([2, 2, 3, 4])
    Q = np.array([[r.normal() for _ in range(dims)] for _ in range(dims)])
    A = (Q + Q.T) / 2 * r.loguniform(0.3, 3.0)
    rows = [[r.normal() * 0.5 for _ in range(dims)] for _ in range(4)]
    return {"eps": r.loguniform(0.2, 8.0), "sens": r.loguniform(0.5, 2.0), "A": A.tolist(), "rows": rows}


def run_bingham(ctx):
    """K for the acceptance test of Bingham.randomise: acceptance probability of a scripted proposal (measured by
    bisection on the acceptance uniform) vs the model's coded ratio"""
    r = ctx.fork("bingham-accept")
    n = ctx.budget(40, 400)
    cases = [gen_bingham_case(r) for _ in range(n)]
    lines, meas = [], []
    for c in cases:
        A = np.array(c["A"])
        uau, uou, b = bingham_reference(c["eps"], c["sens"], A, c["rows"])
        meas.append((bingham_accept_threshold(c["eps"], c["sens"], A, c["rows"]), uau, uou, b))
        lines.append(f"bingacc {F(uau)} {F(uou)} {A.shape[0]} {F(b)}")
    outs = leanio.run_driver("Samplers", lines) if lines else []
    for c, (thr, uau, uou, b), line in zip(cases, meas, outs):
        w = line.split()
        coded = b2f(int(w[2]))
        ctx.case(("bingham-accept", round(uou, 6)))
        if abs(min(coded, 1.0) - thr) <= 1e-9 * max(thr, 1e-300) + 1e-15:
            ctx.trace_ok()
        else:
            ctx.disagree("sampler.bingham.accept", {"eps": c["eps"], "sens": c["sens"], "A": c["A"], "rows": c["rows"]},
                         {"coded": coded, "kgm": b2f(int(w[3]))}, thr, "acceptance probability of the scripted proposal")


# ------------------------------------------------------------------------------------------------ live objects

ATTR = {"eps": "epsilon", "delta": "delta", "sens": "sensitivity", "ds": "data_sensitivity", "fs": "function_sensitivity",
        "alpha": "alpha"}
ASSIGNABLE = {"lap": ["eps", "delta", "sens"], "trunc": ["eps", "delta", "sens"], "fold": ["eps", "delta", "sens"],
              "bdom": ["eps", "delta", "sens"], "bnoise": ["eps", "delta", "sens"], "gauss": ["eps", "delta", "sens"],
              "gaussA": ["eps", "delta", "sens"], "dgauss": ["eps", "delta", "sens"], "stair": ["eps", "sens"],
              "unif": ["delta", "sens"], "vec": ["eps", "ds", "fs", "alpha"], "snap": ["eps", "sens"]}
CLASSNAME = {"lap": "Laplace", "trunc": "LaplaceTruncated", "fold": "LaplaceFolded", "bdom": "LaplaceBoundedDomain",
             "bnoise": "LaplaceBoundedNoise", "gauss": "Gaussian", "gaussA": "GaussianAnalytic", "dgauss": "GaussianDiscrete",
             "stair": "Staircase", "unif": "Uniform", "vec": "Vector", "snap": "Snapping"}


def rewind(rng):
    """our own scripted generator, handed in through random_state=: start the same stream again"""
    for a in ("n_uniform", "n_bits", "n_normal", "n_gamma", "n_geom"):
        if hasattr(rng, a):
            setattr(rng, a, 0)
    if hasattr(rng, "log"):
        del rng.log[:]


def released(kind, m, x, p):
    if kind == "vec":
        fn = zero_fn(p["d"])
        b, delta, _ = vec_extract(m.randomise(fn), p["d"], p["n"], fn)
        return ("vec", [float(v) for v in b], float(delta))
    v = m.randomise(x)
    return int(v) if kind == "dgauss" else float(v)


def live_sequence(kind, p1, p2, attrs, use_copy, x, script):
    """construct(p1) → randomise once → assign the attributes `attrs` (values of p2), on the object or on a .copy() →
    randomise again on the SAME stream; compare with a fresh instance built with the current parameters on that stream.
    Returns None (fine / not applicable) or a description of the failure."""
    rng = make_rng(kind, script)
    try:
        m = mk_mech(kind, p1, rng)
        first = released(kind, m, x, p1)
        tgt = m.copy() if use_copy else m
        for a in attrs:
            setattr(tgt, ATTR[a], p2[a])
        cur = dict(p1)
        cur.update({a: p2[a] for a in attrs})
        if kind == "stair":
            cur["gamma"] = float(m.gamma)        # gamma is a parameter of its own once the object exists
        rewind(tgt._rng if kind == "stair" else rng)
        second = released(kind, tgt, x, cur)
        fresh = released(kind, mk_mech(kind, cur, make_rng(kind, script)), x, cur)
    except seams.ScriptExhausted:
        return None
    if second == fresh or (second != second and fresh != fresh):
        return None
    return (f"{CLASSNAME[kind]}({p1}).randomise({x!r}) once, then {'on a .copy(): ' if use_copy else ''}"
            f"{', '.join(f'{ATTR[a]} = {p2[a]!r}' for a in attrs)}; randomise({x!r}) on the same stream releases {second!r}, a fresh "
            f"{CLASSNAME[kind]} with the current parameters releases {fresh!r} (first release: {first!r})")


def gen_live(kind, r):
    c1, c2 = gen_case(kind, r), gen_case(kind, r)
    p1, p2 = c1["params"], c2["params"]
    if kind in ("lap", "trunc", "fold"):
        for p in (p1, p2):
            if p["eps"] == 0.0:
                p["eps"] = 0.5       # keep every intermediate combination (epsilon, delta) valid
    if kind == "bdom":
        w = p1["hi"] - p1["lo"]
        p2["sens"] = w * r.uniform(0.05, 1.0)
    names = ASSIGNABLE[kind]
    k = r.randint(1, len(names))
    attrs = r.sample(names, k)
    return {"kind": kind, "p1": p1, "p2": {a: p2[a] for a in names}, "attrs": attrs, "copy": r.chance(0.4),
            "x": c1["xs"][1] if kind != "vec" else 0, "script": c1["script"]}


def run_live(ctx):
    r = ctx.fork("live")
    n = ctx.budget(30, 300)
    for kind in KINDS:
        rk = r.fork(kind)
        for _ in range(n):
            lc = gen_live(kind, rk)
            ctx.case(("live", kind, tuple(lc["attrs"]), lc["copy"], repr(lc["p2"])))
            try:
                bad = live_sequence(kind, lc["p1"], lc["p2"], lc["attrs"], lc["copy"], lc["x"], lc["script"])
            except Exception as e:     # a valid assignment made randomise raise
                bad = f"{CLASSNAME[kind]}({lc['p1']}) after assigning {lc['attrs']} from {lc['p2']}: {type(e).__name__}: {e}"
            if bad:
                ctx.violation(f"C03:{CLASSNAME[kind]}:stale-scale-after-assignment", bad, {"check": "live", "live": lc})
            else:
                ctx.trace_ok()


def _stale_witness(kind, p1, attrs, p2, x, script):
    def w(ctx):
        bad = live_sequence(kind, p1, p2, attrs, False, x, script)
        return bad is not None, bad or ""
    return w


# ------------------------------------------------------------------------------------------------ input / parameter types

TYPE_KINDS = ["lap", "trunc", "fold", "bdom", "bnoise", "gauss", "gaussA", "dgauss", "stair", "unif", "snap"]
X_REALS = [2.0 ** 24, -2.0 ** 24, 2.0 ** 24 + 2, 1.5 * 2.0 ** 24, 2.0 ** 30, 2048.0, 2050.0, -4100.0, 0.0, 3.0, -5.0, 0.5, 1024.5]


def typed_variants(x, ints_only=False):
    """the same real number as numpy float32 / float16 / float64, numpy / python integers, 0-d array (where representable)"""
    out = []
    if not ints_only:
        out.append(("np.float64", np.float64(x)))
        with np.errstate(over="ignore"):
            if float(np.float32(x)) == x:
                out.append(("np.float32", np.float32(x)))
            if abs(x) < 65000 and float(np.float16(x)) == x:
                out.append(("np.float16", np.float16(x)))
        out.append(("0-d array", np.array(float(x))))
    if float(x).is_integer():
        out += [("int", int(x)), ("np.int64", np.int64(int(x)))]
        if abs(x) < 2 ** 31 - 64:
            out.append(("np.int32", np.int32(int(x))))
    return out


def gen_type_case(kind, r):
    x = r.choice(X_REALS)
    eps = r.loguniform(0.5, 5.0)
    sens = r.choice([0.1, 1.0, r.loguniform(0.01, 1.0)])
    script = {"rs": r.chance(0.5)}
    if kind in ("lap", "trunc", "fold", "bdom"):
        p = {"eps": eps, "delta": r.choice([0.0, 0.1]), "sens": sens}
        script["u"] = [r.u01() for _ in range(4 * 31 if kind == "bdom" else 4)]
    elif kind == "bnoise":
        p = {"eps": eps, "delta": r.uniform(0.05, 0.4), "sens": sens}
        script["u"] = [r.u01() for _ in range(4 * 31)]
    elif kind == "gauss":
        p = {"eps": r.uniform(0.3, 1.0), "delta": r.uniform(0.01, 0.3), "sens": sens}
        script["normals"] = [r.normal(), r.normal()]
    elif kind == "gaussA":
        p = {"eps": eps, "delta": r.uniform(0.01, 0.3), "sens": sens}
        script["normals"] = [r.normal(), r.normal()]
    elif kind == "dgauss":
        p = {"eps": r.loguniform(0.3, 3.0), "delta": r.loguniform(1e-4, 0.1), "sens": r.choice([1, 2])}
        x = float(r.choice([v for v in X_REALS if float(v).is_integer()] + [2.0 ** 31 - 70]))
        script["u"] = [r.u01() for _ in range(400)]
    elif kind == "stair":
        p = {"eps": eps, "gamma": r.choice([None, r.u01()]), "sens": sens}
        script["u"] = [r.u01(), r.u01(), r.u01()]
        script["geom"] = [r.randint(1, 3)]
        script["rs"] = False
    elif kind == "unif":
        p = {"delta": r.uniform(0.1, 0.5), "sens": sens}
        script["u"] = [r.u01()]
    elif kind == "snap":
        p = {"eps": eps, "sens": r.choice([1.0, 0.5, 0.25])}
        script["bits"] = [r.randint(0, 1), r.randint(0, 2 ** 52 - 1), r.randint(1, 2 ** 32 - 1)]
    if kind in ("trunc", "fold", "bdom", "snap"):
        w = r.choice([4.0, 64.0, 1024.0])
        lo = x - w * r.choice([0.25, 0.5, 0.75])
        p["lo"], p["hi"] = lo, lo + w
        if kind == "bdom":
            p["sens"] = min(p["sens"], w)
    return {"kind": kind, "params": p, "x": x, "script": script}


def input_type_case(tc):
    """randomise(x as a narrow / integer numpy type; stream) − x must be the noise added to the python-float x on the same
    stream (within one ulp of the double result).  Returns (failure description or None, number of variants compared)."""
    kind, p, x, sc = tc["kind"], tc["params"], tc["x"], tc["script"]
    ints = kind == "dgauss"
    ref = run(kind, p, int(x) if ints else float(x), sc)
    if ref is None:
        return None, 0
    out_r = float(ref[0])
    n = 0
    for label, xv in typed_variants(x, ints_only=ints):
        try:
            with np.errstate(all="ignore"):
                rr = run(kind, p, xv, sc)
        except TypeError:
            continue                     # this spelling of the value is refused by the mechanism's own validation
        if rr is None:
            continue
        n += 1
        out_t = float(np.asarray(rr[0]).astype(np.float64))
        if not abs(out_t - out_r) <= math.ulp(abs(out_r)):
            return (f"randomise({xv!r} [{label}]) releases {rr[0]!r} (noise {out_t - x!r}); randomise({x!r} [python float]) on the same "
                    f"stream releases {ref[0]!r} (noise {out_r - x!r})"), n
    return None, n


def param_type_case(tc, r):
    """the same (exactly representable) parameters handed over as numpy float32 / float16: the noise actually added on a
    given stream must not change (the calibration itself is C02's subject: cases where the calibrated `_scale` read from
    the object differs are counted, not judged here)"""
    kind, p, x, sc = tc["kind"], dict(tc["params"]), tc["x"], tc["script"]
    q = {"eps": r.choice([0.5, 1.0, 2.0]), "sens": r.choice([0.25, 0.5, 1.0]), "delta": r.choice([0.125, 0.25])}
    for k_ in q:
        if k_ in p and not (kind == "gauss" and k_ == "eps" and q[k_] > 1) and not (kind == "dgauss" and k_ == "sens"):
            if k_ == "delta" and kind in ("lap", "trunc", "fold", "bdom") and p["delta"] == 0.0:
                continue
            p[k_] = q[k_]
    if kind == "bdom":
        p["sens"] = min(p["sens"], p["hi"] - p["lo"])
    ty = r.choice([np.float32, np.float16])
    names = [k_ for k_ in ("eps", "delta", "sens", "lo", "hi") if k_ in p and not (kind == "dgauss" and k_ == "sens")]
    with np.errstate(over="ignore"):
        if not all(float(ty(p[k_])) == p[k_] for k_ in names):
            ty = np.float32
            if not all(float(ty(p[k_])) == p[k_] for k_ in names):
                return None, "skipped"
    pt = dict(p)
    for k_ in r.sample(names, r.randint(1, len(names))):
        pt[k_] = ty(p[k_])
    xx = int(x) if kind == "dgauss" else float(x)
    try:
        with np.errstate(all="ignore"):
            a, b = run(kind, p, xx, sc), run(kind, pt, xx, sc)
    except TypeError:
        return None, "refused"
    if a is None or b is None:
        return None, "skipped"
    if kind in ("bdom", "gaussA", "dgauss", "gauss") and float(a[2]._scale) != float(b[2]._scale):
        return None, "calibration differs (C02)"
    oa, ob = float(a[0]), float(np.asarray(b[0]).astype(np.float64))
    if abs(oa - ob) <= math.ulp(abs(oa) + 5e-324):
        return None, "ok"
    return (f"{CLASSNAME[kind]}({pt}).randomise({xx!r}) releases {b[0]!r}; with the same numbers as python floats it releases "
            f"{a[0]!r} on the same stream"), "bad"


INT_BOUNDS = [("uint8", 0, 200), ("int8", -100, 100), ("int16", 0, 30000), ("int16", -20000, 20000), ("int32", 0, 2 ** 30 + 5),
              ("int32", -2 ** 30, 2 ** 30), ("int64", 0, 2 ** 62 + 5), ("uint64", 0, 2 ** 63 + 5), ("uint16", 0, 40000), ("uint32", 0, 2 ** 31 + 7)]


def int_bounds_case(kind, r):
    """bounds handed over as narrow numpy INTEGER scalars whose doubled width / value does not fit the type: the release on a
    scripted stream must be the one of the same mechanism with python-int bounds.  Returns (failure or None, case)."""
    tname, lo, hi = r.choice(INT_BOUNDS)
    w = hi - lo
    ty = getattr(np, tname)
    sens = max(1.0, w * r.choice([0.02, 0.1, 0.5]))
    if kind == "snap":
        sens = r.choice([1.0, 2.0, 0.5])
    p = {"eps": r.loguniform(0.3, 3.0), "delta": 0.0, "sens": float(sens), "lo": lo, "hi": hi}
    if kind == "snap":
        p.pop("delta")
    x = float(r.choice([hi - 1, lo + 1, (lo + hi) // 2, hi, lo]))
    sc = {"u": [r.u01() for _ in range(4 * 31 if kind == "bdom" else 4)], "rs": r.chance(0.5),
          "bits": [r.randint(0, 1), r.randint(0, 2 ** 52 - 1), r.randint(1, 2 ** 32 - 1)]}
    case = {"kind": kind, "params": p, "type": tname, "x": x, "script": sc}
    return int_bounds_eval(case), case


def int_bounds_eval(case):
    kind, p, x, sc = case["kind"], case["params"], case["x"], case["script"]
    ty = getattr(np, case["type"])
    pt = dict(p, lo=ty(p["lo"]), hi=ty(p["hi"]))
    import signal
    import warnings as _w

    def _alarm(*_a):
        raise TimeoutError()
    with np.errstate(all="ignore"), _w.catch_warnings():
        _w.simplefilter("ignore")
        a = run(kind, p, x, sc)
        old = signal.signal(signal.SIGALRM, _alarm)
        signal.alarm(5)
        try:
            b = run(kind, pt, x, sc)
        except (TypeError, ValueError):
            return None                      # this type of bound is refused: nothing is released
        except TimeoutError:
            return (f"{CLASSNAME[kind]}({p} with lower=np.{case['type']}({p['lo']}), upper=np.{case['type']}({p['hi']})).randomise({x!r}) "
                    f"did not return within 5 s; with python-int bounds it releases {a[0] if a else None!r} on the same stream")
        finally:
            signal.alarm(0)
            signal.signal(signal.SIGALRM, old)
    if a is None or b is None:
        return None
    oa, ob = float(a[0]), float(np.asarray(b[0]).astype(np.float64))
    if oa == ob or (oa != oa and ob != ob):
        return None
    return (f"{CLASSNAME[kind]}({p} with lower=np.{case['type']}({p['lo']}), upper=np.{case['type']}({p['hi']})).randomise({x!r}) "
            f"releases {b[0]!r}; with python-int bounds it releases {a[0]!r} on the same stream")


def run_types(ctx):
    r = ctx.fork("types")
    n = ctx.budget(25, 250)
    for kind in TYPE_KINDS:
        rk = r.fork(kind)
        for _ in range(n):
            tc = gen_type_case(kind, rk)
            bad, k = input_type_case(tc)
            ctx.case(("input-type", kind, tc["x"], tc["script"].get("rs")))
            ctx.count("input_type_variants_compared", k)
            if bad:
                ctx.violation(f"C03:{CLASSNAME[kind]}:noise-computed-in-input-dtype", f"{CLASSNAME[kind]}({tc['params']}): {bad}",
                              {"check": "input-type", "tc": tc})
            else:
                ctx.trace_ok()
            bad, what = param_type_case(tc, rk)
            ctx.count("param_type_" + what.split(" ")[0])
            if bad:
                ctx.violation(f"C03:{CLASSNAME[kind]}:noise-depends-on-parameter-dtype", bad, {"check": "param-type", "what": bad})
            if kind in ("trunc", "fold", "bdom", "snap") and ctx.counters.get("int_bounds_hung_" + kind, 0) < 2:
                for _ in range(2):
                    bad, case = int_bounds_case(kind, rk)
                    if bad and "did not return" in bad:
                        ctx.count("int_bounds_hung_" + kind)
                    ctx.case(("int-bounds", kind, case["type"], case["x"]))
                    if bad:
                        ctx.violation(f"C03:{CLASSNAME[kind]}:integer-typed-bounds-wrap", bad, {"check": "int-bounds", "ib": case})
                    else:
                        ctx.trace_ok()


# ------------------------------------------------------------------------------------------------ cross-instance state

import contextlib
import importlib
import sys


@contextlib.contextmanager
def fresh_mechanisms():
    """a freshly executed copy of diffprivlib.mechanisms (+ utils, validation): new class objects, hence pristine class-level
    memos, module-level caches and default-argument mutables — the state of 'this instance constructed alone'"""
    global M
    names = [k for k in sys.modules if k in ("diffprivlib.utils", "diffprivlib.validation", "diffprivlib.mechanisms")
             or k.startswith("diffprivlib.mechanisms.")]
    saved = {k: sys.modules.pop(k) for k in names}
    old_M = M
    try:
        M = importlib.import_module("diffprivlib.mechanisms")
        yield M
    finally:
        for k in [k for k in sys.modules if k in saved or k.startswith("diffprivlib.mechanisms.")]:
            del sys.modules[k]
        sys.modules.update(saved)
        M = old_M
        import diffprivlib
        diffprivlib.mechanisms = saved["diffprivlib.mechanisms"]
        diffprivlib.utils = saved["diffprivlib.utils"]
        diffprivlib.validation = saved["diffprivlib.validation"]


CROSS_FIELDS = {"lap": ["eps", "delta", "sens"], "trunc": ["eps", "delta", "sens", "lo", "hi"], "fold": ["eps", "delta", "sens", "lo", "hi"],
                "bdom": ["eps", "delta", "sens", "lo", "hi"], "bnoise": ["eps", "delta", "sens"], "gauss": ["eps", "delta", "sens"],
                "gaussA": ["eps", "delta", "sens"], "dgauss": ["eps", "delta", "sens"], "stair": ["eps", "gamma", "sens"],
                "unif": ["delta", "sens"], "vec": ["eps", "fs", "ds", "alpha", "d", "n"], "snap": ["eps", "sens", "lo", "hi"]}


def gen_cross(kind, r):
    """2–4 parameter sets that differ in exactly one field from their predecessor (or not at all), in random order"""
    base = gen_case(kind, r)
    p = dict(base["params"])
    if kind in ("lap", "trunc", "fold") and p["eps"] == 0.0:
        p["eps"] = 0.5
    script = dict(base["script"])
    if kind == "vec":
        script["normals"] = [r.normal() for _ in range(24)]
    if kind == "dgauss":
        p["eps"], p["delta"] = r.choice([1.0, p["eps"]]), r.choice([0.1, p["delta"]])
    members = [dict(p)]
    for _ in range(r.randint(1, 3)):
        q = dict(members[-1])
        if r.chance(0.2):
            members.append(q)            # an identical twin
            continue
        f = r.choice(CROSS_FIELDS[kind])
        other = gen_case(kind, r)["params"]
        if f == "sens" and kind == "dgauss":
            q["sens"] = r.choice([v for v in (1, 2, 3, 5) if v != q["sens"]])
        elif f in ("lo", "hi"):
            w = q["hi"] - q["lo"]
            q[f] = q[f] + (1 if f == "hi" else -1) * w * r.uniform(0.1, 1.0)
        elif f == "sens" and kind == "bdom":
            q["sens"] = (q["hi"] - q["lo"]) * r.uniform(0.05, 1.0)
        elif f == "eps" and kind in ("lap", "trunc", "fold"):
            q["eps"] = other["eps"] if other["eps"] > 0 else 0.7
        else:
            q[f] = other[f]
        members.append(q)
    r.shuffle(members)
    x = base["xs"][1] if kind != "vec" else 0
    return {"kind": kind, "members": members, "x": x, "script": script,
            "again": [r.chance(0.5) for _ in members]}


def cross_instance_case(cc):
    """every member's release on the scripted stream, when constructed among the others (interleaved with releases of the
    earlier ones), must be bit-identical to its release when constructed alone in a pristine copy of the package"""
    kind, x, sc = cc["kind"], cc["x"], cc["script"]

    def one(p, rng=None):
        rng = rng or make_rng(kind, sc)
        m = mk_mech(kind, p, rng)
        return m, rng, released(kind, m, x, p)
    refs = []
    try:
        for p in cc["members"]:
            with fresh_mechanisms():
                refs.append(one(p)[2])
        live = []
        for i, p in enumerate(cc["members"]):
            m, rng, rel = one(p)
            live.append((m, rng, p))
            if rel != refs[i] and not (rel != rel and refs[i] != refs[i]):
                return (f"instance #{i} {CLASSNAME[kind]}({p}), constructed after {[q for q in cc['members'][:i]]}, releases {rel!r} for "
                        f"input {x!r}; constructed alone (pristine package state) it releases {refs[i]!r} on the same stream")
            if cc["again"][i] and i > 0:
                j = i - 1
                mj, rj, pj = live[j]
                rewind(mj._rng if kind == "stair" else rj)
                rel2 = released(kind, mj, x, pj)
                if rel2 != refs[j] and not (rel2 != rel2 and refs[j] != refs[j]):
                    return (f"instance #{j} {CLASSNAME[kind]}({pj}) releases {rel2!r} once {CLASSNAME[kind]}({p}) exists; alone it "
                            f"releases {refs[j]!r} on the same stream")
    except seams.ScriptExhausted:
        return None
    return None


def run_cross_instance(ctx, kinds=None, prop="C03"):
    r = ctx.fork("cross-instance")
    n = min(ctx.budget(4, 40), 12 if ctx.tier == "quick" else 40)
    for kind in (kinds or KINDS):
        rk = r.fork(kind)
        for _ in range(n):
            cc = gen_cross(kind, rk)
            ctx.case(("cross-instance", kind, len(cc["members"]), repr(cc["members"])[:120]))
            bad = cross_instance_case(cc)
            if bad:
                ctx.violation(f"{prop}:{CLASSNAME[kind]}:cross-instance-state", bad, {"check": "cross-instance", "cc": cc})
            else:
                ctx.trace_ok()
    # the coarse-key pattern spelled out: same epsilon and delta, different sensitivity, both orders
    for kind in (kinds or KINDS):
        if kind in ("gauss", "gaussA", "dgauss", "bnoise", "lap"):
            for order in (0, 1):
                base = {"eps": 1.0, "delta": 0.1, "sens": 1}
                mem = [dict(base), dict(base, sens=3)] if kind == "dgauss" else [dict(base, sens=1.0), dict(base, sens=3.0)]
                if order:
                    mem.reverse()
                sc = {"u": [rk.u01() for _ in range(400)], "normals": [0.3, -1.1]}
                cc = {"kind": kind, "members": mem, "x": 0 if kind == "dgauss" else 0.0, "script": sc, "again": [False, True]}
                bad = cross_instance_case(cc)
                ctx.case(("cross-instance-fixed", kind, order))
                if bad:
                    ctx.violation(f"{prop}:{CLASSNAME[kind]}:cross-instance-state", bad, {"check": "cross-instance", "cc": cc})
                else:
                    ctx.trace_ok()


# ------------------------------------------------------------------------------------------------ long rejection runs

def batch_sizes(n_candidates):
    """sizes of the batches the doubling loop draws until it has looked at `n_candidates` candidates"""
    out, s, tot = [], 1, 0
    while tot < n_candidates:
        out.append(s)
        tot += s
        s = min(100000, 2 * s)
    return out


def np_lap4(U):
    return np.log(1 - U[:, 0]) * np.cos(np.pi * U[:, 1]) + np.log(1 - U[:, 2]) * np.cos(np.pi * U[:, 3])


def longrun_laplace_stream(seed, N, inside):
    """uniform stream (batch layout i, s+i, 2s+i, 3s+i respected) whose first N standard-Laplace candidates are rejected
    by `inside` (with a margin) and whose candidate #N is accepted; returns (stream, accepted 4-tuple, uniforms consumed)"""
    g = np.random.Generator(np.random.PCG64(int(seed)))
    rej, acc = [], None
    need = N
    while need > 0 or acc is None:
        U = g.random((max(4096, 4 * need), 4))
        L = np_lap4(U)
        ok, out = inside(L, +1), ~inside(L, -1)
        if acc is None and ok.any():
            acc = U[np.argmax(ok)]
        if need > 0:
            R = U[out][:need]
            rej.append(R)
            need -= len(R)
    sizes = batch_sizes(N + 1)
    total = sum(sizes)
    T = np.vstack(rej + [acc[None, :], g.random((total - N - 1, 4))]) if total > N + 1 else np.vstack(rej + [acc[None, :]])
    parts, pos = [], 0
    for s_ in sizes:
        blk = T[pos:pos + s_]
        parts += [blk[:, 0], blk[:, 1], blk[:, 2], blk[:, 3]]
        pos += s_
    return np.concatenate(parts), [float(v) for v in acc], 4 * total


def longrun_case(kind, p, x, N, seed, rs):
    """run the real sampler on a stream with N rejected candidates before the first accepted one.
    Returns None or a failure description.  The expected release is computed here (Python), not by the Lean driver."""
    if kind in ("bdom", "bnoise"):
        m0 = mk_mech(kind, p, make_rng(kind, {"u": []}))
        if kind == "bdom":
            m0._check_all(x)
            scale = float(m0._find_scale())
            xc = max(min(x, p["hi"]), p["lo"])
            lo, hi = p["lo"], p["hi"]
            centre = xc
        else:
            scale = p["sens"] / p["eps"]
            b = scale * math.log(1 + (math.exp(p["eps"]) - 1) / 2 / p["delta"])
            lo, hi, centre = -b, b, 0.0
        mg = 1e-9 * (abs(lo) + abs(hi) + scale)

        def inside(L, sgn):          # sgn=+1: surely inside, sgn=-1: possibly inside
            v = centre + scale * L
            return (v >= lo + sgn * mg) & (v <= hi - sgn * mg)
        stream, acc, used = longrun_laplace_stream(seed, N, inside)
        script = {"u": stream.tolist(), "rs": rs}
        rr = run(kind, p, x, script)
        if rr is None:
            return f"asked for more than the {used} uniforms that contain {N} rejected candidates and then an accepted one"
        want = centre + scale * ref_lap4(*acc) + (x if kind == "bnoise" else 0.0)
        tol = 1e-13 * (abs(want) + abs(x) + 50 * scale)
        if not (abs(float(rr[0]) - want) <= tol and rr[1]["u"] == used):
            return (f"released {float(rr[0])!r} after {rr[1]['u']} uniforms; the first accepted candidate of the stream is #{N} = "
                    f"{want!r} (after {used} uniforms; candidates #0..#{N - 1} fall outside [{lo!r}, {hi!r}])")
        return None
    if kind == "dgauss":
        m0 = mk_mech(kind, p, make_rng(kind, {"u": []}))
        sig = float(m0._scale)
        tau = 1 / (1 + math.floor(sig))
        s2 = sig ** 2
        if not tau < 0.999:
            return None
        g0 = (0 - tau * s2) ** 2 / 2 / s2
        r = gen.SplitMix64(seed)
        us = []
        for _ in range(N):
            if r.chance(0.5):
                us += [tau / 2, 0.999, 0.25]                         # geom 0, minus sign: "-0" is redrawn
            else:
                us += [tau / 2, 0.999, 0.75, g0 / 2, 0.9995]         # proposal 0, acceptance coin fails
        us += [0.99999, tau / 2, 0.999, 0.25, 0.999999]              # geom 1, minus sign, accepted: noise -1
        rr = run(kind, p, x, {"u": us, "rs": rs})
        if rr is None:
            return f"asked for more than the {len(us)} uniforms that contain {N} rejected proposals and then an accepted one"
        if not (int(rr[0]) == x - 1 and rr[1]["u"] == len(us)):
            return (f"released {int(rr[0])} after {rr[1]['u']} uniforms; the first accepted proposal of the stream is #{N}: noise -1, "
                    f"i.e. {x - 1}, after {len(us)} uniforms")
        return None
    if kind == "geometric":
        u_final = 0.5 + (p["u"] - 0.5)
        def rel(us):
            rng = seams.ScriptedSystemRandom(uniforms=us)
            m = M.Geometric(epsilon=p["eps"], sensitivity=p["sens"], random_state=rng)
            return int(m.randomise(x)), rng.n_uniform
        a, b = rel([0.5] * N + [u_final]), rel([u_final])
        if not (a[0] == b[0] and a[1] == N + 1):
            return (f"after {N} draws of exactly 0.5 and then {u_final!r} released {a[0]} ({a[1]} uniforms); on the stream "
                    f"[{u_final!r}] alone it releases {b[0]}")
        return None
    if kind == "bingham":
        A = np.array(p["A"])
        g = np.random.Generator(np.random.PCG64(int(seed)))
        dims = A.shape[0]
        props, ok = [], None
        while len(props) < N or ok is None:
            rows = g.standard_normal((4, dims)) * 0.5
            uau, uou, bb = bingham_reference(p["eps"], p["sens"], A, rows)
            mconst = math.exp(-(dims - bb) / 2) * (dims / bb) ** (dims / 2)
            prob = math.exp(-uau) / mconst / uou ** (dims / 2)
            if prob < 0.999 and len(props) < N:
                props.append(rows)
            elif ok is None and prob > 1e-6:
                ok = rows
        rng = BinghamSeqRS(props + [ok], [1 - 2.0 ** -53] * N + [0.0])
        m = M.Bingham(epsilon=p["eps"], sensitivity=p["sens"], random_state=rng)
        try:
            out = m.randomise(A)
        except seams.ScriptExhausted:
            return f"asked for more than the {N + 1} proposals that contain {N} rejected ones and then an accepted one"
        v = ok.sum(axis=0)
        want = v / np.linalg.norm(v)
        if not (np.all(np.abs(out - want) <= 1e-13) and rng.n_mvn == N + 1 and rng.n_uniform == N + 1):
            return (f"released {out.tolist()} after {rng.n_mvn} proposals; the first accepted proposal of the stream is #{N} = "
                    f"{want.tolist()}")
        return None
    raise KeyError(kind)


class BinghamSeqRS(np.random.RandomState):
    """RandomState with a scripted sequence of proposals (multivariate_normal) and acceptance uniforms"""

    def __init__(self, rows_seq, us):
        super().__init__(0)
        self.rows_seq, self.us = rows_seq, us
        self.n_mvn = 0
        self.n_uniform = 0

    def multivariate_normal(self, mean, cov, size=None, **k):
        if self.n_mvn >= len(self.rows_seq):
            raise seams.ScriptExhausted("proposal script exhausted")
        self.n_mvn += 1
        return np.array(self.rows_seq[self.n_mvn - 1], dtype=float)

    def random(self, size=None):
        if self.n_uniform >= len(self.us):
            raise seams.ScriptExhausted("uniform script exhausted")
        self.n_uniform += 1
        return self.us[self.n_uniform - 1]


LONG_NAMES = {"bdom": "LaplaceBoundedDomain", "bnoise": "LaplaceBoundedNoise", "dgauss": "GaussianDiscrete",
              "geometric": "Geometric", "bingham": "Bingham"}


def run_longruns(ctx):
    """every looping sampler on scripted streams whose first N candidates are rejected, N in {1, 7, 100, 5000, 200000}"""
    r = ctx.fork("long-runs")
    big = 200000
    plans = []
    for kind in ("bdom", "bnoise"):
        for N in (1, 7, 100, 5000, big):
            plans.append((kind, N))
    for N in (1, 7, 100, 5000) + ((big,) if ctx.tier == "thorough" else ()):
        plans += [("dgauss", N), ("bingham", N)]
    for N in (1, 7, 100, 5000, big):
        plans.append(("geometric", N))
    for kind, N in plans * max(1, ctx.scale if ctx.scale <= 3 else 3):
        if kind == "bdom":
            lo, w = r.choice([0.0, r.uniform(-5, 5)]), r.loguniform(0.5, 3.0)
            p = {"eps": r.loguniform(0.3, 3.0), "delta": 0.0, "sens": w * r.uniform(0.3, 1.0), "lo": lo, "hi": lo + w}
            x = lo + w * r.uniform(-0.2, 1.2)
        elif kind == "bnoise":
            p = {"eps": r.loguniform(0.3, 3.0), "delta": r.uniform(0.05, 0.45), "sens": r.loguniform(0.1, 10)}
            x = gen_x(r)
        elif kind == "dgauss":
            p = {"eps": r.loguniform(0.05, 0.8), "delta": r.loguniform(1e-6, 1e-2), "sens": r.choice([1, 2, 3])}
            x = r.randint(-50, 50)
        elif kind == "geometric":
            p = {"eps": r.loguniform(0.05, 5.0), "sens": r.choice([1, 2, 5]), "u": r.choice([r.u01(), 0.5 + 2.0 ** -53, 0.25])}
            if p["u"] == 0.5:
                p["u"] = 0.75
            x = r.randint(-50, 50)
        else:
            bc = gen_bingham_case(r)
            p = {"eps": bc["eps"], "sens": bc["sens"], "A": bc["A"]}
            x = None
        seed, rs = r.next() % (1 << 62), r.chance(0.5)
        ctx.case(("long-run", kind, N, rs))
        ctx.count("long_run_cases_expected_value_computed_in_python")
        bad = longrun_case(kind, p, x, N, seed, rs)
        if bad:
            ctx.violation(f"C03:{LONG_NAMES[kind]}:not-first-accepted-after-long-rejection-run",
                          f"{LONG_NAMES[kind]}({p}).randomise({x!r}) on a scripted stream whose first {N} candidates are rejected: {bad}",
                          {"check": "longrun", "kind": kind, "params": p, "x": x, "N": N, "seed": seed, "rs": rs})
        else:
            ctx.trace_ok()


# ------------------------------------------------------------------------------------------------ extreme acceptance

def run_low_acceptance(ctx):
    """the real rejection samplers where almost every candidate is rejected (acceptance probability down to ~5e-8 for
    LaplaceBoundedDomain, ~1e-5 for LaplaceBoundedNoise): releases stay inside the domain, are never atoms on the bounds, and
    have the conditioned-Laplace law for two different inputs (numpy back-end: the candidates are drawn in vectorised batches)"""
    r = ctx.fork("low-acceptance")
    thorough = ctx.tier == "thorough"
    plans = [("bdom", 2e-3, 300), ("bdom", 2e-4, 200), ("bdom", 2e-5, 2000 if thorough else 120), ("bdom", 1e-6, 40 if thorough else 3),
             ("bdom", 1e-7, 8 if thorough else 1), ("bnoise", 2e-3, 300), ("bnoise", 2e-5, 1000 if thorough else 100)]
    for kind, ratio, n in plans:
        seed = r.next() % (2 ** 32)
        if kind == "bdom":
            lo, w, sens = r.uniform(-2, 2), r.loguniform(0.5, 2.0), r.loguniform(0.5, 2.0)
            p = {"eps": ratio * sens / w, "delta": 0.0, "sens": sens, "lo": lo, "hi": lo + w}
            xs = [lo + 0.2 * w, lo + 0.9 * w]
        else:
            dl = r.uniform(0.3, 0.45)
            p = {"eps": math.log(1 + 2 * dl * math.expm1(ratio / 2)), "delta": dl, "sens": r.loguniform(0.5, 2.0)}   # P(accept) ~ ratio/2
            xs = [0.0, 3.25]
        bad = low_acceptance_case(kind, p, xs, n, seed)
        ctx.case(("low-acceptance", kind, ratio))
        ctx.count("low_acceptance_releases", n * len(xs))
        if bad:
            ctx.violation(f"C03:{LONG_NAMES[kind]}:law-at-low-acceptance", f"{LONG_NAMES[kind]}({p}), {n} releases per input: {bad}",
                          {"check": "lowacc", "kind": kind, "params": p, "xs": xs, "n": n, "seed": seed})
        else:
            ctx.trace_ok()


def low_acceptance_case(kind, p, xs, n, seed):
    m = mk_mech(kind, p, np.random.RandomState(int(seed)))
    for x in xs:
        out = np.array([float(m.randomise(x)) for _ in range(n)])
        if kind == "bdom":
            lo, hi, sc = p["lo"], p["hi"], float(m._scale)
            a, b = (lo - x) / sc, (hi - x) / sc
            rel = out
        else:
            sc = p["sens"] / p["eps"]
            B = sc * math.log(1 + (math.exp(p["eps"]) - 1) / 2 / p["delta"])
            lo, hi, a, b = -B, B, -B / sc, B / sc
            rel = out - x
        tol = 8 * EPS * abs(x) if kind == "bnoise" else 0.0
        if not np.all((rel >= lo - tol) & (rel <= hi + tol)):
            return f"input {x!r}: a release lies outside [{lo!r}, {hi!r}]: {rel[(rel < lo - tol) | (rel > hi + tol)][:3].tolist()}"
        atoms = int(np.sum((rel == lo) | (rel == hi)))
        if kind == "bdom" and atoms:
            return (f"input {x!r}: {atoms} of {n} releases sit exactly on a bound of the domain (an atom; the conditioned Laplace law "
                    f"has none)")
        if n >= 40:
            lo_, hi_ = float(laplace_cdf(a)), float(laplace_cdf(b))
            if hi_ - lo_ > 0:
                # for a tiny window the conditioned Laplace CDF is evaluated through its density ratio (no cancellation)
                def cdf(t):
                    t = np.clip(t, a, b)
                    if b - a < 1e-6:
                        return (t - a) / (b - a)
                    return np.clip((laplace_cdf(t) - lo_) / (hi_ - lo_), 0, 1)
                d = sup_distance((rel - (x if kind == "bdom" else 0.0)) / sc, cdf)
                thr = dkw_threshold(n)
                if not d <= thr:
                    return (f"input {x!r}: sup-distance {d:.4f} of (release − input)/scale from the Laplace law conditioned on the "
                            f"domain exceeds the DKW threshold {thr:.4f} at n={n}")
    return None


# ------------------------------------------------------------------------------------------------ entry points

def nontrivial_key(case, info):
    kind = case["kind"]
    runs = [r_ for r_ in info["runs"] if r_ is not None]
    if not runs:
        return None
    if kind in ("bdom", "bnoise"):
        if not any(r_[1]["u"] > 4 for r_ in runs):
            return None
    key = (kind, repr(sorted(case["params"].items(), key=lambda kv: kv[0])), repr(case["script"])[:200])
    return key


def generate(ctx):
    """translator tie: the sampler formulas (Laplace 4-uniform combination, Gaussian, Uniform, Staircase, Snapping scaling /
    rounding) are re-read from /repo's AST on every run, translated to Lean terms over ℝ and proved equal to the model's
    (harness/anchor_specs_c03.py, harness/anchors.py)"""
    from .. import anchors, anchor_specs_c03 as S
    from ..shim import REPO
    r = anchors.build(REPO, "C03", ["DPL.Proofs.SamplersReal"], S.specs(), opens="", postlude=getattr(S, "POST", ""))
    ctx.count("formula_anchors", r["obligations"])
    if r["errors"]:
        r["unavailable"] = r["errors"]      # anchors that could not be located / translated (not failed obligations)
    return r


def check(ctx):
    r = ctx.fork("cases")
    n_total = ctx.budget(3000, 24000)
    per_kind = max(1, n_total // len(KINDS))
    cases = []
    for kind in KINDS:
        rk = r.fork(kind)
        for _ in range(per_kind):
            cases.append(gen_case(kind, rk))
    all_lines, spans, infos = [], [], []
    for case in cases:
        try:
            info = eval_case(ctx, case)
        except Exception as e:  # the real mechanism raised on a generated (valid) input: report it as a disagreement
            info = {"runs": [None] * len(case["xs"]), "error": f"{type(e).__name__}: {e}"}
        infos.append(info)
        if "error" not in info and all(x is None for x in info["runs"]) and case["kind"] in EXPECTED_DRAWS:
            info["error"] = "asked for more random draws than the model uses (script exhausted)"
        lines = [] if ("error" in info or all(x is None for x in info["runs"])) else case_lines(case, info)
        spans.append((len(all_lines), len(lines)))
        all_lines += lines
        ctx.case(nontrivial_key(case, info), n=len(case["xs"]))
    for case, info in zip(cases[::per_kind], infos[::per_kind]):
        rr = next((x for x in info["runs"] if x is not None), None)
        ctx.sample({"kind": case["kind"], "params": case["params"], "x": case["xs"][0],
                    "stream_head": {k: (v[:4] if isinstance(v, list) else v) for k, v in case["script"].items()},
                    "released": None if rr is None else (rr[0] if case["kind"] != "vec" else rr[0][0].tolist()),
                    "draws": None if rr is None else rr[1]}, cap=len(KINDS))
    outs = leanio.run_driver("Samplers", all_lines) if all_lines else []
    for case, info, (a, ln) in zip(cases, infos, spans):
        if "error" in info:
            ctx.disagree("sampler." + case["kind"], {"params": case["params"], "xs": case["xs"]}, "model defined",
                         info["error"], "the real mechanism raised")
            continue
        if ln == 0:
            ctx.count("script_exhausted")
            continue
        o = outs[a:a + ln]
        if any(x.startswith("bad-op") for x in o):
            raise leanio.LeanError(f"driver rejected a line of kind {case['kind']}: {all_lines[a][:200]}")
        if compare_case(ctx, case, info, o):
            ctx.trace_ok()
    ctx.count("driver_lines", len(all_lines))
    run_live(ctx)
    run_longruns(ctx)
    run_low_acceptance(ctx)
    run_types(ctx)
    run_cross_instance(ctx)
    run_bingham(ctx)
    run_stats(ctx)


def replay(ctx, data):
    d = data["data"]
    if d.get("check") == "stat":
        res = stat_test(d["name"], d["params"], int(d["seed"]), int(d["n"]))
        return any(not rec[1] <= rec[2] for rec in res)
    if d.get("check") == "int-bounds":
        return int_bounds_eval(d["ib"]) is not None
    if d.get("check") == "cross-instance":
        return cross_instance_case(d["cc"]) is not None
    if d.get("check") == "input-type":
        return input_type_case(d["tc"])[0] is not None
    if d.get("check") == "longrun":
        return longrun_case(d["kind"], d["params"], d["x"], int(d["N"]), int(d["seed"]), bool(d["rs"])) is not None
    if d.get("check") == "lowacc":
        return low_acceptance_case(d["kind"], d["params"], d["xs"], int(d["n"]), int(d["seed"])) is not None
    if d.get("check") == "live":
        lc = d["live"]
        return live_sequence(lc["kind"], lc["p1"], lc["p2"], lc["attrs"], lc["copy"], lc["x"], lc["script"]) is not None
    case = d["case"]
    eval_case(ctx, case)
    return len(ctx.violations) > 0


def _witness_bingham(ctx):
    """deterministic part: the acceptance probability of one scripted proposal vs the Kent–Ganeiber–Mardia ratio;
    statistical part: fixed matrix, fixed seed, DKW threshold"""
    A = np.array([[2.0, 0.5], [0.5, 1.0]])
    rows = [[0.3, -0.2], [0.1, 0.4], [-0.5, 0.2], [0.2, 0.3]]
    eps, sens = 2.0, 1.0
    uau, uou, b = bingham_reference(eps, sens, A, rows)
    norm_const = math.exp(-(2 - b) / 2) * (2 / b) ** (2 / 2)
    kgm = math.exp(-uau) / norm_const * uou ** (2 / 2)
    got = bingham_accept_threshold(eps, sens, A, rows)
    det_fails = not abs(got - min(1.0, kgm)) <= 1e-9 * kgm
    inverted = abs(got - kgm / uou ** 2) <= 1e-9 * kgm
    p = {"eps": 1.8235, "sens": 1.0, "l1": 1.8564390614447663, "l2": 0.4303131159093847, "theta": 2.4384978145833873}
    rec = stat_test("bingham", p, 7, 100000)[0]     # 20000 draws
    stat_fails = not rec[1] <= rec[2]
    return (det_fails or stat_fails), (
        f"Bingham(epsilon=2).randomise([[2,.5],[.5,1]]) accepts the proposal u=(0.1,0.7)/|.| with probability {got:.6f}; the "
        f"Kent-Ganeiber-Mardia ratio f_Bing/(M f_ACG) is {kgm:.6f}" + (" (= coded value x (u'Omega u)^q: ratio inverted, bingham.py:147-149)" if inverted else "") +
        f"; in 2-D the doubled angle of 20000 draws at epsilon=1.8235 is at sup-distance {rec[1]:.4f} from the Bingham (von Mises) "
        f"law, DKW threshold {rec[2]:.4f}")


def _wstream(n, seed=12345):
    r = gen.SplitMix64(seed)
    return [r.u01() for _ in range(n)]


# deterministic witnesses of the calibration caches (same behaviour as the open C02:<Mech>:stale-calibration findings, seen
# from C03's side: after a valid assignment the noise is no longer unit(stream) x the scale of the CURRENT parameters)
_STALE = {
    "LaplaceBoundedDomain": ("bdom", {"eps": 1.0, "delta": 0.0, "sens": 0.2, "lo": 0.0, "hi": 1.0}, ["sens"], {"sens": 0.8}, 0.5,
                             {"u": _wstream(124)}),
    "LaplaceBoundedNoise": ("bnoise", {"eps": 1.0, "delta": 0.1, "sens": 1.0}, ["sens"], {"sens": 10.0}, 0.0, {"u": _wstream(124)}),
    "Gaussian": ("gauss", {"eps": 0.5, "delta": 1e-5, "sens": 1.0}, ["sens"], {"sens": 10.0}, 0.0, {"normals": [0.3, -1.1]}),
    "GaussianAnalytic": ("gaussA", {"eps": 0.5, "delta": 1e-5, "sens": 1.0}, ["sens"], {"sens": 10.0}, 0.0, {"normals": [0.3, -1.1]}),
    "GaussianDiscrete": ("dgauss", {"eps": 1.0, "delta": 1e-3, "sens": 1}, ["eps"], {"eps": 0.05}, 0, {"u": _wstream(400)}),
    "Snapping": ("snap", {"eps": 1.0, "sens": 1.0, "lo": 0.0, "hi": 10.0}, ["sens"], {"sens": 0.25}, 5.0,
                 {"bits": [1, 1234567890123, 7]}),
}

def _dtype_witness(kind, p, x, script):
    def w(ctx):
        bad, _ = input_type_case({"kind": kind, "params": p, "x": x, "script": script})
        return bad is not None, (f"{CLASSNAME[kind]}({p}): {bad}" if bad else "")
    return w


WITNESSES = {"C03:bingham:law:acceptance-inverted": _witness_bingham}
for _cls, (_k, _p1, _a, _p2, _x, _sc) in _STALE.items():
    WITNESSES[f"C03:{_cls}:stale-scale-after-assignment"] = _stale_witness(_k, _p1, _a, _p2, _x, _sc)
