"""C12 — mechanism outputs stay in their declared domain, and randomise always returns (DESIGN.md §6 C12).

(K) `randomise` of every bounded mechanism under SCRIPTED uniforms / random bits vs the Lean model (driver `ClipRange`,
    IEEE doubles): exact for integer outputs and indices, tolerance on the exp/log paths, decisions within rounding of a
    model break-point are counted as boundary_skipped.
(S) direct on the real code (seeded and scripted-extreme streams): lower <= out <= upper exactly, declared type,
    degenerate parameters give the input mapped into the domain, no RecursionError / OverflowError, and every call runs
    under an interval timer so that a hang is an observation, not a stuck check.
"""
import math
import numbers
import signal
import warnings
from fractions import Fraction

from ..shim import dp, np
from .. import gen, leanio, seams
from ..gen import f2b, b2f

PROPERTY = "C12"
LEAN_MODULE = "DPL.Properties.C12"
TRUSTED = [
    "modelled, not verified: IEEE binary64 arithmetic of CPython/numpy = Lean `Float` (+,-,*,/ and the exact `%` implemented "
    "bit-level in the model; log/exp/cos to 1e-12 relative); np.round = round-half-even; np.ldexp; struct bit casts",
    "LaplaceBoundedDomain._find_scale (calibration, C02) is not modelled: the model takes the scale the implementation "
    "computed; Bingham's sampler, bernoulli_neg_exp and the utility -> probability maps of the selection mechanisms are "
    "not modelled (the model starts from the implementation's own cumulative / per-target probabilities); for these the "
    "domain / type claims are checked directly on the code",
    "valid configurations: finite |bounds| <= 1e9 or +-inf, |value| <= 1e12; Snapping needs finite bounds (infinite ones "
    "are refused with ValueError - asserted); a geometric domain must contain an integer (lower == upper == half-integer "
    "and lower == +inf / upper == -inf are not configurations the property can hold for); NaN inputs belong to C13",
    "'always returns' for the rejection samplers is a probability-one statement: the theorems say the loop returns the "
    "first in-range draw as soon as a batch contains one; on the code every call is observed to return within 6 s",
]
TRUSTED += [
    "epsilon below the property's range [1e-4, inf] is not generated (observed outside the range, not reported: LaplaceBoundedDomain's "
    "acceptance probability is ~epsilon, so epsilon = 1e-10 effectively never returns; GeometricFolded(epsilon=1e-300) raises TypeError "
    "when the noise exceeds 2^63); huge finite epsilons up to 1.7e308 ARE generated for every mechanism",
    "hang detector: every call runs under an interval timer, and the multi-draw samplers (PermuteAndFlip, bernoulli_neg_exp) draw "
    "from a scripted prefix (extremes 0, 1-2^-53, 1/2, 2^-53 at every position) followed by a pseudo-random continuation that raises "
    "after 200000 draws",
]
TRUSTED += [
    "magnitudes: Python-int inputs / bounds up to 2^100 (mixed with +-inf, numpy-scalar typed, double-typed bounds for GeometricFolded) are "
    "checked on the code only, with exact int / Fraction comparisons (range and zero-noise identity); the model comparison (K) stays "
    "below 2^40 because the driver's carrier is the double. For the double-valued mechanisms int domains are generated at least 64 "
    "double-spacings wide and below 2^62 (a narrower int domain contains no double; Python ints beyond int64 are not a double-valued "
    "mechanism's domain)",
    "Bingham is run on the caller's array as it comes: int64 / int32 / uint8 / float32, C / Fortran order, non-contiguous views (a "
    "float32 matrix with no noise returns eigh's float32 eigenvector: unit norm checked to 1e-6 there, 1e-9 otherwise)",
]
TRUSTED += [
    "numpy-typed bounds: besides int64 / float typed ones, NARROW integer scalars (uint8, int8, int16, uint16, int32, uint32) with values at / "
    "near the type's limits are given as bounds to GeometricFolded, GeometricTruncated and the four Laplace-family mechanisms (epsilon finite "
    "and inf, inputs inside / outside the domain and outside the type's range); the claims are those for the same bounds written as Python ints",
    "Snapping on finite bounds whose width upper - lower overflows to inf (|bounds| in [9e307, 1.8e308], opposite signs) is not a configuration: "
    "the ValueError refusal is counted (refused_configuration:Snapping:width-not-finite); if such bounds are accepted, a NaN output is reported under "
    "its own signature C12:Snapping:infinite-width-accepted:nan (the open finding C12:Snapping:huge-finite-width:nan covers FINITE widths only)",
]
UNPROVED = [
    "double rounding: that the float fold (modulo step + reflections on doubles) stays in [lower, upper] and stops is "
    "observed on every run, the theorems fold_in_bounds / fold_terminates are over R; truncate, the rejection test, "
    "index selection and Snapping's final truncation are carrier-independent and hold for non-NaN doubles as they stand",
    "almost-sure termination of the rejection loops and of Bingham's sampler; unit norm of Bingham's output on doubles",
]
RULE = ("configurations: epsilon in {inf, 1, 0.1, 1e-4} u loguniform[1e-4,50], delta mostly 0, sensitivity in {0, 0.3, 1, 1e6} u "
        "loguniform[1e-3,1e6] (integers for the geometric family), domain = base in {0, 0.1, -1.3, 10, 1e6, -1e9, random} + width "
        "in {0, noise/10^3..10^6 (very narrow), ~noise, 10^3 noise, +-inf}; inputs at / inside / just outside / 10^3 widths / 1e9 / "
        "1e12 outside the bounds; scripted uniforms from {0, 1-2^-53, 1/2, 2^-53, 1/2 +- 1ulp, break-point +- ulps, random}; "
        "non-trivial = the raw noisy value left the domain (truncation / fold / rejection / clamp actually acted) or a "
        "degenerate parameter; distinct by (mechanism, domain kind, input kind, output). Selection / looping samplers: uniform "
        "extremes at every draw position (index draw and every Bernoulli coin, gamma = 0 and integer gammas), zero-measure candidates "
        "(top / all but one, utility gaps up to 1e6 sens/eps, eps = inf, sens = 0), epsilon in [500, 1.7e308] for every mechanism; "
        "LaplaceBoundedDomain with bounds and input of very different magnitudes and scripted noise landing on / a few ulps next to a bound; "
        "narrow numpy integer typed bounds (full type range, 50-99% of it, symmetric > half of it, a few units from a limit, zero width) for the "
        "geometric and Laplace families; Snapping on finite bounds with a non-finite width (must be refused)")

MECH = dp.mechanisms
INF = math.inf
ONE_M = 1.0 - 2.0 ** -53
TIMEOUT = 6.0


# ------------------------------------------------------------------------------------------- infrastructure
class Hang(Exception):
    pass


class DrawLimit(Exception):
    """private: a sampler consumed more uniforms than any terminating run plausibly needs"""


class PrefixRandom(seams.ScriptedSystemRandom):
    """scripted prefix (extremes at chosen draw positions), then a SplitMix64 continuation; raises DrawLimit after `limit`
    draws, so that a sampler that never stops becomes an observation"""

    def __init__(self, prefix=(), seed=0, limit=200000):
        super().__init__(uniforms=list(prefix))
        self.prefix = list(prefix)
        self.sm = gen.SplitMix64(int(seed))
        self.limit = limit
        self.n = 0

    def random(self):
        self.n += 1
        if self.n > self.limit:
            raise DrawLimit()
        return self.prefix[self.n - 1] if self.n <= len(self.prefix) else self.sm.u01()


def _alarm(signum, frame):
    raise Hang()


def run_timed(fn, seconds=TIMEOUT):
    """-> ('ok', value) | ('hang', None) | ('exc', exception).  A hang becomes an observation."""
    old = signal.signal(signal.SIGALRM, _alarm)
    signal.setitimer(signal.ITIMER_REAL, seconds)
    try:
        with warnings.catch_warnings():
            warnings.simplefilter("ignore")
            with np.errstate(all="ignore"):
                v = fn()
        signal.setitimer(signal.ITIMER_REAL, 0)
        return "ok", v
    except (Hang, DrawLimit):
        signal.setitimer(signal.ITIMER_REAL, 0)
        return "hang", None
    except seams.ScriptExhausted as e:
        signal.setitimer(signal.ITIMER_REAL, 0)
        return "exhausted", e
    except BaseException as e:  # noqa  (RecursionError, OverflowError, ...)
        signal.setitimer(signal.ITIMER_REAL, 0)
        if isinstance(e, (KeyboardInterrupt, SystemExit)):
            raise
        return "exc", e
    finally:
        signal.setitimer(signal.ITIMER_REAL, 0)
        signal.signal(signal.SIGALRM, old)


def unjson(x):
    from ..core import unjson_float as u
    if isinstance(x, list):
        return [unjson(y) for y in x]
    if isinstance(x, dict):
        return {k: unjson(v) for k, v in x.items()}
    return u(x)


def make_rng(spec):
    if "seed" in spec:
        return int(spec["seed"])
    return seams.ScriptedSystemRandom(uniforms=spec.get("uniforms", ()), bits=spec.get("bits", ()),
                                      cycle=spec.get("cycle", False))


REAL_MECHS = ["LaplaceTruncated", "LaplaceFolded", "LaplaceBoundedDomain", "Snapping"]
INT_MECHS = ["GeometricTruncated", "GeometricFolded"]


def _num(x):
    """bounds as the caller would write them: ints stay ints"""
    return x


def build(mech, cfg, rng):
    cls = getattr(MECH, mech)
    if cfg.get("np_types"):
        cfg = dict(cfg, lower=typed_num(cfg["lower"], cfg["np_types"].get("lower")), upper=typed_num(cfg["upper"], cfg["np_types"].get("upper")))
    if mech in ("LaplaceTruncated", "LaplaceFolded", "LaplaceBoundedDomain"):
        return cls(epsilon=cfg["eps"], delta=cfg.get("delta", 0.0), sensitivity=cfg["sens"], lower=cfg["lower"],
                   upper=cfg["upper"], random_state=rng)
    return cls(epsilon=cfg["eps"], sensitivity=cfg["sens"], lower=cfg["lower"], upper=cfg["upper"], random_state=rng)


# ------------------------------------------------------------------------------------------- references
def pynum(x):
    """numpy scalars as the Python number with the same value (float64 / integers convert exactly)"""
    if isinstance(x, np.floating):
        return float(x)
    if isinstance(x, np.integer):
        return int(x)
    return x


def exact_le(a, b):
    """a <= b decided EXACTLY (numpy compares a float with a Python int after rounding the int to a double)"""
    a, b = pynum(a), pynum(b)
    if any(isinstance(x, float) and x != x for x in (a, b)):
        return False
    ia = isinstance(a, float) and math.isinf(a)
    ib = isinstance(b, float) and math.isinf(b)
    if ia or ib:
        if ia and ib:
            return a <= b
        return a < 0 if ia else b > 0
    return Fraction(a) <= Fraction(b)


def exact_abs_diff(a, b):
    a, b = pynum(a), pynum(b)
    if any(isinstance(x, float) and not math.isfinite(x) for x in (a, b)):
        return Fraction(0) if a == b else Fraction(10) ** 400
    return abs(Fraction(a) - Fraction(b))


NP_TYPES = {"int64": np.int64, "int32": np.int32, "float32": np.float32, "float64": np.float64,
            "int8": np.int8, "uint8": np.uint8, "int16": np.int16, "uint16": np.uint16, "uint32": np.uint32}


def typed_num(x, t):
    return NP_TYPES[t](x) if t else x


def clamp(v, lo, hi):
    return min(max(v, lo), hi)


def ref_fold(v, lo, hi):
    """exact triangle-wave fold of v into [lo, hi]"""
    if lo == hi:
        return lo
    if lo == -INF and hi == INF:
        return v
    if lo == -INF:
        return v if v <= hi else 2 * hi - v
    if hi == INF:
        return v if v >= lo else 2 * lo - v
    F = Fraction
    w = F(hi) - F(lo)
    t = (F(v) - F(lo)) % (2 * w)
    r = F(lo) + (t if t <= w else 2 * w - t)
    return int(r) if r.denominator == 1 and isinstance(v, int) else float(r)


def spacing(*xs):
    m = max([abs(float(x)) for x in xs if math.isfinite(float(x))] + [1e-300])
    return float(np.spacing(m))


# ------------------------------------------------------------------------------------------- direct check (S)
def sig_prefix(mech):
    return {"LaplaceTruncated": "truncate", "LaplaceFolded": "fold", "LaplaceBoundedDomain": "bounded-domain",
            "Snapping": "snapping", "GeometricTruncated": "geometric-truncated", "GeometricFolded": "geometric-folded"}[mech]


HANGS = {}
MAX_HANGS = 3      # after this many observed hangs of one mechanism its remaining cases are skipped (each costs TIMEOUT)


def unrepresentable_int_bound_region(mech, cfg, out):
    """known region: a double-valued mechanism with a Python-int bound that is not exactly a double, and an output that misses the
    domain by at most one spacing of that bound (numpy compares / adds after rounding the int to a double)"""
    if mech not in REAL_MECHS or out is None or out != out:
        return False
    for b in (cfg["lower"], cfg["upper"]):
        if isinstance(b, int) and not isinstance(b, bool) and int(float(b)) != b:
            if exact_abs_diff(out, b) <= Fraction(float(np.spacing(float(abs(b))))):
                return True
    return False


import collections
INFO = collections.Counter()


def near_integer_bound_region(cfg, out):
    """known region: a bound that np.isclose accepts as the integer k but that lies on the INNER side of k (lower = k + d, upper = k - d,
    0 < d <= isclose tolerance): the integer k itself is outside the domain, and it is what the mechanism returns"""
    if not isinstance(out, (int, np.integer)):
        return False
    for b, inner in ((cfg["lower"], 1), (cfg["upper"], -1)):
        if isinstance(b, float) and math.isfinite(b) and b != round(b):
            k = round(b)
            if int(out) == k and (b - k) * inner > 0 and abs(b - k) <= 1e-8 + 1e-5 * abs(k):
                return True
    return False


def noise_free(eps, sens):
    """no noise: sensitivity 0, epsilon inf, or the quotient sensitivity / epsilon UNDERFLOWS to exactly 0.0 (the code's shortcuts test it)"""
    return sens == 0 or eps == INF or (eps > 0 and sens / eps == 0.0)


TINY_SENS = [5e-324, 1e-323, 4e-323, 1e-320, 1e-310, 2.2250738585072014e-308, 1e-305, 1e-300]


def gen_underflow_pair(r):
    """(epsilon, sensitivity) with a subnormal / tiny sensitivity and a moderate-to-huge epsilon: the quotient is exactly 0.0, or the
    smallest subnormal next to it"""
    sens = r.choice(TINY_SENS)
    m = r.u01()
    if m < 0.5:
        eps = r.choice([2.0, 10.0, 1e3, 1e5, 1e6, 1e100, 1e200, 1e300]) * (sens / 5e-324)     # quotient underflows to 0.0
        if not math.isfinite(eps):
            eps = 1e300
    elif m < 0.8:
        eps = sens / 5e-324 * r.choice([1.0, 0.75, 1.25])                                       # quotient = smallest subnormal (or 0)
    else:
        eps = r.choice([1.0, 1e-3, 50.0, 1e6])
    return float(eps), float(sens)


def snap_bound_huge(cfg, value=0.0):
    """Snapping's rescaling to sensitivity 1 overflows: the scaled bound (upper - lower) / 2 / sensitivity, or value / sensitivity or
    lower / sensitivity, is astronomically large (>= 5e306, or inf)"""
    if not cfg["sens"] > 0:
        return False
    with np.errstate(all="ignore"):
        return max(abs(float(value)), abs(cfg["lower"]), abs(cfg["upper"]), (cfg["upper"] - cfg["lower"]) / 2.0) / cfg["sens"] >= 5e306


def snap_width_overflows(cfg):
    """finite bounds whose WIDTH upper - lower is not a finite double (e.g. (-1e308, 1e308)): not a Snapping configuration (the noise is
    calibrated to the width); the constructor refuses it with ValueError"""
    lo, hi = pynum(cfg["lower"]), pynum(cfg["upper"])
    if not all(isinstance(x, (int, float)) and not isinstance(x, bool) and math.isfinite(x) for x in (lo, hi)):
        return False
    return not math.isfinite(float(hi) - float(lo))


def narrow_int_domain(cfg):
    """Python-int bounds closer together than one double spacing at their magnitude: the reflections of LaplaceFolded (double
    arithmetic) can never land inside"""
    lo, hi = cfg["lower"], cfg["upper"]
    return isinstance(lo, int) and isinstance(hi, int) and lo < hi and (hi - lo) < float(np.spacing(float(max(abs(lo), abs(hi)))))


def direct_one(mech, cfg, value, rngspec):
    if mech == "LaplaceFolded" and narrow_int_domain(cfg):
        if HANGS.get("LaplaceFolded:narrow", 0) >= 2 and not cfg.get("witness"):
            return None, None                # the region is known to hang: two observations per run are enough
    v, out = _direct_one(mech, cfg, value, rngspec)
    if v and v[0] == "C12:fold:hang" and mech == "LaplaceFolded" and narrow_int_domain(cfg):
        HANGS["LaplaceFolded:narrow"] = HANGS.get("LaplaceFolded:narrow", 0) + 1
        HANGS[mech] = max(0, HANGS.get(mech, 0) - 1)        # does not count against the mechanism's general hang budget
    if v and v[0].split(":")[-1] in ("out-of-range", "above-upper", "below-lower", "degenerate") and \
            unrepresentable_int_bound_region(mech, cfg, out):
        return ("C12:laplace-family:int-bound-not-a-double:off-by-rounding", v[1]), out
    if v and mech == "GeometricFolded" and v[0].endswith(":raises") and "rint" in v[1] and \
            any(isinstance(b, int) and abs(2 * b) >= 2 ** 63 for b in (cfg["lower"], cfg["upper"])):
        # _check_bounds (constructor, and again at randomise) refuses Python-int bounds with |2*bound| >= 2^63 with a TypeError:
        # a loud refusal of the configuration, not a C12 violation
        INFO["refused_configuration:GeometricFolded:int-bounds-beyond-int64"] += 1
        return None, None
    if v and mech == "GeometricFolded" and v[0].endswith(":raises") and "Bounds must be integer or half-integer" in v[1]:
        INFO["refused_configuration:GeometricFolded:not-a-half-integer"] += 1
        return None, None
    if v and mech == "Snapping" and v[0].endswith(":raises") and "ValueError" in v[1] and "Bounds must be finite" in v[1] and \
            snap_width_overflows(cfg):
        # finite bounds whose width overflows are refused loudly (constructor, and again at randomise): not a configuration
        INFO["refused_configuration:Snapping:width-not-finite"] += 1
        return None, None
    if v and mech == "GeometricFolded" and v[0].endswith(":out-of-range") and near_integer_bound_region(cfg, out):
        return ("C12:geometric-folded:near-integer-bound:out-of-range", v[1]), out
    if v and mech == "LaplaceFolded" and v[0] == "C12:fold:hang" and narrow_int_domain(cfg):
        return ("C12:LaplaceFolded:int-domain-without-doubles:hang", v[1]), out
    return v, out


def _direct_one(mech, cfg, value, rngspec):
    """the property on the real code for one call; returns (signature, what) or None, plus the output"""
    lo, hi = cfg["lower"], cfg["upper"]
    holder = {}
    if HANGS.get(mech, 0) >= MAX_HANGS:
        return None, None

    def call():
        m = build(mech, cfg, make_rng(rngspec))
        holder["m"] = m
        return m.randomise(typed_num(value, (cfg.get("np_types") or {}).get("value")))
    kind, out = run_timed(call, 2.0 if (mech == "LaplaceFolded" and narrow_int_domain(cfg)) else TIMEOUT)
    desc = (f"[numpy-scalar arguments {cfg['np_types']}] " if cfg.get("np_types") else "") + f"{mech}(epsilon={cfg['eps']!r}, delta={cfg.get('delta', 0.0)!r}, sensitivity={cfg['sens']!r}, lower={lo!r}, " \
           f"upper={hi!r}, rng={rngspec if 'seed' in rngspec else 'scripted'}).randomise({value!r})"
    p = sig_prefix(mech)
    if kind == "exhausted":
        return None, None
    if kind == "hang":
        HANGS[mech] = HANGS.get(mech, 0) + 1
        m = holder.get("m")
        if mech == "LaplaceBoundedDomain":
            sc = getattr(m, "_scale", None)
            if sc is not None and sc != sc:
                return ("C12:bounded-domain:nan-scale", f"{desc} did not return within {TIMEOUT}s: _find_scale() is NaN"), None
            return ("C12:bounded-domain:hang", f"{desc} did not return within {TIMEOUT}s (scale {sc!r})"), None
        if mech in ("LaplaceFolded", "GeometricFolded"):
            return ("C12:fold:hang", f"{desc} did not return within {TIMEOUT}s"), None
        return (f"C12:{p}:hang", f"{desc} did not return within {TIMEOUT}s"), None
    if kind == "exc":
        e = out
        if isinstance(e, RecursionError):
            return ("C12:fold:recursion", f"{desc} raised RecursionError"), None
        if isinstance(e, OverflowError) or (mech in INT_MECHS and isinstance(e, ValueError) and "NaN to integer" in str(e)):
            # int(inf) / int(nan): infinite or undefined noise reached the integer conversion
            return ("C12:geometric:overflow" if mech in INT_MECHS else f"C12:{p}:overflow",
                    f"{desc} raised {type(e).__name__}: {e}"), None
        return (f"C12:{p}:raises", f"{desc} raised {type(e).__name__}: {str(e)[:160]}"), None
    # a value was returned
    if mech in INT_MECHS:
        if not (isinstance(out, (int, np.integer)) and not isinstance(out, bool)):
            return (f"C12:{p}:not-int", f"{desc} returned {out!r} of type {type(out).__name__}"), out
    else:
        if not isinstance(out, numbers.Real):
            return (f"C12:{p}:type", f"{desc} returned {out!r} of type {type(out).__name__}"), out
        if out != out and mech == "Snapping" and snap_width_overflows(cfg):
            # NOT the known region below: there the width is still a finite double; here upper - lower = inf and the configuration
            # should never have been accepted
            return ("C12:Snapping:infinite-width-accepted:nan",
                    f"{desc} returned NaN: the bounds are finite but their width upper - lower overflows to inf; such a domain must be "
                    f"refused with ValueError (the noise is calibrated to the width)"), out
        if out != out and mech == "Snapping" and snap_bound_huge(cfg, value):
            return ("C12:Snapping:huge-finite-width:nan",
                    f"{desc} returned NaN (effective epsilon 0: scaled bound (upper-lower)/2/sensitivity >= 5e306)"), out
        if out != out:
            return (f"C12:{p}:nan", f"{desc} returned NaN"), out
    big = cfg.get("dk") == "magnitude"
    if mech == "Snapping" and cfg["sens"] == 0 and exact_abs_diff(out, clamp(value, lo, hi)) != 0 and \
            not (big and float(out) == float(clamp(value, lo, hi))):
        return ("C12:snapping:sens0", f"{desc} returned {out!r}, expected the input truncated to the bounds {clamp(value, lo, hi)!r}"), out
    if not (exact_le(lo, out) and exact_le(out, hi)):
        if mech == "Snapping":
            return ("C12:snapping:above-upper" if not exact_le(out, hi) else "C12:snapping:below-lower",
                    f"{desc} returned {out!r} outside [{lo!r}, {hi!r}]"), out
        return (f"C12:{p}:out-of-range", f"{desc} returned {out!r} outside [{lo!r}, {hi!r}] (exact comparison)"), out
    # degenerate parameters: the input itself mapped into the domain
    if noise_free(cfg["eps"], cfg["sens"]) and cfg.get("delta", 0.0) == 0:
        value_, lo_, hi_ = pynum(value), pynum(lo), pynum(hi)
        float_typed = any(isinstance(x, float) and math.isfinite(x) for x in (lo_, hi_))
        if mech in ("LaplaceFolded", "GeometricFolded"):
            exp = ref_fold(value_, lo_, hi_)
            # integer mechanism with integer (or infinite) bounds: EXACT; bounds given as doubles: double arithmetic
            tol = (8 * spacing(value_, lo_, hi_) if float_typed and big else 0) if mech == "GeometricFolded" else 8 * spacing(value_, lo_, hi_)
            if cfg.get("dk") == "nearhalf":
                # the exact reflection about a NEAR-half-integer bound is not an integer: the integer output is its rounding
                # (the deviation grows with the number of reflections): the output must be the integer nearest to the exact image
                tol = 0.499
        else:
            exp = clamp(value_, lo_, hi_)
            tol = 0
            if mech == "Snapping" and cfg["sens"] != 0:
                tol = 1e-9 * (abs(lo) + abs(hi) + 1e-300)      # scaled to sensitivity 1 and back: rounding only
        if mech not in INT_MECHS and big and isinstance(exp, int) and tol == 0:
            ok_ = float(out) == float(exp)           # a float mechanism returns the double nearest to the exact image
        else:
            ok_ = exact_abs_diff(out, exp) <= Fraction(tol)
        if not ok_:
            if mech == "Snapping" and cfg["sens"] == 0:
                return ("C12:snapping:sens0", f"{desc} returned {out!r}, expected the input truncated to the bounds {exp!r}"), out
            return (f"C12:{p}:degenerate", f"{desc} returned {out!r}, expected the input mapped into the domain {exp!r}"), out
    return None, out


# ------------------------------------------------------------------------------------------- generators
def gen_eps(r):
    return r.choice([INF, 1.0, 0.1, 1e-4, r.loguniform(1e-4, 50.0), r.loguniform(1e-4, 50.0), r.loguniform(1e-2, 5.0)])


def gen_real_cfg(r, mech):
    eps = gen_eps(r)
    sens = r.choice([0.0, 1.0, 0.3, 1e6, r.loguniform(1e-3, 1e6), r.loguniform(1e-3, 1e2), r.loguniform(1e-3, 1e2)])
    delta = 0.0
    if mech != "Snapping" and r.chance(0.25):
        delta = r.choice([1e-6, 0.1, 0.5, 0.9])
    noise = sens / eps if eps != INF else 0.0
    base = r.choice([0.0, 0.1, -1.3, 10.0, 1e6, -1e9, r.uniform(-100, 100), r.uniform(-100, 100)])
    m = r.u01()
    nz = noise if noise > 0 else 1.0
    if m < 0.12:
        dk, width = "zero", 0.0
    elif m < 0.40:
        dk, width = "narrow", nz / r.loguniform(1e3, 1e6)
    elif m < 0.65:
        dk, width = "moderate", nz * r.loguniform(0.1, 10.0)
    elif m < 0.80:
        dk, width = "wide", nz * r.loguniform(1e2, 1e4)
    elif m < 0.87:
        dk, width = "unit", r.choice([1.0, 0.6, 7.3, 1e-3, 1e-9])
    else:
        dk, width = r.choice(["inf-upper", "inf-lower", "inf-both"]), INF
    if mech == "Snapping" and width == INF:
        dk, width = "moderate", nz * r.loguniform(0.1, 10.0)
    if dk == "inf-upper":
        lo, hi = base, INF
    elif dk == "inf-lower":
        lo, hi = -INF, base
    elif dk == "inf-both":
        lo, hi = -INF, INF
    else:
        lo, hi = base, base + width
        if hi == lo and dk != "zero":
            dk = "zero"
    cfg = {"eps": eps, "delta": delta, "sens": sens, "lower": lo, "upper": hi, "dk": dk}
    return cfg


def gen_real_value(r, cfg):
    lo, hi = cfg["lower"], cfg["upper"]
    flo = lo if lo > -INF else (hi if hi < INF else 0.0)
    fhi = hi if hi < INF else flo
    w = (fhi - flo) or 1.0
    m = r.u01()
    if m < 0.2:
        return "inside", r.uniform(flo, fhi)
    if m < 0.35:
        return "at", r.choice([flo, fhi])
    if m < 0.5:
        return "just-outside", r.choice([flo - w * r.loguniform(1e-6, 2.5), fhi + w * r.loguniform(1e-6, 2.5),
                                         gen.offset_ulps(flo, -1), gen.offset_ulps(fhi, 1)])
    if m < 0.7:
        return "widths-outside", r.choice([flo - w * r.loguniform(2.0, 1e4), fhi + w * r.loguniform(2.0, 1e4)])
    if m < 0.85:
        return "far", r.choice([flo - 5.0, fhi + 5.0, flo - 1e3, fhi + 1e3])
    return "very-far", r.choice([flo - 1e9, fhi + 1e9, fhi + 1e12, flo - 1e12])


def gen_uniform(r):
    m = r.u01()
    if m < 0.10:
        return 0.0
    if m < 0.20:
        return ONE_M
    if m < 0.27:
        return 0.5
    if m < 0.32:
        return 2.0 ** -53
    if m < 0.40:
        return gen.offset_ulps(0.5, r.choice([-2, -1, 1, 2]))
    if m < 0.45:
        return 1.0 - r.loguniform(1e-16, 1e-3)
    if m < 0.50:
        return r.loguniform(1e-16, 1e-3)
    return r.u01()


def gen_int_cfg(r, mech):
    eps = gen_eps(r)
    sens = r.choice([0, 1, 1, 1, 2, 1000, 10 ** 6])
    lo = r.choice([0, -5, 10, 10 ** 9, r.randint(-100, 100), r.randint(-100, 100)])
    m = r.u01()
    if m < 0.15:
        dk, w = "zero", 0
    elif m < 0.45:
        dk, w = "narrow", r.choice([1, 2, 3])
    elif m < 0.75:
        dk, w = "moderate", r.randint(4, 60)
    elif m < 0.85:
        dk, w = "wide", r.choice([1000, 10 ** 6])
    else:
        dk, w = r.choice(["inf-upper", "inf-lower", "inf-both"]), INF
    if dk == "inf-upper":
        lower, upper = lo, INF
    elif dk == "inf-lower":
        lower, upper = -INF, lo
    elif dk == "inf-both":
        lower, upper = -INF, INF
    else:
        lower, upper = lo, lo + w
    if mech == "GeometricFolded" and r.chance(0.5):
        # half-integer bounds (floats); a domain must keep an integer inside
        if lower != -INF and r.chance(0.6):
            lower = lower + r.choice([0.5, -0.5])
        if upper != INF and r.chance(0.6):
            upper = upper + r.choice([0.5, -0.5])
        if lower > upper:
            lower, upper = upper, lower
        if lower == upper and lower != int(lower):
            upper = lower + 0.5
        if r.chance(0.3) and isinstance(lower, int):
            lower = float(lower)
    return {"eps": eps, "sens": sens, "lower": lower, "upper": upper, "dk": dk}


def gen_int_value(r, cfg):
    lo, hi = cfg["lower"], cfg["upper"]
    flo = math.ceil(lo) if lo > -INF else (math.floor(hi) if hi < INF else 0)
    fhi = math.floor(hi) if hi < INF else flo
    w = max(fhi - flo, 1)
    m = r.u01()
    if m < 0.25:
        return "inside", r.randint(min(flo, fhi), max(flo, fhi))
    if m < 0.4:
        return "at", r.choice([flo, fhi])
    if m < 0.55:
        return "just-outside", r.choice([flo - 1, fhi + 1, flo - 2, fhi + 2])
    if m < 0.75:
        return "widths-outside", r.choice([flo - w * r.randint(2, 5000), fhi + w * r.randint(2, 5000)])
    if m < 0.9:
        return "far", r.choice([flo - 5, fhi + 5, flo - 1000, fhi + 1000])
    return "very-far", r.choice([flo - 10 ** 9, fhi + 10 ** 9, fhi + 10 ** 12])


def geom_breakpoint_uniform(r, cfg):
    """a uniform adjacent to a break-point of u -> floor(log(|x|)/scale)"""
    if cfg["sens"] == 0 or cfg["eps"] == INF:
        return gen_uniform(r)
    s = -cfg["eps"] / cfg["sens"]
    k = r.randint(0, 6)
    x = math.exp(s * k) / (1 + math.exp(s))
    u = 0.5 + r.choice([-1, 1]) * x
    if not 0 <= u < 1:
        return gen_uniform(r)
    return gen.offset_ulps(u, r.randint(-3, 3))


# ------------------------------------------------------------------------------------------- correspondence (K)
def fl(x):
    return str(f2b(float(x)))


def k_laplace(ctx, r, mech, n, lines, todo):
    for _ in range(n):
        cfg = gen_real_cfg(r, mech)
        vk, value = gen_real_value(r, cfg)
        us = [gen_uniform(r) for _ in range(4)]
        spec = {"uniforms": us}
        v, out = direct_one(mech, cfg, value, spec)
        if v:
            ctx.violation(v[0], v[1], {"kind": "direct", "mech": mech, "cfg": cfg, "value": value, "rng": spec})
        op = "laptr" if mech == "LaplaceTruncated" else "lapfold"
        lines.append(" ".join([op, fl(cfg["lower"]), fl(cfg["upper"]), fl(value), fl(cfg["eps"]), fl(cfg["delta"]), fl(cfg["sens"])]
                              + [fl(u) for u in us]))
        todo.append(("laplace", mech, cfg, value, spec, out, vk))


def cmp_laplace(ctx, item, line):
    _, mech, cfg, value, spec, out, vk = item
    w = line.split()
    scale = (cfg["sens"] / (cfg["eps"] - math.log(1 - cfg["delta"]))) if cfg["eps"] != INF else 0.0
    tol = 1e-12 * (abs(value) + 80 * scale + sum(abs(b) for b in (cfg["lower"], cfg["upper"]) if math.isfinite(b))) + 1e-300
    if out is None:
        if w[0] == "hang":
            return True
        ctx.disagree("randomise." + mech, {"cfg": cfg, "value": value, "rng": spec}, line, "no value")
        return False
    if w[0] != "ok":
        ctx.disagree("randomise." + mech, {"cfg": cfg, "value": value, "rng": spec}, line, out)
        return False
    mo = b2f(int(w[1]))
    noisy = b2f(int(w[-1]))
    if not abs(mo - float(out)) <= tol:
        ctx.disagree("randomise." + mech, {"cfg": cfg, "value": value, "rng": spec}, mo, out)
        return False
    moved = not (cfg["lower"] <= noisy <= cfg["upper"])
    ctx.case((mech, cfg["dk"], vk, f2b(float(out))) if moved or cfg["sens"] == 0 or cfg["eps"] == INF else None)
    return True


def k_bounded_domain(ctx, r, n, lines, todo):
    mech = "LaplaceBoundedDomain"
    for _ in range(n):
        cfg = gen_real_cfg(r, mech)
        vk, value = gen_real_value(r, cfg)
        us = [gen_uniform(r) if r.chance(0.3) else r.u01() for _ in range(4 * 31)]
        spec = {"uniforms": us}
        holder = {}

        def call():
            rng = make_rng(spec)
            m = build(mech, cfg, rng)
            holder["rng"], holder["m"] = rng, m
            return m.randomise(value)
        if HANGS.get(mech, 0) >= MAX_HANGS:
            continue
        kind, out = run_timed(call, 3.0)
        if kind in ("hang", "exc"):
            v, _ = direct_one(mech, cfg, value, spec)
            if v:
                ctx.violation(v[0], v[1], {"kind": "direct", "mech": mech, "cfg": cfg, "value": value, "rng": spec})
            continue
        scale = holder["m"]._scale
        used = holder["rng"].n_uniform
        if kind == "ok" and not (cfg["lower"] <= out <= cfg["upper"]):
            ctx.violation("C12:bounded-domain:out-of-range", f"{mech} {cfg} randomise({value!r}) under scripted uniforms returned {out!r}",
                          {"kind": "direct", "mech": mech, "cfg": cfg, "value": value, "rng": spec})
        lines.append(" ".join(["lapbd", fl(cfg["lower"]), fl(cfg["upper"]), fl(value), fl(scale if scale is not None else 0.0)]
                              + [fl(u) for u in us]))
        todo.append(("bd", mech, cfg, value, spec, (kind, out, used, scale), vk))


def _bd_noisy(value, scale, us, used, lo, hi):
    """the noisy draws the implementation's formula gives for the consumed uniforms (to recognise boundary cases)"""
    v = max(min(value, hi), lo)
    outs = []
    pos, s = 0, 1
    while pos + 4 * s <= used:
        b = np.array(us[pos:pos + 4 * s]).reshape(4, -1)
        with np.errstate(all="ignore"):
            outs += list(v + scale * (np.log(1 - b[0]) * np.cos(np.pi * b[1]) + np.log(1 - b[2]) * np.cos(np.pi * b[3])))
        pos += 4 * s
        s = min(100000, 2 * s)
    return outs


def cmp_bd(ctx, item, line):
    _, mech, cfg, value, spec, (kind, out, used, scale), vk = item
    w = line.split()
    lo, hi = cfg["lower"], cfg["upper"]
    inp = {"cfg": cfg, "value": value, "rng": {"uniforms": spec["uniforms"][:12] + ["..."]}}
    sc = scale if scale is not None else 0.0
    tol = 1e-12 * (abs(value) + 80 * abs(sc) + sum(abs(b) for b in (lo, hi) if math.isfinite(b))) + 1e-300
    agree = False
    if kind == "exhausted":
        agree = w[0] == "hang"
    elif w[0] == "ok":
        agree = abs(b2f(int(w[1])) - float(out)) <= tol and int(w[2]) == used
    if not agree:
        noisy = _bd_noisy(value, sc, spec["uniforms"], max(used, 4), lo, hi)
        if any(abs(x - b) <= 10 * tol for x in noisy for b in (lo, hi) if math.isfinite(b)):
            ctx.boundary_skipped += 1
            return True
        ctx.disagree("randomise." + mech, inp, line, [kind, out, used])
        return False
    ctx.case((mech, cfg["dk"], vk, used) if used > 4 or lo == hi or cfg["sens"] == 0 or cfg["eps"] == INF else None)
    return True


def k_geometric(ctx, r, mech, n, lines, todo):
    for _ in range(n):
        cfg = gen_int_cfg(r, mech)
        if mech == "GeometricTruncated" and (cfg["lower"] != int(cfg["lower"]) if math.isfinite(cfg["lower"]) else False):
            continue
        vk, value = gen_int_value(r, cfg)
        us = [geom_breakpoint_uniform(r, cfg) if r.chance(0.4) else gen_uniform(r) for _ in range(3)] + [r.uniform(0.01, 0.49)]
        spec = {"uniforms": us}
        v, out = direct_one(mech, cfg, value, spec)
        if v:
            ctx.violation(v[0], v[1], {"kind": "direct", "mech": mech, "cfg": cfg, "value": value, "rng": spec})
        op = "geomtr" if mech == "GeometricTruncated" else "geomfold"
        lines.append(" ".join([op, fl(cfg["lower"]), fl(cfg["upper"]), fl(cfg["eps"]), fl(cfg["sens"]), str(int(value))]
                              + [fl(u) for u in us]))
        todo.append(("geom", mech, cfg, value, spec, out, vk))


def cmp_geom(ctx, item, line):
    _, mech, cfg, value, spec, out, vk = item
    w = line.split()
    inp = {"cfg": cfg, "value": value, "rng": spec}
    if out is None or w[0] != "ok":
        if out is None and w[0] != "ok":
            return True
        ctx.disagree("randomise." + mech, inp, line, out)
        return False
    mo = int(w[1])
    if mo != int(out):
        # a uniform within rounding of a break-point of floor(log|x| / scale)?
        if cfg["sens"] != 0 and cfg["eps"] != INF and abs(mo - int(out)) == 1:
            # floor(log|x| / scale) is a step function of the uniform; exp/log differ by an ulp between numpy and Lean, and
            # for |x| close to 1 and a tiny scale the quotient is ill-conditioned: evaluate it over a +-4 ulp neighbourhood
            s = -cfg["eps"] / cfg["sens"]
            for u in spec["uniforms"]:
                c = u - 0.5
                if c == 0:
                    continue
                ts = []
                for ke in (-2, 0, 2):
                    x = abs(c * (1 + gen.offset_ulps(math.exp(s), ke)))
                    for kx in (-4, 0, 4):
                        xx = gen.offset_ulps(x, kx)
                        if xx > 0:
                            for kl in (-2, 0, 2):
                                ts.append(gen.offset_ulps(math.log(xx), kl) / s)
                if ts and math.floor(min(ts) - 1e-9 * max(1.0, abs(min(ts)))) != math.floor(max(ts) + 1e-9 * max(1.0, abs(max(ts)))):
                    ctx.boundary_skipped += 1
                    return True
                break
        ctx.disagree("randomise." + mech, inp, mo, out)
        return False
    raw_inside = cfg["lower"] <= value <= cfg["upper"] and int(out) != value
    ctx.case((mech, cfg["dk"], vk, int(out)) if not raw_inside or cfg["sens"] == 0 or cfg["eps"] == INF else (mech, "noise", int(out) - value))
    return True


def gen_snap_bits(r):
    bit = r.randint(0, 1)
    mant = r.choice([0, 2 ** 52 - 1, r.next() % 2 ** 52, r.next() % 2 ** 52])
    words = []
    while r.chance(0.08) and len(words) < 3:
        words.append(0)
    words.append(r.choice([1, 2 ** 32 - 1, 2 ** 31, r.next() % 2 ** 32 or 1, r.next() % 2 ** 32 or 1, r.next() % 2 ** 16 or 1]))
    return bit, mant, words


def k_snapping(ctx, r, n, lines, todo):
    mech = "Snapping"
    for _ in range(n):
        cfg = gen_real_cfg(r, mech)
        vk, value = gen_real_value(r, cfg)
        bit, mant, words = gen_snap_bits(r)
        spec = {"bits": [bit, mant] + words}
        v, out = direct_one(mech, cfg, value, spec)
        if v:
            ctx.violation(v[0], v[1], {"kind": "direct", "mech": mech, "cfg": cfg, "value": value, "rng": spec})
        lines.append(" ".join(["snap", fl(cfg["eps"]), fl(cfg["sens"]), fl(cfg["lower"]), fl(cfg["upper"]), fl(value), str(bit), str(mant)]
                              + [str(x) for x in words]))
        todo.append(("snap", mech, cfg, value, spec, out, vk))


def cmp_snap(ctx, item, line):
    _, mech, cfg, value, spec, out, vk = item
    w = line.split()
    inp = {"cfg": cfg, "value": value, "rng": spec}
    if out is None or w[0] != "ok":
        ctx.disagree("randomise." + mech, inp, line, out)
        return False
    mo, frac, lam = b2f(int(w[1])), b2f(int(w[3])), b2f(int(w[4]))
    lo, hi, sens = cfg["lower"], cfg["upper"], cfg["sens"]
    tol = 1e-11 * (abs(lo) + abs(hi) + 1e-300)
    d = abs(mo - float(out))
    if d > tol:
        # one grid step apart with the pre-rounding value within rounding of a tie (log differs by an ulp)?
        if sens > 0 and lam == lam and math.isfinite(lam) and frac == frac and abs(frac - 0.5) <= 1e-9 and d <= lam * sens * (1 + 1e-9) + tol:
            ctx.boundary_skipped += 1
            return True
        ctx.disagree("randomise." + mech, inp, mo, out)
        return False
    ctx.case((mech, cfg["dk"], vk, f2b(float(out))))
    return True


def k_selection(ctx, r, n, lines, todo):
    for _ in range(n):
        m = r.u01()
        if m < 0.45:
            k = r.randint(1, 7)
            util = [r.choice([0.0, 1.0, r.uniform(0, 10), r.uniform(0, 10)]) for _ in range(k)]
            measure = [r.choice([1.0, 0.0, r.uniform(0, 3)]) for _ in range(k)] if r.chance(0.3) else None
            if measure is not None and not any(ms > 0 for ms in measure):
                measure[0] = 1.0
            eps, sens = gen_eps(r), r.choice([0.0, 1.0, r.loguniform(1e-3, 1e3)])
            u = gen_uniform(r)
            try:
                mech = MECH.Exponential(epsilon=eps, sensitivity=sens, utility=util, measure=measure, monotonic=r.chance(0.3),
                                        random_state=seams.ScriptedSystemRandom(uniforms=[u]))
            except Exception:  # noqa
                continue
            cum = [float(x) for x in mech._probabilities]
            if any(x != x for x in cum):
                continue
            kind, out = run_timed(lambda: mech.randomise())
            close = bool(np.isclose(u, cum[-1]))
            lines.append(" ".join(["expsel", fl(u), "1" if close else "0"] + [fl(x) for x in cum]))
            todo.append(("expsel", (eps, sens, util, measure, u), kind, out if kind == "ok" else repr(out)))
        elif m < 0.8:
            k = r.randint(2, 6)
            names = ["v%d" % i for i in range(k)]
            ul = [(names[i], names[j], r.choice([1.0, 2.0, r.uniform(0.1, 5)])) for i in range(k) for j in range(i + 1, k)]
            eps = gen_eps(r)
            u = gen_uniform(r)
            value = r.choice(names)
            mech = MECH.ExponentialCategorical(epsilon=eps, utility_list=ul, random_state=seams.ScriptedSystemRandom(uniforms=[u]))
            keys = list(mech._normalising_constant.keys())
            probs = [float(mech._get_prob(value, t)) for t in keys]
            t = u * mech._normalising_constant[value]
            kind, out = run_timed(lambda: mech.randomise(value))
            lines.append(" ".join(["catsel", fl(t)] + [fl(x) for x in probs]))
            todo.append(("catsel", (eps, ul, value, u), kind, keys.index(out) if kind == "ok" and out in keys else repr(out)))
        else:
            eps = r.choice([INF, 0.0 + r.loguniform(1e-4, 30.0), 1.0, 0.1])
            u = gen_uniform(r)
            value = r.choice(["a", "b"])
            mech = MECH.Binary(epsilon=eps, value0="a", value1="b", random_state=seams.ScriptedSystemRandom(uniforms=[u]))
            kind, out = run_timed(lambda: mech.randomise(value))
            lines.append(" ".join(["binary", fl(eps), fl(0.0), fl(u), "0" if value == "a" else "1"]))
            todo.append(("binary", (eps, value, u), kind, {"a": 0, "b": 1}.get(out, repr(out)) if kind == "ok" else repr(out)))


def k_bernoulli(ctx, r, n, lines, todo):
    """bernoulli_neg_exp itself under scripted streams (extremes at every position) vs the model's coin, exact"""
    from diffprivlib.mechanisms.base import bernoulli_neg_exp
    for _ in range(n):
        g = r.choice([0.0, 0.0, 1.0, 2.0, 3.0, 0.5, 2.0 ** -53, r.uniform(0, 5), r.uniform(0, 1), 7.0, 1e-300])
        us = gen_prefix(r, r.randint(1, 8)) + [r.u01() for _ in range(120)]
        rng = seams.ScriptedSystemRandom(uniforms=us)
        kind, out = run_timed(lambda: bernoulli_neg_exp(g, rng))
        lines.append(" ".join(["bern", fl(g)] + [fl(u) for u in us]))
        todo.append(("bern", (g, us[:10]), kind, (int(out), rng.n_uniform) if kind == "ok" else repr(out)))


def cmp_bern(ctx, item, line):
    _, inp, kind, out = item
    w = line.split()
    if kind == "exhausted":
        ok = w[0] == "hang"
    else:
        ok = kind == "ok" and w[0] == "ok" and (int(w[1]), int(w[2])) == out
    if not ok:
        ctx.disagree("bernoulli_neg_exp", inp, line, [kind, out])
        return False
    ctx.case(("bern", inp[0], out if kind == "ok" else None))
    return True


def cmp_selection(ctx, item, line):
    unit, inp, kind, out = item
    w = line.split()
    if unit == "binary":
        eps, value, u = inp
        e = math.exp(eps) if eps < 700 else INF
        if math.isfinite(e) and abs(u * (e + 1) - e) <= 1e-12 * (e + 1):
            ctx.boundary_skipped += 1
            return True
    if kind != "ok":
        ok = (w[0] == "runtime" and "RuntimeError" in str(out))
    else:
        ok = w[0] == "ok" and int(w[1]) == out
    if not ok:
        ctx.disagree("randomise." + unit, inp, line, [kind, out])
        return False
    ctx.case((unit, out, inp[-1] in (0.0, ONE_M, 0.5)))
    return True


FOLD_FIXED = [
    (0.0, 2.0, 7.5), (0.0, 1.0, -0.25), (3.0, 3.0, 1.0), (0.0, 1e-3, 987.654321), (-1.0, 1.0, 1e12), (1e6, 1e6 + 1e-9, 0.0),
    (0.0, INF, -5.0), (-INF, 0.0, 5.0), (-INF, INF, 5.0), (0.0, 1.0, 3.0), (0.0, 1.0, -2.0), (0.0, 1.0, 3.0000000000000004),
    (0.5, 2.5, -10.0), (0.1, 0.7, 1e9), (-1e9, -1e9 + 1e-6, 1e12),
]


def k_fold_truncate(ctx, r, n, lines, todo):
    """_fold / _truncate themselves (through a LaplaceFolded / LaplaceTruncated instance), exact"""
    cases = list(FOLD_FIXED)
    for _ in range(n):
        cfg = gen_real_cfg(r, "LaplaceFolded")
        _, v = gen_real_value(r, cfg)
        cases.append((cfg["lower"], cfg["upper"], v))
    for lo, hi, v in cases:
        mf = MECH.LaplaceFolded(epsilon=1.0, sensitivity=1.0, lower=lo, upper=hi)
        kind, out = run_timed(lambda: (mf._fold(v), mf._truncate(v)))
        if kind != "ok":
            sig = "C12:fold:recursion" if isinstance(out, RecursionError) else ("C12:fold:hang" if kind == "hang" else "C12:fold:raises")
            ctx.violation(sig, f"_fold({v!r}) with bounds [{lo!r}, {hi!r}]: {kind} {type(out).__name__ if out is not None else ''}",
                          {"kind": "fold", "lower": lo, "upper": hi, "value": v})
            continue
        f, t = out
        for name, val, sig in (("_fold", f, "C12:fold:out-of-range"), ("_truncate", t, "C12:truncate:out-of-range")):
            if not lo <= val <= hi:
                ctx.violation(sig, f"{name}({v!r}) with bounds [{lo!r}, {hi!r}] returned {val!r}",
                              {"kind": "fold", "lower": lo, "upper": hi, "value": v})
        if lo <= v <= hi and (f != v or t != v):
            ctx.violation("C12:fold:not-identity", f"in-domain value {v!r} moved by _fold/_truncate to {f!r}/{t!r} (bounds [{lo!r}, {hi!r}])",
                          {"kind": "fold", "lower": lo, "upper": hi, "value": v})
        exp = ref_fold(v, lo, hi)
        if not abs(f - exp) <= 8 * spacing(v, lo, hi):
            ctx.violation("C12:fold:wrong-image", f"_fold({v!r}) with bounds [{lo!r}, {hi!r}] returned {f!r}; the reflection image is {exp!r}",
                          {"kind": "fold", "lower": lo, "upper": hi, "value": v})
        lines.append(" ".join(["fold", fl(lo), fl(hi), fl(v)]))
        todo.append(("fold", (lo, hi, v), float(f)))
        lines.append(" ".join(["trunc", fl(lo), fl(hi), fl(v)]))
        todo.append(("trunc", (lo, hi, v), float(t)))
        if math.isfinite(lo) and math.isfinite(hi) and hi > lo:
            x, y = v - lo, 2 * (hi - lo)
            lines.append(" ".join(["fmod", fl(x), fl(y)]))
            todo.append(("fmod", (x, y), float(np.float64(x) % np.float64(y)) if math.isfinite(x) else float("nan")))


def cmp_exact(ctx, item, line):
    unit, inp, out = item
    w = line.split()
    if w[0] != "ok":
        ctx.disagree(unit, inp, line, out)
        return False
    mo = b2f(int(w[1]))
    if not (mo == out or (mo != mo and out != out)):
        ctx.disagree(unit, inp, mo, out)
        return False
    ctx.case((unit, f2b(out)) if unit != "fmod" and not (inp[0] <= inp[2] <= inp[1]) else None)
    return True


# ------------------------------------------------------------------------------------------- direct sweeps (S)
FIXED_DIRECT_LANDING = [
    ("LaplaceBoundedDomain", {"eps": 1.0, "sens": 1e6, "lower": -2e6, "upper": 0.3}, -979654.2425746154,
     {"uniforms": [0.5, ONE_M, 0.0, 0.0] + [0.25] * 40}),
]
FIXED_DIRECT = [
    # regression witnesses of the repaired defects (known_findings.json, fixed)
    ("LaplaceFolded", {"eps": 1.0, "sens": 1.0, "lower": 3.0, "upper": 3.0}, 1.0, {"seed": 0}),                   # 8f34e8d
    ("LaplaceFolded", {"eps": 1e-3, "sens": 1.0, "lower": 0.0, "upper": 1e-3}, 0.0, {"seed": 1}),               # 8f34e8d
    ("GeometricFolded", {"eps": 1e-3, "sens": 1, "lower": 0, "upper": 1}, 0, {"seed": 1}),
    ("GeometricTruncated", {"eps": 1.0, "sens": 1, "lower": 0, "upper": 10}, 5, {"uniforms": [0.5, 0.25]}),      # f985502
    ("GeometricFolded", {"eps": 1.0, "sens": 1, "lower": 0, "upper": 10}, 5, {"uniforms": [0.5, 0.5, 0.75]}),
    ("Snapping", {"eps": 1.0, "sens": 0.0, "lower": 10.0, "upper": 20.0}, 15.0, {"seed": 0}),                     # 78defe3
    ("LaplaceBoundedDomain", {"eps": 1.0, "sens": 1.0, "lower": 1.0, "upper": 1.0}, 1.0, {"seed": 0}),          # f1e5942
    ("Snapping", {"eps": INF, "sens": 0.0017046049769659827, "lower": -1.3, "upper": 6.0}, 11.0, {"seed": 0}),   # cd9e96d
    ("Snapping", {"eps": 0.1, "sens": 0.5631264004512648, "lower": 0.1, "upper": 0.7}, 0.7, {"seed": 5}),
    ("LaplaceBoundedDomain", {"eps": 1.0, "sens": 1.0, "lower": 0.0, "upper": 0.1}, 0.05, {"seed": 0}),         # cc072b3
    ("LaplaceBoundedDomain", {"eps": 1.0, "delta": 0.9, "sens": 1.0, "lower": 0.0, "upper": 0.6}, 0.3, {"seed": 0}),
    ("LaplaceBoundedDomain", {"eps": 0.01, "sens": 1.0, "lower": 0.0, "upper": 0.001}, 0.0005, {"seed": 0}),
]


def gen_landing(r):
    """LaplaceBoundedDomain with bounds / input of very different magnitudes and scripted noise that lands exactly on, or a few
    ulps next to, a bound: the accepted draw must still satisfy lower <= out <= upper after the final rounding"""
    big = r.choice([1e3, 1e6, 2e6, 1e9, r.loguniform(1e2, 1e10)])
    small = r.choice([0.3, 0.1, 1e-3, 7.7, r.uniform(-1, 1), 0.0])
    if r.chance(0.5):
        lower, upper = -big, small
    else:
        lower, upper = -small, big
    if lower >= upper:
        lower, upper = -big, big / 3
    value = lower + (upper - lower) * r.uniform(0.05, 0.95)
    cfg = {"eps": r.choice([1.0, 0.5, 3.0, r.loguniform(0.05, 20.0)]), "delta": 0.0, "sens": r.choice([big, big / 2, 1e6, (upper - lower) / 3]),
           "lower": lower, "upper": upper, "dk": "landing"}
    try:
        with warnings.catch_warnings():
            warnings.simplefilter("ignore")
            scale = float(build("LaplaceBoundedDomain", cfg, 0)._find_scale())
    except Exception:  # noqa
        return None
    if not (scale > 0 and math.isfinite(scale)):
        return None
    b = r.choice([lower, upper, small if lower == -big else -small])
    if b > value:
        u2, u1 = ONE_M, 1.0 - math.exp(-(b - value) / scale)       # cos(pi u2) = -1: noise = -scale*log(1-u1) > 0
    else:
        u2, u1 = 0.0, 1.0 - math.exp((b - value) / scale)           # cos(0) = 1: noise = scale*log(1-u1) < 0
    if not 0.0 <= u1 < 1.0:
        return None
    u1 = gen.offset_ulps(u1, r.randint(-4, 4))
    if not 0.0 <= u1 < 1.0:
        return None
    us = [u1, u2, 0.0, 0.0] + [r.u01() for _ in range(4 * 30)]
    return "LaplaceBoundedDomain", cfg, value, {"uniforms": us}


def gen_magnitude(r):
    """integer inputs and bounds at and beyond 2^53, 2^63, 2^70 as Python ints (mixed with +-inf and with double-typed bounds,
    sometimes as numpy scalars) for the geometric and the Laplace family: range and zero-noise identity are checked EXACTLY"""
    mech = r.choice(["GeometricTruncated", "GeometricTruncated", "GeometricFolded", "GeometricFolded", "LaplaceTruncated", "LaplaceFolded",
                     "LaplaceBoundedDomain", "Snapping"])
    geo = mech.startswith("Geometric")
    Bm = r.choice([2 ** 53, 2 ** 53, 2 ** 62, 2 ** 63, 2 ** 64, 2 ** 70, 2 ** 100]) if geo else r.choice([2 ** 53, 2 ** 53, 2 ** 55, 2 ** 60])
    sgn = r.choice([1, 1, -1])
    lo = sgn * Bm + r.choice([1, 3, -1, 0, r.randint(-9, 9)])
    if geo:
        width = r.choice([0, 1, 10, 1001, 2 ** 53 + 7, Bm + 5, r.randint(2, 10 ** 6)])
    else:
        # a double-valued mechanism needs doubles inside its domain: at least 64 spacings wide, everything below 2^62
        sp = int(np.spacing(float(2 * Bm)))
        width = r.choice([64 * sp + 1, 1000 * sp + 3, Bm - 1, Bm + 5, 2 ** 53 - 1])
    hi = lo + width
    if mech == "LaplaceFolded" and r.chance(0.08):
        lo = sgn * r.choice([2 ** 63, 2 ** 64, 2 ** 70]) + r.randint(0, 5)
        hi = lo + r.choice([1001, 10, 1])        # closer together than one double spacing (open finding: never returns)
    m = r.u01()
    if mech != "Snapping":
        if m < 0.15:
            hi = INF
        elif m < 0.3:
            lo, hi = -INF, hi
        elif m < 0.35:
            lo, hi = -INF, INF
    np_types = None
    if m >= 0.35 and mech == "GeometricFolded" and r.chance(0.2):
        lo, hi = float(lo), float(hi)               # the caller's bounds are doubles
    if mech == "GeometricFolded" and r.chance(0.5) and all(isinstance(x, int) and abs(x) < 2 ** 61 for x in (lo, hi)):
        pass
    anchor_lo = lo if lo != -INF else (hi if hi != INF else sgn * Bm)
    anchor_hi = hi if hi != INF else anchor_lo
    value = int(r.choice([anchor_lo, anchor_hi, anchor_lo + r.randint(-30, 30), anchor_hi + r.randint(-30, 30), anchor_lo - Bm - 1,
                          anchor_hi + (2 ** 70 if geo else 2 ** 58) + 1, anchor_hi + 2 * width + 3, 2 ** 53 + 3, r.randint(-5, 5)]))
    if not mech.startswith("Geometric") and r.chance(0.4):
        value = float(value)
    degenerate = r.chance(0.6)
    cfg = {"eps": INF if degenerate and r.chance(0.5) else r.choice([1.0, 0.1, 5.0]), "sens": (0 if mech.startswith("Geometric") else 0.0)
           if degenerate and r.chance(0.6) else (1 if mech.startswith("Geometric") else r.choice([1.0, float(Bm) / 2 ** 20])),
           "lower": lo, "upper": hi, "dk": "magnitude"}
    if not mech.startswith("Geometric"):
        cfg["delta"] = 0.0
    if r.chance(0.12) and all(isinstance(x, int) and abs(x) < 2 ** 62 for x in (lo, hi, value)):
        cfg["np_types"] = {"lower": "int64", "upper": "int64", "value": "int64" if isinstance(value, int) else None}
    return mech, cfg, value, {"seed": r.randint(0, 2 ** 31 - 2)}


def near_grid(r, k2):
    """a double within np.isclose tolerance of the half-integer k2/2 (k2 integer): exact, +-1..2 ulps, +-1e-6 / 1e-9 relative-ish
    offsets, or a computed form such as 0.7 - 0.2"""
    x = k2 / 2.0
    m = r.u01()
    if m < 0.25:
        return gen.offset_ulps(x, r.choice([-2, -1, 1, 2]))
    if m < 0.45:
        return x + r.choice([-1, 1]) * r.choice([1e-6, 4e-6]) * max(abs(x), 0.2)
    if m < 0.6:
        return x + r.choice([-1, 1]) * r.choice([1e-9, 4e-9])
    if m < 0.75:
        frac = r.choice([0.7 - 0.2, 0.1 + 0.2 + 0.2, 0.3 + 0.2, 1.1 - 0.6, 0.8 - 0.3]) if k2 % 2 else r.choice([0.1 + 0.2 - 0.3, 0.7 + 0.2 + 0.1 - 1.0, 0.0])
        return (k2 // 2) + frac
    return x


def gen_near_half(r):
    """GeometricFolded with bounds at NEAR-half-integers / near-integers (accepted through np.isclose) and inputs that are reflected
    exactly at such a bound; range checked exactly"""
    k2 = r.randint(-40, 40)
    w2 = r.choice([1, 2, 3, 4, 7, 20, 21])
    lo, hi = near_grid(r, k2), near_grid(r, k2 + w2)
    if r.chance(0.15):
        lo = -INF
    elif r.chance(0.15):
        hi = INF
    flo = math.ceil(lo) if lo != -INF else math.floor(hi) - 3
    fhi = math.floor(hi) if hi != INF else flo + 3
    if flo > fhi:
        hi = float(flo) + 0.5
        fhi = flo
    value = int(r.choice([flo - 1, fhi + 1, flo - 1, fhi + 1, flo, fhi, flo - 2, fhi + 2, flo - r.randint(1, 50), fhi + r.randint(1, 50),
                          r.randint(flo, fhi)]))
    degenerate = r.chance(0.6)
    cfg = {"eps": INF if degenerate and r.chance(0.5) else r.choice([1.0, 0.5, 3.0]), "sens": 0 if degenerate and r.chance(0.6) else 1,
           "lower": lo, "upper": hi, "dk": "nearhalf"}
    if degenerate or r.chance(0.5):
        spec = {"seed": r.randint(0, 2 ** 31 - 2)}
    else:
        spec = {"uniforms": [r.choice([0.2, 0.8, 0.3, 0.7, 0.05, 0.95, r.u01()]), r.u01()]}
    return "GeometricFolded", cfg, value, spec


def gen_snap_overflow(r):
    """Snapping on FINITE bounds of opposite signs, |lower|, |upper| in [9e307, 1.79e308]: the width upper - lower is not a finite
    double, the configuration must be refused (ValueError) - or, if it is accepted, still return values inside the domain"""
    lo = -r.choice([9e307, 1e308, 1.7e308, 1.79e308, 1.7976931348623157e308, r.uniform(9e307, 1.79e308)])
    hi = r.choice([9e307, 9.5e307, 1e308, 1.79e308, 1.7976931348623157e308, r.uniform(9e307, 1.79e308)])
    if r.chance(0.15):
        lo, hi = r.choice([(-1.7e308, 1.0e307), (-1.0e307, 1.7e308), (-9e307, 9.5e307), (-1e308, 1e308)])
    cfg = {"eps": r.choice([1.0, 0.1, 10.0, 1e-4, 50.0, INF]), "sens": r.choice([1.0, 1.0, 1e6, 1e300, 1e-3, 0.0]), "lower": lo, "upper": hi,
           "dk": "width-overflow"}
    return "Snapping", cfg, r.choice([0.5, lo, hi, 0.0, lo / 2, hi / 2, r.uniform(-1e3, 1e3)]), {"seed": r.randint(0, 2 ** 31 - 2)}


NARROW_RANGE = {"uint8": (0, 2 ** 8 - 1), "int8": (-2 ** 7, 2 ** 7 - 1), "int16": (-2 ** 15, 2 ** 15 - 1), "uint16": (0, 2 ** 16 - 1),
                "int32": (-2 ** 31, 2 ** 31 - 1), "uint32": (0, 2 ** 32 - 1)}


def gen_narrow_np(r):
    """bounds given as NARROW numpy integer scalars (np.uint8 / int8 / int16 / uint16 / int32 / uint32, e.g. arr.min(), arr.max() of an
    image or an int16 array) with values at / near the type's limits, so that 2*width, lower - 2*width, 2*upper - value or
    value - lower do not fit the type; inputs inside, at, outside the domain and outside the TYPE's range.  The mechanism must behave
    exactly as with the same bounds written as Python ints (range, type, zero-noise identity / exact fold, no exception)"""
    mech = r.choice(["GeometricFolded"] * 3 + ["GeometricTruncated"] * 2 + REAL_MECHS)
    geo = mech in INT_MECHS
    t = r.choice(["uint8", "uint8", "int8", "int16", "uint16", "int32", "uint32"])
    tmin, tmax = NARROW_RANGE[t]
    span = tmax - tmin
    m = r.u01()
    if m < 0.2:
        lo, hi = tmin, tmax
    elif m < 0.4:
        lo, hi = tmin, tmin + span * r.randint(50, 99) // 100
    elif m < 0.55:
        lo, hi = tmin + span * r.randint(1, 50) // 100, tmax
    elif m < 0.75:
        c, h = (tmin + tmax + 1) // 2, span * r.randint(26, 49) // 100
        lo, hi = c - h, c + h
    elif m < 0.85:
        z = max(tmin, 0)
        lo, hi = z, z + (tmax - z) * r.randint(50, 99) // 100
    elif m < 0.93:
        if r.chance(0.5):
            hi = tmax - r.randint(0, 3)
            lo = hi - r.randint(1, 20)
        else:
            lo = tmin + r.randint(0, 3)
            hi = lo + r.randint(1, 20)
    else:
        lo = hi = r.choice([tmin, tmax, tmin + span // 3])
    w = hi - lo
    value = int(r.choice([lo, hi, (lo + hi) // 2, lo + 3 * w // 4, r.randint(lo, hi), r.randint(lo, hi), hi + 50, hi + 100, lo - 3, lo - 60,
                          hi + 3 * w + 7, lo - 2 * w - 1, hi + 2 * w + 1, hi + 1, lo - 1, tmax + 1, tmax + r.randint(1, 300), tmin - 1,
                          tmin - r.randint(1, 300)]))
    eps = r.choice([INF, INF, 1.0, 0.05, 1e-4, 0.5, r.loguniform(1e-4, 5.0)])
    if geo:
        sens = r.choice([1, 1, 1, 0, 2, max(1, w // 4)])
    else:
        sens = r.choice([1.0, 1.0, 0.0, 0.3, max(1.0, w / 4.0)])
    types = {"lower": t, "upper": t, "value": None}
    if r.chance(0.15):
        types[r.choice(["lower", "upper"])] = None
    if tmin <= value <= tmax and r.chance(0.3):
        types["value"] = t
    elif r.chance(0.2):
        types["value"] = "int64"
    elif not geo and r.chance(0.4):
        value = float(value)
    cfg = {"eps": eps, "sens": sens, "lower": lo, "upper": hi, "dk": "narrow-np", "np_types": types}
    if not geo:
        cfg["delta"] = 0.0
    return mech, cfg, value, {"seed": r.randint(0, 2 ** 31 - 2)}


def _narrow_fixed():
    out = []
    for mech in INT_MECHS:
        for t, lo, hi in (("uint8", 0, 200), ("uint8", 0, 255), ("int8", -100, 100), ("int16", -20000, 20000), ("int32", 0, 2 ** 30 + 5),
                          ("uint16", 0, 60000)):
            for eps, sens in ((INF, 1), (1.0, 0), (0.05, 1)):
                for value in (lo + 3 * (hi - lo) // 4, hi, hi + 100, lo - 60):
                    out.append((mech, {"eps": eps, "sens": sens, "lower": lo, "upper": hi, "dk": "narrow-np",
                                       "np_types": {"lower": t, "upper": t, "value": None}}, value, {"seed": 12345}))
    return out


def gen_snap_wide(r):
    w = r.choice([1e300, 1e306, 9e306, 1e307, 4e307, 8e307, 1.7e308 / 2])
    lo, hi = r.choice([(-w, w), (0.0, 2 * w if 2 * w < 1.7e308 else 1.7e308), (-w, 0.0)])
    return "Snapping", {"eps": r.choice([1.0, 0.1, 10.0]), "sens": r.choice([1.0, 1e6, 1e300]), "lower": lo, "upper": hi, "dk": "astronomic"}, \
        r.choice([0.5, lo, hi, 0.0, lo / 2]), {"seed": r.randint(0, 2 ** 31 - 2)}


FIXED_MAGNITUDE = [
    ("GeometricFolded", {"eps": 1.0, "sens": 1, "lower": 2 ** 63 + 1, "upper": 2 ** 63 + 9, "dk": "magnitude"}, 2 ** 63 + 5, {"seed": 0}),
    ("LaplaceTruncated", {"eps": 1.0, "delta": 0.0, "sens": 0.0, "lower": 2 ** 53, "upper": 2 ** 54 - 1, "dk": "magnitude"}, float(2 ** 54), {"seed": 0}),
    ("GeometricTruncated", {"eps": 1.0, "sens": 0, "lower": 2 ** 53 + 1, "upper": INF, "dk": "magnitude"}, 2 ** 53 + 1, {"seed": 0}),
    ("GeometricTruncated", {"eps": INF, "sens": 1, "lower": -INF, "upper": 2 ** 60, "dk": "magnitude"}, 2 ** 53 + 3, {"seed": 0}),
    ("LaplaceTruncated", {"eps": 1.0, "delta": 0.0, "sens": 1.0, "lower": 2 ** 53 + 1, "upper": 2 ** 54, "dk": "magnitude"}, 0.0, {"seed": 0}),
    ("GeometricFolded", {"eps": 1.0, "sens": 0, "lower": 2 ** 60, "upper": 2 ** 60 + 10, "dk": "magnitude"}, 2 ** 70 + 1, {"seed": 0}),
    ("GeometricTruncated", {"eps": 1.0, "sens": 1, "lower": 2 ** 63 + 1, "upper": 2 ** 63 + 9, "dk": "magnitude"}, 2 ** 70, {"seed": 0}),
    ("Snapping", {"eps": 1.0, "sens": 1.0, "lower": -8e307, "upper": 8e307, "dk": "astronomic"}, 0.5, {"seed": 0}),
    ("Snapping", {"eps": 1.0, "sens": 1.0, "lower": -1e307 / 4, "upper": 1e307 / 4, "dk": "astronomic"}, 0.5, {"seed": 0}),
]


def s_bounded(ctx):
    r = ctx.fork("direct")
    n = ctx.budget(1200, 50000)
    cases = [(m, dict(c, dk="fixed"), v, s) for m, c, v, s in FIXED_DIRECT + FIXED_DIRECT_LANDING]
    cases += list(FIXED_MAGNITUDE)
    rm = ctx.fork("magnitude")
    for _ in range(ctx.budget(1200, 50000) // 2):
        cases.append(gen_magnitude(rm))
    for _ in range(ctx.budget(1200, 50000) // 20):
        cases.append(gen_snap_wide(rm))
    for _ in range(ctx.budget(1200, 50000) // 2):
        cases.append(gen_near_half(rm))
    ro = ctx.fork("snap-width-overflow")
    cases += [("Snapping", {"eps": 1.0, "sens": 1.0, "lower": lo_, "upper": hi_, "dk": "width-overflow"}, 0.5, {"seed": 0})
              for lo_, hi_ in ((-1e308, 1e308), (-9e307, 9.5e307), (-1.7e308, 1.0e307))]
    for _ in range(ctx.budget(1200, 50000) // 20):
        cases.append(gen_snap_overflow(ro))
    rn = ctx.fork("narrow-np")
    cases += _narrow_fixed()
    for _ in range(ctx.budget(1200, 50000) // 2):
        cases.append(gen_narrow_np(rn))
    cases += [("GeometricFolded", {"eps": 1.0, "sens": 0, "lower": 0.7 - 0.2, "upper": 10.5, "dk": "nearhalf"}, 0, {"seed": 0}),
              ("GeometricFolded", {"eps": INF, "sens": 1, "lower": -10.5, "upper": -(0.7 - 0.2), "dk": "nearhalf"}, 0, {"seed": 0}),
              ("GeometricFolded", {"eps": 1.0, "sens": 1, "lower": 0.7 - 0.2, "upper": 10.5, "dk": "nearhalf"}, 1, {"uniforms": [0.2, 0.3]})]
    for _ in range(ctx.budget(1200, 50000) // 3):
        mech = rm.choice(REAL_MECHS)
        cfg = gen_real_cfg(rm, mech)
        _, value = gen_real_value(rm, cfg)
        cfg["eps"], cfg["sens"] = gen_underflow_pair(rm)
        cfg["delta"] = 0.0
        cfg["dk"] = "underflow-" + cfg["dk"]
        cases.append((mech, cfg, value, {"seed": rm.randint(0, 2 ** 31 - 2)}))
    rl = ctx.fork("landing")
    for _ in range(n // 2):
        c = gen_landing(rl)
        if c:
            cases.append(c)
    for mech in REAL_MECHS + INT_MECHS:
        for i in range(n if mech != "LaplaceBoundedDomain" else n // 2):
            if mech in INT_MECHS:
                cfg = gen_int_cfg(r, mech)
                if mech == "GeometricTruncated" and any(math.isfinite(b) and b != int(b) for b in (cfg["lower"], cfg["upper"])):
                    continue
                _, value = gen_int_value(r, cfg)
            else:
                cfg = gen_real_cfg(r, mech)
                _, value = gen_real_value(r, cfg)
            if r.chance(0.25):
                cfg["eps"] = gen_eps_wide(r)         # incl. huge finite epsilons (500 ... 1.7e308)
            m = r.u01()
            if m < 0.75 or mech == "LaplaceBoundedDomain":
                spec = {"seed": r.randint(0, 2 ** 31 - 2)}
            elif mech == "Snapping":
                spec = {"bits": [r.randint(0, 1), r.choice([0, 2 ** 52 - 1])] + r.choice([[2 ** 32 - 1], [1], [0, 0, 0, 0, 1], [2 ** 31]])}
            elif mech in INT_MECHS:
                spec = {"uniforms": r.choice([[0.0], [ONE_M], [0.5, 0.5, 0.25], [2.0 ** -53], [gen.offset_ulps(0.5, 1)], [gen.offset_ulps(0.5, -1)]])}
            else:
                spec = {"uniforms": [r.choice([0.0, ONE_M, 0.5, 2.0 ** -53, r.u01()]) for _ in range(4)]}
            cases.append((mech, cfg, value, spec))
    for mech, cfg, value, spec in cases:
        v, out = direct_one(mech, cfg, value, spec)
        if v:
            ctx.violation(v[0], v[1], {"kind": "direct", "mech": mech, "cfg": cfg, "value": value, "rng": spec})
        inside = cfg["lower"] <= value <= cfg["upper"]
        key = None
        if out is not None and (not inside or cfg["sens"] == 0 or cfg["eps"] == INF or cfg["lower"] == cfg["upper"]):
            key = (mech, cfg.get("dk"), inside, cfg["sens"] == 0, cfg["eps"] == INF, f2b(float(out)))
        ctx.case(key)
        ctx.count("direct:" + mech)
    for k_, n_ in INFO.items():
        ctx.count(k_, n_)
    INFO.clear()
    ctx.sample({"direct_case": {"mech": cases[20][0], "cfg": cases[20][1], "value": cases[20][2], "rng": cases[20][3]}})


def s_collapse(ctx):
    """a RE-USED LaplaceBoundedDomain: randomise once (the scale gets cached), collapse the bounds to a single point (a valid
    configuration), randomise again: it must return that point instead of sampling for ever"""
    r = ctx.fork("collapse")
    hangs = 0
    for i in range(ctx.budget(12, 200)):
        lo = 0.0 if i == 0 else r.choice([0.0, -1.3, 10.0, r.uniform(-100, 100)])
        w = 1.0 if i == 0 else r.choice([1.0, 1e-3, 50.0, r.loguniform(1e-3, 1e3)])
        eps, sens = (1.0, 1.0) if i == 0 else (r.choice([1.0, 0.1, 5.0]), r.choice([1.0, 0.3, w]))
        point = r.choice([lo, lo + w, lo + w / 2])
        seed = r.randint(0, 2 ** 31 - 2)
        if hangs >= 2:
            break

        def call():
            m = MECH.LaplaceBoundedDomain(epsilon=eps, sensitivity=sens, lower=lo, upper=lo + w, random_state=seed)
            m.randomise(lo + w / 3)
            m.lower = m.upper = point
            return m.randomise(lo + w / 3)
        kind, out = run_timed(call, 2.0)
        desc = (f"LaplaceBoundedDomain(epsilon={eps!r}, sensitivity={sens!r}, lower={lo!r}, upper={lo + w!r}, random_state={seed}): randomise({lo + w / 3!r}); "
                f"then lower = upper = {point!r}; randomise({lo + w / 3!r})")
        data = {"kind": "collapse", "eps": eps, "sens": sens, "lower": lo, "w": w, "point": point, "seed": seed}
        if kind == "hang":
            hangs += 1
            ctx.violation("C12:bounded-domain:hang:after-collapsing-bounds", desc + " did not return within 2 s", data)
        elif kind != "ok":
            ctx.violation("C12:bounded-domain:raises:after-collapsing-bounds", desc + f" raised {out!r}", data)
        elif out != point:
            ctx.violation("C12:bounded-domain:out-of-range:after-collapsing-bounds", desc + f" returned {out!r}", data)
        ctx.case(("collapse", point == lo, i))


def s_snapping_infinite(ctx):
    """infinite bounds are not a Snapping configuration: they must be refused, at construction and at randomise"""
    for lo, hi in ((0.0, INF), (-INF, 0.0), (-INF, INF)):
        def c1():
            return MECH.Snapping(epsilon=1.0, sensitivity=1.0, lower=lo, upper=hi)
        kind, out = run_timed(c1)
        if not (kind == "exc" and isinstance(out, ValueError)):
            ctx.violation("C12:snapping:infinite-bounds", f"Snapping(lower={lo}, upper={hi}) was not refused with ValueError: {kind} {out!r}",
                          {"kind": "snapping-infinite", "lower": lo, "upper": hi, "stage": "init"})

        def c2():
            m = MECH.Snapping(epsilon=1.0, sensitivity=1.0, lower=0.0, upper=1.0, random_state=0)
            m.lower, m.upper = lo, hi
            return m.randomise(0.5)
        kind, out = run_timed(c2)
        if not (kind == "exc" and isinstance(out, ValueError)):
            ctx.violation("C12:snapping:infinite-bounds", f"Snapping with bounds set to ({lo}, {hi}) after construction: randomise "
                          f"was not refused with ValueError: {kind} {out!r}", {"kind": "snapping-infinite", "lower": lo, "upper": hi, "stage": "randomise"})
        ctx.case(("snapping-infinite", lo, hi))


def sel_case(r):
    m = r.u01()
    eps = gen_eps(r)
    seed = r.randint(0, 2 ** 31 - 2)
    if m < 0.3:
        k = r.randint(1, 8)
        return {"mech": r.choice(["Exponential", "PermuteAndFlip"]), "eps": eps, "sens": r.choice([0.0, 1.0, r.loguniform(1e-3, 1e3)]),
                "utility": [r.choice([0.0, 1.0, r.uniform(0, 10), r.uniform(-5, 100)]) for _ in range(k)],
                "candidates": r.choice([None, ["c%d" % i for i in range(k)]]), "monotonic": r.chance(0.3), "seed": seed,
                "u": r.choice([None, 0.0, ONE_M, 0.5])}
    if m < 0.5:
        k = r.randint(2, 6)
        names = ["v%d" % i for i in range(k)]
        return {"mech": "ExponentialCategorical", "eps": eps, "value": r.choice(names), "seed": seed, "u": r.choice([None, 0.0, ONE_M]),
                "utility_list": [[names[i], names[j], r.choice([1.0, 2.0, r.uniform(0.1, 5)])] for i in range(k) for j in range(i + 1, k)]}
    if m < 0.65:
        h = r.choice([["A", "B", "C", "D"], [["A", "B"], ["C", "D"]], [["A"], ["B"], ["C", "D", "E"]], [[["A", "B"], ["C"]], [["D"], ["E", "F"]]]])
        flat = []

        def walk(x):
            for y in x:
                walk(y) if isinstance(y, list) else flat.append(y)
        walk(h)
        return {"mech": "ExponentialHierarchical", "eps": eps, "hierarchy": h, "value": r.choice(flat), "leaves": flat, "seed": seed,
                "u": r.choice([None, 0.0, ONE_M])}
    if m < 0.8:
        return {"mech": "Binary", "eps": r.choice([INF, 1.0, r.loguniform(1e-4, 50), 700.0, 1000.0]), "value": r.choice(["yes", "no"]), "seed": seed,
                "u": r.choice([None, 0.0, ONE_M, 0.5])}
    d = r.randint(1, 5)
    case = {"mech": "Bingham", "eps": r.choice([INF, 1.0, r.loguniform(1e-2, 50), 10.0]), "sens": r.choice([1.0, 0.0, r.loguniform(0.1, 10)]),
            "seed": seed}
    if r.chance(0.4):
        # the caller's array as it comes: X.T @ X of integer data, float32, Fortran order, a non-contiguous view
        case["dtype"] = r.choice(["int64", "int32", "uint8", "float32", "int64"])
        case["A"] = [[float(r.randint(0, 3)) for _ in range(d)] for _ in range(d + 2)]
    else:
        case["A"] = [[r.normal() for _ in range(d)] for _ in range(d + 2)]
    case["layout"] = r.choice(["C", "C", "F", "view"])
    return case


EXTREME = [0.0, ONE_M, 0.5, 2.0 ** -53, 1.0 / 3]


def gen_eps_wide(r):
    """epsilon for the direct streams: the property's range [1e-4, inf] including huge finite values"""
    m = r.u01()
    if m < 0.55:
        return gen_eps(r)
    if m < 0.75:
        return r.choice([500.0, 709.0, 710.0, 745.0, 1000.0, r.loguniform(500.0, 1e6), r.loguniform(1e6, 1e18)])
    return r.choice([1e19, 1e20, 1e50, 1e100, 1e300, 1e308, 1.7e308, r.loguniform(1e19, 1e300)])


def gen_prefix(r, n):
    """uniform extremes at EVERY draw position: each position is 0.0, 1-2^-53, 1/2, 2^-53, 1/3 or random"""
    m = r.u01()
    if m < 0.15:
        return [0.0] * n
    if m < 0.25:
        return [ONE_M] * n
    return [r.choice(EXTREME) if r.chance(0.6) else r.u01() for _ in range(n)]


def multidraw_case(r):
    m = r.u01()
    seed = r.randint(0, 2 ** 31 - 2)
    eps = gen_eps_wide(r)
    sens = r.choice([0.0, 1.0, 1.0, r.loguniform(1e-3, 1e3)])
    if m < 0.4:
        # PermuteAndFlip: index draw, then the coins of bernoulli_neg_exp (gamma = 0 for every top candidate, integer gammas
        # for utility gaps that are multiples of sens/eps-scale), extremes at every position
        k = r.randint(1, 5)
        unit = (2 * sens / eps) if (sens > 0 and math.isfinite(eps) and eps < 1e18) else 1.0
        top = r.choice([0.0, 1.0, 5.0])
        util = [top - unit * r.choice([0, 0, 1, 2, 3, 0.5, r.uniform(0, 4), 1e6 * r.u01()]) for _ in range(k)]
        util[r.randint(0, k - 1)] = top
        return {"mech": "PermuteAndFlip", "eps": eps, "sens": sens, "utility": util, "candidates": r.choice([None, ["c%d" % i for i in range(k)]]),
                "monotonic": r.chance(0.5), "seed": seed, "prefix": gen_prefix(r, r.randint(1, 10))}
    if m < 0.75:
        # Exponential with zero-measure candidates (top / all but one) and utility gaps up to 1e6 * sens / eps
        k = r.randint(2, 6)
        unit = (sens / eps) if (sens > 0 and math.isfinite(eps)) else 1.0
        util = [r.choice([0.0, 1.0, r.uniform(0, 10)]) for _ in range(k)]
        j = r.randint(0, k - 1)
        util[j] = max(util) + unit * r.choice([1.0, 100.0, 1e4, 1e6, 5000.0]) * r.uniform(0.5, 1.0)
        q = r.u01()
        if q < 0.4:
            measure = [1.0] * k
            measure[j] = 0.0                                    # the top candidate has measure 0
        elif q < 0.7:
            measure = [0.0] * k
            measure[r.randint(0, k - 1)] = r.choice([1.0, 0.5, 3.0])      # all but one
        elif q < 0.85:
            measure = [r.choice([0.0, 1.0, r.uniform(0, 3)]) for _ in range(k)]
            if not any(x > 0 for x in measure):
                measure[0] = 1.0
        else:
            measure = None
        return {"mech": "Exponential", "eps": eps, "sens": sens, "utility": util, "measure": measure,
                "candidates": r.choice([None, ["c%d" % i for i in range(k)]]), "monotonic": r.chance(0.3), "seed": seed,
                "u": r.choice([None, 0.0, ONE_M, 0.5, None])}
    if m < 0.9:
        return {"mech": "bernoulli_neg_exp", "eps": 1.0, "gamma": r.choice([0, 0.0, 1, 2, 3, 7, 0.5, 1.0, 1e-300, 2.0 ** -53, 700.0, r.uniform(0, 5)]),
                "seed": seed, "prefix": gen_prefix(r, r.randint(1, 8))}
    # every other mechanism of the list at huge epsilon, or in the underflow region of sensitivity / epsilon
    c = sel_case(r)
    c["eps"] = eps if c["mech"] != "Bingham" or r.chance(0.5) else c["eps"]
    if c["mech"] in ("Bingham", "Exponential", "PermuteAndFlip") and r.chance(0.6):
        c["eps"], c["sens"] = gen_underflow_pair(r)
        c["u"] = None
    return c


def bern_direct(case):
    """bernoulli_neg_exp(gamma) on a stream with extremes at every position: returns 0/1; the coin exp(-0) = 1 is certain"""
    from diffprivlib.mechanisms.base import bernoulli_neg_exp
    g = case["gamma"]
    kind, out = run_timed(lambda: bernoulli_neg_exp(g, PrefixRandom(case["prefix"], case["seed"])))
    desc = f"bernoulli_neg_exp({g!r}) on the uniform stream {case['prefix']} (then pseudo-random)"
    if kind != "ok":
        return ("C12:bernoulli_neg_exp:" + ("hang" if kind == "hang" else "raises"), f"{desc}: {kind} {out!r}")
    if out not in (0, 1):
        return ("C12:bernoulli_neg_exp:not-a-bit", f"{desc} returned {out!r}")
    if g == 0 and out != 1:
        return ("C12:bernoulli_neg_exp:zero-uniform-at-certain-coin",
                f"{desc} returned 0 although exp(-0) = 1: `rng.random() <= gamma / counter` is true for the uniform 0.0")
    return None


def sel_direct(case):
    name = case["mech"]
    eps = case["eps"]
    rng = seams.ScriptedSystemRandom(uniforms=[case["u"]], cycle=True) if case.get("u") is not None else int(case["seed"])
    desc = f"{name}({ {k: v for k, v in case.items() if k not in ('A', 'leaves', 'witness')} })"
    if name == "bernoulli_neg_exp":
        return bern_direct(case)
    if name in ("Exponential", "PermuteAndFlip"):
        v = _sel_expo(case, name, eps, rng, desc)
        if v and name == "PermuteAndFlip" and case.get("prefix") and 0.0 in case["prefix"]:
            # does the failure hinge on a uniform of exactly 0.0 (the certain coin of bernoulli_neg_exp comes up 0)?
            alt = dict(case, prefix=[5e-324 if u == 0.0 else u for u in case["prefix"]])
            if _sel_expo(alt, name, eps, rng, desc) is None:
                return ("C12:bernoulli_neg_exp:zero-uniform-at-certain-coin", v[1] + "  [passes when the 0.0 draws are replaced by 5e-324]")
        return v
    return _sel_rest(case, name, eps, rng, desc)


def zero_measure_nan_region(case):
    """the known region: every arg-max-utility candidate has measure 0 AND the weight of every positive-measure candidate
    underflows to 0 (or the scale is infinite), so the normaliser is 0 and the probabilities are 0/0"""
    ms = case.get("measure")
    if not ms:
        return False
    ut = case["utility"]
    top = max(ut)
    if any(m > 0 and u == top for u, m in zip(ut, ms)):
        return False
    eps, sens = case["eps"], case["sens"]
    if sens == 0 or eps == INF or not sens / eps > 0:
        return True
    scale = eps / sens / (2 - bool(case["monotonic"]))
    if not math.isfinite(scale):
        return True
    with np.errstate(all="ignore"):
        return all(float(np.exp(scale * (u - top))) * m == 0 for u, m in zip(ut, ms))


def _sel_expo(case, name, eps, rng, desc):
        if name == "PermuteAndFlip":
            rng = PrefixRandom(case["prefix"], case["seed"]) if case.get("prefix") is not None else int(case["seed"])
        holder = {}

        def call():
            kw = {"measure": list(case["measure"])} if name == "Exponential" and case.get("measure") else {}
            m = getattr(MECH, name)(epsilon=eps, sensitivity=case["sens"], utility=list(case["utility"]), monotonic=case["monotonic"],
                                    candidates=case["candidates"], random_state=rng, **kw)
            holder["p"] = np.asarray(m._probabilities, dtype=float)
            return m.randomise()
        kind, out = run_timed(call)
        if kind != "ok":
            if kind == "exc" and isinstance(out, ValueError) and eps == 0:
                return None
            if name == "Exponential" and kind == "exc" and "p" in holder and np.isnan(holder["p"]).all() and zero_measure_nan_region(case):
                return ("C12:Exponential:zero-measure-top-candidate:nan-probabilities",
                        f"{desc}: probabilities {holder['p'].tolist()}, randomise raises {type(out).__name__}")
            return (f"C12:{name}:{'hang' if kind == 'hang' else 'raises'}", f"{desc}: {kind} {out!r}")
        cands = case["candidates"] if case["candidates"] else list(range(len(case["utility"])))
        if not any(out is c or out == c for c in cands) or isinstance(out, bool):
            return (f"C12:{name}:not-a-candidate", f"{desc} returned {out!r}, not one of {cands}")
        if case["candidates"] is None and not isinstance(out, (int, np.integer)):
            return (f"C12:{name}:not-a-candidate", f"{desc} returned index {out!r} of type {type(out).__name__}")
        ms = case.get("measure") or [1.0] * len(cands)
        if ms[cands.index(out)] == 0:
            return (f"C12:{name}:zero-measure-selected", f"{desc} returned {out!r}, a candidate of measure 0")
        if noise_free(eps, case["sens"]):
            idx = cands.index(out)
            if not np.isclose(case["utility"][idx], max(u for u, m_ in zip(case["utility"], ms) if m_ > 0)):
                return (f"C12:{name}:degenerate" + ("-u0" if case.get("u") == 0.0 else "-umax" if case.get("u") == ONE_M else ""),
                        f"{desc} returned {out!r} whose utility {case['utility'][idx]} is not the maximum")
        return None


def _sel_rest(case, name, eps, rng, desc):
    if name in ("ExponentialCategorical", "ExponentialHierarchical"):
        def call():
            if name == "ExponentialCategorical":
                m = MECH.ExponentialCategorical(epsilon=eps, utility_list=[tuple(x) for x in case["utility_list"]], random_state=rng)
            else:
                m = MECH.ExponentialHierarchical(epsilon=eps, hierarchy=case["hierarchy"], random_state=rng)
            return m.randomise(case["value"]), list(m._domain_values)
        kind, out = run_timed(call)
        if kind != "ok":
            return (f"C12:{name}:{'hang' if kind == 'hang' else 'raises'}", f"{desc}: {kind} {out!r}")
        o, dom = out
        if o not in dom or not isinstance(o, str):
            return (f"C12:{name}:not-in-domain", f"{desc} returned {o!r}, not one of {dom}")
        if eps == INF and o != case["value"]:
            return ("C12:ExponentialCategorical:degenerate" + ("-u0" if case.get("u") == 0.0 else ""),
                    f"{desc} with epsilon=inf returned {o!r} instead of the input")
        return None
    if name == "Binary":
        def call():
            return MECH.Binary(epsilon=eps, value0="no", value1="yes", random_state=rng).randomise(case["value"])
        kind, out = run_timed(call)
        if kind != "ok":
            return ("C12:Binary:" + ("hang" if kind == "hang" else "raises"), f"{desc}: {kind} {out!r}")
        if out not in ("no", "yes"):
            return ("C12:Binary:not-a-label", f"{desc} returned {out!r}")
        if eps == INF and out != case["value"]:
            return ("C12:Binary:degenerate", f"{desc} with epsilon=inf returned {out!r} instead of the input")
        return None
    if name == "Bingham":
        if "S" in case:
            S = np.array(case["S"], dtype=float)
        else:
            A = np.array(case["A"])
            S = A.T @ A
        if case.get("dtype"):
            S = S.astype(case["dtype"])            # exact: small non-negative integers
        if case.get("layout") == "F":
            S = np.asfortranarray(S)
        elif case.get("layout") == "view":
            big = np.zeros((2 * S.shape[0], 2 * S.shape[1]), dtype=S.dtype)
            big[::2, ::2] = S
            S = big[::2, ::2]
        S0 = S.copy()
        def call():
            return MECH.Bingham(epsilon=eps, sensitivity=case["sens"], random_state=int(case["seed"])).randomise(S)
        # huge finite scale: epsilon / sensitivity >= 1e19 without the quotient sensitivity / epsilon underflowing to 0
        huge = math.isfinite(eps) and case["sens"] > 0 and not noise_free(eps, case["sens"]) and eps / case["sens"] >= 1e16
        if huge and HANGS.get("Bingham:huge", 0) >= 2 and not case.get("witness"):
            return None                      # the region is known to hang: two observations per run are enough (each costs seconds)
        kind, out = run_timed(call, 3.0 if huge else 20.0)
        if kind != "ok":
            if huge:
                # exp() over/underflows in the acceptance ratio (probability 0 / NaN): the rejection loop never accepts
                HANGS["Bingham:huge"] = HANGS.get("Bingham:huge", 0) + (kind == "hang")
                return ("C12:Bingham:huge-finite-epsilon:" + ("hang" if kind == "hang" else "raises"),
                        f"{desc}: " + ("did not return within 3 s" if kind == "hang" else f"raised {out!r}"))
            return ("C12:Bingham:" + ("hang" if kind == "hang" else "raises"), f"{desc}: {kind} {out!r}")
        if not np.array_equal(S, S0):
            return ("C12:Bingham:modifies-input", f"{desc}: the caller's matrix was modified")
        v = np.asarray(out, dtype=float).ravel()
        # a float32 matrix with no noise returns eigh's float32 eigenvector: unit to single precision
        ntol = 1e-6 if case.get("dtype") == "float32" else 1e-9
        if v.shape[0] != S.shape[0] or not abs(float(np.linalg.norm(v)) - 1.0) <= ntol:
            return ("C12:Bingham:not-unit", f"{desc} returned a vector of norm {float(np.linalg.norm(v))!r} / shape {np.shape(out)}")
        if noise_free(eps, case["sens"]):
            w, V = np.linalg.eigh(np.asarray(S, dtype=float))
            if len(w) > 1 and not (np.sort(w)[-1] - np.sort(w)[-2]) > 1e-6 * max(1.0, abs(w).max()):
                return None                  # (nearly) degenerate top eigenvalue: the top eigenvector is not unique
            top = V[:, w.argmax()]
            if S.shape[0] > 1 and not abs(abs(float(top @ v)) - 1.0) <= max(ntol, 1e-9):
                return ("C12:Bingham:degenerate", f"{desc} with no noise did not return the top eigenvector")
        return None
    raise KeyError(name)


FIXED_SEL = [
    # regression witnesses of fix 252d7c4: a uniform of exactly 0.0 selected a candidate of probability 0
    {"mech": "Exponential", "eps": INF, "sens": 1.0, "utility": [0.0, 5.0], "candidates": None, "monotonic": False, "seed": 0, "u": 0.0},
    {"mech": "Exponential", "eps": 1.0, "sens": 0.0, "utility": [0.0, 5.0], "candidates": ["a", "b"], "monotonic": False, "seed": 0, "u": 0.0},
    {"mech": "ExponentialCategorical", "eps": INF, "value": "b", "seed": 0, "u": 0.0, "utility_list": [["a", "b", 1.0]]},
    # the isclose fallback for a uniform above the (rounded) last cumulative probability must not return a
    # zero-probability last candidate
    {"mech": "Exponential", "eps": INF, "sens": 1.0, "utility": [1.0, 1.0, 1.0, 1.0, 1.0, 1.0, -3.18],
     "candidates": ["c0", "c1", "c2", "c3", "c4", "c5", "c6"], "monotonic": False, "seed": 0, "u": ONE_M},
    {"mech": "ExponentialHierarchical", "eps": INF, "hierarchy": ["A", "B", "C", "D"], "value": "C", "leaves": ["A", "B", "C", "D"], "seed": 0, "u": 0.0},
]


FIXED_SEL += [
    # the three open findings (known_findings.json): their concrete calls, plus neighbours that must keep working
    {"mech": "PermuteAndFlip", "eps": 1.0, "sens": 1.0, "utility": [1.0], "candidates": None, "monotonic": False, "seed": 0, "prefix": [0.0, 0.0, 0.7]},
    {"mech": "PermuteAndFlip", "eps": INF, "sens": 1.0, "utility": [1.0, 0.0], "candidates": None, "monotonic": False, "seed": 0,
     "prefix": [0.0, 0.0, 0.7, 0.0, 0.9]},
    {"mech": "PermuteAndFlip", "eps": 1.0, "sens": 1.0, "utility": [1.0], "candidates": None, "monotonic": False, "seed": 0, "prefix": [0.0, 2.0 ** -53, 0.7]},
    {"mech": "bernoulli_neg_exp", "eps": 1.0, "gamma": 0, "seed": 0, "prefix": [0.0, 0.7]},
    {"mech": "Exponential", "eps": 1.0, "sens": 1.0, "utility": [5000.0, 1.0, 0.0], "measure": [0.0, 1.0, 1.0], "candidates": None,
     "monotonic": False, "seed": 0, "u": None},
    {"mech": "Exponential", "eps": INF, "sens": 1.0, "utility": [5.0, 1.0, 0.0], "measure": [0.0, 1.0, 1.0], "candidates": None,
     "monotonic": False, "seed": 0, "u": None},
    {"mech": "Exponential", "eps": 1.0, "sens": 1.0, "utility": [50.0, 1.0, 0.0], "measure": [0.0, 1.0, 1.0], "candidates": None,
     "monotonic": False, "seed": 0, "u": None},
    {"mech": "Bingham", "eps": 1e100, "sens": 1.0, "S": [[2.0, 0.5], [0.5, 1.0]], "seed": 1},
    {"mech": "Bingham", "eps": 1.7e308, "sens": 1.0, "S": [[2.0, 0.5], [0.5, 1.0]], "seed": 1},
    {"mech": "Bingham", "eps": 1e18, "sens": 1.0, "S": [[2.0, 0.5], [0.5, 1.0]], "seed": 1},
    {"mech": "Bingham", "eps": 1.0, "sens": 1.0, "S": [[2, 1], [1, 3]], "dtype": "int64", "seed": 0},
    {"mech": "Bingham", "eps": 1.0, "sens": 1.0, "S": [[2, 1], [1, 3]], "dtype": "uint8", "layout": "F", "seed": 0},
    {"mech": "Bingham", "eps": 1e5, "sens": 1e-320, "S": [[2.0, 0.5], [0.5, 1.0]], "seed": 1},
    {"mech": "Bingham", "eps": 1e200, "sens": 1e-200, "S": [[2.0, 0.5], [0.5, 1.0]], "seed": 1},
    {"mech": "Bingham", "eps": 1e6, "sens": 5e-324, "S": [[2.0, 0.5], [0.5, 1.0]], "seed": 1},
    {"mech": "Bingham", "eps": 1.0, "sens": 5e-324, "S": [[2.0, 0.5], [0.5, 1.0]], "seed": 1},
    {"mech": "Binary", "eps": 1000.0, "value": "no", "seed": 0, "u": None},
    {"mech": "Binary", "eps": 1e300, "value": "yes", "seed": 0, "u": 0.5},
]


def s_selection(ctx):
    r = ctx.fork("selection")
    n = ctx.budget(1500, 60000)
    for i in range(n):
        case = FIXED_SEL[i] if i < len(FIXED_SEL) else (sel_case(r) if i % 2 else multidraw_case(r))
        v = sel_direct(case)
        if v:
            ctx.violation(v[0], v[1], {"kind": "selection", "case": case})
        ctx.case((case["mech"], case["eps"] == INF, case["eps"] >= 1e19, case.get("u"), tuple(case.get("prefix") or ())[:3], i % 50))
        ctx.count("direct:" + case["mech"])


# ------------------------------------------------------------------------------------------- entry points
def generate(ctx):
    """translator tie: _truncate / _fold (returns, reflection step, modulo step, thresholds), the geometric and Laplace noise
    formulas and Snapping's scaling are re-read from /repo's AST on every run, translated to Lean terms over ℝ and proved
    equal to the model's (lean/DPL/Model/Range.lean)
    (harness/anchor_specs_c12.py, harness/anchors.py)"""
    from .. import anchors, anchor_specs_c12 as S
    from ..shim import REPO
    r = anchors.build(REPO, "C12", ["DPL.Proofs.RangeReal"], S.specs(), opens="", postlude=getattr(S, "POST", ""))
    ctx.count("formula_anchors", r["obligations"])
    if r["errors"]:
        r["unavailable"] = r["errors"]      # anchors that could not be located / translated (not failed obligations)
    return r


def check(ctx):
    with warnings.catch_warnings():
        warnings.simplefilter("ignore")
        with np.errstate(all="ignore"):
            _check(ctx)


def _check(ctx):
    HANGS.clear()
    r = ctx.fork("k")
    lines, todo = [], []
    n = ctx.budget(1200, 50000)
    k_fold_truncate(ctx, r, n, lines, todo)
    k_laplace(ctx, r, "LaplaceTruncated", n, lines, todo)
    k_laplace(ctx, r, "LaplaceFolded", n, lines, todo)
    k_bounded_domain(ctx, r, n // 2, lines, todo)
    k_geometric(ctx, r, "GeometricTruncated", n, lines, todo)
    k_geometric(ctx, r, "GeometricFolded", n, lines, todo)
    k_snapping(ctx, r, n, lines, todo)
    k_selection(ctx, r, n, lines, todo)
    k_bernoulli(ctx, r, n // 2, lines, todo)
    # direct sweeps first (they do not need Lean), so that a failing input is reported even if the driver is unavailable
    s_bounded(ctx)
    s_snapping_infinite(ctx)
    s_collapse(ctx)
    s_selection(ctx)
    outs = leanio.run_driver("ClipRange", lines)
    for item, line in zip(todo, outs):
        unit = item[0]
        if unit == "laplace":
            ok = cmp_laplace(ctx, item, line)
        elif unit == "bd":
            ok = cmp_bd(ctx, item, line)
        elif unit == "geom":
            ok = cmp_geom(ctx, item, line)
        elif unit == "snap":
            ok = cmp_snap(ctx, item, line)
        elif unit == "bern":
            ok = cmp_bern(ctx, item, line)
        elif unit in ("expsel", "catsel", "binary"):
            ok = cmp_selection(ctx, item, line)
        else:
            ok = cmp_exact(ctx, item, line)
        if ok:
            ctx.trace_ok()
    ctx.count("driver_lines", len(lines))


def replay(ctx, data):
    d = unjson(data["data"])
    k = d["kind"]
    if k == "direct":
        v, _ = direct_one(d["mech"], d["cfg"], d["value"], d["rng"])
        return v is not None
    if k == "selection":
        return sel_direct(d["case"]) is not None
    if k == "fold":
        lo, hi, v = d["lower"], d["upper"], d["value"]
        mf = MECH.LaplaceFolded(epsilon=1.0, sensitivity=1.0, lower=lo, upper=hi)
        kind, out = run_timed(lambda: (mf._fold(v), mf._truncate(v)))
        if kind != "ok":
            return True
        f, t = out
        return not (lo <= f <= hi and lo <= t <= hi and abs(f - ref_fold(v, lo, hi)) <= 8 * spacing(v, lo, hi)
                    and (not lo <= v <= hi or (f == v and t == v)))
    if k == "collapse":
        def call():
            m = MECH.LaplaceBoundedDomain(epsilon=d["eps"], sensitivity=d["sens"], lower=d["lower"], upper=d["lower"] + d["w"], random_state=int(d["seed"]))
            m.randomise(d["lower"] + d["w"] / 3)
            m.lower = m.upper = d["point"]
            return m.randomise(d["lower"] + d["w"] / 3)
        kind, out = run_timed(call, 2.0)
        return kind != "ok" or out != d["point"]
    if k == "snapping-infinite":
        c = Ctx0()
        s_snapping_infinite(c)
        return bool(c.violations)
    return False


class Ctx0:
    """minimal stand-in used by replay for the sweeps that report through ctx"""
    def __init__(self):
        self.violations = []

    def violation(self, *a):
        self.violations.append(a)

    def case(self, *a, **k):
        pass


# ------------------------------------------------------------------------------------------- open known findings
W_BERN = {"mech": "PermuteAndFlip", "eps": 1.0, "sens": 1.0, "utility": [1.0], "candidates": None, "monotonic": False, "seed": 0,
          "prefix": [0.0, 0.0, 0.7]}
W_EXPO = {"mech": "Exponential", "eps": 1.0, "sens": 1.0, "utility": [5000.0, 1.0, 0.0], "measure": [0.0, 1.0, 1.0], "candidates": None,
          "monotonic": False, "seed": 0, "u": None}
W_BING = {"witness": True, "mech": "Bingham", "eps": 1e100, "sens": 1.0, "S": [[2.0, 0.5], [0.5, 1.0]], "seed": 1}
W_BING2 = {"witness": True, "mech": "Bingham", "eps": 1.7e308, "sens": 1.0, "S": [[2.0, 0.5], [0.5, 1.0]], "seed": 1}
WHAT = {
    "C12:bernoulli_neg_exp:zero-uniform-at-certain-coin":
        "PermuteAndFlip(epsilon=1, sensitivity=1, utility=[1.0]) with the uniform stream [0.0 (index), 0.0 (coin), 0.7] raises "
        "RuntimeError('No value to return'): bernoulli_neg_exp(0) tests `rng.random() <= gamma / counter`, true for the uniform 0.0, "
        "so the probability-1 coin comes up 0 (bernoulli_neg_exp(0) on [0.0, 0.7] returns 0)",
    "C12:Exponential:zero-measure-top-candidate:nan-probabilities":
        "Exponential(epsilon=1, sensitivity=1, utility=[5000.0, 1.0, 0.0], measure=[0.0, 1.0, 1.0]).randomise() raises RuntimeError on "
        "every draw: _find_probabilities shifts by the maximum over ALL candidates, the positive-measure weights underflow to 0 and "
        "0/0 gives probabilities [nan, nan, nan] (same with epsilon=inf or sensitivity=0 whenever the top candidate has measure 0)",
    "C12:Bingham:huge-finite-epsilon:hang":
        "Bingham(epsilon=1e100, sensitivity=1, random_state=1).randomise([[2, .5], [.5, 1]]) does not return (3 s observed; epsilon <= 1e18 "
        "and epsilon = inf return): exp() over/underflows in the acceptance ratio, so the rejection loop never accepts",
    "C12:Bingham:huge-finite-epsilon:raises":
        "Bingham(epsilon=1.7e308, sensitivity=1, random_state=1).randomise([[2, .5], [.5, 1]]) raises LinAlgError('SVD did not converge'): "
        "epsilon * (lambda_max I - A) / 4 / sensitivity overflows to inf; the same for a tiny sensitivity whose quotient sensitivity/epsilon does not "
        "underflow to 0: Bingham(epsilon=1.0, sensitivity=5e-324) raises, (1.0, 1e-305) never returns (region: epsilon/sensitivity >= 1e16 "
        "finite, shortcut `sensitivity / epsilon == 0` not taken)",
}


WHAT.update({
    "C12:Snapping:huge-finite-width:nan":
        "Snapping(epsilon=1, sensitivity=1, lower=-8e307, upper=8e307, random_state=0).randomise(0.5) returns nan (also (-4e307, 4e307) and "
        "(0, 1.7e308); (-1e307, 1e307) returns finite values): effective_epsilon() is 0 for such a bound, scale = 1/0 and `value % lambda_` "
        "is invalid; the same whenever the rescaling to sensitivity 1 overflows ((upper-lower)/2/sensitivity, value/sensitivity or "
        "lower/sensitivity >= 5e306 or inf), e.g. Snapping(epsilon=1, "
        "sensitivity=1e-310, lower=0, upper=1).randomise(0.3) returns nan",
    "C12:LaplaceFolded:int-domain-without-doubles:hang":
        "LaplaceFolded(epsilon=5, sensitivity=1, lower=2**63, upper=2**63+1001, random_state=0).randomise(2**53+3) never returns (2 s "
        "observed): the Python-int bounds are closer together than one double spacing (2048 at 2**63), the reflections are computed in "
        "doubles and never land inside the domain",
    "C12:laplace-family:int-bound-not-a-double:off-by-rounding":
        "LaplaceTruncated(epsilon=1, sensitivity=0, lower=2**53, upper=2**54-1).randomise(float(2**54)) returns 18014398509481984.0 > upper: "
        "`value > self.upper` compares a numpy double with a Python int after rounding the int to a double; likewise "
        "LaplaceBoundedDomain(sensitivity=0, lower=2**53+1, upper=2**54+6).randomise(0) returns 9007199254740992.0 < lower (`int + "
        "np.float64(0)` rounds) and LaplaceFolded / Snapping: a double-valued mechanism with a Python-int bound that is not exactly a "
        "double can miss the domain by one rounding of that bound (never by more than one spacing)",
})
WHAT.update({
    "C12:geometric-folded:near-integer-bound:out-of-range":
        "GeometricFolded(epsilon=inf, sensitivity=1, lower=2.000002, upper=3.0, random_state=0).randomise(24) returns 2 < lower (and "
        "upper=12.999999999999998, lower=12.0: randomise(12) can return 13 > upper): _check_bounds accepts through np.isclose a bound "
        "within 1e-8 + 1e-5|k| of the integer k; when it lies on the inner side of k (lower = k + d or upper = k - d) the folded and "
        "rounded output is k itself, which is outside the declared domain",
})
W_DIRECT = {
    "C12:Snapping:huge-finite-width:nan":
        ("Snapping", {"eps": 1.0, "sens": 1.0, "lower": -8e307, "upper": 8e307, "dk": "astronomic"}, 0.5, {"seed": 0}),
    "C12:LaplaceFolded:int-domain-without-doubles:hang":
        ("LaplaceFolded", {"witness": True, "eps": 5.0, "delta": 0.0, "sens": 1.0, "lower": 2 ** 63, "upper": 2 ** 63 + 1001, "dk": "magnitude"},
         2 ** 53 + 3, {"seed": 0}),
    "C12:geometric-folded:near-integer-bound:out-of-range":
        ("GeometricFolded", {"eps": INF, "sens": 1, "lower": 2.000002, "upper": 3.0, "dk": "nearhalf"}, 24, {"seed": 0}),
    "C12:laplace-family:int-bound-not-a-double:off-by-rounding":
        ("LaplaceTruncated", {"eps": 1.0, "delta": 0.0, "sens": 0.0, "lower": 2 ** 53, "upper": 2 ** 54 - 1, "dk": "magnitude"}, float(2 ** 54), {"seed": 0}),
}


def _witness_direct(sig):
    def w(ctx):
        HANGS.clear()
        v, _ = direct_one(*W_DIRECT[sig])
        return (v is not None and v[0] == sig), WHAT[sig]
    return w


def _witness(case, sig):
    def w(ctx):
        v = sel_direct(case)
        return (v is not None and v[0] == sig), WHAT[sig]
    return w


WITNESSES = {
    "C12:bernoulli_neg_exp:zero-uniform-at-certain-coin": _witness(W_BERN, "C12:bernoulli_neg_exp:zero-uniform-at-certain-coin"),
    "C12:Exponential:zero-measure-top-candidate:nan-probabilities": _witness(W_EXPO, "C12:Exponential:zero-measure-top-candidate:nan-probabilities"),
    "C12:Bingham:huge-finite-epsilon:hang": _witness(W_BING, "C12:Bingham:huge-finite-epsilon:hang"),
    "C12:Bingham:huge-finite-epsilon:raises": _witness(W_BING2, "C12:Bingham:huge-finite-epsilon:raises"),
}
for _sig in W_DIRECT:
    WITNESSES[_sig] = _witness_direct(_sig)
