"""C08 — models: summed per-record privacy loss stays within the declared epsilon (DESIGN.md §6 C08).

Two engines, both on the real estimators through the harness-side interposition of `DPMechanism.randomise`:

(S) DIRECT ACCOUNTING.  Fit on D for real, recording every noise invocation (class, epsilon, delta, sensitivity, bounds,
    input, output).  Fit on neighbours D' (one record replaced: features and/or label, corner-to-corner, in/out of
    bounds, staying in / moving between label, cluster and leaf groups) with the SAME outputs forced.  Pair the
    invocations by position and require: identical configuration; max_i d_i/sens_i <= 1 (rel. 1e-9);
    sum_i eps_i*w_i <= eps*(1 or 2) (rel. 1e-9) — the factor 2 only when the record changed label/cluster/leaf group.
    Displacement conventions (the mechanisms' own sensitivity conventions):
      scalar-input mechanisms      d = |v - v'|, w = d/sensitivity
      PermuteAndFlip(monotonic)    input = the utility vector u (class counts of a leaf); d = max_j |u_j - u'_j|,
                                   w = (max_j (u'-u)^+ + max_j (u-u')^+)/sensitivity  (a pure removal or addition costs
                                   eps, a simultaneous decrease and increase — which `monotonic=True` does not cover —
                                   costs 2 eps)
      Bingham                      input = symmetric matrix A; d = spectral norm ||A - A'||_2, w = d/sensitivity
      Vector (LogisticRegression)  input = the loss function (data independent); the guarantee (C17) is relative to
                                   rows of norm <= data_sensitivity, so d/sens = max(||x~||, ||x~'||)/data_sensitivity
                                   over the changed record as actually handed to the loss (with the intercept column),
                                   0 when neither its row nor its one-vs-rest label changed
(K) TRACE CORRESPONDENCE with the Lean plans (lean/DPL/Model/PlanModels.lean, driver Drivers/Models.lean): the recorded
    trace of the real fit vs the trace of `Plan.run` of the Lean plan on the same dataset with the recorded outputs
    forced: classes and counts exact; epsilon, sensitivity, bounds rel. 1e-9; inputs rel. 1e-9 (of the natural scale).
"""
import math
import warnings
import contextlib

from ..shim import dp, np
from .. import gen, leanio, seams
from ..gen import f2b, b2f

PROPERTY = "C08"
LEAN_MODULE = "DPL.Properties.C08"
TRUSTED = [
    "modelled, not verified: numpy reductions (sum/mean/var/einsum/argmin/eigvalsh/null_space), sklearn input "
    "validation, scipy.optimize.minimize; the Lean plans reproduce the schedule, every epsilon share, sensitivity and "
    "bound and (except PCA eigen-decomposition, Bingham matrices, the logistic loss) the mechanism inputs",
    "cited as explicit hypotheses of the theorems, not proved: the eigenvalues of X^T X / norm^2 move by at most 2 in "
    "total (nuclear norm) under one replacement; the Bingham and Vector mechanisms' own guarantees relative to their "
    "sensitivity parameters; adaptive sequential composition (turning the bounded loss sum into epsilon-DP of fit)",
    "a neighbour keeps the group-occupancy pattern (labels present / non-empty clusters / occupied leaves); "
    "replacements that change it change the number of invocations and are counted as skipped (see C06 probes)",
    "data-independent randomness (KMeans initial centres, tree structure, forest row partition) is fixed by an integer "
    "random_state and treated as a caller parameter",
    "np.argsort's order among equal noisy class counts (GaussianNB count repair) is implementation defined; the Lean "
    "model sorts stably and fits with tied noisy counts that need repair are skipped in the trace comparison",
    "forest/tree: forest_model_privloss (<= 2 eps; 0 when the record keeps leaf and class) is proved for the Lean plan, "
    "whose PermuteAndFlip input is the leaf's class counts packed base n+1; the theorem decodes it and measures it with "
    "the convention of displacement() below (DPL/Model/PrivLossVec.lean: d = max_j |du_j|, weight = (max increase + max "
    "decrease)/sensitivity). That the real tree's `apply` is the model's Tree.leafOf is tied by the trace correspondence "
    "(packed counts of every leaf compared exactly), not proved",
]
UNPROVED = [
    "PCA: the per-eigenvalue displacement and the spectral-norm displacement of the projected covariance are measured "
    "on the implementation for every generated neighbour; the nuclear-norm bound itself is a cited hypothesis",
    "LogisticRegression: only the epsilon/n_classes split and the data_sensitivity >= row norm relation (C17 has the "
    "mechanism)",
]
RULE = ("estimator x parameters (epsilon log-uniform, 1..10 features, 2..4 classes/clusters/targets, scalar or "
        "per-feature bounds of any sign incl. ranges not containing 0, intercept on/off, PCA centred/uncentred with any "
        "n_components, forest 1..4 trees depth 1..4) x dataset (6..60 records quick, up to 400 thorough; inside / on / "
        "outside the bounds; corner-heavy datasets) x single-record replacements (corner-to-corner, random, small "
        "perturbation, copy of another record, label only, both); non-trivial = at least one invocation's input moved; "
        "distinct by (estimator, shape, parameter class, replacement kind, moved-invocation pattern)")

SLACK = 1e-9
MODELS = ["gnb", "scaler", "kmeans", "linreg", "logreg", "pca", "forest", "tree"]


# ----------------------------------------------------------------------------------------------------------------------
# generators
# ----------------------------------------------------------------------------------------------------------------------

SCALAR_BOUNDS = [(0.0, 1.0), (-1.0, 1.0), (10.0, 11.0), (-5.0, -2.0), (-3.0, 7.0), (0.0, 100.0), (-0.5, 0.25),
                 (2.0, 2.5), (-11.0, -10.0)]


def gen_bounds(r, d, allow_scalar=True):
    """returns (lo list, hi list, scalar?)"""
    if allow_scalar and r.chance(0.45):
        lo, hi = r.choice(SCALAR_BOUNDS)
        return [lo] * d, [hi] * d, True
    lo, hi = [], []
    for _ in range(d):
        m = r.u01()
        if m < 0.3:
            a, b = r.choice(SCALAR_BOUNDS)
        elif m < 0.65:
            a = round(r.uniform(-10, 10), 2)
            b = a + round(r.loguniform(0.05, 20), 3)
        else:
            a = r.uniform(-10, 10)
            b = a + r.loguniform(0.05, 20)
        lo.append(float(a))
        hi.append(float(b))
    return lo, hi, False


def hair_outside(r, lo, hi):
    """a value a hair outside [lo, hi]: bound*(1 +- 1e-9..1e-6) (relative to the width when the bound is 0)"""
    eta = r.loguniform(1e-9, 1e-6)
    up = r.chance(0.5)
    b = hi if up else lo
    step = eta * (abs(b) if b != 0 and r.chance(0.7) else (hi - lo))
    return b + step if up else b - step


def gen_value(r, lo, hi, mode):
    """one feature value; mode: in | mixed | corner"""
    m = r.u01()
    if mode in ("mixed", "corner") and r.chance(0.08):
        return hair_outside(r, lo, hi)
    if mode == "corner":
        if m < 0.9:
            return lo if r.chance(0.5) else hi
        return r.uniform(lo, hi)
    if mode == "in":
        return r.uniform(lo, hi) if m < 0.85 else (lo if m < 0.93 else hi)
    # mixed: inside / on / outside
    if m < 0.6:
        return r.uniform(lo, hi)
    if m < 0.75:
        return lo if r.chance(0.5) else hi
    w = hi - lo
    return (lo - r.loguniform(1e-3, 3) * w) if r.chance(0.5) else (hi + r.loguniform(1e-3, 3) * w)


def gen_rows(r, n, lo, hi, mode):
    d = len(lo)
    if mode == "onecorner":
        c = [lo[j] if r.chance(0.5) else hi[j] for j in range(d)]
        return [list(c) for _ in range(n)]
    return [[gen_value(r, lo[j], hi[j], mode) for j in range(d)] for _ in range(n)]


def gen_labels(r, n, k):
    """n labels over k classes, every class at least twice when possible"""
    y = [i % k for i in range(min(n, 2 * k))] + [r.randint(0, k - 1) for _ in range(max(0, n - 2 * k))]
    r.shuffle(y)
    return y


def gen_eps(r):
    m = r.u01()
    if m < 0.2:
        return r.choice([0.1, 0.5, 1.0, 2.0, 3.0, 10.0])
    return r.loguniform(0.02, 50.0)


def gen_n(r, ctx, d=None, degenerate_p=0.15):
    """number of records; with probability `degenerate_p` a degenerate shape: a single record, two or three, fewer records
    than features / classes / clusters, exactly as many"""
    if d is not None and r.chance(degenerate_p):
        return max(1, r.choice([1, 2, 3, d - 1, d, d + 1, max(1, d // 2), r.randint(1, 5)]))
    if ctx.tier == "thorough" and r.chance(0.25):
        return r.randint(61, 400)
    return r.randint(6, 60) if r.chance(0.7) else r.randint(6, 14)


def unit_vector(r, d, axis_p=0.5):
    if r.chance(axis_p):
        v = [0.0] * d
        v[r.randint(0, d - 1)] = 1.0 if r.chance(0.5) else -1.0
        return v
    v = [r.normal() for _ in range(d)]
    nv = math.sqrt(sum(x * x for x in v)) or 1.0
    return [x / nv for x in v]


def shell_delta(r):
    """relative excess of the marginal row over the norm: k*1e-7 .. 1e-5 mostly, sometimes tiny or clearly outside"""
    m = r.u01()
    if m < 0.7:
        return r.loguniform(1e-8, 9.9e-6)
    if m < 0.8:
        return r.choice([1e-5, 5e-6, 1e-6, 1e-7])
    if m < 0.9:
        return r.loguniform(1e-12, 1e-8)
    return r.loguniform(1.1e-5, 1e-3)


def shell_rows(r, n, d, R, centre, delta):
    """rows = centre + v: one marginal row (index returned) of norm R*(1+delta), all others inside the ball of radius R
    (some exactly on it)"""
    rows = []
    i0 = r.randint(0, n - 1)
    for i in range(n):
        u = unit_vector(r, d)
        if i == i0:
            s_ = R * (1 + delta)
        else:
            s_ = R * r.choice([1.0, 0.999, r.uniform(0.0, 0.99), r.uniform(0.5, 0.999)])
        rows.append([c + s_ * x for c, x in zip(centre, u)])
    return rows, i0


def gen_case(r, ctx, model):
    case = _gen_case(r, ctx, model)
    if not case.get("prefit") and r.chance(0.25):
        keys = [k_ for k_ in LIFECYCLE_KEYS[model] if r.chance(0.75 if k_ == "epsilon" else 0.35)]
        case["lifecycle"] = {"how": r.choice(["set_params", "attr", "clone", "clone_after"]),
                             "keys": keys or ["epsilon"]}
    return case


def _gen_case(r, ctx, model):
    if model in ("pca", "logreg") and r.chance(0.3):
        return gen_shell_case(r, ctx, model)
    d = r.randint(1, 10) if r.chance(0.7) else r.randint(1, 3)
    n = gen_n(r, ctx, d)
    deg = n < 6          # degenerate shape: keep it (the estimator may refuse it: that is an outcome, not an error)
    mode = r.choice(["in", "mixed", "mixed", "corner", "corner", "onecorner"])
    case = {"model": model, "seed": r.randint(0, 2 ** 31 - 2), "mode": mode}
    p = {"epsilon": gen_eps(r)}
    if model in ("gnb", "scaler", "kmeans", "forest", "tree", "pca", "linreg"):
        lo, hi, sc = gen_bounds(r, d)
        p["lo"], p["hi"], p["scalar_bounds"] = lo, hi, sc
    if model == "gnb":
        k = r.randint(2, 4)
        n = n if deg else max(n, 2 * k)
        p["k"] = k
        case["X"] = gen_rows(r, n, lo, hi, mode)
        case["y"] = gen_labels(r, n, k)
    elif model == "scaler":
        p["with_std"] = r.chance(0.8)
        p["with_mean"] = r.chance(0.8)
        case["X"] = gen_rows(r, n, lo, hi, mode)
    elif model == "kmeans":
        k = r.randint(2, 4)
        p["k"] = k
        p["epsilon"] = r.loguniform(0.05, 5000.0)        # iterations = clamp(eps/eps_m, 2, 7) needs large eps
        n = n if deg else max(n, k)
        case["X"] = gen_rows(r, n, lo, hi, mode)
    elif model == "linreg":
        t = r.choice([1, 1, 2, 3, 4])
        p["t"] = t
        p["y1d"] = (t == 1 and r.chance(0.7))
        p["fit_intercept"] = r.chance(0.6)
        if r.chance(0.3):      # the saturating family: bounds [0,b], no shift
            b = r.choice([1.0, 2.0, 0.5])
            lo, hi = [0.0] * d, [b] * d
            p["lo"], p["hi"], p["scalar_bounds"] = lo, hi, True
            ylo, yhi = [0.0] * t, [r.choice([1.0, 3.0])] * t
            ysc = True
        else:
            ylo, yhi, ysc = gen_bounds(r, t)
        p["ylo"], p["yhi"], p["yscalar"] = ylo, yhi, ysc
        case["X"] = gen_rows(r, n, lo, hi, mode)
        case["y"] = gen_rows(r, n, ylo, yhi, mode)
    elif model == "logreg":
        k = r.randint(2, 4)
        n = n if deg else max(n, 2 * k)
        p["k"] = k
        p["data_norm"] = r.choice([1.0, 0.5, 3.0, r.loguniform(0.1, 20)])
        p["fit_intercept"] = r.chance(0.7)
        p["C"] = r.choice([1.0, 1.0, 0.1, 10.0])
        s = p["data_norm"] / math.sqrt(d)
        lo, hi = [-1.5 * s] * d, [1.5 * s] * d
        case["X"] = gen_rows(r, n, lo, hi, "corner" if mode == "onecorner" else mode)
        case["y"] = gen_labels(r, n, k)
        p["lo"], p["hi"] = lo, hi
    elif model == "pca":
        p["centered"] = r.chance(0.5)
        nc = r.choice([None, None, "k", "k", "d", 0.5])
        if r.chance(0.35):
            n = r.randint(1, max(1, d))       # fewer records than features (n_components None / >= n / in between)
        if nc == "k":
            nc = r.randint(1, d)
        elif nc == "d":
            nc = d
        p["n_components"] = nc
        span = math.sqrt(sum(max(abs(a), abs(b), b - a) ** 2 for a, b in zip(lo, hi)))
        p["data_norm"] = r.choice([1.0, span, span * 0.3, span * r.uniform(0.05, 1.5)])
        case["X"] = gen_rows(r, n, lo, hi, mode)
    elif model in ("forest", "tree"):
        k = r.randint(2, 4)
        p["k"] = k
        p["max_depth"] = r.randint(1, 4)
        if model == "forest":
            p["n_estimators"] = r.randint(1, 4)
            p["shuffle"] = r.chance(0.5)
        case["X"] = gen_rows(r, n, lo, hi, mode)
        case["y"] = gen_labels(r, n, k)
    case["params"] = p
    if model in ("kmeans", "gnb", "scaler", "linreg") and r.chance(0.15):
        case["prefit"] = True
    return case


FLAT_MODELS = ["gnb", "kmeans", "scaler", "linreg"]
FLAT_VALUES = [2.0, -3.0, 1.0, -1.0, 0.5, 10.0, -0.25, 100.0]


def gen_flat_case(r, ctx, model):
    """degenerate BOUNDS: per-feature bounds where some features have ZERO width (lower == upper == c, mostly c != 0: a
    constant / bias column) mixed with features of positive width.  A zero-width feature is constant once clipped, but
    it still enters every per-group SUM with |c|: a record that changes group moves that sum in both groups, so the
    feature needs its share of the budget like any other."""
    d = r.randint(2, 6)
    n_var = 1 if r.chance(0.45) else r.randint(1, d - 1)
    flat = set(r.sample(list(range(d)), d - n_var))
    lo, hi, _ = gen_bounds(r, d, allow_scalar=False)
    for j in flat:
        m = r.u01()
        c = r.choice(FLAT_VALUES) if m < 0.6 else (round(r.uniform(-10, 10), 2) if m < 0.93 else 0.0)
        lo[j] = hi[j] = float(c)
    mode = r.choice(["in", "mixed", "corner", "corner"])
    k = r.randint(2, 3)
    n = max(r.randint(6, 24), 2 * k)
    case = {"model": model, "seed": r.randint(0, 2 ** 31 - 2), "mode": "flat:" + mode, "flat": sorted(flat)}
    p = {"epsilon": gen_eps(r), "lo": lo, "hi": hi, "scalar_bounds": False}
    X = gen_rows(r, n, lo, hi, mode)
    for row in X:                       # raw values of a zero-width feature need not equal the bound (they are clipped)
        for j in flat:
            if r.chance(0.15):
                row[j] = lo[j] + r.normal()
    case["X"] = X
    if model == "gnb":
        p["k"] = k
        case["y"] = gen_labels(r, n, k)
    elif model == "kmeans":
        p["k"] = k
        p["epsilon"] = r.loguniform(0.05, 5000.0)
    elif model == "scaler":
        p["with_std"] = r.chance(0.8)
        p["with_mean"] = r.chance(0.8)
    elif model == "linreg":
        t = r.choice([1, 1, 2, 3])
        p["t"], p["y1d"], p["fit_intercept"] = t, (t == 1 and r.chance(0.7)), r.chance(0.6)
        ylo, yhi, _ = gen_bounds(r, t, allow_scalar=False)
        if r.chance(0.3):
            a = r.randint(0, t - 1)
            ylo[a] = yhi[a] = float(r.choice(FLAT_VALUES))
        p["ylo"], p["yhi"], p["yscalar"] = ylo, yhi, False
        case["y"] = gen_rows(r, n, ylo, yhi, mode)
    case["params"] = p
    return case


def flat_replacements(r, case, m):
    """the usual replacement kinds plus, for labelled data, replacements that CHANGE THE GROUP of the record (label only;
    label + opposite corner) — the group-changing neighbour is the one the flat features matter for"""
    reps = gen_replacements(r, case, m)
    if case["model"] == "gnb":
        X, y, p = case["X"], case["y"], case["params"]
        for kind in ("label", "label", "both"):
            i = r.randint(0, len(X) - 1)
            newy = (y[i] + 1 + r.randint(0, p["k"] - 2)) % p["k"]
            x = list(X[i])
            if kind == "both":
                x = [p["hi"][j] if X[i][j] <= (p["lo"][j] + p["hi"][j]) / 2 else p["lo"][j] for j in range(len(x))]
            reps.append({"index": i, "x": [float(v) for v in x], "y": newy, "kind": kind + ":flat"})
    return reps


def gen_shell_case(r, ctx, model):
    """norm-domain models on a thin shell: the largest (centred) row norm is data_norm*(1+delta) with every other row
    inside the ball — a clip that is skipped 'within tolerance' lets that row reach the mechanisms unclipped"""
    d = r.randint(2, 10) if r.chance(0.85) else 1
    n = gen_n(r, ctx, d, 0.1)
    if model == "pca" and r.chance(0.35):
        n = r.randint(1, d)
    R = r.choice([1.0, 1.0, 0.5, 3.0, r.loguniform(0.1, 20)])
    delta = shell_delta(r)
    case = {"model": model, "seed": r.randint(0, 2 ** 31 - 2), "mode": "shell"}
    p = {"epsilon": gen_eps(r), "data_norm": R}
    centre = [0.0] * d
    if model == "pca":
        p["centered"] = r.chance(0.6)
        nc = r.choice([None, "k", "d"])
        p["n_components"] = r.randint(1, d) if nc == "k" else (d if nc == "d" else None)
        p["lo"], p["hi"], p["scalar_bounds"] = [-4.0 * R] * d, [4.0 * R] * d, True
        if not p["centered"]:
            centre = [r.uniform(-R, R) for _ in range(d)]
            case["force_mean"] = centre      # the noisy mean the recording run replays (any value is a possible output)
    else:
        k = r.randint(2, 4)
        n = n if n < 6 else max(n, 2 * k)
        p["k"], p["fit_intercept"], p["C"] = k, r.chance(0.7), r.choice([1.0, 0.1, 10.0])
        p["lo"], p["hi"] = [-R] * d, [R] * d
        case["y"] = gen_labels(r, n, k)
    rows, i0 = shell_rows(r, n, d, R, centre, delta)
    case["X"] = rows
    case["shell"] = {"index": i0, "delta": delta, "centre": centre}
    case["params"] = p
    return case


def shell_replacements(r, case):
    """swap the marginal row: orthogonal marginal row, its negative, an axis-aligned one, an interior row; and turn
    another row into a second marginal one"""
    X, sh, p = case["X"], case["shell"], case["params"]
    d, R, c, dl, i0 = len(X[0]), p["data_norm"], sh["centre"], sh["delta"], sh["index"]
    v = [x - ci for x, ci in zip(X[i0], c)]
    nv = math.sqrt(sum(x * x for x in v)) or 1.0
    y0 = None if case.get("y") is None else case["y"][i0]
    outs = []

    def rep(i, vec, kind, y=y0):
        outs.append({"index": i, "x": [ci + x for ci, x in zip(c, vec)], "y": y, "kind": kind})
    if d >= 2:
        # an orthogonal direction of the same (marginal) length
        a = max(range(d), key=lambda j: abs(v[j]))
        b = (a + 1 + r.randint(0, d - 2)) % d
        w = [0.0] * d
        w[a], w[b] = -v[b], v[a]
        if all(x == 0 for x in w):
            w[b] = nv
        nw = math.sqrt(sum(x * x for x in w))
        rep(i0, [x * nv / nw for x in w], "shell-orthogonal")
        e = [0.0] * d
        e[b] = R * (1 + dl)
        rep(i0, e, "shell-axis")
    rep(i0, [-x for x in v], "shell-negated")
    if len(X) >= 2:
        # the direction of another record, at full length (two records in one direction vs two orthogonal ones)
        j2 = (i0 + 1 + r.randint(0, len(X) - 2)) % len(X)
        v2 = [x - ci for x, ci in zip(X[j2], c)]
        n2 = math.sqrt(sum(x * x for x in v2))
        if n2 > 0:
            rep(i0, [x * R / n2 for x in v2], "shell-parallel")
    rep(i0, [x * 0.5 for x in unit_vector(r, d)], "shell-interior")
    j = (i0 + 1) % len(X)
    rep(j, [R * (1 + shell_delta(r)) * x for x in unit_vector(r, d)], "shell-second",
        None if case.get("y") is None else case["y"][j])
    if case.get("y") is not None:
        rep(i0, [-x for x in v], "shell-negated-label", r.randint(0, p["k"] - 1))
    return outs


def gen_replacements(r, case, m):
    """m single-record replacements: dicts {index, x (list) , y (label / list / None), kind}"""
    if case.get("shell"):
        return shell_replacements(r, case)
    X, y, p, model = case["X"], case.get("y"), case["params"], case["model"]
    n, d = len(X), len(X[0])
    lo, hi = p["lo"], p["hi"]
    out = []
    kinds = ["corner", "corner", "opposite", "random", "perturb", "copy", "label", "both", "out", "hair"]
    for _ in range(m):
        kind = r.choice(kinds)
        i = r.randint(0, n - 1)
        x = list(X[i])
        newy = None if y is None else (list(y[i]) if isinstance(y[i], list) else y[i])
        if kind == "corner":
            x = [lo[j] if r.chance(0.5) else hi[j] for j in range(d)]
        elif kind == "opposite":
            x = [hi[j] if X[i][j] <= (lo[j] + hi[j]) / 2 else lo[j] for j in range(d)]
        elif kind == "random":
            x = [gen_value(r, lo[j], hi[j], "mixed") for j in range(d)]
        elif kind == "perturb":
            x = [v + (hi[j] - lo[j]) * r.uniform(-0.05, 0.05) for j, v in enumerate(x)]
        elif kind == "copy":
            i2 = r.randint(0, n - 1)
            x = list(X[i2])
            if y is not None and r.chance(0.7):
                newy = list(y[i2]) if isinstance(y[i2], list) else y[i2]
        elif kind == "hair":
            # the opposite corner, every coordinate a hair outside its bound
            x = []
            for j in range(d):
                up = X[i][j] <= (lo[j] + hi[j]) / 2
                h = hair_outside(r, lo[j], hi[j])
                x.append(h if (h > hi[j]) == up else (hi[j] + (lo[j] - h) if up else lo[j] - (h - hi[j])))
        elif kind == "out":
            x = [(hi[j] + 2 * (hi[j] - lo[j])) if r.chance(0.5) else (lo[j] - 2 * (hi[j] - lo[j])) for j in range(d)]
        if y is not None and kind in ("label", "both", "corner", "opposite", "random", "out", "hair"):
            if model == "linreg":
                if kind != "label" or True:
                    ylo, yhi = p["ylo"], p["yhi"]
                    if r.chance(0.6):
                        newy = [ylo[a] if r.chance(0.5) else yhi[a] for a in range(len(ylo))]
                    else:
                        newy = [gen_value(r, ylo[a], yhi[a], "mixed") for a in range(len(ylo))]
            elif kind in ("label", "both") or r.chance(0.4):
                newy = r.randint(0, p["k"] - 1)
        if kind == "both":
            x = [lo[j] if r.chance(0.5) else hi[j] for j in range(d)]
        out.append({"index": i, "x": [float(v) for v in x], "y": newy, "kind": kind})
    return out


def apply_replacement(case, rep):
    X = [list(row) for row in case["X"]]
    X[rep["index"]] = list(rep["x"])
    y = None
    if case.get("y") is not None:
        y = [list(v) if isinstance(v, list) else v for v in case["y"]]
        if rep["y"] is not None:
            y[rep["index"]] = rep["y"]
    return X, y


# ----------------------------------------------------------------------------------------------------------------------
# running the real estimators with recording / forcing
# ----------------------------------------------------------------------------------------------------------------------

def _bounds_arg(p, lo="lo", hi="hi", scalar="scalar_bounds"):
    if p.get(scalar):
        return (p[lo][0], p[hi][0])
    return (np.array(p[lo], dtype=float), np.array(p[hi], dtype=float))


def build(case):
    """the estimator of a case; with case["prefit"] the SAME estimator object has been fitted before with narrower
    bounds, which were then widened to the case's bounds by attribute assignment (re-use of an estimator)"""
    if case.get("prefit"):
        p = case["params"]
        w = [b - a for a, b in zip(p["lo"], p["hi"])]
        old = dict(p, lo=[a + 0.25 * w_ for a, w_ in zip(p["lo"], w)], hi=[b - 0.25 * w_ for b, w_ in zip(p["hi"], w)],
                   scalar_bounds=False)
        model = build({k: v for k, v in dict(case, params=old).items() if k != "prefit"})
        with warnings.catch_warnings():
            warnings.simplefilter("ignore")
            model.fit(*fit_args(case, case["X"], case.get("y")))
        model.accountant = dp.BudgetAccountant()
        if case["model"] == "linreg":
            model.bounds_X = _bounds_arg(p)
        else:
            model.bounds = _bounds_arg(p)
        return model
    cls, kw = ctor(case)
    lc = case.get("lifecycle")
    if not lc:
        return cls(**kw)
    # constructed with OTHER parameters, changed to the case's parameters before fit: the noise invocations must be
    # configured from the CURRENT parameters
    kw1 = dict(kw)
    for key in lc["keys"]:
        kw1[key] = alt_value(case, key, kw[key])
    model = cls(**kw1)
    new = {key: kw[key] for key in lc["keys"]}
    from sklearn.base import clone
    if lc["how"] == "set_params":
        model.set_params(**new)
    elif lc["how"] == "attr":
        for key, v in new.items():
            setattr(model, key, v)
    elif lc["how"] == "clone":
        model = clone(model).set_params(**new)
    else:
        model.set_params(**new)
        model = clone(model)
    return model


LIFECYCLE_KEYS = {
    "gnb": ["epsilon", "bounds"], "scaler": ["epsilon", "bounds", "with_std", "with_mean"],
    "kmeans": ["epsilon", "bounds", "n_clusters"], "linreg": ["epsilon", "bounds_X", "bounds_y", "fit_intercept"],
    "logreg": ["epsilon", "data_norm", "C", "fit_intercept"], "pca": ["epsilon", "data_norm", "n_components", "centered"],
    "forest": ["epsilon", "bounds", "n_estimators", "max_depth", "classes", "shuffle"],
    "tree": ["epsilon", "bounds", "max_depth", "classes"],
}


def alt_value(case, key, v):
    """a different value of constructor parameter `key` (deterministic in the case)"""
    rr = gen.SplitMix64(case["seed"] * 13 + sum(map(ord, key)))
    if key == "epsilon":
        return v * rr.choice([0.01, 0.1, 10.0, 50.0])
    if key in ("bounds", "bounds_X", "bounds_y"):
        if v is None:
            return None
        a, b = v
        w = np.asarray(b, dtype=float) - np.asarray(a, dtype=float)
        a2, b2 = np.asarray(a, dtype=float) + 0.25 * w, np.asarray(b, dtype=float) - 0.25 * w
        return (float(a2), float(b2)) if np.ndim(a2) == 0 else (a2, b2)
    if key == "data_norm":
        return v * rr.choice([0.2, 5.0])
    if key == "C":
        return v * rr.choice([0.1, 10.0])
    if key == "n_components":
        return 1 if v is None else (None if rr.chance(0.5) or not isinstance(v, int) else v + 1)
    if key == "n_clusters":
        return 2 + (v - 2 + 1 + rr.randint(0, 1)) % 3
    if key in ("n_estimators", "max_depth"):
        return 1 + (v + rr.randint(0, 2)) % 4
    if key == "classes":
        return list(v) + [len(v)]
    if isinstance(v, bool):
        return not v
    return v


def ctor(case):
    """(class, constructor keyword arguments) of a case"""
    p, m, rs = case["params"], case["model"], case["seed"]
    M = dp.models
    acc = dp.BudgetAccountant()
    if m == "gnb":
        return M.GaussianNB, dict(epsilon=p["epsilon"], bounds=_bounds_arg(p), random_state=rs, accountant=acc)
    if m == "scaler":
        return M.StandardScaler, dict(epsilon=p["epsilon"], bounds=_bounds_arg(p), with_std=p["with_std"],
                                      with_mean=p["with_mean"], random_state=rs, accountant=acc)
    if m == "kmeans":
        return M.KMeans, dict(n_clusters=p["k"], epsilon=p["epsilon"], bounds=_bounds_arg(p), random_state=rs,
                              accountant=acc)
    if m == "linreg":
        return M.LinearRegression, dict(epsilon=p["epsilon"], bounds_X=_bounds_arg(p),
                                        bounds_y=_bounds_arg(p, "ylo", "yhi", "yscalar"),
                                        fit_intercept=p["fit_intercept"], random_state=rs, accountant=acc)
    if m == "logreg":
        return M.LogisticRegression, dict(epsilon=p["epsilon"], data_norm=p["data_norm"],
                                          fit_intercept=p["fit_intercept"], C=p["C"], random_state=rs, accountant=acc)
    if m == "pca":
        return M.PCA, dict(n_components=p["n_components"], epsilon=p["epsilon"], centered=p["centered"],
                           bounds=None if p["centered"] else _bounds_arg(p), data_norm=p["data_norm"], random_state=rs,
                           accountant=acc)
    if m == "forest":
        return M.RandomForestClassifier, dict(n_estimators=p["n_estimators"], epsilon=p["epsilon"],
                                              bounds=_bounds_arg(p), classes=list(range(p["k"])),
                                              max_depth=p["max_depth"], shuffle=p["shuffle"], random_state=rs,
                                              accountant=acc)
    if m == "tree":
        return M.DecisionTreeClassifier, dict(max_depth=p["max_depth"], epsilon=p["epsilon"], bounds=_bounds_arg(p),
                                              classes=list(range(p["k"])), random_state=rs, accountant=acc)
    raise ValueError(m)


def fit_args(case, X, y):
    m = case["model"]
    Xa = np.array(X, dtype=float)
    if m in ("scaler", "kmeans", "pca"):
        return (Xa,)
    if m == "linreg":
        ya = np.array(y, dtype=float)
        if case["params"]["y1d"]:
            ya = ya[:, 0]
        return (Xa, ya)
    return (Xa, np.array(y))


class Probes:
    """group membership as the estimator itself sees it (harness-side wrappers, nothing in /repo is touched)"""

    def __init__(self):
        self.kmeans_labels = []     # one label array per _distances_labels call
        self.leaves = []            # one leaf-id array per tree
        self.tree_rows = []         # the rows handed to each tree (to locate the replaced record)
        self.tree_y = []
        self.loss_args = []         # (X, target) handed to each noisy logistic loss
        self.km_init = None         # KMeans._init_centers (data independent)


@contextlib.contextmanager
def probing():
    pr = Probes()
    KM = dp.models.k_means.KMeans
    FT = dp.models.forest._FittingTree
    o_dl, o_fit, o_init = KM._distances_labels, FT.fit, KM._init_centers

    def init(self, dims, random_state):
        out = o_init(self, dims, random_state)
        pr.km_init = None if out is None else np.array(out)
        return out

    def dl(self, X, centers):
        out = o_dl(self, X, centers)
        pr.kmeans_labels.append(np.array(out[1]))
        return out

    def tfit(self, X, y):
        pr.leaves.append(np.array(self.apply(X)))
        pr.tree_rows.append(np.array(X))
        pr.tree_y.append(np.array(y))
        return o_fit(self, X, y)

    KM._distances_labels, FT.fit, KM._init_centers = dl, tfit, init
    try:
        yield pr
    finally:
        KM._distances_labels, FT.fit, KM._init_centers = o_dl, o_fit, o_init


class Rec:
    """summary of one recorded invocation"""
    __slots__ = ("cls", "eps", "delta", "sens", "lower", "upper", "extra", "value", "result")

    def __init__(self, c):
        o = c.obj
        self.cls = c.cls
        self.eps = float(o.epsilon)
        self.delta = float(o.delta)
        self.sens = float(getattr(o, "sensitivity", getattr(o, "data_sensitivity", float("nan"))))
        lo, hi = getattr(o, "lower", None), getattr(o, "upper", None)
        self.lower = -math.inf if lo is None else float(lo)
        self.upper = math.inf if hi is None else float(hi)
        ex = {}
        for a in ("monotonic", "function_sensitivity", "data_sensitivity", "alpha", "dimension", "n"):
            if hasattr(o, a) and not callable(getattr(o, a)):
                v = getattr(o, a)
                ex[a] = v if isinstance(v, (bool, int)) else float(v)
        self.extra = ex
        if c.cls in ("PermuteAndFlip", "Exponential", "ExponentialCategorical", "ExponentialHierarchical"):
            self.value = [float(u) for u in c.params.get("utility", [])]
        elif isinstance(c.value, np.ndarray):
            self.value = np.array(c.value, dtype=float)
        elif callable(c.value):
            self.value = "fn"
        else:
            self.value = float(c.value)
        self.result = c.result

    def config(self):
        return (self.cls, self.eps, self.delta, self.sens, self.lower, self.upper, tuple(sorted(self.extra.items())))

    def as_json(self):
        v = self.value
        if isinstance(v, np.ndarray):
            v = v.tolist()
        res = self.result
        if isinstance(res, np.ndarray):
            res = res.tolist()
        elif callable(res):
            res = "fn"
        elif isinstance(res, (np.floating, np.integer)):
            res = res.item()
        return {"cls": self.cls, "epsilon": self.eps, "delta": self.delta, "sensitivity": self.sens, "lower": self.lower,
                "upper": self.upper, **self.extra, "input": v, "output": res}


class Mismatch(Exception):
    pass


class Refused(Exception):
    """the estimator refused the training set itself (degenerate shape): an outcome, not a failure of the check"""


def run_fit(case, X, y, forced=None):
    """fit for real; forced = list of outputs to return from the interposed randomise (None: run the real samplers).
    Returns (model, [Rec], Probes, mismatch) — mismatch is set when the forced schedule ran out (more invocations
    than recorded); the probes then cover the part of the fit that ran."""
    model = build(case)

    def force(c, idx):
        if idx >= len(forced):
            raise Mismatch(f"invocation {idx} ({c.cls}) has no recorded counterpart")
        out = forced[idx]
        if c.cls == "Vector":
            # the recorded output is the noisy loss of the recording run; wrap it to see what the optimiser hands it
            def wrapped(*args, _f=out):
                if not pr.loss_args or pr.loss_args[-1][0] != idx:
                    pr.loss_args.append((idx, np.array(args[1]), np.array(args[2])))
                return _f(*args)
            return wrapped
        return out

    def record_force(c, idx):
        # the recording run uses the real samplers, except Bingham: its rejection sampler can take minutes when
        # epsilon x eigen-gap is large; any unit vector is a possible output, so a scheduled one is replayed instead
        fm = case.get("force_mean")
        if fm is not None and c.cls == "LaplaceTruncated" and idx < len(fm):
            return float(fm[idx])
        if c.cls == "Bingham":
            d = c.value.shape[0]
            if d == 1:
                return np.ones((1, 1))
            rr = gen.SplitMix64(case["seed"] * 31 + idx)
            v = np.array([rr.normal() for _ in range(d)])
            return v / np.linalg.norm(v)
        return seams.interpose.REAL

    mismatch = None
    with warnings.catch_warnings():
        warnings.simplefilter("ignore")
        with probing() as pr, seams.interpose(force=force if forced is not None else record_force) as calls:
            try:
                model.fit(*fit_args(case, X, y))
            except Mismatch as e:
                mismatch = e
                calls.pop()
    recs = [Rec(c) for c in calls]
    return model, recs, pr, mismatch


# ----------------------------------------------------------------------------------------------------------------------
# (S) the direct privacy-loss accounting
# ----------------------------------------------------------------------------------------------------------------------

def clip_rows_norm(X, norm):
    X = np.array(X, dtype=float)
    nr = np.linalg.norm(X, axis=1)
    f = np.where(nr > norm, norm / np.where(nr == 0, 1, nr), 1.0)
    return X * f[:, None]


def displacement(a, b, case, i, ctxinfo):
    """(d_over_sens for the max-check, weight for the sum) of invocation i"""
    if a.cls in ("PermuteAndFlip",):
        u, v = np.array(a.value), np.array(b.value)
        if u.shape != v.shape:
            return math.inf, math.inf
        up = max(0.0, float(np.max(v - u))) if len(u) else 0.0
        dn = max(0.0, float(np.max(u - v))) if len(u) else 0.0
        dmax = max(up, dn)
        if dmax == 0:
            return 0.0, 0.0
        w = (up + dn) if a.extra.get("monotonic") else dmax
        return dmax / a.sens, w / a.sens
    if a.cls == "Bingham":
        A, B = a.value, b.value
        if A.shape != B.shape:
            return math.inf, math.inf
        d = float(np.max(np.abs(np.linalg.eigvalsh((A - B + (A - B).T) / 2)))) if A.size else 0.0
        if d == 0:
            return 0.0, 0.0
        return d / a.sens, d / a.sens
    if a.cls == "Vector":
        return ctxinfo["vector"](i)
    d = abs(a.value - b.value)
    if d == 0 or (a.value != a.value and b.value != b.value):
        return 0.0, 0.0
    if a.sens == 0:
        return math.inf, math.inf
    return d / a.sens, d / a.sens


def group_changed(case, rep, prD, prD2, yD, yD2):
    """did the replaced record change label / cluster / leaf group (as the estimator sees it)?"""
    m = case["model"]
    i = rep["index"]
    if m in ("gnb",):
        return yD[i] != yD2[i]
    if m == "kmeans":
        return any(int(a[i]) != int(b[i]) for a, b in zip(prD.kmeans_labels, prD2.kmeans_labels))
    if m in ("forest", "tree"):
        if yD[i] != yD2[i]:
            return True
        return any((a != b).any() for a, b in zip(prD.leaves, prD2.leaves))
    return False


def occupancy(case, pr, y):
    m = case["model"]
    if m in ("gnb", "logreg"):
        return sorted(set(y))
    if m == "kmeans":
        return [sorted(set(int(v) for v in lab)) for lab in pr.kmeans_labels]
    if m in ("forest", "tree"):
        return [sorted(set(int(v) for v in lv)) for lv in pr.leaves]
    return None


def account(ctx, case, rep, recD, prD, recD2, prD2, yD, yD2, mismatch=None):
    """returns list of (signature, what, detail) — empty when the property holds for this neighbour"""
    m = case["model"]
    eps = case["params"]["epsilon"]
    viol = []
    oD, oD2 = occupancy(case, prD, yD), occupancy(case, prD2, yD2)
    if isinstance(oD2, list) and case["model"] in ("kmeans", "forest", "tree"):
        # one of the fits may have stopped earlier than the other: compare the occupancy of what both got to
        # (a data-dependent NUMBER of iterations is not an occupancy difference)
        k_ = min(len(oD), len(oD2))
        oD, oD2 = oD[:k_], oD2[:k_]
    same_occ = oD == oD2
    if mismatch is not None or len(recD) != len(recD2) or any(a.cls != b.cls for a, b in zip(recD, recD2)):
        if not same_occ:
            return "skipped-occupancy", viol
        viol.append((f"C08:{m}:schedule-differs",
                     f"{m}: the number/classes of noise invocations differ on the neighbour "
                     f"({len(recD)} vs {len(recD2)}{', ' + str(mismatch) if mismatch else ''}) although the group "
                     f"occupancy pattern is the same", {}))
        return "violation", viol
    if not same_occ and m in ("gnb", "kmeans", "forest", "tree", "logreg"):
        return "skipped-occupancy", viol

    # Vector: what the noisy losses were handed
    def vector_disp(i):
        a = recD[i]
        la = [t for t in prD.loss_args if t[0] == i]
        lb = [t for t in prD2.loss_args if t[0] == i]
        if not la or not lb:
            return 0.0, 0.0
        _, XA, tA = la[0]
        _, XB, tB = lb[0]
        ri = rep["index"]
        fi = case["params"]["fit_intercept"]
        ra = np.append(XA[ri], 1.0) if fi else XA[ri]
        rb = np.append(XB[ri], 1.0) if fi else XB[ri]
        others_same = np.array_equal(np.delete(XA, ri, 0), np.delete(XB, ri, 0)) and \
            np.array_equal(np.delete(tA, ri), np.delete(tB, ri))
        if not others_same:
            return math.inf, math.inf
        if np.array_equal(ra, rb) and tA[ri] == tB[ri]:
            return 0.0, 0.0
        dn = max(float(np.linalg.norm(ra)), float(np.linalg.norm(rb)))
        return dn / a.extra["data_sensitivity"], dn / a.extra["data_sensitivity"]

    info = {"vector": vector_disp}
    total = 0.0
    moved = []
    for i, (a, b) in enumerate(zip(recD, recD2)):
        ca, cb = a.config(), b.config()
        if True:
            if not all((x == y_) or (isinstance(x, float) and isinstance(y_, float) and x != x and y_ != y_)
                       for x, y_ in zip(ca, cb)):
                viol.append((f"C08:{m}:{a.cls}:config-differs",
                             f"{m}: invocation {i} ({a.cls}) is configured differently on the neighbour although all "
                             f"earlier outputs are equal: {ca} vs {cb}", {"invocation": i, "D": a.as_json(), "D2": b.as_json()}))
                continue
        dmax, w = displacement(a, b, case, i, info)
        if dmax > 0:
            moved.append(i)
        if dmax > 1 + SLACK:
            viol.append((f"C08:{m}:{a.cls}:input-exceeds-sensitivity",
                         f"{m}: invocation {i} ({a.cls}, eps={a.eps!r}, sensitivity={a.sens!r}) input moved by "
                         f"{dmax!r} x its sensitivity under one replaced record ({rep['kind']})",
                         {"invocation": i, "D": a.as_json(), "D2": b.as_json(), "ratio": dmax}))
        total += a.eps * w
    changed = group_changed(case, rep, prD, prD2, yD, yD2)
    factor = 2 if changed else 1
    if total > eps * factor * (1 + SLACK):
        viol.append((f"C08:{m}:loss-sum-exceeds-epsilon" + (":group-change" if changed else ""),
                     f"{m}: sum_i eps_i*d_i/sens_i = {total!r} > {factor} x epsilon = {eps * factor!r} "
                     f"(ratio {total / (eps * factor):.6f}) under one replaced record ({rep['kind']}, "
                     f"{'group changed' if changed else 'same group'}); {len(moved)} of {len(recD)} invocations moved",
                     {"sum": total, "allowed": eps * factor, "moved": moved[:50],
                      "moved_invocations": [recD[i].as_json() for i in moved[:12]]}))
    key = (m, len(case["X"][0]), rep["kind"], changed, len(moved), round(math.log10(max(total / eps, 1e-12)), 1))
    return ("violation" if viol else ("ok", key, total / (eps * factor))), viol


def check_case(ctx, case, reps, want_trace=False):
    """record on D, force on each neighbour, account.  Returns (fitted model, recD, prD, n_violations)."""
    X, y = case["X"], case.get("y")
    ylab = None if y is None else [tuple(v) if isinstance(v, list) else v for v in y]
    try:
        model, recD, prD, _ = run_fit(case, X, y)
    except (ValueError, np.linalg.LinAlgError, ZeroDivisionError) as e:
        raise Refused(f"{type(e).__name__}: {str(e)[:100]}")
    if case["model"] == "logreg":
        # the recording run: capture what the losses are handed by re-running forced with its own outputs
        _, recD, prD, _ = run_fit(case, X, y, forced=[r_.result for r_ in recD])
    forced = [r_.result for r_ in recD]
    nviol = 0
    best = 0.0
    for rep in reps:
        X2, y2 = apply_replacement(case, rep)
        y2lab = None if y2 is None else [tuple(v) if isinstance(v, list) else v for v in y2]
        try:
            _, recD2, prD2, mismatch = run_fit(case, X2, y2, forced=forced)
        except (ValueError, np.linalg.LinAlgError, ZeroDivisionError) as e:
            # e.g. LogisticRegression with a class that vanished
            ctx.count("neighbour_refused")
            continue
        status, viol = account(ctx, case, rep, recD, prD, recD2, prD2, ylab, y2lab, mismatch)
        if status == "skipped-occupancy":
            ctx.count("skipped_occupancy_changed")
            ctx.case(None)
            continue
        if viol:
            nviol += len(viol)
            for sig, what, detail in viol:
                ctx.violation(sig, what, {"case": case, "replacement": rep, "detail": detail,
                                          "forced_outputs": [r_.as_json()["output"] for r_ in recD][:400]})
            ctx.case(None)
        else:
            _, key, ratio = status
            best = max(best, ratio)
            ctx.case(key if key[4] > 0 else None)
        ctx.count("neighbours_" + case["model"])
    ctx.counters["max_ratio_" + case["model"]] = max(ctx.counters.get("max_ratio_" + case["model"], 0.0), round(best, 6))
    return model, recD, prD, nviol


# ----------------------------------------------------------------------------------------------------------------------
# (K) trace correspondence with the Lean plans
# ----------------------------------------------------------------------------------------------------------------------

def _fs(xs):
    return " ".join(str(f2b(float(v))) for v in xs)


def _flat(rows):
    return [v for row in rows for v in row]


def _out_scalar(rec):
    res = rec.result
    if isinstance(res, (int, float, np.integer, np.floating)):
        return float(res)
    return 0.0          # vector / function outputs are not part of the Lean model


def driver_line(case, model, recs, pr):
    """the Models-driver line for this fit (None when this case has no Lean counterpart)"""
    p, m = case["params"], case["model"]
    X = case["X"]
    n, d = len(X), len(X[0])
    outs = _fs(_out_scalar(rc) for rc in recs)
    if m == "gnb":
        return f"gnb | {f2b(p['epsilon'])} {n} {d} {p['k']} | {_fs(p['lo'])} | {_fs(p['hi'])} | {_fs(_flat(X))} | " \
               f"{' '.join(str(v) for v in case['y'])} | {outs}"
    if m == "scaler":
        return f"scaler | {f2b(p['epsilon'])} {n} {d} {int(p['with_mean'])} {int(p['with_std'])} | {_fs(p['lo'])} | " \
               f"{_fs(p['hi'])} | {_fs(_flat(X))} | {outs}"
    if m == "kmeans":
        if pr.km_init is None:
            return None
        return f"kmeans | {f2b(p['epsilon'])} {n} {d} {p['k']} | {_fs(p['lo'])} | {_fs(p['hi'])} | {_fs(_flat(X))} | " \
               f"{_fs(pr.km_init.ravel())} | {outs}"
    if m == "linreg":
        return f"linreg | {f2b(p['epsilon'])} {n} {d} {p['t']} {int(p['y1d'])} {int(p['fit_intercept'])} | " \
               f"{_fs(p['lo'])} | {_fs(p['hi'])} | {_fs(p['ylo'])} | {_fs(p['yhi'])} | {_fs(_flat(X))} | " \
               f"{_fs(_flat(case['y']))} | {outs}"
    if m == "logreg":
        ds = math.sqrt(p["data_norm"] ** 2 + 1) if p["fit_intercept"] else p["data_norm"]
        return f"logreg | {f2b(p['epsilon'])} {f2b(ds)} {len(set(case['y']))} | {outs}"
    if m == "pca":
        nc = p["n_components"]
        k = min(nc, d) if isinstance(nc, int) else (min(n, d) if nc is None else d)
        return f"pca | {f2b(p['epsilon'])} {n} {d} {k} {int(p['centered'])} | {_fs(p['lo'])} | {_fs(p['hi'])} | " \
               f"{_fs(_flat(X))} | {outs}"
    if m in ("forest", "tree"):
        trees = [model.tree_] if m == "tree" else [e.tree_ for e in model.estimators_]
        rows = np.concatenate(pr.tree_rows) if pr.tree_rows else np.zeros((0, d))
        ys = np.concatenate(pr.tree_y) if pr.tree_y else np.zeros((0,))
        tof = [i for i, tr in enumerate(pr.tree_rows) for _ in range(len(tr))]
        secs = []
        for t in trees:
            secs += [" ".join(str(max(int(v), 0)) for v in t.feature), _fs(t.threshold),
                     " ".join(str(int(v)) for v in t.children_left), " ".join(str(int(v)) for v in t.children_right),
                     str(p["max_depth"])]
        return f"forest | {f2b(p['epsilon'])} {len(rows)} {d} {p['k']} {len(trees)} | {_fs(p['lo'])} | {_fs(p['hi'])} | " \
               f"{_fs(rows.ravel())} | {' '.join(str(int(v)) for v in ys.ravel())} | {' '.join(map(str, tof))} | " \
               f"{outs} | " + " | ".join(secs)
    return None


def pack_counts(u, n):
    acc = 0
    for c in reversed(u):
        acc = acc * (n + 1) + int(c)
    return float(acc)


def kmeans_near_boundary(case):
    p = case["params"]
    n, d = len(case["X"]), len(case["X"][0])
    em = np.sqrt(500 * (p["k"] ** 3) / (n ** 2) * (d + np.cbrt(4 * d * (0.225 ** 2))) ** 3)
    v = p["epsilon"] / em
    return 2 - 1e-9 < v < 7 + 1e-9 and abs(v - round(v)) < 1e-9 * max(1.0, v)


def compare_trace(ctx, case, model, recs, pr, out):
    """Lean trace line vs the recorded real trace; True when they agree"""
    m = case["model"]
    n = len(case["X"])
    secs = [s_.split() for s_ in out.split("|")]
    unit = f"plan.{m}"
    inp = {"case": {k: v for k, v in case.items() if k not in ("X", "y")}, "n": n}
    if not secs or not secs[0] or secs[0][0] != "ok":
        ctx.disagree(unit, inp, out[:200], "trace of %d calls" % len(recs), "driver refused the line")
        return False
    toks = secs[1]
    ncalls = int(secs[0][1])
    if ncalls != len(recs) or len(toks) != 7 * ncalls:
        ctx.disagree(unit, inp, f"{ncalls} calls: " + " ".join(toks[0::7]), f"{len(recs)} calls: " +
                     " ".join(rc.cls for rc in recs), "number of invocations")
        return False
    nrows = sum(len(t) for t in pr.tree_rows) if m in ("forest", "tree") else n
    for i, rc in enumerate(recs):
        kind = toks[7 * i]
        eps, delta, sens, lower, upper, inpv = (b2f(int(x)) for x in toks[7 * i + 1:7 * i + 7])
        if kind != rc.cls:
            ctx.disagree(unit, inp, kind, rc.cls, f"class of invocation {i}")
            return False
        want = {"epsilon": (eps, rc.eps), "delta": (delta, rc.delta), "sensitivity": (sens, rc.sens)}
        if kind not in ("Vector",):
            want["lower"] = (lower, rc.lower)
            want["upper"] = (upper, rc.upper)
        for name, (a, b) in want.items():
            if not gen.rel_close(a, b, 1e-9, 1e-300):
                ctx.disagree(unit, inp, {name: a}, {name: b}, f"invocation {i} ({kind}) of {len(recs)}")
                return False
        # inputs
        if kind == "PermuteAndFlip":
            if inpv != pack_counts(rc.value, nrows):
                ctx.disagree(unit, inp, inpv, rc.value, f"utility of invocation {i} (packed base n+1)")
                return False
        elif kind in ("Vector", "Bingham") or (m == "pca" and kind == "LaplaceBoundedDomain"):
            pass
        else:
            tol = 1e-9 * (abs(rc.sens) * max(n, 1) if math.isfinite(rc.sens) else 1.0)
            if not gen.rel_close(inpv, rc.value, 1e-9, tol):
                ctx.disagree(unit, inp, inpv, rc.value, f"input of invocation {i} ({kind})")
                return False
    # releases where the post-processing is modelled
    rel = secs[3] if len(secs) > 3 else []
    if rel and rel[0] != "short":
        vals = [b2f(int(x)) for x in rel]
        impl = None
        if m == "gnb":
            k_, d_ = len(model.classes_), len(case["X"][0])
            impl = list(model.class_count_) + [v for c in range(k_) for j in range(d_)
                                               for v in (model.theta_[c, j], model.var_[c, j] - model.epsilon_)]
        elif m == "scaler":
            impl = None       # mean_/var_ go through (m*n)/n: compared in C06 between real runs
        elif m == "kmeans":
            impl = [float(model.n_iter_)] + list(np.ravel(model.cluster_centers_))
        elif m == "linreg":
            c0, c1, c2 = model._obj_coefs
            d_ = len(case["X"][0])
            impl = (list(vals[:len(vals) - len(c0) - c1.size - d_ * (d_ + 1) // 2]) + list(c0) +
                    [c1[j, i] for i in range(c1.shape[1]) for j in range(c1.shape[0])] +
                    [c2[i, j] for i in range(d_) for j in range(i, d_)])
        if impl is not None:
            if len(impl) != len(vals) or not all(gen.rel_close(a, float(b), 1e-9, 1e-12) for a, b in zip(vals, impl)):
                ctx.disagree(unit, inp, vals[:12], [float(v) for v in impl[:12]], "release (post-processing)")
                return False
    return True


# ----------------------------------------------------------------------------------------------------------------------
# regression witnesses: one targeted family per repaired defect (known_findings.json "fixed", property C08) — inputs
# on which the OLD formula fails, run on every check so that a re-introduction is reported with a concrete input
# ----------------------------------------------------------------------------------------------------------------------

def regression_cases(r):
    out = []
    # KMeans: swapped (eps_0, eps_i) [d >= 5] and cluster-sum sensitivity u-l [bounds not containing 0]:
    # two tight groups at opposite corners of (10, 11)^d, a record moves from one group to the other
    for d in (5, 10):
        for _ in range(3):
            n = 20
            X = [[10.0] * d if i % 2 == 0 else [11.0] * d for i in range(n)]
            case = {"model": "kmeans", "seed": r.randint(0, 2 ** 31 - 2), "mode": "regression:kmeans",
                    "params": {"epsilon": 20000.0, "lo": [10.0] * d, "hi": [11.0] * d, "scalar_bounds": True, "k": 2},
                    "X": X}
            reps = [{"index": i, "x": [11.0] * d if i % 2 == 0 else [10.0] * d, "y": None, "kind": "opposite"}
                    for i in range(6)]
            out.append((case, reps))
    # KMeans re-fitted after its bounds were widened (estimator re-use): noise must be calibrated to the CURRENT bounds.
    # Bounds (0, 4) after a first fit with (1, 3): a record going from 0 to 4 moves a coordinate sum by 4.
    for d in (1, 3):
        n = 16
        X = [[0.0] * d if i % 2 == 0 else [4.0] * d for i in range(n)]
        case = {"model": "kmeans", "seed": r.randint(0, 2 ** 31 - 2), "mode": "regression:kmeans-refit", "prefit": True,
                "params": {"epsilon": 50.0, "lo": [0.0] * d, "hi": [4.0] * d, "scalar_bounds": True, "k": 2}, "X": X}
        reps = [{"index": i, "x": [4.0] * d if i % 2 == 0 else [0.0] * d, "y": None, "kind": "opposite"} for i in range(4)]
        out.append((case, reps))
    # GaussianNB: class-sum sensitivity u-l with bounds (10, 11): a label change moves a class sum by >= 10
    for d in (1, 3):
        n = 12
        X = [[10.0 if (i + j) % 2 else 11.0 for j in range(d)] for i in range(n)]
        y = [i % 2 for i in range(n)]
        case = {"model": "gnb", "seed": r.randint(0, 2 ** 31 - 2), "mode": "regression:gnb",
                "params": {"epsilon": 1.0, "lo": [10.0] * d, "hi": [11.0] * d, "scalar_bounds": True, "k": 2},
                "X": X, "y": y}
        reps = [{"index": i, "x": list(X[i]), "y": 1 - y[i], "kind": "label"} for i in range(4)]
        out.append((case, reps))
    # LinearRegression: (a) squared-feature sensitivity from both bounds, (b) one constant coefficient per target,
    # (c) intercept share halved between the two means.  Bounds [0, 1]: the all-zero record replaced by the all-one
    # record moves every monomial sum from its minimum to its maximum corner.
    for d, t, fi in ((2, 1, False), (2, 3, False), (1, 1, True), (1, 2, True), (3, 4, False)):
        n = 10
        X = [[0.0] * d for _ in range(n)]
        Y = [[0.0] * t for _ in range(n)]
        case = {"model": "linreg", "seed": r.randint(0, 2 ** 31 - 2), "mode": "regression:linreg",
                "params": {"epsilon": 1.0, "lo": [0.0] * d, "hi": [1.0] * d, "scalar_bounds": True, "t": t, "y1d": False,
                           "fit_intercept": fi, "ylo": [0.0] * t, "yhi": [1.0] * t, "yscalar": True},
                "X": X, "y": Y}
        reps = [{"index": i, "x": [1.0] * d, "y": [1.0] * t, "kind": "opposite"} for i in range(2)]
        out.append((case, reps))
    return out


def check(ctx):
    for case, reps in regression_cases(ctx.fork("regression")):
        check_case(ctx, case, reps)
        ctx.count("regression_families")
    # degenerate bounds (zero-width features at non-zero values): direct accounting only (S); own random stream
    rf = ctx.fork("flat-bounds")
    for model in FLAT_MODELS:
        for j in range(ctx.budget(24 if model == "gnb" else 10, 120)):
            case = gen_flat_case(rf, ctx, model)
            reps = flat_replacements(rf, case, 4)
            try:
                check_case(ctx, case, reps)
            except Refused:
                ctx.count("training_set_refused_" + model)
                continue
            except Exception as e:  # a crash of fit on a generated case is a bug of the generator, keep it visible
                ctx.note(f"{model} (flat bounds): {type(e).__name__}: {str(e)[:160]}")
                ctx.count("fit_errors")
                if ctx.counters["fit_errors"] > 25:
                    raise
                continue
            ctx.count("flat_bounds_" + model)
    r = ctx.fork("cases")
    per_model = ctx.budget(60, 500)
    n_reps = 6 if ctx.tier == "quick" else 8
    lines, pending = [], []
    for model in MODELS:
        for j in range(per_model):
            case = gen_case(r, ctx, model)
            reps = gen_replacements(r, case, n_reps)
            try:
                fitted, recD, prD, _ = check_case(ctx, case, reps)
            except Refused as e:
                ctx.count("training_set_refused_" + model)
                continue
            except Exception as e:  # a crash of fit on a generated case is a bug of the generator, keep it visible
                ctx.note(f"{model}: {type(e).__name__}: {str(e)[:160]}")
                ctx.count("fit_errors")
                if ctx.counters["fit_errors"] > 25:
                    raise
                continue
            if j == 0:
                ctx.sample({"model": model, "params": case["params"], "n": len(case["X"]), "replacement": reps[0]})
            if model == "kmeans" and kmeans_near_boundary(case):
                ctx.boundary_skipped += 1
                continue
            if model == "gnb":
                # np.argsort's order among EQUAL noisy counts is implementation defined (SIMD sorting networks are
                # not stable); the count-repair loop then adjusts a different one of the tied classes
                raw = [rc.result for rc in recD if rc.cls == "GeometricTruncated"]
                if len(set(raw)) < len(raw) and sum(raw) != len(case["X"]):
                    ctx.boundary_skipped += 1
                    continue
            line = driver_line(case, fitted, recD, prD)
            if line is not None:
                lines.append(line)
                pending.append((case, fitted, recD, prD))
    outs = leanio.run_driver("Models", lines)
    for (case, fitted, recD, prD), out in zip(pending, outs):
        if compare_trace(ctx, case, fitted, recD, prD, out):
            ctx.trace_ok()
            ctx.count("traces_" + case["model"])


def replay(ctx, data):
    d = data["data"]
    from ..core import unjson_float as u

    def fix(x):
        if isinstance(x, list):
            return [fix(v) for v in x]
        if isinstance(x, dict):
            return {k: fix(v) for k, v in x.items()}
        return u(x)
    case, rep = fix(d["case"]), fix(d["replacement"])
    try:
        _, _, _, nviol = check_case(ctx, case, [rep])
    except Refused:
        return False
    return nviol > 0


WITNESSES = {}


def generate(ctx):
    """translator tie: the epsilon splits and group-sum sensitivities are re-read from /repo's AST on every run, translated
    to Lean terms over ℝ and proved equal to the expressions of the model's plans (harness/anchors.py)"""
    from .. import anchors
    from ..shim import REPO
    r = anchors.build(REPO, "C08", ["DPL.Model.PlanModels"], anchors.c08_specs(), opens="")
    ctx.count("formula_anchors", r["obligations"])
    if r["errors"]:
        r["unavailable"] = r["errors"]      # anchors that could not be located / translated (not failed obligations)
    return r
