"""C01 — discrete mechanisms: the sampler that actually runs is epsilon-DP (DESIGN.md §6 C01).

Three layers per mechanism family:
 (i)   sampler OUTPUTS: the real `randomise` under scripted uniforms (public `random_state=` seam) vs the Lean model
       (`lean/DPL/Model/Discrete.lean`, run on the same doubles by `Drivers/Discrete.lean`);
 (ii)  exact LAW of the running sampler (break-points of the step function u -> output located by bisection on the
       53-bit grid of `random()`; decision-tree enumeration with symbolic uniforms for the multi-uniform samplers) vs
       the model's closed-form law (the one the theorems of DPL.Properties.C01 are about);
 (iii) the property itself on the extracted law of the implementation: P[o|x] <= e^eps * P[o|x'] for every generated
       neighbour pair and every atom of mass >= 1e-9 (relative slack 1e-6).
"""
import math
from fractions import Fraction

from ..shim import dp, np
from .. import gen, leanio, seams
from ..gen import f2b, b2f

PROPERTY = "C01"
LEAN_MODULE = "DPL.Properties.C01"
TRUSTED = [
    "modelled, not verified: `random()` is uniform on [0,1) (53-bit grid) and successive draws are independent, i.e. "
    "the draws ARE a sample of streamμ = Measure.infinitePi(unif01). No longer trusted (now theorems over that "
    "measure): that a comparison `u <= t` acts as a Bernoulli(t) branch, that `int(u*n)` is uniform on 0..n-1 and "
    "that what runs after a sub-sampler sees a fresh independent stream — stream_prefix_independent, stream_bind_law, "
    "bernoulli_neg_exp_stream_law (P[1] = exp(-gamma), all gamma >= 0, returns a.s.), paf_run_stream_law / "
    "paf_stream_law (the model's pafRun has the law pafLaw = pafPmf), paf_sampler_dp(_monotonic) (eps-DP of the "
    "sampler's output measure on every set of candidates); single-uniform samplers: binary/geom/exp_sampler_dp as "
    "statements about unif01(sampler^-1 T) for every output set T",
    "numpy's exp/log/floor/cumsum/sum/isclose and Python float arithmetic are modelled by the carrier operations "
    "(`Float` in the driver, R in the theorems); label strings are replaced by their rank (order-isomorphic)",
    "the model's fuels (outer loop of bernoulli_neg_exp, rounds of permute-and-flip) are deterministic bounds that the "
    "theorems assume large enough (fuel > gamma, rounds >= number of candidates); the Python loops are unbounded",
    "the exact-law extractor (bisection on the double grid, symbolic-uniform enumeration) is part of the harness",
    "u = 1/2 for the geometric family (log 0) and zero-width folding domains are C12's, not modelled here",
]
UNPROVED = [
    "double rounding inside the samplers (the theorems are over R; the direct check on the extracted law of the "
    "running code covers it up to the 1e-6 slack, with an absolute allowance of one grid cell 2^-53 per break-point)",
    "ExponentialCategorical: the balanced flag (np.isclose with rtol=1e-12, atol=0 since 252dfe7) is justified in "
    "exact arithmetic only when the normalisers are EQUAL; the end-to-end theorem carries that hypothesis "
    "(cat_dp_partial), the full claim is the Prop cat_dp_full; the 1e-12 relative gap is inside the 1e-6 slack",
    "GeometricFolded with epsilon/sensitivity below the extraction threshold: the law is not extracted (too many "
    "atoms); covered by output correspondence + geom_dp/dp_postprocess only",
    "PermuteAndFlip, degenerate branch (sensitivity = 0, log-probabilities 0 / -inf): the stream law of the model's "
    "pafRun is proved only up to the MODEL's coin-fuel artefact (paf_stream_law_degenerate: run <= pafPmf <= run + "
    "n*exp(-coinFuel); the Python coin bernoulli_neg_exp(+inf) is unbounded and returns 0 almost surely)",
    "ExponentialCategorical.randomise and the geometric redraw on u = 1/2 (geomDraw) are not restated as push-forward "
    "laws (single uniform; catPmf / the measure-zero redraw are compared with the running code)",
]
RULE = ("parameter points per mechanism family from the seed: epsilon log-uniform in (1e-4, 50], integer/real "
        "sensitivity incl. 0, integer/half-integer/infinite bounds, utility vectors / measures / utility lists / "
        "hierarchies of size 1..8; neighbours: integers <= sensitivity apart (incl. exactly), any two labels, utility "
        "vectors within sensitivity in sup-norm (only increasing when monotonic); measures are non-negative with a "
        "positive total (an all-zero measure gives NaN probabilities and is outside the quantifier; negative entries "
        "must be refused — regression stream for 47698b4). A case is one (mechanism, parameters, "
        "neighbour pair); non-trivial when both laws have at least two atoms of mass >= 1e-9; distinct by its "
        "canonical parameter tuple. Life-cycle stratum: one object, construct -> 0-2 randomise calls -> optional copy() -> "
        "epsilon assigned (Binary: any value, lower or higher; classes that calibrate in __init__: the same value, or a higher "
        "one for the ratio only) -> the extracted law of the running sampler against the CURRENT epsilon")

M = dp.mechanisms
GRID = 1 << 53
HALF = 1 << 52
CELL = 1.0 / GRID
SLACK = 1e-6
MIN_MASS = 1e-9
LAW_REL = 1e-9
CUT_CELLS = 1024            # cells on each side of u = 1/2 left out of the geometric extraction (mass 2.3e-13)
INF = float("inf")


def over_time(ctx, share=1.0):
    """soft deadline so that a run (and the 10x failing-input search after a disagreement) stays inside its tier's time
    budget even on a loaded machine; the families stop generating new cases once it has passed"""
    import time
    limit = (140.0 if ctx.tier == "quick" else 900.0) * (2.0 if ctx.searching else 1.0) * share
    # measured from the first call, i.e. from the start of check(): the Lean stage before it (minutes on a cold cache in a
    # freshly restored sandbox) must not eat the budget of the correspondence — it made a fresh run do a tenth of the work
    start = getattr(ctx, "_c01_start", None)
    if start is None:
        start = ctx._c01_start = time.time()
    if time.time() - start > limit:
        if not getattr(ctx, "_time_noted", False):
            ctx.note(f"time budget reached after {time.time() - start:.0f}s: remaining generated cases skipped")
            ctx._time_noted = True
        ctx.count("cases_skipped_for_time")
        return True
    return False


def canon(v):
    if isinstance(v, (np.integer,)):
        return int(v)
    if isinstance(v, (np.floating,)):
        return float(v)
    return v


class Scripted:
    """a mechanism driven by a single scripted uniform through random_state="""

    def __init__(self, build):
        self.rng = seams.ScriptedSystemRandom(uniforms=[0.0], cycle=True)
        self.mech = build(self.rng)
        self.evals = 0

    def at_u(self, u, *args):
        self.rng.u[0] = u
        self.evals += 1
        try:
            return canon(self.mech.randomise(*args))
        except seams.ScriptExhausted:
            raise
        except Exception as e:  # noqa
            return "ERR:" + type(e).__name__

    def at(self, k, *args):
        return self.at_u(k / GRID, *args)


# ------------------------------------------------------------------------------------------------------------------
# step-function extraction on the grid
# ------------------------------------------------------------------------------------------------------------------
def extract_steps(f, lo, hi, eta=None, centre=HALF):
    """f: grid index -> outcome.  Returns segments [(start, end_exclusive, outcome)] of [lo, hi].

    With eta=None every outcome's preimage inside [lo,hi] is assumed to be an interval (first-index samplers, the
    monotone halves of geometric noise): equal end values => constant.  With eta, an interval is declared constant only
    if additionally it is shorter than eta * (distance to `centre`): used for folded geometric, whose steps have length
    (1-r)*distance, so that an interval of that size holds at most one break-point."""
    flo, fhi = f(lo), f(hi)
    breaks = []
    stack = [(lo, flo, hi, fhi)]
    while stack:
        a, fa, b, fb = stack.pop()
        if b - a <= 1:
            if fa != fb:
                breaks.append((b, fa, fb))
            continue
        if fa == fb and (eta is None or (b - a) <= eta * min(abs(a - centre), abs(b - centre))):
            continue
        m = (a + b) // 2
        fm = f(m)
        stack.append((m, fm, b, fb))
        stack.append((a, fa, m, fm))
    breaks.sort()
    segs = []
    start, cur = lo, flo
    for k, fa, fb in breaks:
        segs.append((start, k, cur))
        start, cur = k, fb
    segs.append((start, hi + 1, cur))
    return segs


def verify_steps(f, segs, r, nprobe):
    """random interior probes: the outcome must be the segment's; returns the number of mismatches"""
    bad = 0
    cand = [s for s in segs if s[1] - s[0] > 2]
    if not cand:
        return 0
    for _ in range(nprobe):
        a, b, o = cand[r.next() % len(cand)]
        k = a + 1 + r.next() % (b - a - 1)
        if f(k) != o:
            bad += 1
    return bad


class Law:
    """exact law of an implemented sampler: masses per outcome, absolute uncertainty per outcome"""

    def __init__(self):
        self.mass = {}
        self.nseg = {}
        self.cut = 0.0          # mass not attributed to any outcome (cut region / pruned paths)

    def add_segs(self, segs):
        for a, b, o in segs:
            self.mass[o] = self.mass.get(o, 0.0) + (b - a) / GRID
            self.nseg[o] = self.nseg.get(o, 0) + 1

    def p(self, o):
        return self.mass.get(o, 0.0)

    def unc(self, o):
        return (2 * self.nseg.get(o, 0) + 2) * CELL + self.cut

    def atoms(self):
        return [o for o, m in self.mass.items() if m >= MIN_MASS]

    def brief(self, cap=12):
        items = sorted(self.mass.items(), key=lambda kv: -kv[1])[:cap]
        return [[str(o), m] for o, m in items]


def first_true(pred, lo, hi):
    """smallest k in [lo,hi] with pred(k) (pred monotone false->true); hi+1 if none"""
    if pred(lo):
        return lo
    if not pred(hi):
        return hi + 1
    a, b = lo, hi            # pred(a) false, pred(b) true
    while b - a > 1:
        m = (a + b) // 2
        if pred(m):
            b = m
        else:
            a = m
    return b


def compare_law(ctx, unit, params, law, model, extra_unc=0.0, rel=None):
    """extracted law of the implementation vs the model's closed-form law ({outcome: mass})"""
    rel = LAW_REL if rel is None else rel
    ok = True
    for o in set(law.mass) | set(model):
        a, b = law.p(o), model.get(o, 0.0)
        if isinstance(o, str) and o.startswith("ERR") and a < MIN_MASS:
            continue
        tol = rel * max(abs(a), abs(b)) + law.unc(o) + extra_unc
        if not (abs(a - b) <= tol):
            ctx.disagree(unit, params, {"atom": str(o), "model_mass": b}, {"atom": str(o), "impl_mass": a},
                         note=f"law differs by {abs(a - b):.3e} > tol {tol:.3e}")
            ok = False
            break
    if ok:
        ctx.trace_ok()
    return ok


def exp_eps(eps):
    return math.exp(eps) if eps < 700 else INF


def dp_check(ctx, sig, family, params, x, xp, law, lawp, eps, confirm=None):
    """P[o|x] <= e^eps (P[o|x'] + grid uncertainty) (1 + 1e-6) for every atom of mass >= 1e-9 — on the law of the
    running implementation.  `confirm(o)` may re-extract the two masses more carefully before a violation is reported."""
    bound = exp_eps(eps)
    for o in law.atoms():
        p, q = law.p(o), lawp.p(o)
        if p - law.unc(o) > bound * (q + lawp.unc(o)) * (1 + SLACK):
            if confirm is not None:
                c = confirm(o)
                if c is None:
                    ctx.count("violation_not_confirmed")
                    continue
                p, q = c
                if not (p > bound * q * (1 + SLACK)):
                    ctx.count("violation_not_confirmed")
                    continue
            ctx.violation(sig, f"{family}: P[{o}|{x}]={p!r} > e^{eps!r} * P[{o}|{xp}]={q!r} (ratio {p / q if q else INF:.6g} "
                               f"vs bound {bound:.6g})",
                          {"family": family, "params": params, "x": x, "xp": xp, "atom": o, "p": p, "q": q,
                           "eps": eps})
            return False
    return True


def nontrivial(law, lawp):
    return len(law.atoms()) >= 2 and len(lawp.atoms()) >= 2


def fl(x):
    return str(f2b(x))


def draw_eps(r, extreme=0.1):
    """epsilon in (0, 50] log-uniform, plus (probability `extreme`) the huge-but-finite region where degenerate
    branches live: (50, 700] (e^eps still a double) and [1e3, 1e9] (e^eps overflows; sensitivity/epsilon tiny)"""
    if extreme and r.chance(extreme):
        return r.loguniform(50.0, 700.0) if r.chance(0.4) else r.loguniform(1e3, 1e9)
    m = r.u01()
    if m < 0.15:
        return r.choice([0.1, 0.25, 0.5, 1.0, 2.0, 3.0, 5.0, 10.0])
    if m < 0.55:
        return r.loguniform(1e-4, 1.0)      # small epsilons matter
    return r.loguniform(1e-4, 50.0)


NEAR_K = 4      # ulps of 1.0 (2^-53) within which a scripted uniform may sit next to one of the implementation's OWN break-points


def near_impl_breakpoint(fu, u, want, k=NEAR_K, avoid_half=False):
    """model and implementation returned different outputs at u.  numpy's exp/log (implementation) and libm's (Lean driver)
    may differ by an ulp, which moves a break-point by an ulp: the difference is a float-level artefact iff the
    implementation ITSELF returns the model's output at a point within k * 2^-53 of u, i.e. u sits within k ulps of an
    implementation break-point separating exactly these two outputs.  Anything else stays a disagreement."""
    for j in range(-k, k + 1):
        if j == 0:
            continue
        uu = min(max(u + j * CELL, 0.0), 1 - CELL)
        if avoid_half and uu == 0.5:
            continue
        if fu(uu) == want:
            return True
    return False


def exp_cum_boundary(cum, u, a, b, k=NEAR_K):
    """Exponential: with the implementation's own cumulative vector `cum` (mech._probabilities): the two selected indices
    are adjacent among the candidates of non-zero probability and u is within k ulps (|u - c| <= k * 2^-53 * max(1, c))
    of the cumulative boundary c that separates them"""
    if not (isinstance(a, int) and isinstance(b, int)) or cum is None or a == b:
        return False
    a, b = min(a, b), max(a, b)
    if b >= len(cum):
        return False
    prev = [0.0] + list(cum[:-1])
    nz = [i for i in range(len(cum)) if cum[i] - prev[i] > 0]
    if a not in nz or b not in nz or nz.index(b) - nz.index(a) != 1:
        return False
    c = cum[a]
    return abs(u - c) <= k * CELL * max(1.0, c)


def guard_us(u, ulps):
    """u and its neighbours `ulps` away (clamped to [0, 1)) — the model must agree on all three, else boundary"""
    lo = max(0.0, gen.offset_ulps(u, -ulps)) if u > 0 else 0.0
    hi = gen.offset_ulps(u, ulps)
    if hi >= 1.0:
        hi = gen.offset_ulps(1.0, -1)
    return [lo, u, hi]


# ------------------------------------------------------------------------------------------------------------------
# Binary
# ------------------------------------------------------------------------------------------------------------------
def binary_law(sc, value):
    f = lambda k: sc.at(k, value)  # noqa
    segs = extract_steps(f, 0, GRID - 1)
    law = Law()
    law.add_segs(segs)
    return law, segs


def check_binary(ctx, r, n):
    lines, cases = [], []
    for _ in range(n):
        eps = draw_eps(r)
        labels = r.choice([("0", "1"), ("a", "b"), ("yes", "no"), ("b", "a")])
        sc = Scripted(lambda rng: M.Binary(epsilon=eps, value0=labels[0], value1=labels[1], random_state=rng))
        laws = {}
        for ind, v in enumerate(labels):
            laws[v], segs = binary_law(sc, v)
            if verify_steps(lambda k: sc.at(k, v), segs, r, 6):
                ctx.disagree("binary.law", {"eps": eps}, "step function", "probe mismatch")
        params = {"epsilon": eps, "value0": labels[0], "value1": labels[1]}
        # (iii) the property on the extracted law, both directions
        for x, xp in ((labels[0], labels[1]), (labels[1], labels[0])):
            dp_check(ctx, "C01:binary:ratio", "Binary", params, x, xp, laws[x], laws[xp], eps)
        ctx.case(("binary", eps) if nontrivial(laws[labels[0]], laws[labels[1]]) else None)
        # (i)/(ii) against the model
        us = [r.u01() for _ in range(6)]
        flip_at = laws[labels[0]].mass.get(labels[1], 0.0)
        us += [min(max(1.0 - flip_at + d, 0.0), 1 - CELL) for d in (-3 * CELL, 0.0, 2 * CELL, 1e-9)]
        for ind, v in enumerate(labels):
            gu = [g for u in us for g in guard_us(u, 8)]
            lines.append(f"binary {fl(eps)} {ind} " + " ".join(fl(u) for u in gu))
            cases.append(("out", params, v, labels, us, [sc.at_u(u, v) for u in us], sc))
        lines.append(f"binarylaw {fl(eps)}")
        cases.append(("law", params, labels, laws))
    outs = leanio.run_driver("Discrete", lines)
    for c, out in zip(cases, outs):
        w = out.split()
        if w[0] != "ok":
            ctx.disagree("binary.driver", c[1], out, None)
            continue
        if c[0] == "out":
            _, params, v, labels, us, impl, sc = c
            for i, u in enumerate(us):
                trio = w[1 + 3 * i: 4 + 3 * i]
                if len(set(trio)) != 1:
                    ctx.boundary_skipped += 1
                    continue
                if labels[int(trio[1])] != impl[i]:
                    if near_impl_breakpoint(lambda uu: sc.at_u(uu, v), u, labels[int(trio[1])]):
                        ctx.boundary_skipped += 1
                        ctx.count("boundary_skipped_impl_breakpoint_within_4ulp")
                        continue
                    ctx.disagree("binary.randomise", {**params, "value": v, "u": u}, labels[int(trio[1])], impl[i])
                else:
                    ctx.trace_ok()
        else:
            _, params, labels, laws = c
            pf = b2f(int(w[1]))
            for a, b in ((0, 1), (1, 0)):
                compare_law(ctx, "binary.law", params, laws[labels[a]], {labels[a]: 1 - pf, labels[b]: pf},
                            extra_unc=4 * 2.0 ** -52)        # rounding of u * (e^eps + 1) at the threshold
    ctx.sample({"family": "Binary", "params": cases[-1][1], "law_value0": cases[-1][3][cases[-1][2][0]].brief()})


# ------------------------------------------------------------------------------------------------------------------
# Geometric family
# ------------------------------------------------------------------------------------------------------------------
def bnd_tok(b):
    if b == -INF:
        return "ninf"
    if b == INF:
        return "pinf"
    return str(int(round(2 * b)))


def build_geom(variant, eps, sens, lo, hi):
    if variant == "p":
        return lambda rng: M.Geometric(epsilon=eps, sensitivity=sens, random_state=rng)
    cls = M.GeometricTruncated if variant == "t" else M.GeometricFolded
    return lambda rng: cls(epsilon=eps, sensitivity=sens, lower=lo, upper=hi, random_state=rng)


GEOM_NAME = {"p": "Geometric", "t": "GeometricTruncated", "f": "GeometricFolded"}
GEOM_SIG = {"p": "C01:geometric:ratio", "t": "C01:geometric-truncated:ratio", "f": "C01:geometric-folded:ratio"}


def geom_full_law(sc, variant, x, s, eta_div=4.0):
    """whole law by walking both halves of [0,1) (u = 1/2 +- CUT_CELLS cells left out)"""
    f = lambda k: sc.at(k, x)  # noqa
    eta = None
    if variant == "f" and s is not None:
        eta = -math.expm1(-s) / eta_div
    law = Law()
    segs_all = []
    for lo, hi in ((0, HALF - CUT_CELLS), (HALF + CUT_CELLS, GRID - 1)):
        segs = extract_steps(f, lo, hi, eta=eta)
        law.add_segs(segs)
        segs_all += segs
    law.cut = 2 * CUT_CELLS * CELL
    return law, segs_all


def geom_atom_mass(sc, x, o):
    """mass of one atom for the plain / truncated variants: the output is non-increasing in u on each half"""
    tot = 0.0
    for lo, hi in ((0, HALF - CUT_CELLS), (HALF + CUT_CELLS, GRID - 1)):
        def le(k, o=o):
            v = sc.at(k, x)
            if isinstance(v, str):
                raise ValueError(v)
            return v
        a = first_true(lambda k: le(k) <= o, lo, hi)
        b = first_true(lambda k: le(k) <= o - 1, lo, hi)
        tot += (b - a) / GRID
    return tot


def geom_monotone_ok(sc, x, r, nprobe=24):
    for lo, hi in ((0, HALF - CUT_CELLS), (HALF + CUT_CELLS, GRID - 1)):
        ks = sorted(lo + r.next() % (hi - lo + 1) for _ in range(nprobe))
        # concentrate half of the probes near 1/2 where the steps are short
        ks += [HALF - CUT_CELLS - (r.next() % (1 << r.randint(11, 50))) for _ in range(nprobe // 2)] if lo == 0 else \
              [HALF + CUT_CELLS + (r.next() % (1 << r.randint(11, 50))) for _ in range(nprobe // 2)]
        ks = sorted(k for k in ks if lo <= k <= hi)
        vals = [sc.at(k, x) for k in ks]
        if any(isinstance(v, str) for v in vals):
            return False
        if any(vals[i] < vals[i + 1] for i in range(len(vals) - 1)):
            return False
    return True


def gen_geom_case(r, tier):
    variant = r.choice(["p", "p", "t", "t", "f", "f"])
    eps = draw_eps(r)
    sens = r.choice([0, 1, 1, 1, 1, 2, 2, 3, 5, 10, 100, 10 ** 6, 10 ** 9, 10 ** 12])
    lo = hi = None
    x = r.choice([0, 0, 1, -1, 5, r.randint(-50, 50), r.randint(-10 ** 6, 10 ** 6)])
    if variant != "p":
        width = r.choice([1, 2, 3, 5, 10, 20, r.randint(1, 200)])
        base = x - r.randint(0, width) if r.chance(0.8) else x + r.randint(-3 * width, 3 * width)
        lo, hi = base, base + width
        if variant == "f":
            m = r.u01()
            if m < 0.25:
                lo = lo - 0.5
            elif m < 0.5:
                hi = hi + 0.5
            elif m < 0.6:
                lo, hi = lo + 0.5, hi + 0.5
        m = r.u01()
        if m < 0.12:
            lo = -INF
        elif m < 0.24:
            hi = INF
        elif m < 0.28:
            lo, hi = -INF, INF
    # neighbour: at most `sens` apart, often exactly
    if sens == 0:
        d = 0
    else:
        m = r.u01()
        d = sens if m < 0.5 else (r.randint(1, sens) if m < 0.9 else 0)
        if r.chance(0.5):
            d = -d
    return {"variant": variant, "epsilon": eps, "sensitivity": sens, "lower": lo, "upper": hi, "x": x, "xp": x + d}


def geom_model_pmf_lines(c, K):
    return f"geompmf {fl(c['epsilon'])} {c['sensitivity']} {K}"


def geom_post_line(c, vals):
    v = c["variant"]
    if v == "p":
        return None
    return f"post {v} {bnd_tok(c['lower'])} {bnd_tok(c['upper'])} " + " ".join(str(int(z)) for z in vals)


def check_geometric(ctx, r, n):
    quick = ctx.tier == "quick"
    s_min_full = {"p": 0.05 if quick else 0.012, "t": 0.05 if quick else 0.012, "f": 0.12 if quick else 0.04}
    lines, cases = [], []
    for _ in range(n):
        if over_time(ctx, 0.55):
            break
        c = gen_geom_case(r, ctx.tier)
        v, eps, sens, x, xp = c["variant"], c["epsilon"], c["sensitivity"], c["x"], c["xp"]
        sc = Scripted(build_geom(v, eps, sens, c["lower"], c["upper"]))
        s = eps / sens if sens > 0 else None
        key = ("geom", v, eps, sens, str(c["lower"]), str(c["upper"]), x, xp)
        # ---- (i) sampler outputs on scripted uniforms
        us = [r.u01() for _ in range(5)]
        us += [0.5 + sg * r.loguniform(1e-15, 0.4) for sg in (1, -1, 1, -1)]
        us += [r.choice([0.0, CELL, 1 - CELL, 0.25, 0.75])]
        us = [u for u in us if 0.0 <= u < 1.0 and u != 0.5]
        # GeometricFolded with a half-integer (float) bound folds in FLOAT arithmetic (int - float -> float), which loses
        # the low bits of a noisy value beyond 2^53, whereas the model folds exactly on integers (as Python does for
        # integer bounds): for such bounds outputs are compared only when |noisy value| < 2^51 (the rest is counted)
        float_fold = v == "f" and any(isinstance(b, float) and abs(b) != INF for b in (c["lower"], c["upper"])) \
            and s is not None and 40.0 / s + abs(x) + abs(xp) >= 2.0 ** 51
        for val in (x, xp):
            gu = [g for u in us for g in guard_us(u, 8)]
            gu = [0.25 if g == 0.5 else g for g in gu]
            if float_fold:
                lines.append(f"geom p {fl(eps)} {sens} {val} ninf pinf " + " ".join(fl(u) for u in gu))
                cases.append(("noisy", c, val))
            lines.append(f"geom {v} {fl(eps)} {sens} {val} {bnd_tok(c['lower'] if c['lower'] is not None else -INF)} "
                         f"{bnd_tok(c['upper'] if c['upper'] is not None else INF)} " + " ".join(fl(u) for u in gu))
            cases.append(("out", c, val, us, [sc.at_u(u, val) for u in us], sc))
        if v == "p" and r.chance(0.3):        # the redraw at exactly 1/2 (fix f985502): stream [1/2, 1/2, u]
            u2 = r.u01()
            rng = seams.ScriptedSystemRandom(uniforms=[0.5, 0.5, u2])
            try:
                got = canon(M.Geometric(epsilon=eps, sensitivity=sens, random_state=rng).randomise(x))
            except Exception as e:  # noqa
                got = "ERR:" + type(e).__name__
            lines.append(f"geoms {fl(eps)} {sens} {x} {fl(0.5)} {fl(0.5)} " + " ".join(fl(g) for g in guard_us(u2, 8)))
            lines.append(f"geoms {fl(eps)} {sens} {x} {fl(0.5)} {fl(0.5)} {fl(u2)}")
            lines.append(f"geoms {fl(eps)} {sens} {x} " + " ".join(fl(g) for g in reversed(guard_us(u2, 8))))
            cases.append(("stream0", c, u2, got))
            cases.append(("stream1", c, u2, got))
            cases.append(("stream2", c, u2, got))
        # ---- (ii)+(iii) laws
        if s is None or s >= s_min_full[v]:
            laws = {}
            bad = False
            for val in {x, xp}:
                law, segs = geom_full_law(sc, v, val, s)
                if any(isinstance(o, str) for o in law.mass):
                    ctx.count("geom_error_outcome_skipped")       # RecursionError etc. — C12's business
                    bad = True
                    break
                if verify_steps(lambda k: sc.at(k, val), segs, r, 40):
                    law, segs = geom_full_law(sc, v, val, s, eta_div=32.0)
                    if verify_steps(lambda k: sc.at(k, val), segs, r, 40):
                        ctx.disagree("geometric.law", c, "step structure (1-r)*distance", "probe mismatch after refinement")
                        bad = True
                        break
                laws[val] = law
            if bad:
                ctx.case(None)
                continue

            def confirm(o, c=c, sc=sc, s=s, v=v):
                a, _ = geom_full_law(sc, v, c["_x"], s, eta_div=64.0)
                b, _ = geom_full_law(sc, v, c["_xp"], s, eta_div=64.0)
                return a.p(o), b.p(o) + b.unc(o)
            for a, b in ((x, xp), (xp, x)):
                c["_x"], c["_xp"] = a, b
                dp_check(ctx, GEOM_SIG[v], GEOM_NAME[v], {k: c[k] for k in ("epsilon", "sensitivity", "lower", "upper")},
                         a, b, laws[a], laws[b], eps, confirm=confirm if v == "f" else None)
            ctx.case(key if nontrivial(laws[x], laws[xp]) else None)
            ctx.count("geom_full_laws")
            # model law: pushforward of the closed-form pmf through the model's post-processing
            K = 0 if s is None else min(6000, int(38.0 / s) + 3)
            lines.append(geom_model_pmf_lines(c, K))
            cases.append(("pmf", c, K, laws))
            for val in sorted({x, xp}):
                pl = geom_post_line(c, [val + k for k in range(-K, K + 1)])
                if pl:
                    lines.append(pl)
                    cases.append(("post", c, val, K))
        elif v in ("p", "t"):
            # small epsilon/sensitivity: too many atoms for the whole law; exact masses of selected atoms
            if not (geom_monotone_ok(sc, x, r) and geom_monotone_ok(sc, xp, r)):
                ctx.disagree("geometric.monotone", c, "output non-increasing in u on each half", "not monotone")
                ctx.case(None)
                continue
            span = int(min(25.0 / s, 10 ** 7))
            atoms = {x, xp, x + 1, x - 1, xp + sens, x - sens, x + r.randint(-span, span), x + r.randint(-span, span),
                     x + r.randint(-span // 8, span // 8)}
            if v == "t":
                for b in (c["lower"], c["upper"]):
                    if abs(b) != INF:
                        atoms |= {int(b), int(b) + (1 if b == c["lower"] else -1)}
            atoms = sorted(atoms)
            masses = {}
            try:
                for val in {x, xp}:
                    masses[val] = {o: geom_atom_mass(sc, val, o) for o in atoms}
            except ValueError:
                ctx.count("geom_error_outcome_skipped")
                ctx.case(None)
                continue
            bound = exp_eps(eps)
            unc = 6 * CELL + 2 * CUT_CELLS * CELL
            for a, b in ((x, xp), (xp, x)):
                for o in atoms:
                    p, q = masses[a][o], masses[b][o]
                    if p >= MIN_MASS and p > bound * (q + unc) * (1 + SLACK):
                        ctx.violation(GEOM_SIG[v], f"{GEOM_NAME[v]}: P[{o}|{a}]={p!r} > e^{eps!r} * P[{o}|{b}]={q!r}",
                                      {"family": GEOM_NAME[v], "params": {k: c[k] for k in ("epsilon", "sensitivity", "lower", "upper")},
                                       "x": a, "xp": b, "atom": o, "p": p, "q": q, "eps": eps, "mode": "atom"})
            ctx.case(key)
            ctx.count("geom_atom_laws")
            lines.append(f"geomq {fl(eps)} {sens} " + " ".join(str(o - x) for o in atoms) + " " + " ".join(str(o - xp) for o in atoms))
            cases.append(("atoms", c, atoms, masses))
            tj = []
            for val in (x, xp):
                for b, side in ((c["lower"], -1), (c["upper"], 1)):
                    j = (int(b) - val) * side if (v == "t" and abs(b) != INF) else 1
                    tj.append(j if j >= 1 else 1 - j)
            lines.append(f"geomtail {fl(eps)} {sens} " + " ".join(str(j) for j in tj))
            cases.append(("tails", c, tj))
        else:
            ctx.count("fold_small_eps_law_skipped")
            ctx.case(None)
    outs = leanio.run_driver("Discrete", lines)
    _geom_compare(ctx, cases, outs)


def _geom_compare(ctx, cases, outs):
    pmf_ctx = None
    post = {}
    atoms_ctx = None
    noisy = None
    sample_done = False
    for idx, (cs, out) in enumerate(zip(cases, outs)):
        w = out.split()
        if w[0] != "ok":
            ctx.disagree("geometric.driver", cs[1], out, None)
            continue
        kind, c = cs[0], cs[1]
        if kind == "noisy":
            noisy = [int(z) for z in w[1:]]
            continue
        if kind == "out":
            _, _, val, us, impl, sc = cs
            noisy_now, noisy = noisy, None
            for i, u in enumerate(us):
                trio = w[1 + 3 * i: 4 + 3 * i]
                if len(set(trio)) != 1:
                    ctx.boundary_skipped += 1
                    continue
                if noisy_now is not None and abs(noisy_now[3 * i + 1]) >= 2 ** 51:
                    ctx.count("fold_float_path_beyond_2^51_skipped")
                    continue
                if isinstance(impl[i], str) or trio[1] == "none":
                    if not (isinstance(impl[i], str) and trio[1] == "none"):
                        ctx.count("geom_error_outcome_skipped")
                    continue
                if int(trio[1]) != impl[i]:
                    if near_impl_breakpoint(lambda uu: sc.at_u(uu, val), u, int(trio[1]), avoid_half=True):
                        ctx.boundary_skipped += 1
                        ctx.count("boundary_skipped_impl_breakpoint_within_4ulp")
                        continue
                    ctx.disagree(GEOM_NAME[c["variant"]] + ".randomise", {**c, "value": val, "u": u}, int(trio[1]), impl[i])
                else:
                    ctx.trace_ok()
        elif kind.startswith("stream"):
            if kind == "stream0":
                trio_s = [w[1]]
            else:
                trio_s.append(w[1])
            if kind == "stream2":
                if len(set(trio_s)) != 1:
                    ctx.boundary_skipped += 1
                elif isinstance(cs[3], str) or int(trio_s[1]) != cs[3]:
                    ctx.disagree("Geometric.randomise", {**c, "stream": [0.5, 0.5, cs[2]]}, trio_s[1], cs[3], note="redraw at 1/2")
                else:
                    ctx.trace_ok()
        elif kind == "pmf":
            pmf_ctx = (c, cs[2], cs[3], [b2f(int(z)) for z in w[1:]])
            if c["variant"] == "p":
                _geom_law_compare(ctx, pmf_ctx, None)
        elif kind == "post":
            c0, K, laws, pm = pmf_ctx
            g = [None if z == "none" else int(z) for z in w[1:]]
            _geom_law_compare(ctx, pmf_ctx, (cs[2], g))
        elif kind == "atoms":
            atoms_ctx = (c, cs[2], cs[3], [b2f(int(z)) for z in w[1:]])
        elif kind == "tails":
            c0, atoms, masses, pm = atoms_ctx
            tails = [b2f(int(z)) for z in w[1:]]
            x, xp = c["x"], c["xp"]
            n = len(atoms)
            ti = 0
            for vi, val in enumerate((x, xp)):
                model = {}
                for j, o in enumerate(atoms):
                    model[o] = pm[vi * n + j]
                if c["variant"] == "t":
                    lo, hi = c["lower"], c["upper"]
                    for o in atoms:
                        if (abs(lo) != INF and o < lo) or (abs(hi) != INF and o > hi):
                            model[o] = 0.0
                    for b, tv, side in ((lo, tails[ti], -1), (hi, tails[ti + 1], 1)):
                        if abs(b) == INF or int(b) not in model:
                            continue
                        j = (int(b) - val) * side        # mass of the bound = P[side*noise >= j]
                        model[int(b)] = tv if j >= 1 else 1.0 - tv
                ti += 2
                ok = True
                for o, mm in model.items():
                    a = masses[val][o]
                    tol = LAW_REL * max(a, mm) + 8 * CELL + 2 * CUT_CELLS * CELL
                    if abs(a - mm) > tol:
                        ctx.disagree("geometric.law", {**c, "value": val}, {"atom": o, "model_mass": mm}, {"atom": o, "impl_mass": a},
                                     note="atom mode")
                        ok = False
                        break
                if ok:
                    ctx.trace_ok()
        if not sample_done and kind == "pmf":
            ctx.sample({"family": GEOM_NAME[c["variant"]], "params": {k: c[k] for k in ("epsilon", "sensitivity", "lower", "upper", "x", "xp")},
                        "law_x": cs[3][c["x"]].brief(6)})
            sample_done = True


def _geom_law_compare(ctx, pmf_ctx, post):
    c, K, laws, pm = pmf_ctx
    pmf, tail = pm[:-1], pm[-1]
    vals = sorted({c["x"], c["xp"]}) if post is None else [post[0]]
    for val in vals:
        model = {}
        lost = 0.0
        for i, k in enumerate(range(-K, K + 1)):
            o = val + k if post is None else post[1][i]
            if o is None:
                lost += pmf[abs(k)]
                continue
            model[o] = model.get(o, 0.0) + pmf[abs(k)]
        compare_law(ctx, "geometric.law", {**{k: c[k] for k in ("variant", "epsilon", "sensitivity", "lower", "upper")}, "value": val},
                    laws[val], model, extra_unc=2 * tail + lost)


# ------------------------------------------------------------------------------------------------------------------
# Exponential (single uniform) and PermuteAndFlip (decision tree)
# ------------------------------------------------------------------------------------------------------------------
def within(u, up, sens, mono):
    """exact check |u' - u| <= sens (and u <= u' when monotonic) on the doubles"""
    for a, b in zip(u, up):
        d = Fraction(b) - Fraction(a)
        if abs(d) > Fraction(sens) or (mono and d < 0):
            return False
    return True


def gen_utils(r, n, sens, mono):
    scale_u = sens if sens > 0 else 1.0
    m = r.u01()
    if m < 0.25:
        u = [float(r.randint(-3, 3)) * scale_u for _ in range(n)]
    elif m < 0.5:
        u = [r.uniform(-4, 4) * scale_u for _ in range(n)]
    elif m < 0.7:
        u = [r.uniform(0, 1) * scale_u * r.choice([1, 10, 100]) for _ in range(n)]
    elif m < 0.85:
        base = r.uniform(-1e3, 1e3)
        u = [base + r.uniform(-1, 1) * scale_u for _ in range(n)]
    else:
        u = [r.choice([0.0, scale_u, -scale_u, 2 * scale_u]) for _ in range(n)]
    if sens == 0:
        return u, list(u)
    up = []
    for a in u:
        m = r.u01()
        if mono:
            d = sens if m < 0.45 else (0.0 if m < 0.7 else r.uniform(0, sens))
        else:
            d = sens if m < 0.3 else (-sens if m < 0.6 else (0.0 if m < 0.7 else r.uniform(-sens, sens)))
        b = a + d
        for _ in range(4):
            if within([a], [b], sens, mono):
                break
            b = math.nextafter(b, a)
        if not within([a], [b], sens, mono):
            b = a
        up.append(b)
    return u, up


def gen_measure(r, n):
    m = r.u01()
    if m < 0.45:
        return None
    if m < 0.6:
        return [1.0] * n
    if m < 0.8:
        return [r.loguniform(1e-3, 1e3) for _ in range(n)]
    ms = [r.choice([0.0, 1.0, 2.0, r.uniform(0, 5)]) for _ in range(n)]
    if sum(ms) <= 0:
        ms[r.next() % n] = 1.0
    return ms


def gen_exp_case(r, paf=False, nmax=8):
    n = r.randint(1, nmax)
    eps = draw_eps(r)
    m = r.u01()
    sens = 0.0 if m < 0.08 else (1.0 if m < 0.4 else (float(r.randint(1, 5)) if m < 0.55 else r.loguniform(1e-3, 1e3)))
    mono = r.chance(0.4)
    extreme = r.chance(0.22)
    if extreme:
        # sensitivity/epsilon in [1e-12, 1e-6] (the "is this zero sensitivity / infinite epsilon?" region): either a tiny
        # sensitivity with an ordinary epsilon (the laws stay non-degenerate: exponents are eps * (u - max)/sens/2), or a
        # huge finite epsilon; utilities are multiples of the sensitivity so that neighbours' arg-max can differ
        ratio = r.loguniform(1e-12, 1e-6)
        if r.chance(0.65):
            eps = r.choice([1.0, 0.5, 2.0, r.loguniform(0.01, 10.0)])
        else:
            eps = r.loguniform(1e3, 1e9)
        sens = ratio * eps
        n = max(n, 2)
    u, up = gen_utils(r, n, sens, mono)
    if extreme:
        # make the two best candidates close (within the sensitivity) so that the arg-max can move
        i, j = r.sample(list(range(n)), 2)
        top = max(u)
        u[i] = top + sens * r.uniform(0.1, 1.0)
        u[j] = u[i] - sens * r.uniform(0.1, 0.9)
        if mono:
            up[i], up[j] = u[i], u[j] + sens * r.uniform(0.5, 1.0)
        else:
            up[i], up[j] = u[i] - sens * r.uniform(0.3, 0.9), u[j] + sens * r.uniform(0.3, 0.9)
        up = [b if within([a], [b], sens, mono) else a for a, b in zip(u, up)]
    if paf and sens > 0:
        # keep the coins' exponents moderate so that the decision tree stays small
        sc = eps / sens / (1 if mono else 2)
        span = max(max(u) - min(u), 1e-300)
        if sc * span > 30:
            f = 30 / (sc * span) * r.uniform(0.05, 1.0)
            u = [a * f for a in u]
            up = [a * f for a in up]
            up = [b if within([a], [b], sens, mono) else a for a, b in zip(u, up)]
    if r.chance(0.15):
        # huge common OFFSETS (1e6 … 1e15, either sign) with small differences: the utilities are only a few units apart
        # but `scale * utility` would be rounded by up to half an ulp of ~1e15 if the code scaled BEFORE subtracting the
        # maximum.  Differences are multiples of 1/2 (exact at these magnitudes), the scale is not a power of two, and
        # the neighbour is the tight pattern: a low-weight candidate drops by the sensitivity while all others rise
        sens = r.choice([1.0, 2.0, 2.0, 3.0, 0.5, 1.5, 5.0])
        eps = r.choice([1.2, 0.7, 0.3, 2.3, r.loguniform(0.05, 5.0), r.loguniform(0.05, 5.0)])
        mono = r.chance(0.25)
        n = max(n, 2)
        sc = eps / sens / (1 if mono else 2)
        spread = min(60.0, 18.0 / sc)
        off = float(round(r.loguniform(1e6, 1e15))) * r.choice([1, 1, -1])
        base = [round(2 * r.uniform(0, spread)) / 2 for _ in range(n)]
        base[r.next() % n] = round(2 * spread) / 2            # one clear favourite, the rest low-weight
        u = [off + b for b in base]
        o = min(range(n), key=lambda i: (base[i], r.next()))   # a low-weight candidate
        if r.chance(0.3):
            o = r.next() % n
        if mono:
            up = [a + sens for a in u]
            up[o] = u[o]
            if r.chance(0.5):
                u, up = u, up
        else:
            up = [a + sens for a in u]
            up[o] = u[o] - sens
        up = [b if within([a], [b], sens, mono) else a for a, b in zip(u, up)]
    return {"epsilon": eps, "sensitivity": sens, "monotonic": mono, "utility": u, "utility_p": up,
            "measure": None if paf else gen_measure(r, n), "labels": r.chance(0.2)}


def exp_line(op, c, util, us=()):
    ms = c.get("measure") or []
    head = f"{op} {fl(c['epsilon'])} {fl(c['sensitivity'])} {1 if c['monotonic'] else 0} {len(util)} " + " ".join(fl(a) for a in util)
    if op == "exp":
        head += f" {len(ms)} " + " ".join(fl(a) for a in ms)
    return head + " " + " ".join(fl(u) for u in us)


def build_exp(c, util):
    cands = [f"c{i}" for i in range(len(util))] if c.get("labels") else None

    def b(rng):
        return M.Exponential(epsilon=c["epsilon"], sensitivity=c["sensitivity"], utility=list(util), monotonic=c["monotonic"],
                             candidates=cands, measure=list(c["measure"]) if c["measure"] else None, random_state=rng)
    return b, cands


def exp_law(sc, cands):
    def f(k):
        o = sc.at(k)
        if cands and isinstance(o, str) and not o.startswith("ERR"):
            return int(o[1:])
        return o
    segs = extract_steps(f, 0, GRID - 1)
    law = Law()
    law.add_segs(segs)
    return law, segs, f


def exp_sig(c, neg=False):
    if neg:
        return "C01:exponential:negative-measure"
    return "C01:exponential-monotonic:ratio" if c["monotonic"] else "C01:exponential:ratio"


def check_exponential(ctx, r, n, negative=False):
    lines, cases = [], []
    for _ in range(n):
        if over_time(ctx, 0.65):
            break
        c = gen_exp_case(r)
        if negative:
            k = len(c["utility"])
            ms = [r.uniform(0.2, 3) for _ in range(k)]
            ms[r.next() % k] = -r.uniform(0.05, 1.5)
            if sum(ms) <= 0.1:
                ms[r.next() % k] += 3.0
            c["measure"] = ms
        laws = {}
        if negative:
            # since 47698b4 the constructor must refuse a negative measure entry, and `_check_all` must refuse one that
            # was assigned to the attribute afterwards; if either is accepted the law is extracted and checked as before
            try:
                build_exp(c, c["utility"])[0](seams.ScriptedSystemRandom(uniforms=[0.5], cycle=True))
                ctx.count("negative_measure_accepted")
            except ValueError:
                ctx.count("negative_measure_refused")
                good = dict(c, measure=[abs(m) for m in c["measure"]])
                mech = build_exp(good, c["utility"])[0](seams.ScriptedSystemRandom(uniforms=[0.5], cycle=True))
                mech.measure = list(c["measure"])
                try:
                    mech.randomise()
                    ctx.violation("C01:exponential:negative-measure", "a negative measure assigned to the attribute after "
                                  "construction is not re-validated by randomise()", {"family": "Exponential", "params": c,
                                                                                      "mode": "attribute"})
                except ValueError:
                    ctx.trace_ok()
                ctx.case(("negmeasure", tuple(c["measure"])))
                continue
        try:
            for tag in ("utility", "utility_p"):
                b, cands = build_exp(c, c[tag])
                sc = Scripted(b)
                law, segs, f = exp_law(sc, cands)
                if verify_steps(f, segs, r, 8):
                    ctx.disagree("exponential.law", c, "first index with u <= cum", "probe mismatch")
                laws[tag] = (law, sc, f)
        except (FloatingPointError, ZeroDivisionError, ValueError) as e:  # noqa
            ctx.count("exp_constructor_refused")
            ctx.case(None)
            continue
        params = {k: c[k] for k in ("epsilon", "sensitivity", "monotonic", "measure")}
        for a, b2 in (("utility", "utility_p"), ("utility_p", "utility")):
            dp_check(ctx, exp_sig(c, negative), "Exponential", params, c[a], c[b2], laws[a][0], laws[b2][0], c["epsilon"])
        key = ("exp", c["epsilon"], c["sensitivity"], c["monotonic"], tuple(c["utility"]), tuple(c["utility_p"]),
               tuple(c["measure"] or ()))
        ctx.case(key if nontrivial(laws["utility"][0], laws["utility_p"][0]) else None)
        if negative:
            continue
        for tag in ("utility", "utility_p"):
            law, sc, f = laws[tag]
            us = [r.u01() for _ in range(6)] + [0.0, 1 - CELL]
            cum = 0.0
            for o in sorted(o for o in law.mass if isinstance(o, int)):
                cum += law.mass[o]
                us += [min(max(cum + d, 0.0), 1 - CELL) for d in (-CELL, 0.0, CELL, 1e-7)]
            gu = [g for u in us for g in guard_us(u, 64)]
            lines.append(exp_line("exp", c, c[tag], gu))
            def fu(uu, sc=sc, cands=laws[tag][1].mech.candidates):
                o = sc.at_u(uu)                      # the implementation at exactly the double the model sees
                return int(o[1:]) if cands and isinstance(o, str) and not o.startswith("ERR") else o
            pr = getattr(sc.mech, "_probabilities", None)
            cases.append((c, tag, us, [fu(u) for u in us], law, fu, None if pr is None else [float(z) for z in pr]))
    outs = leanio.run_driver("Discrete", lines) if lines else []
    for (c, tag, us, impl, law, fu, cum_impl), out in zip(cases, outs):
        parts = out.split(" | ")
        if not parts[0].startswith("ok"):
            ctx.disagree("exponential.driver", c, out, None)
            continue
        pmf = [b2f(int(z)) for z in parts[1].split()]
        sel = parts[2].split()
        if any(p != p for p in pmf):
            ctx.count("exp_nan_law_skipped")
            continue
        # the sampler's own cumulative sums carry float rounding of up to ~n ulp(1): an absolute allowance per atom
        compare_law(ctx, "exponential.law", {**c, "which": tag}, law, {i: p for i, p in enumerate(pmf)},
                    extra_unc=(len(pmf) + 2) * 2.0 ** -52)
        for i, u in enumerate(us):
            trio = sel[3 * i: 3 * i + 3]
            if len(set(trio)) != 1:
                ctx.boundary_skipped += 1
                continue
            mo = int(trio[1]) if trio[1].isdigit() else "ERR:RuntimeError"
            if mo != impl[i]:
                if exp_cum_boundary(cum_impl, u, mo, impl[i]) or \
                        ((isinstance(mo, str) or isinstance(impl[i], str)) and near_impl_breakpoint(fu, u, mo)):
                    ctx.boundary_skipped += 1
                    ctx.count("boundary_skipped_impl_breakpoint_within_4ulp")
                    continue
                ctx.disagree("Exponential.randomise", {**c, "which": tag, "u": u}, mo, impl[i])
            else:
                ctx.trace_ok()
    if cases:
        c, tag, us, impl, law = cases[0][:5]
        ctx.sample({"family": "Exponential", "params": {k: c[k] for k in ("epsilon", "sensitivity", "monotonic", "measure", "utility", "utility_p")},
                    "law": law.brief(8)})


# ---- symbolic uniforms: exhaustive enumeration of the decision tree of a comparison/int()-only sampler
class Pruned(Exception):
    pass


class SymScaled:
    def __init__(self, eng, n):
        self.eng, self.n = eng, n

    def __int__(self):
        return self.eng.branch_int(self.n)

    __index__ = __int__

    def __le__(self, t):
        return self.eng.branch_le(t / self.n)

    def __lt__(self, t):
        return self.eng.branch_le(t / self.n)

    def __gt__(self, t):
        return not self.eng.branch_le(t / self.n)

    def __ge__(self, t):
        return not self.eng.branch_le(t / self.n)


class SymU:
    """what `rng.random()` returns during enumeration: comparisons and int(u*n) are branch points"""

    def __init__(self, eng):
        self.eng = eng

    def __mul__(self, n):
        return SymScaled(self.eng, n)

    __rmul__ = __mul__

    def __le__(self, t):
        return self.eng.branch_le(t)

    def __lt__(self, t):
        return self.eng.branch_le(t)

    def __gt__(self, t):
        return not self.eng.branch_le(t)

    def __ge__(self, t):
        return not self.eng.branch_le(t)


class Engine(seams.ScriptedSystemRandom):
    def __init__(self, prefix, pending, cutoff):
        super().__init__()
        self.prefix, self.pending, self.cutoff = prefix, pending, cutoff
        self.path = []
        self.prob = 1.0

    def random(self):
        self.n_uniform += 1
        return SymU(self)

    def _branch(self, probs):
        pos = len(self.path)
        if pos < len(self.prefix):
            ch = self.prefix[pos]
        else:
            live = [j for j, p in enumerate(probs) if p > 0]
            ch = live[0]
            for j in live[1:]:
                self.pending.append((tuple(self.path) + (j,), self.prob * probs[j]))
        self.path.append(ch)
        self.prob *= probs[ch]
        if self.prob < self.cutoff:
            raise Pruned()
        return ch

    def branch_le(self, t):
        t = float(t)
        p = 0.0 if not t > 0 else (1.0 if t >= 1 else t)      # P[u <= t], u uniform on [0,1)
        return self._branch([p, 1.0 - p]) == 0

    def branch_int(self, n):
        n = int(n)
        return self._branch([1.0 / n] * n)


def enumerate_law(run, cutoff, max_paths):
    """run(rng) -> outcome.  Returns (Law, number of paths); law.cut = mass of the pruned paths"""
    law = Law()
    pending = [((), 1.0)]
    paths = 0
    while pending:
        prefix, pp = pending.pop()
        if pp < cutoff:
            law.cut += pp
            continue
        if paths >= max_paths:
            law.cut += pp
            continue
        eng = Engine(prefix, pending, cutoff)
        paths += 1
        try:
            o = run(eng)
        except Pruned:
            law.cut += eng.prob
            continue
        law.mass[o] = law.mass.get(o, 0.0) + eng.prob
    law.nseg = {}
    return law, paths


_REAL_BERN = M.base.bernoulli_neg_exp
_COIN_CACHE = {}


def coin_law(gamma):
    """exact law of the REAL bernoulli_neg_exp(gamma) (P[1], lost mass), by enumeration; its recursive unit-coin calls
    go through the wrapper below, i.e. each nested call is one Bernoulli branch with the law extracted for gamma = 1"""
    key = f2b(gamma)
    if key not in _COIN_CACHE:
        law, paths = enumerate_law(lambda rng: int(_REAL_BERN(gamma, rng)), 1e-17, 100000)
        _COIN_CACHE[key] = (law.p(1), law.p(0), law.cut, paths)
    return _COIN_CACHE[key]


def _coin_wrapper(gamma, random_state=None):
    if not isinstance(random_state, Engine) and isinstance(getattr(random_state, "engine", None), Engine):
        random_state = random_state.engine          # a pre-built mechanism driven through a ProxyRng
    if isinstance(random_state, Engine) and gamma >= 0:
        p1, p0, cut, _ = coin_law(float(gamma))
        ch = random_state._branch([p1, p0, cut])
        if ch == 2:
            raise Pruned()
        return 1 if ch == 0 else 0
    return _REAL_BERN(gamma, random_state)


class coin_interposed:
    """within the block, calls of bernoulli_neg_exp made with an enumeration engine are a single branch whose law was
    extracted from the real function (composition of independent draws); everything else runs the real function"""

    def __enter__(self):
        _COIN_CACHE.clear()
        self.saved = (M.base.bernoulli_neg_exp, M.exponential.bernoulli_neg_exp)
        M.base.bernoulli_neg_exp = _coin_wrapper
        M.exponential.bernoulli_neg_exp = _coin_wrapper
        return self

    def __exit__(self, *a):
        M.base.bernoulli_neg_exp, M.exponential.bernoulli_neg_exp = self.saved


def paf_run(c, util):
    def run(rng):
        try:
            return canon(M.PermuteAndFlip(epsilon=c["epsilon"], sensitivity=c["sensitivity"], utility=list(util),
                                          monotonic=c["monotonic"], random_state=rng).randomise())
        except Pruned:
            raise
        except Exception as e:  # noqa
            return "ERR:" + type(e).__name__
    return run


def check_paf(ctx, r, n):
    quick = ctx.tier == "quick"
    lines, cases = [], []
    for i in range(n):
        if over_time(ctx, 0.85):
            break
        c = gen_exp_case(r, paf=True, nmax=(5 if quick else 7) if i % 8 else (6 if quick else 8))
        k = len(c["utility"])
        cutoff = 1e-14
        laws = {}
        with coin_interposed():
            for tag in ("utility", "utility_p"):
                laws[tag], paths = enumerate_law(paf_run(c, c[tag]), cutoff, 400000)
                ctx.count("paf_paths", paths)
                ctx.counters["paf_max_lost_mass"] = max(ctx.counters.get("paf_max_lost_mass", 0.0), laws[tag].cut)
        params = {k2: c[k2] for k2 in ("epsilon", "sensitivity", "monotonic")}
        for a, b in (("utility", "utility_p"), ("utility_p", "utility")):
            dp_check(ctx, "C01:permute-and-flip:ratio", "PermuteAndFlip", params, c[a], c[b], laws[a], laws[b], c["epsilon"])
        ctx.case(("paf", c["epsilon"], c["sensitivity"], c["monotonic"], tuple(c["utility"]), tuple(c["utility_p"]))
                 if nontrivial(laws["utility"], laws["utility_p"]) else None)
        for tag in ("utility", "utility_p"):
            lines.append(exp_line("paflaw", c, c[tag]))
            cases.append(("law", c, tag, laws[tag]))
            # sampler outputs on scripted float streams (no exp/log on this path: exact)
            for _ in range(3):
                us = [r.u01() for _ in range(60 + 20 * k)]
                rng = seams.ScriptedSystemRandom(uniforms=us)
                try:
                    got = canon(M.PermuteAndFlip(epsilon=c["epsilon"], sensitivity=c["sensitivity"], utility=list(c[tag]),
                                                 monotonic=c["monotonic"], random_state=rng).randomise())
                    got = f"ok {got} {rng.n_uniform}"
                except seams.ScriptExhausted:
                    got = "exhausted"
                except RuntimeError:
                    got = "runtimeError"
                lines.append(exp_line("paf", c, c[tag], us))
                cases.append(("out", c, tag, got))
    outs = leanio.run_driver("Discrete", lines)
    for cs, out in zip(cases, outs):
        if cs[0] == "law":
            _, c, tag, law = cs
            parts = out.split(" | ")
            if not parts[0].startswith("ok"):
                ctx.disagree("paf.driver", c, out, None)
                continue
            pmf = [b2f(int(z)) for z in parts[0].split()[1:]]
            compare_law(ctx, "permute-and-flip.law", {**c, "which": tag}, law, {i: p for i, p in enumerate(pmf)})
        else:
            _, c, tag, got = cs
            if out != got:
                ctx.disagree("PermuteAndFlip.randomise", {**c, "which": tag}, out, got)
            else:
                ctx.trace_ok()
    if cases:
        ctx.sample({"family": "PermuteAndFlip", "params": {k: cases[0][1][k] for k in ("epsilon", "sensitivity", "monotonic", "utility", "utility_p")},
                    "law": cases[0][3].brief(8), "lost_mass": cases[0][3].cut})


def check_bernoulli(ctx, r, n):
    bern = M.base.bernoulli_neg_exp
    lines, cases = [], []
    for _ in range(n):
        m = r.u01()
        g = r.choice([0.0, 1.0, 0.5, 2.0, 1.0 + 2 ** -52, 3.0]) if m < 0.2 else (r.uniform(0, 1) if m < 0.6 else r.loguniform(1e-6, 12.0))

        def run(rng, g=g):
            return int(_REAL_BERN(g, rng))
        with coin_interposed():
            law, paths = enumerate_law(run, 1e-16, 400000)
        ctx.count("bern_paths", paths)
        lines.append(f"bernlaw {fl(g)}")
        cases.append(("law", g, law))
        us = [r.u01() for _ in range(200)]
        rng = seams.ScriptedSystemRandom(uniforms=us)
        try:
            got = f"ok {int(bern(g, rng))} {rng.n_uniform}"
        except seams.ScriptExhausted:
            got = "exhausted"
        lines.append(f"bern {fl(g)} " + " ".join(fl(u) for u in us))
        cases.append(("out", g, got))
        ctx.case(("bern", g))
    outs = leanio.run_driver("Discrete", lines)
    for cs, out in zip(cases, outs):
        if cs[0] == "law":
            p1 = b2f(int(out.split()[1]))
            compare_law(ctx, "bernoulli_neg_exp.law", {"gamma": cs[1]}, cs[2], {1: p1, 0: 1 - p1})
        elif out != cs[2]:
            ctx.disagree("bernoulli_neg_exp", {"gamma": cs[1]}, out, cs[2])
        else:
            ctx.trace_ok()


# ------------------------------------------------------------------------------------------------------------------
# ExponentialCategorical / ExponentialHierarchical
# ------------------------------------------------------------------------------------------------------------------
LABEL_POOL = ["a", "B", "c0", "zz", "A1", "m", "k9", "Q", "x_", "b", "Zed", "0", "10", "9", "alpha", "Beta"]


def gen_cat_case(r):
    n = r.randint(1, 8)
    labels = r.sample(LABEL_POOL, n)
    eps = draw_eps(r)
    mode = r.choice(["random", "random", "int", "equal", "circulant", "near", "near", "near-equal", "offset"])
    U = [[0.0] * n for _ in range(n)]
    if n >= 2:
        scale = r.choice([1.0, 1.0, 3.0, r.loguniform(1e-2, 1e2), r.loguniform(1e-12, 1e-6), r.loguniform(1e6, 1e12)])
        if mode in ("circulant", "near"):
            row = [0.0] + [scale * r.choice([1.0, 2.0, r.uniform(0.2, 3.0)]) for _ in range(n - 1)]
            for k in range(1, n):
                row[k] = row[n - k] = max(row[k], row[n - k])        # symmetric circulant => equal normalisers
            for i in range(n):
                for j in range(n):
                    U[i][j] = row[(j - i) % n]
        for i in range(n):
            for j in range(i + 1, n):
                if mode == "random":
                    v = scale * r.choice([r.uniform(0, 1), r.uniform(0, 1), 0.0, 1.0])
                elif mode == "int":
                    v = float(r.randint(0, 4))
                elif mode == "offset":
                    # utility values = huge common offset + a few units (multiples of 1/2, exact at that magnitude)
                    if i == 0 and j == 1:
                        cat_off = float(round(r.loguniform(1e6, 1e15)))
                    v = cat_off + r.randint(0, 80) * 0.5
                elif mode in ("equal", "near-equal"):
                    v = scale
                else:
                    v = U[i][j]
                if mode in ("near", "near-equal") and r.chance(0.6):
                    v *= 1 + r.choice([-1, 1]) * r.loguniform(1e-8, 1e-3)
                U[i][j] = U[j][i] = v
        if all(U[i][j] == 0 for i in range(n) for j in range(n)):
            U[0][1] = U[1][0] = scale
    ul = []
    for i in range(n):
        for j in range(i + 1, n):
            a, b = (labels[i], labels[j]) if r.chance(0.5) else (labels[j], labels[i])
            ul.append([a, b, U[i][j]])
    r.shuffle(ul)
    if n == 1:
        ul = [[labels[0], labels[0], r.choice([0.0, 1.0])]]
    elif r.chance(0.1):
        ul.insert(r.next() % (len(ul) + 1), [labels[0], labels[0], r.choice([0.0, 2 * max(max(row) for row in U)])])
    if n >= 2 and r.chance(0.1):
        a, b, v = ul[r.next() % len(ul)]
        ul.insert(0, [b, a, v * r.uniform(0, 3)])      # overridden later by the genuine entry
    return {"epsilon": eps, "utility_list": ul, "mode": mode}


def rank_of(labels):
    return {lab: i for i, lab in enumerate(sorted(labels))}


def cat_line(op, eps, triples, value=None, us=()):
    t = " ".join(f"{a} {b} {fl(v)}" for a, b, v in triples)
    tail = "" if value is None else f" {value} " + " ".join(fl(u) for u in us)
    return f"{op} {fl(eps)} {len(triples)} {t}{tail}"


def cat_laws_and_check(ctx, r, family, sig, sc, labels, eps, params):
    """(ii)+(iii) for a built categorical-type mechanism; returns {label: Law}"""
    laws = {}
    for x in labels:
        f = lambda k, x=x: sc.at(k, x)  # noqa
        segs = extract_steps(f, 0, GRID - 1)
        if verify_steps(f, segs, r, 4):
            ctx.disagree(family + ".law", params, "first target with unif <= cum", "probe mismatch")
        laws[x] = Law()
        laws[x].add_segs(segs)
    norms = list(getattr(sc.mech, "_normalising_constant", {}).values())
    if getattr(sc.mech, "_balanced_tree", False) and norms and max(norms) - min(norms) > 1e-12 * max(norms):
        sig = "C01:categorical:isclose-balanced"
        ctx.count("cat_isclose_balanced_cases")
    for x in labels:
        for xp in labels:
            if x != xp:
                if not dp_check(ctx, sig, family, params, x, xp, laws[x], laws[xp], eps):
                    return laws
    return laws


def cat_compare(ctx, family, cases, outs):
    for cs, out in zip(cases, outs):
        kind, params = cs[0], cs[1]
        if kind == "law":
            _, _, ranks, laws, expect_err = cs
            if expect_err is not None:
                if out != expect_err:
                    ctx.disagree(family + ".constructor", params, out, expect_err)
                else:
                    ctx.trace_ok()
                continue
            parts = out.split(" | ")
            if not parts[0].startswith("ok"):
                ctx.disagree(family + ".constructor", params, out, "constructed")
                continue
            head = parts[0].split()
            n = int(head[3])
            dom = [int(z) for z in head[4:4 + n]]
            rows = [b2f(int(z)) for z in parts[2].split()]
            inv = {v: k for k, v in ranks.items()}
            for i, d in enumerate(dom):
                model = {inv[t]: rows[i * n + j] for j, t in enumerate(dom)}
                compare_law(ctx, family + ".law", {**params, "value": inv[d]}, laws[inv[d]], model,
                            extra_unc=(n + 2) * 2.0 ** -52)      # rounding of the running sum `cum_prob` / of `u * Z`
        else:
            _, _, ranks, x, us, impl, sc = cs
            w = out.split()
            if w[0] != "ok":
                ctx.disagree(family + ".driver", params, out, None)
                continue
            inv = {str(v): k for k, v in ranks.items()}
            for i, u in enumerate(us):
                trio = w[1 + 3 * i: 4 + 3 * i]
                if len(set(trio)) != 1:
                    ctx.boundary_skipped += 1
                    continue
                if inv.get(trio[1], trio[1]) != impl[i]:
                    if near_impl_breakpoint(lambda uu: sc.at_u(uu, x), u, inv.get(trio[1], trio[1])):
                        ctx.boundary_skipped += 1
                        ctx.count("boundary_skipped_impl_breakpoint_within_4ulp")
                        continue
                    ctx.disagree(family + ".randomise", {**params, "value": x, "u": u}, inv.get(trio[1], trio[1]), impl[i])
                else:
                    ctx.trace_ok()


def cat_output_lines(r, sc, laws, eps, triples, ranks, labels, params, lines, cases, k=2):
    for x in r.sample(labels, min(k, len(labels))):
        us = [r.u01() for _ in range(4)] + [0.0, 1 - CELL]
        cum = 0.0
        for o, m in list(laws[x].mass.items())[:4]:
            cum += m
            us += [min(max(cum + d, 0.0), 1 - CELL) for d in (-CELL, 1e-7)]
        gu = [g for u in us for g in guard_us(u, 64)]
        lines.append(cat_line("cat", eps, triples, ranks[x], gu))
        cases.append(("out", params, ranks, x, us, [sc.at_u(u, x) for u in us], sc))


def check_categorical(ctx, r, n):
    lines, cases = [], []
    fixed = [{"epsilon": ISCLOSE_WITNESS["params"]["epsilon"], "utility_list": ISCLOSE_WITNESS["params"]["utility_list"],
              "mode": "regression witness of 252dfe7"}]
    for i in range(n):
        if i >= len(fixed) and over_time(ctx, 0.93):
            break
        c = fixed[i] if i < len(fixed) else gen_cat_case(r)
        eps, ul = c["epsilon"], c["utility_list"]
        labels = []
        for a, b, _ in ul:
            for z in (a, b):
                if z not in labels:
                    labels.append(z)
        ranks = rank_of(labels)
        triples = [(ranks[a], ranks[b], v) for a, b, v in ul]
        try:
            sc = Scripted(lambda rng: M.ExponentialCategorical(epsilon=eps, utility_list=[list(t) for t in ul], random_state=rng))
        except (ValueError, ZeroDivisionError, FloatingPointError) as e:
            lines.append(cat_line("catlaw", eps, triples))
            cases.append(("law", c, ranks, None, "valueError" if isinstance(e, ValueError) else "skip"))
            ctx.case(None)
            continue
        laws = cat_laws_and_check(ctx, r, "ExponentialCategorical", "C01:categorical:ratio", sc, labels, eps, c)
        ctx.case(("cat", eps, tuple(map(tuple, ul))) if len(labels) >= 2 else None)
        lines.append(cat_line("catlaw", eps, triples))
        cases.append(("law", c, ranks, laws, None))
        cat_output_lines(r, sc, laws, eps, triples, ranks, labels, c, lines, cases)
    outs = leanio.run_driver("Discrete", lines)
    cases = [cs for cs in cases if not (cs[0] == "law" and cs[4] == "skip")] if False else cases
    cat_compare(ctx, "ExponentialCategorical", [cs for cs in cases], outs)
    for cs in cases:
        if cs[0] == "law" and cs[3]:
            lab = next(iter(cs[3]))
            ctx.sample({"family": "ExponentialCategorical", "params": cs[1], "value": lab, "law": cs[3][lab].brief(8)})
            break


def gen_hierarchy(r):
    depth = r.choice([1, 2, 2, 2, 3])
    n_target = r.randint(2, 8)
    labels = r.sample(LABEL_POOL, n_target)
    regular = r.chance(0.4)
    pos = [0]

    def build(d, budget):
        # returns a nested list using up to `budget` labels, all leaves at depth d below this node
        if d == 0:
            lab = labels[pos[0]]
            pos[0] += 1
            return lab
        kids = []
        k = r.randint(1, max(1, min(3, budget)))
        share = max(1, budget // k)
        for _ in range(k):
            if pos[0] >= len(labels):
                break
            kids.append(build(d - 1, share))
        return kids
    top = []
    if regular:
        b = r.choice([2, 2, 3])
        d = depth

        def reg(dd):
            if dd == 0:
                if pos[0] >= len(LABEL_POOL):
                    return None
                lab = LABEL_POOL[pos[0]]
                pos[0] += 1
                return lab
            return [reg(dd - 1) for _ in range(b)]
        d = min(d, 3 if b == 2 else 2)
        top = reg(d)
    else:
        while pos[0] < len(labels):
            top.append(build(depth - 1, r.randint(1, 4)))
    if r.chance(0.08):                      # a leaf at the wrong level: the constructor must refuse
        top.append([["Zz9"]] if depth < 3 else "Zz9")
    return top


def flat_leaves(h):
    out = []
    for v in h:
        out += [v] if isinstance(v, str) else flat_leaves(v)
    return out


def hier_tokens(h, ranks):
    toks = []
    for v in h:
        if isinstance(v, str):
            toks.append(str(ranks[v]))
        else:
            toks += ["("] + hier_tokens(v, ranks) + [")"]
    return toks


def check_hierarchical(ctx, r, n):
    hlines, hcases = [], []
    for _ in range(n):
        if over_time(ctx, 1.0):
            break
        h = gen_hierarchy(r)
        eps = draw_eps(r)
        labels = flat_leaves(h)
        ranks = rank_of(labels)
        try:
            sc = Scripted(lambda rng: M.ExponentialHierarchical(epsilon=eps, hierarchy=h, random_state=rng))
            impl = sorted((min(ranks[a], ranks[b]), max(ranks[a], ranks[b]), int(v)) for a, b, v in sc.mech.utility_list)
        except ValueError:
            sc, impl = None, "valueError"
        hlines.append("hier " + " ".join(hier_tokens(h, ranks)))
        hcases.append((h, eps, labels, ranks, sc, impl))
    houts = leanio.run_driver("Discrete", hlines)
    lines, cases = [], []
    for (h, eps, labels, ranks, sc, impl), out in zip(hcases, houts):
        params = {"epsilon": eps, "hierarchy": h}
        w = out.split()
        if impl == "valueError" or w[0] != "ok":
            if not (impl == "valueError" and w[0] == "valueError"):
                ctx.disagree("ExponentialHierarchical.constructor", params, out, impl)
            else:
                ctx.trace_ok()
            ctx.case(None)
            continue
        nums = [int(z) for z in w[1:]]
        mtriples = [(nums[i], nums[i + 1], nums[i + 2]) for i in range(0, len(nums), 3)]
        if sorted((min(a, b), max(a, b), v) for a, b, v in mtriples) != impl:
            ctx.disagree("ExponentialHierarchical.utility_list", params, mtriples, impl)
            continue
        ctx.trace_ok()
        if len(labels) < 2:
            ctx.case(None)
            continue
        laws = cat_laws_and_check(ctx, r, "ExponentialHierarchical", "C01:hierarchical:ratio", sc, labels, eps, params)
        ctx.case(("hier", eps, repr(h)))
        triples = [(a, b, float(v)) for a, b, v in mtriples]
        lines.append(cat_line("catlaw", eps, triples))
        cases.append(("law", params, ranks, laws, None))
        cat_output_lines(r, sc, laws, eps, triples, ranks, labels, params, lines, cases)
    outs = leanio.run_driver("Discrete", lines) if lines else []
    cat_compare(ctx, "ExponentialHierarchical", cases, outs)
    for cs in cases:
        if cs[0] == "law" and cs[3]:
            lab = next(iter(cs[3]))
            ctx.sample({"family": "ExponentialHierarchical", "params": cs[1], "value": lab, "law": cs[3][lab].brief(8)})
            break


# ------------------------------------------------------------------------------------------------------------------
# PARAMETER-TYPE and MAGNITUDE stratum (all families): the same real numbers handed over as python int / float, numpy
# integers, np.float64 / float32 / float16 (values are quantised to the type FIRST, so the model sees the real number the
# object holds), and integer inputs up to and beyond 2^24, 2^31, 2^53 incl. neighbours straddling float32 / float64
# rounding midpoints.  A typed value travels as [type name, value].
# ------------------------------------------------------------------------------------------------------------------
TYPEMAP = {"int": int, "float": float, "i64": np.int64, "i32": np.int32, "i16": np.int16, "i8": np.int8, "u8": np.uint8,
           "f64": np.float64, "f32": np.float32, "f16": np.float16}
FLOAT_T = ["float", "f64", "f32", "f16"]
INT_T = ["int", "i64", "i32"]
LOWP = {"f32": 2.0 ** -23, "f16": 2.0 ** -10}       # unit round-off of the reduced-precision types


def tv(t, v):
    """typed value [type, value] with the value quantised to what an object of that type holds"""
    o = TYPEMAP[t](v)
    return [t, int(o) if t in ("int", "i64", "i32", "i16", "i8", "u8") else float(o)]


def mk(x):
    return None if x is None else TYPEMAP[x[0]](x[1])


def val(x):
    return None if x is None else x[1]


def fits(t, v):
    lim = {"i32": 2 ** 31, "i16": 2 ** 15, "i8": 2 ** 7, "i64": 2 ** 63}
    if t == "u8":
        return 0 <= v < 256
    return t not in lim or -lim[t] <= v < lim[t]


def draw_typed_eps(r):
    t = r.choice(FLOAT_T + FLOAT_T + ["int", "i64", "i32"])
    if t in ("int", "i64", "i32"):
        return tv(t, r.choice([1, 1, 2, 3]))
    return tv(t, r.choice([0.5, 1.0, 2.0, 0.25, r.loguniform(0.05, 5.0), r.loguniform(0.05, 5.0)]))


def eff_dtype(items):
    """the float type numpy computes in for an array built from these typed values (python scalars are weak, an
    all-integer array is promoted to float64 by the first float operation)"""
    try:
        dt = np.array([mk(i) for i in items]).dtype
    except Exception:  # noqa
        return "f64"
    return {"float32": "f32", "float16": "f16"}.get(str(dt), "f64")


def lowp_tol(t, n):
    """(rel, abs) tolerance of the model/implementation law comparison when the implementation legitimately computes in
    a reduced-precision type (the model is double precision); the direct ratio check is NOT relaxed"""
    if t not in LOWP:
        return None, (n + 2) * 2.0 ** -52
    return 64 * LOWP[t], 8 * (n + 2) * LOWP[t]


def typed_geom_mech(spec):
    v = {"Geometric": "p", "GeometricTruncated": "t", "GeometricFolded": "f"}[spec["family"]]
    return v, build_geom(v, mk(spec["epsilon"]), mk(spec["sensitivity"]), mk(spec.get("lower")), mk(spec.get("upper")))


def typed_build(spec, which):
    """mechanism builder for a typed spec; `which` selects the utility vector for the exponential family"""
    fam = spec["family"]
    if fam == "Binary":
        return lambda rng: M.Binary(epsilon=mk(spec["epsilon"]), value0="a", value1="b", random_state=rng)
    if fam in ("Geometric", "GeometricTruncated", "GeometricFolded"):
        return typed_geom_mech(spec)[1]
    if fam in ("Exponential", "PermuteAndFlip"):
        util = [mk(z) for z in spec[which]]
        kw = dict(epsilon=mk(spec["epsilon"]), sensitivity=mk(spec["sensitivity"]), utility=util,
                  monotonic=spec["monotonic"])
        if fam == "Exponential":
            ms = [mk(z) for z in spec["measure"]] if spec.get("measure") else None
            return lambda rng: M.Exponential(measure=ms, random_state=rng, **kw)
        return lambda rng: M.PermuteAndFlip(random_state=rng, **kw)
    if fam == "ExponentialCategorical":
        ul = [[a, b, mk(z)] for a, b, z in spec["utility_list"]]
        return lambda rng: M.ExponentialCategorical(epsilon=mk(spec["epsilon"]), utility_list=ul, random_state=rng)
    if fam == "ExponentialHierarchical":
        return lambda rng: M.ExponentialHierarchical(epsilon=mk(spec["epsilon"]), hierarchy=spec["hierarchy"], random_state=rng)
    raise ValueError(fam)


def typed_law(spec, which):
    """exact law of the running sampler for a typed spec (`which` = "utility"/"utility_p" or the input label)"""
    fam = spec["family"]
    if fam == "PermuteAndFlip":
        b = typed_build(spec, which)

        def run(rng):
            try:
                return canon(b(rng).randomise())
            except Pruned:
                raise
            except Exception as e:  # noqa
                return "ERR:" + type(e).__name__
        with coin_interposed():
            return enumerate_law(run, 1e-14, 400000)[0]
    sc = Scripted(typed_build(spec, which))
    if fam == "Exponential":
        return exp_law(sc, None)[0]
    law = Law()
    law.add_segs(extract_steps(lambda k: sc.at(k, which), 0, GRID - 1))
    return law


def typed_violation(ctx, sig, spec, x, xp, o, p, q, eps, mode):
    fam = spec["family"]
    ctx.violation(sig, f"{fam} (typed parameters {spec_brief(spec)}): P[{o}|{x}]={p!r} > e^{eps!r} * P[{o}|{xp}]={q!r} "
                       f"(ratio {p / q if q else INF:.6g} vs bound {exp_eps(eps):.6g})",
                  {"family": fam, "mode": "typed", "spec": spec, "x": x, "xp": xp, "atom": o, "p": p, "q": q, "eps": eps,
                   "law_mode": mode})


def spec_brief(spec):
    keys = ("epsilon", "sensitivity", "lower", "upper", "measure")
    out = {k: spec[k] for k in keys if spec.get(k) is not None}
    for k in ("utility", "utility_p"):
        if k in spec:
            out[k + "_type"] = sorted({z[0] for z in spec[k]})
    if "utility_list" in spec:
        out["utility_type"] = sorted({z[2][0] for z in spec["utility_list"]})
    return out


def typed_ratio(ctx, sig, spec, x, xp, la, lb, eps):
    bound = exp_eps(eps)
    for a, b, xa, xb in ((la, lb, x, xp), (lb, la, xp, x)):
        for o in a.atoms():
            p, q = a.p(o), b.p(o)
            if p - a.unc(o) > bound * (q + b.unc(o)) * (1 + SLACK):
                typed_violation(ctx, sig, spec, xa, xb, o, p, q, eps, "law")
                return False
    return True


def gen_typed_geom(r):
    variant = r.choice(["p", "p", "p", "t", "t", "f"])
    eps = draw_typed_eps(r)
    st = r.choice(["int", "int", "i64", "i32", "i16", "i8", "u8"])
    sens = tv(st, r.choice([1, 1, 1, 2, 3, 5]))
    pw = r.choice([0, 10, 23, 24, 24, 25, 26, 27, 30, 31, 31, 32, 40, 52, 53, 53, 54, 60, 62, 63, 64, 70])
    x = (1 << pw) + r.randint(-6, 9) if pw else r.randint(-50, 50)
    if r.chance(0.3):
        x = -x
    d = r.choice([1, 1, val(sens), r.randint(1, val(sens))]) * r.choice([-1, 1])
    xp = x + d
    xt = r.choice([t for t in INT_T if fits(t, x) and fits(t, xp)])
    spec = {"family": GEOM_NAME[variant], "epsilon": eps, "sensitivity": sens, "x": tv(xt, x), "xp": tv(xt, xp)}
    if variant != "p":
        w1, w2 = r.randint(0, 12), r.randint(1, 12)
        lo, hi = min(x, xp) - w1, max(x, xp) + w2
        # numpy-typed bounds only where `2 * bound` and `bound +- noise` stay inside the type (near its limits the
        # fold arithmetic wraps around / comparisons raise OverflowError: a range matter, not generated here)
        room = {"int": None, "i64": 2 ** 61, "i32": 2 ** 29}
        bt = r.choice([t for t in INT_T if room[t] is None or max(abs(lo), abs(hi)) < room[t]])
        lo_t, hi_t = tv(bt, lo), tv(bt, hi)
        if variant == "f" and abs(hi) < 2 ** 20 and r.chance(0.5):
            ft = r.choice(FLOAT_T)                   # half-integer / float-typed bounds, exactly representable
            lo_t, hi_t = tv(ft, lo - r.choice([0, 0.5])), tv(ft, hi + r.choice([0, 0.5]))
        elif variant == "f" and r.chance(0.4):
            # float-typed bounds at any magnitude (quantised to the double grid, widened so that they stay apart)
            lo_t, hi_t = tv("float", lo - 2 * abs(lo) * 2.0 ** -52 - 1), tv(r.choice(["float", "f64"]), hi + 2 * abs(hi) * 2.0 ** -52 + 1)
        m = r.u01()
        if m < 0.12:
            lo_t = ["float", -INF]
        elif m < 0.24:
            hi_t = ["float", INF]
        spec["lower"], spec["upper"] = lo_t, hi_t
    return variant, spec


def typed_geom_sig(variant, spec):
    big = max(abs(val(spec["x"])), abs(val(spec["xp"]))) >= 2 ** 53
    return "C01:geometric:input-beyond-2^53" if big else GEOM_SIG[variant]


def check_types_geom(ctx, r, lines, cases):
    variant, spec = gen_typed_geom(r)
    eps, sens = float(val(spec["epsilon"])), int(val(spec["sensitivity"]))
    x, xp = val(spec["x"]), val(spec["xp"])
    xs = {"x": mk(spec["x"]), "xp": mk(spec["xp"])}
    try:
        sc = Scripted(typed_build(spec, None))
    except (TypeError, ValueError) as e:
        ctx.count("typed_constructor_refused:" + type(e).__name__)
        ctx.case(None)
        return
    s = eps / sens
    sig = typed_geom_sig(variant, spec)
    probe = [sc.at_u(u, xs[k]) for k in ("x", "xp")
             for u in [0.1, 0.45, 0.55, 0.9] + [0.5 + sg * 10.0 ** -j for sg in (1, -1) for j in range(1, 13)]]
    if any(isinstance(o, str) for o in probe):
        # e.g. GeometricTruncated/Folded with a noisy value outside [-2^63, 2^64): np.round(<python int>) raises TypeError
        # on every draw, for both neighbours alike — a range matter (C12), counted here
        ctx.count("typed_truncfold_raises:" + next(o for o in probe if isinstance(o, str)))
        ctx.case(None)
        return
    # (i) outputs on scripted uniforms against the model (which adds value and noise in doubles, as Python does)
    us = [r.u01() for _ in range(4)] + [0.5 + sg * r.loguniform(1e-9, 0.4) for sg in (1, -1)]
    lo_b, hi_b = val(spec.get("lower")), val(spec.get("upper"))
    float_fold = variant == "f" and any(isinstance(b, float) and abs(b) != INF for b in (lo_b, hi_b))
    if not (float_fold and max(abs(x), abs(xp)) + 40.0 / s >= 2.0 ** 51):
        for k in ("x", "xp"):
            gu = [g for u in us for g in guard_us(u, 8)]
            gu = [0.25 if g == 0.5 else g for g in gu]
            lines.append(f"geom {variant} {fl(eps)} {sens} {val(spec[k])} {bnd_tok(lo_b if lo_b is not None else -INF)} "
                         f"{bnd_tok(hi_b if hi_b is not None else INF)} " + " ".join(fl(u) for u in gu))
            cases.append(("gout", spec, k, us, [sc.at_u(u, xs[k]) for u in us], sc, xs[k]))
    # (ii)+(iii) exact masses of the atoms around both inputs (plain / truncated: monotone halves); folded: whole law
    if variant == "f":
        if s < 0.3:
            ctx.count("typed_fold_law_skipped")
            ctx.case(None)
            return
        laws = {k: geom_full_law(sc, "f", xs[k], s)[0] for k in ("x", "xp")}
        if any(isinstance(o, str) for k in laws for o in laws[k].mass):
            ctx.count("geom_error_outcome_skipped")
            return
        typed_ratio(ctx, sig, spec, x, xp, laws["x"], laws["xp"], eps)
        ctx.case(("typed-geom", repr(spec)))
        return
    if not (geom_monotone_ok(sc, xs["x"], r, 12) and geom_monotone_ok(sc, xs["xp"], r, 12)):
        ctx.disagree("geometric.monotone", spec, "output non-increasing in u on each half", "not monotone")
        return
    top = max(abs(x), abs(xp))
    atoms = sorted({a + k for a in (x, xp) for k in range(-4, 5)})
    if variant == "t":
        atoms = sorted(set(atoms) | {int(b) for b in (lo_b, hi_b) if abs(b) != INF})
    try:
        masses = {k: {o: geom_atom_mass(sc, xs[k], o) for o in atoms} for k in ("x", "xp")}
    except ValueError as e:
        # e.g. GeometricTruncated beyond 2^64: np.round(<python int>) raises TypeError (range/exception: C12's business)
        ctx.count("typed_geom_error_outcome:" + str(e)[:40])
        return
    bound = exp_eps(eps)
    unc = 6 * CELL + 2 * CUT_CELLS * CELL
    done = False
    for a, b in (("x", "xp"), ("xp", "x")):
        for o in atoms:
            pm, qm = masses[a][o], masses[b][o]
            if not done and pm >= MIN_MASS and pm > bound * (qm + unc) * (1 + SLACK):
                typed_violation(ctx, sig, spec, val(spec[a]), val(spec[b]), o, pm, qm, eps, "atom")
                done = True
    ctx.case(("typed-geom", repr(spec)))
    ctx.count("typed_geom_cases")
    if True:
        # the sum is exact integer arithmetic (c709270): the closed-form law applies atom by atom at every magnitude
        inner = [o for o in atoms if variant == "p" or
                 ((abs(lo_b) == INF or o > lo_b) and (abs(hi_b) == INF or o < hi_b))]
        if inner:
            lines.append(f"geomq {fl(eps)} {sens} " + " ".join(str(o - x) for o in inner) + " " +
                         " ".join(str(o - xp) for o in inner))
            cases.append(("gq", spec, inner, masses))


def gen_typed_utils(r, n, sens, ut, mono):
    """utility vectors as multiples of sens/4 (exactly representable in every float type used; multiples of sens for
    integer types), neighbours within sens — half of them the tight pattern (one down, all others up by sens)"""
    q = sens if ut in ("int", "i64", "i32") else sens / 4.0
    u = [r.randint(-12, 12) * q if q != sens else r.randint(-4, 4) * sens for _ in range(n)]
    if r.chance(0.5):
        o = r.next() % n
        up = [a + sens for a in u]
        if not mono:
            up[o] = u[o] - sens
        else:
            up[o] = u[o]
    else:
        steps = [0, sens] if mono else [-sens, 0, sens, q, -q]
        up = [a + r.choice(steps) for a in u]
    return u, up


def check_types_exp(ctx, r, lines, cases, paf):
    n = r.randint(2, 5 if paf else 6)
    eps = draw_typed_eps(r)
    st = r.choice(FLOAT_T + ["int", "i64", "i32"])
    sraw = r.choice([1, 1, 2]) if st in ("int", "i64", "i32") else r.choice([1.0, 1.0, 2.0, 0.5])
    sens = tv(st, sraw)
    mono = r.chance(0.3)
    ut = r.choice(["float", "f64", "f32", "f16", "int", "i64", "i32", "mixed"])
    if ut in ("int", "i64", "i32") and float(val(sens)) != int(val(sens)):
        ut = "float"
    u, up = gen_typed_utils(r, n, float(val(sens)), ut, mono)

    def ty(i):
        return r.choice(["float", "f32", "f64", "int"]) if ut == "mixed" else ut
    tys = [ty(i) for i in range(n)]
    tys = [("float" if (t in ("int", "i64", "i32") and (a != int(a) or b != int(b))) else t) for t, a, b in zip(tys, u, up)]
    spec = {"family": "PermuteAndFlip" if paf else "Exponential", "epsilon": eps, "sensitivity": sens, "monotonic": mono,
            "utility": [tv(t, a) for t, a in zip(tys, u)], "utility_p": [tv(t, b) for t, b in zip(tys, up)], "measure": None}
    if not paf and r.chance(0.4):
        mt = r.choice(["float", "f64", "f32", "f16", "int", "i64"])
        spec["measure"] = [tv(mt, r.choice([1, 1, 2, 3, 0])) for _ in range(n)]
        if sum(val(z) for z in spec["measure"]) <= 0:
            spec["measure"][0] = tv(mt, 1)
    uq, upq = [float(val(z)) for z in spec["utility"]], [float(val(z)) for z in spec["utility_p"]]
    epsq, sensq = float(val(eps)), float(val(sens))
    if not within(uq, upq, sensq, mono):
        ctx.case(None)
        return
    eff = eff_dtype(spec["utility"])
    if spec["measure"] and eff == "f64" and False:
        pass
    fam = spec["family"]
    try:
        laws = {k: typed_law(spec, k) for k in ("utility", "utility_p")}
    except (TypeError, ValueError, ZeroDivisionError, FloatingPointError) as e:
        ctx.count("typed_constructor_refused:" + type(e).__name__)
        ctx.case(None)
        return
    base_sig = "C01:permute-and-flip:ratio" if paf else exp_sig(spec)
    low_sig = "C01:permute-and-flip:low-precision-utility" if paf else "C01:exponential:low-precision-utility"
    typed_ratio(ctx, low_sig if eff in LOWP else base_sig, spec, uq, upq, laws["utility"], laws["utility_p"], epsq)
    ctx.case(("typed-" + fam, repr(spec)))
    ctx.count("typed_exp_cases")
    c = {"epsilon": epsq, "sensitivity": sensq, "monotonic": mono,
         "measure": [float(val(z)) for z in spec["measure"]] if spec["measure"] else None}
    for k, util in (("utility", uq), ("utility_p", upq)):
        lines.append(exp_line("paflaw" if paf else "exp", c, util))
        cases.append(("elaw", spec, k, laws[k], eff, paf))


def check_types_cat(ctx, r, lines, cases):
    n = r.randint(2, 5)
    labels = r.sample(LABEL_POOL, n)
    eps = draw_typed_eps(r)
    ut = r.choice(["float", "f64", "f32", "f16", "int", "i64", "i32", "mixed"])
    ul = []
    for i in range(n):
        for j in range(i + 1, n):
            t = r.choice(["float", "f32", "int", "f64"]) if ut == "mixed" else ut
            v = r.randint(0, 4) if t in ("int", "i64", "i32") else r.randint(0, 16) * 0.25
            ul.append([labels[i], labels[j], tv(t, v)])
    if all(val(z[2]) == 0 for z in ul):
        ul[0][2] = tv(ul[0][2][0], 1)
    r.shuffle(ul)
    spec = {"family": "ExponentialCategorical", "epsilon": eps, "utility_list": ul}
    epsq = float(val(eps))
    eff = "f64"
    for z in ul:
        if z[2][0] in LOWP and (eff == "f64" or LOWP[z[2][0]] > LOWP[eff]):
            eff = z[2][0]
    try:
        sc = Scripted(typed_build(spec, None))
    except (TypeError, ValueError, ZeroDivisionError, FloatingPointError) as e:
        ctx.count("typed_constructor_refused:" + type(e).__name__)
        ctx.case(None)
        return
    dom = []
    for a, b, _ in ul:
        for z in (a, b):
            if z not in dom:
                dom.append(z)
    laws = {}
    for x in dom:
        laws[x] = Law()
        laws[x].add_segs(extract_steps(lambda k, x=x: sc.at(k, x), 0, GRID - 1))
    sig = "C01:categorical:low-precision-utility" if eff in LOWP else "C01:categorical:ratio"
    ok = True
    for x in dom:
        for xp in dom:
            if ok and x != xp:
                ok = typed_ratio(ctx, sig, spec, x, xp, laws[x], laws[xp], epsq)
    ctx.case(("typed-cat", repr(spec)))
    ctx.count("typed_cat_cases")
    ranks = rank_of(dom)
    triples = [(ranks[a], ranks[b], float(val(z))) for a, b, z in ul]
    lines.append(cat_line("catlaw", epsq, triples))
    cases.append(("claw", spec, ranks, laws, eff))


def check_types_binary(ctx, r, lines, cases):
    eps = draw_typed_eps(r)
    spec = {"family": "Binary", "epsilon": eps}
    epsq = float(val(eps))
    sc = Scripted(typed_build(spec, None))
    laws = {v: binary_law(sc, v)[0] for v in ("a", "b")}
    typed_ratio(ctx, "C01:binary:ratio", spec, "a", "b", laws["a"], laws["b"], epsq)
    ctx.case(("typed-binary", repr(spec)))
    lines.append(f"binarylaw {fl(epsq)}")
    cases.append(("blaw", spec, laws))


def check_types(ctx, r, n):
    lines, cases = [], []
    for i in range(n):
        if over_time(ctx, 1.0):
            break
        m = r.u01()
        if m < 0.45:
            import signal

            def _hang(signum, frame):
                raise TimeoutError("a typed geometric case did not return within 60 s")
            prev = signal.signal(signal.SIGALRM, _hang)
            signal.alarm(60)
            try:
                check_types_geom(ctx, r, lines, cases)
            except TimeoutError as e:
                ctx.count("typed_geom_timeout")
                ctx.note(str(e))
            finally:
                signal.alarm(0)
                signal.signal(signal.SIGALRM, prev)
        elif m < 0.5:
            check_types_binary(ctx, r, lines, cases)
        elif m < 0.7:
            check_types_exp(ctx, r, lines, cases, paf=False)
        elif m < 0.8:
            check_types_exp(ctx, r, lines, cases, paf=True)
        else:
            check_types_cat(ctx, r, lines, cases)
    outs = leanio.run_driver("Discrete", lines) if lines else []
    for cs, out in zip(cases, outs):
        kind, spec = cs[0], cs[1]
        w = out.split()
        if not out.startswith("ok"):
            if kind == "claw" and out in ("valueError",):
                continue
            ctx.disagree("typed.driver", spec, out, None)
            continue
        if kind == "gout":
            _, _, k, us, impl, sc, xval = cs
            for i, u in enumerate(us):
                trio = w[1 + 3 * i: 4 + 3 * i]
                if len(set(trio)) != 1:
                    ctx.boundary_skipped += 1
                    continue
                if isinstance(impl[i], str) or trio[1] == "none":
                    ctx.count("geom_error_outcome_skipped")
                    continue
                if int(trio[1]) != impl[i]:
                    if near_impl_breakpoint(lambda uu: sc.at_u(uu, xval), u, int(trio[1]), avoid_half=True):
                        ctx.boundary_skipped += 1
                        ctx.count("boundary_skipped_impl_breakpoint_within_4ulp")
                        continue
                    ctx.disagree(spec["family"] + ".randomise", {"spec": spec, "value": spec[k], "u": u}, int(trio[1]), impl[i],
                                 note="typed parameters / large magnitude")
                else:
                    ctx.trace_ok()
        elif kind == "gq":
            _, _, inner, masses = cs
            pm = [b2f(int(z)) for z in w[1:]]
            nn = len(inner)
            ok = True
            for vi, k in enumerate(("x", "xp")):
                for j, o in enumerate(inner):
                    a, mm = masses[k][o], pm[vi * nn + j]
                    tol = LAW_REL * max(a, mm) + 8 * CELL + 2 * CUT_CELLS * CELL
                    if ok and abs(a - mm) > tol:
                        ctx.disagree("geometric.law", {"spec": spec, "value": spec[k]}, {"atom": o, "model_mass": mm},
                                     {"atom": o, "impl_mass": a}, note=f"typed parameters: law differs by {abs(a - mm):.3e} > {tol:.3e}")
                        ok = False
            if ok:
                ctx.trace_ok()
        elif kind == "elaw":
            _, _, k, law, eff, paf = cs
            parts = out.split(" | ")
            pmf = [b2f(int(z)) for z in (parts[0].split()[1:] if paf else parts[1].split())]
            if any(q != q for q in pmf):
                ctx.count("exp_nan_law_skipped")
                continue
            rel, ab = lowp_tol(eff, len(pmf))
            compare_law(ctx, spec["family"] + ".law", {"spec": spec, "which": k}, law, {i: q for i, q in enumerate(pmf)},
                        extra_unc=ab + law.cut, rel=rel)
        elif kind == "claw":
            _, _, ranks, laws, eff = cs
            parts = out.split(" | ")
            head = parts[0].split()
            nn = int(head[3])
            dom = [int(z) for z in head[4:4 + nn]]
            rows = [b2f(int(z)) for z in parts[2].split()]
            inv = {v: k for k, v in ranks.items()}
            rel, ab = lowp_tol(eff, nn)
            for i, d in enumerate(dom):
                model = {inv[t]: rows[i * nn + j] for j, t in enumerate(dom)}
                compare_law(ctx, "ExponentialCategorical.law", {"spec": spec, "value": inv[d]}, laws[inv[d]], model,
                            extra_unc=ab, rel=rel)
        elif kind == "blaw":
            _, _, laws = cs
            pf = b2f(int(w[1]))
            compare_law(ctx, "binary.law", {"spec": spec}, laws["a"], {"a": 1 - pf, "b": pf}, extra_unc=4 * 2.0 ** -52)
            compare_law(ctx, "binary.law", {"spec": spec}, laws["b"], {"b": 1 - pf, "a": pf}, extra_unc=4 * 2.0 ** -52)
    for cs in cases:
        if cs[0] == "gq":
            ctx.sample({"family": cs[1]["family"], "typed_spec": cs[1]})
            break


# ------------------------------------------------------------------------------------------------------------------
# CROSS-INSTANCE stratum: sequences of 2–4 instances built in ONE process whose arguments differ in exactly one field at
# a time (or not at all: twins), in both orders.  The model is per-instance by construction, so every instance's
# extracted law must be the model's law for ITS OWN arguments (a class-level memo / module cache keyed too coarsely makes
# a later instance run with an earlier one's tables), and the later instances must still satisfy the eps-ratio.
# ------------------------------------------------------------------------------------------------------------------
class ProxyRng(seams.ScriptedSystemRandom):
    """random source of a PRE-BUILT mechanism during symbolic enumeration: forwards to the engine of the current path"""

    def __init__(self):
        super().__init__()
        self.engine = None

    def random(self):
        return self.engine.random()


def cross_violation(ctx, family, seq, idx, x, xp, o, p, q, eps, extra=None):
    ctx.violation(f"C01:{family}:cross-instance-state",
                  f"{family} instance #{idx + 1} of a sequence of {len(seq)} built in one process ({seq[idx].get('_changed', 'base')} "
                  f"changed w.r.t. its predecessor): P[{o}|{x}]={p!r} > e^{eps!r} * P[{o}|{xp}]={q!r} "
                  f"(ratio {p / q if q else INF:.6g} vs bound {exp_eps(eps):.6g})",
                  {"family": family, "mode": "cross", "sequence": seq, "target": idx, "x": x, "xp": xp, "atom": o, "p": p, "q": q,
                   "eps": eps, **(extra or {})})


def cross_ratio(ctx, family, seq, idx, x, xp, la, lb, eps, extra=None):
    bound = exp_eps(eps)
    for a, b, xa, xb in ((la, lb, x, xp), (lb, la, xp, x)):
        for o in a.atoms():
            p, q = a.p(o), b.p(o)
            if p - a.unc(o) > bound * (q + b.unc(o)) * (1 + SLACK):
                cross_violation(ctx, family, seq, idx, xa, xb, o, p, q, eps, extra)
                return False
    return True


def cross_sequence(r, base, ops):
    """base, then 1–3 steps each changing exactly one field (op(r, prev) -> (field name, new args)); sometimes back to
    the first arguments at the end (A, B, A); in either order"""
    seq = [dict(base, _changed="base")]
    for _ in range(r.randint(1, 3)):
        name, nxt = r.choice(ops)(r, {k: v for k, v in seq[-1].items() if k != "_changed"})
        seq.append(dict(nxt, _changed=name))
    if len(seq) < 4 and r.chance(0.3):
        seq.append(dict({k: v for k, v in seq[0].items() if k != "_changed"}, _changed="back to the first arguments"))
    if r.chance(0.5):
        seq = list(reversed(seq))
    # label every instance by the field(s) in which it differs from the one built just before it
    for i, a in enumerate(seq):
        if i == 0:
            a["_changed"] = "first instance"
        else:
            diff = [k for k in a if k != "_changed" and a[k] != seq[i - 1].get(k)]
            a["_changed"] = ", ".join(diff) if diff else "nothing (identical twin)"
    return seq


# ---- Exponential / PermuteAndFlip
def _op_mono(r, a):
    return "monotonic", dict(a, monotonic=not a["monotonic"])


def _op_measure(r, a):
    n = len(a["perm"])
    if a["measure"] is None:
        return "measure", dict(a, measure=[r.choice([1.0, 2.0, 0.5, 3.0]) for _ in range(n)])
    if r.chance(0.3):
        return "measure", dict(a, measure=None)
    ms = list(a["measure"])
    i = r.next() % n
    ms[i] = ms[i] * r.choice([2.0, 0.5, 3.0])
    return "measure", dict(a, measure=ms)


def _op_cands(r, a):
    return "candidates", dict(a, labels=not a["labels"])


def _op_sens(r, a):
    return "sensitivity", dict(a, sensitivity=a["sensitivity"] * r.choice([2.0, 2.0, 0.5, 3.0]))


def _op_eps(r, a):
    return "epsilon", dict(a, epsilon=a["epsilon"] * r.choice([2.0, 0.5, 1.5, 1.0 + 2.0 ** -30]))


def _op_twin(r, a):
    return "nothing (identical twin)", dict(a)


def _op_order(r, a):
    perm = list(a["perm"])
    r.shuffle(perm)
    return "utility order", dict(a, perm=perm)


def cross_exp_build(a, util, paf):
    ut = [util[i] for i in a["perm"]]
    ms = [a["measure"][i] for i in a["perm"]] if a.get("measure") else None
    cands = [f"c{i}" for i in range(len(ut))] if a["labels"] else None
    kw = dict(epsilon=a["epsilon"], sensitivity=a["sensitivity"], utility=list(ut), monotonic=a["monotonic"], candidates=cands)
    if paf:
        prx = ProxyRng()
        return M.PermuteAndFlip(random_state=prx, **kw), prx, ut, ms, cands
    sc = Scripted(lambda rng: M.Exponential(measure=list(ms) if ms else None, random_state=rng, **kw))
    return sc, None, ut, ms, cands


def cross_exp_law(inst, prx, cands, paf):
    conv = (lambda o: int(o[1:]) if cands and isinstance(o, str) and not o.startswith("ERR") else o)
    if not paf:
        return exp_law(inst, cands)[0]

    def run(eng):
        prx.engine = eng
        try:
            return conv(canon(inst.randomise()))
        except Pruned:
            raise
        except Exception as e:  # noqa
            return "ERR:" + type(e).__name__
    with coin_interposed():
        return enumerate_law(run, 1e-14, 400000)[0]


def cross_exp_case(ctx, r, lines, cases, paf):
    fam = "PermuteAndFlip" if paf else "Exponential"
    n = r.randint(2, 4 if paf else 5)
    sens = r.choice([1.0, 1.0, 2.0, 0.5])
    base = {"epsilon": r.choice([1.5, 1.0, 0.5, 2.0, r.loguniform(0.05, 3.0)]), "sensitivity": sens, "monotonic": r.chance(0.5),
            "measure": None if paf or r.chance(0.5) else [r.choice([1.0, 2.0, 0.5]) for _ in range(n)],
            "labels": r.chance(0.3), "perm": list(range(n))}
    ops = [_op_mono, _op_mono, _op_cands, _op_sens, _op_eps, _op_twin, _op_order] + ([] if paf else [_op_measure, _op_measure])
    seq = cross_sequence(r, base, ops)
    u = [r.randint(-3, 3) * sens for _ in range(n)]
    # neighbour at exactly the base sensitivity: the tight non-monotone pattern, or only increasing (valid for monotonic)
    o = r.next() % n
    if r.chance(0.6):
        up = [a + sens for a in u]
        up[o] = u[o] - sens
    else:
        up = [a + (sens if r.chance(0.6) else 0.0) for a in u]
    built = {}
    try:
        for tag, util in (("utility", u), ("utility_p", up)):
            built[tag] = [cross_exp_build(a, util, paf) for a in seq]          # all instances first, in sequence order
        laws = {tag: [cross_exp_law(b[0], b[1], b[4], paf) for b in built[tag]] for tag in built}
    except (ValueError, TypeError, ZeroDivisionError, FloatingPointError) as e:
        ctx.count("cross_constructor_refused:" + type(e).__name__)
        ctx.case(None)
        return
    for i, a in enumerate(seq):
        ui, upi = built["utility"][i][2], built["utility_p"][i][2]
        if within(ui, upi, a["sensitivity"], a["monotonic"]) or within(upi, ui, a["sensitivity"], a["monotonic"]):
            if not cross_ratio(ctx, fam, seq, i, ui, upi, laws["utility"][i], laws["utility_p"][i], a["epsilon"],
                               {"utility": u, "utility_p": up}):
                break
    ctx.case(("cross-" + fam, repr(seq), tuple(u), tuple(up)))
    ctx.count("cross_instances", 2 * len(seq))
    for tag in ("utility", "utility_p"):
        for i, a in enumerate(seq):
            _, _, ut, ms, _ = built[tag][i]
            c = {"epsilon": a["epsilon"], "sensitivity": a["sensitivity"], "monotonic": a["monotonic"], "measure": ms}
            lines.append(exp_line("paflaw" if paf else "exp", c, ut))
            cases.append(("elaw", fam, seq, i, tag, laws[tag][i], paf))


# ---- Binary / Geometric family / categorical
def cross_simple_case(ctx, r, lines, cases, fam):
    if fam == "Binary":
        base = {"epsilon": r.choice([1.0, 0.5, 2.0, r.loguniform(0.05, 5.0)]), "value0": "a", "value1": "b"}
        ops = [_op_eps, _op_twin, lambda r, a: ("labels swapped", dict(a, value0=a["value1"], value1=a["value0"]))]
        seq = cross_sequence(r, base, ops)
        insts = [Scripted(lambda rng, a=a: M.Binary(epsilon=a["epsilon"], value0=a["value0"], value1=a["value1"], random_state=rng))
                 for a in seq]
        for i, (a, sc) in enumerate(zip(seq, insts)):
            laws = {v: binary_law(sc, v)[0] for v in ("a", "b")}
            cross_ratio(ctx, fam, seq, i, "a", "b", laws["a"], laws["b"], a["epsilon"])
            lines.append(f"binarylaw {fl(a['epsilon'])}")
            cases.append(("blaw", fam, seq, i, laws))
        ctx.case(("cross-binary", repr(seq)))
        ctx.count("cross_instances", len(seq))
        return
    if fam == "geom":
        v = r.choice(["p", "t", "t", "f"])
        sens = r.choice([1, 1, 2, 3])
        x = r.randint(-20, 20)
        base = {"variant": v, "epsilon": r.choice([1.0, 0.5, 2.0, r.uniform(0.4, 3.0)]) * sens, "sensitivity": sens,
                "lower": None if v == "p" else x - r.randint(0, 6), "upper": None if v == "p" else x + r.randint(1, 6)}
        ops = [_op_eps, _op_twin, lambda r, a: ("sensitivity", dict(a, sensitivity=a["sensitivity"] + r.choice([1, 2])))]
        if v != "p":
            ops += [lambda r, a: ("lower", dict(a, lower=a["lower"] - r.choice([1, 2, 5]) - (0.5 if a["variant"] == "f" and r.chance(0.3) and a["lower"] == int(a["lower"]) else 0))),
                    lambda r, a: ("upper", dict(a, upper=a["upper"] + r.choice([1, 2, 5])))] * 2
        seq = cross_sequence(r, base, ops)
        xp = x + r.choice([-1, 1]) * r.choice([sens, 1])
        insts = [Scripted(build_geom(a["variant"], a["epsilon"], a["sensitivity"], a["lower"], a["upper"])) for a in seq]
        for i, (a, sc) in enumerate(zip(seq, insts)):
            s_ = a["epsilon"] / a["sensitivity"]
            laws = {val_: geom_full_law(sc, a["variant"], val_, s_)[0] for val_ in {x, xp}}
            if any(isinstance(o, str) for l in laws.values() for o in l.mass):
                ctx.count("geom_error_outcome_skipped")
                continue
            if abs(x - xp) <= a["sensitivity"]:
                cross_ratio(ctx, GEOM_NAME[a["variant"]], seq, i, x, xp, laws[x], laws[xp], a["epsilon"])
            c = dict({k: a[k] for k in ("variant", "epsilon", "sensitivity", "lower", "upper")}, x=x, xp=xp)
            K = min(6000, int(38.0 / s_) + 3)
            lines.append(geom_model_pmf_lines(c, K))
            cases.append(("pmf", c, K, laws))
            for val_ in sorted({x, xp}):
                pl = geom_post_line(c, [val_ + k for k in range(-K, K + 1)])
                if pl:
                    lines.append(pl)
                    cases.append(("post", c, val_, K))
        ctx.case(("cross-geom", repr(seq), x, xp))
        ctx.count("cross_instances", len(seq))
        return
    # ExponentialCategorical
    n = r.randint(2, 4)
    labels = r.sample(LABEL_POOL, n)
    ul = [[labels[i], labels[j], float(r.randint(0, 4)) * 0.5] for i in range(n) for j in range(i + 1, n)]
    if all(t[2] == 0 for t in ul):
        ul[0][2] = 1.0
    base = {"epsilon": r.choice([1.0, 0.5, 2.0, r.loguniform(0.05, 4.0)]), "utility_list": ul}

    def op_order(r, a):
        l2 = [list(t) for t in a["utility_list"]]
        r.shuffle(l2)
        return "utility list order", dict(a, utility_list=l2)

    def op_orient(r, a):
        l2 = [list(t) for t in a["utility_list"]]
        i = r.next() % len(l2)
        l2[i] = [l2[i][1], l2[i][0], l2[i][2]]
        return "orientation of one pair", dict(a, utility_list=l2)

    def op_repeat(r, a):
        l2 = [list(t) for t in a["utility_list"]]
        l2.append(list(l2[r.next() % len(l2)]))
        return "one pair repeated", dict(a, utility_list=l2)

    def op_value(r, a):
        l2 = [list(t) for t in a["utility_list"]]
        i = r.next() % len(l2)
        l2[i][2] = l2[i][2] + r.choice([0.5, 1.0, 2.0])
        return "one utility value", dict(a, utility_list=l2)
    seq = cross_sequence(r, base, [_op_eps, _op_twin, op_order, op_orient, op_repeat, op_value, op_value])
    try:
        insts = [Scripted(lambda rng, a=a: M.ExponentialCategorical(epsilon=a["epsilon"], utility_list=[list(t) for t in a["utility_list"]],
                                                                  random_state=rng)) for a in seq]
    except (ValueError, ZeroDivisionError) as e:
        ctx.count("cross_constructor_refused:" + type(e).__name__)
        return
    ranks = rank_of(labels)
    for i, (a, sc) in enumerate(zip(seq, insts)):
        laws = {}
        for x in labels:
            laws[x] = Law()
            laws[x].add_segs(extract_steps(lambda k, x=x: sc.at(k, x), 0, GRID - 1))
        ok = True
        for x in labels:
            for xp in labels:
                if ok and x != xp:
                    ok = cross_ratio(ctx, "ExponentialCategorical", seq, i, x, xp, laws[x], laws[xp], a["epsilon"])
        triples = [(ranks[p], ranks[q], float(v)) for p, q, v in a["utility_list"]]
        lines.append(cat_line("catlaw", a["epsilon"], triples))
        cases.append(("claw", "ExponentialCategorical", seq, i, ranks, laws))
    ctx.case(("cross-cat", repr(seq)))
    ctx.count("cross_instances", len(seq))


def check_cross(ctx, r, n):
    lines, cases = [], []
    for _ in range(n):
        if over_time(ctx, 1.0):
            break
        m = r.u01()
        if m < 0.45:
            cross_exp_case(ctx, r, lines, cases, paf=False)
        elif m < 0.6:
            cross_exp_case(ctx, r, lines, cases, paf=True)
        elif m < 0.65:
            cross_simple_case(ctx, r, lines, cases, "Binary")
        elif m < 0.8:
            cross_simple_case(ctx, r, lines, cases, "geom")
        else:
            cross_simple_case(ctx, r, lines, cases, "cat")
    _cross_compare(ctx, lines, cases)


def _cross_compare(ctx, lines, cases, prefix="cross-instance"):
    """model laws (Discrete driver) vs the extracted laws collected by the cross-instance / life-cycle strata"""
    outs = leanio.run_driver("Discrete", lines) if lines else []
    geom_cases, geom_outs = [], []
    for cs, out in zip(cases, outs):
        kind = cs[0]
        if kind in ("pmf", "post"):
            geom_cases.append(cs)
            geom_outs.append(out)
            continue
        _, fam, seq, i = cs[:4]
        where = {"sequence": seq, "instance": i, "changed": seq[i].get("_changed")}
        if not out.startswith("ok"):
            ctx.disagree(prefix + "." + fam + ".driver", where, out, None)
            continue
        if kind == "elaw":
            _, _, _, _, tag, law, paf = cs
            parts = out.split(" | ")
            pmf = [b2f(int(z)) for z in (parts[0].split()[1:] if paf else parts[1].split())]
            if any(q != q for q in pmf):
                ctx.count("exp_nan_law_skipped")
                continue
            compare_law(ctx, prefix + "." + fam + ".law", {**where, "which": tag}, law, {j: q for j, q in enumerate(pmf)},
                        extra_unc=(len(pmf) + 2) * 2.0 ** -52 + law.cut)
        elif kind == "blaw":
            laws = cs[4]
            pf = b2f(int(out.split()[1]))
            compare_law(ctx, prefix + ".Binary.law", where, laws["a"], {"a": 1 - pf, "b": pf}, extra_unc=4 * 2.0 ** -52)
            compare_law(ctx, prefix + ".Binary.law", where, laws["b"], {"b": 1 - pf, "a": pf}, extra_unc=4 * 2.0 ** -52)
        elif kind == "claw":
            ranks, laws = cs[4], cs[5]
            parts = out.split(" | ")
            head = parts[0].split()
            nn = int(head[3])
            dom = [int(z) for z in head[4:4 + nn]]
            rows = [b2f(int(z)) for z in parts[2].split()]
            inv = {v: k for k, v in ranks.items()}
            for ii, d in enumerate(dom):
                model = {inv[t]: rows[ii * nn + j] for j, t in enumerate(dom)}
                compare_law(ctx, prefix + ".ExponentialCategorical.law", {**where, "value": inv[d]}, laws[inv[d]], model,
                            extra_unc=(nn + 2) * 2.0 ** -52)
    if geom_cases:
        _geom_compare(ctx, geom_cases, geom_outs)


# ------------------------------------------------------------------------------------------------------------------
# LIFE-CYCLE stratum: ONE object: construct -> (optionally randomise) -> (optionally copy()) -> assign epsilon -> the law of
# the sampler that runs NOW is extracted and must (a) satisfy the ratio for the CURRENT epsilon attribute (`_check_all`
# validates the live attribute on every call, so that is the parameter in force) and (b) be the model's law for the current
# parameters.  Binary reads epsilon at call time: every assignment is covered.  The Geometric family (_scale), Exponential /
# PermuteAndFlip (_probabilities) and ExponentialCategorical (_normalising_constant) compute their calibration in __init__
# and keep it after an assignment in the tree as it is (reported, not a known-findings entry): for them the stratum covers
# the sequences that do not depend on a re-calibration — re-assigning the SAME epsilon (law + ratio) and, except for the
# categorical mechanism (stale normalisers with live weights), RAISING epsilon (ratio only: the construction-time
# calibration is then stricter than required).
# ------------------------------------------------------------------------------------------------------------------
LIVE_FAMILIES = ["Binary", "geom", "Exponential", "PermuteAndFlip", "ExponentialCategorical"]


def adopt(sc, mech):
    """a Scripted view of another object (a copy()) that draws from the same scripted generator"""
    v = Scripted.__new__(Scripted)
    v.rng, v.mech, v.evals = sc.rng, mech, 0
    return v


def live_describe(fam, lc):
    name = GEOM_NAME[lc["ctor"]["variant"]] if fam == "geom" else fam
    ctor = {k: v for k, v in lc["ctor"].items() if k not in ("variant", "perm", "labels")}
    steps = [f"m = {name}({', '.join(f'{k}={v!r}' for k, v in ctor.items() if v is not None)})"]
    if lc["warm"]:
        steps.append(f"m.randomise(...) x{lc['warm']}")
    if lc["copy"]:
        steps.append("q = m.copy()")
    steps.append(f"{'q' if lc['copy'] else 'm'}.epsilon = {lc['epsilon']!r}")
    return "; ".join(steps)


def live_take(sc_or_mech, lc, warm_args, paf=False):
    """run the life-cycle on a constructed object; returns (the object whose sampler is measured, the template or None)"""
    mech = sc_or_mech if paf else sc_or_mech.mech
    if not paf:
        for j in range(lc["warm"]):
            sc_or_mech.at_u(lc["warm_u"][j], *warm_args)
    tgt = mech.copy() if lc["copy"] else mech
    tgt.epsilon = lc["epsilon"]
    if paf:
        return tgt, (mech if lc["copy"] else None)
    return (adopt(sc_or_mech, tgt) if lc["copy"] else sc_or_mech), (sc_or_mech if lc["copy"] else None)


def live_laws(fam, lc, x, xp, extra=None):
    """{'x': law, 'xp': law, 'tx': law of the template for x (after copy) or None} of the object taken through lc"""
    c = lc["ctor"]
    if fam == "Binary":
        sc = Scripted(lambda rng: M.Binary(epsilon=c["epsilon"], value0=c["value0"], value1=c["value1"], random_state=rng))
        cur, tpl = live_take(sc, lc, (c["value0"],))
        return {"x": binary_law(cur, x)[0], "xp": binary_law(cur, xp)[0], "tx": binary_law(tpl, x)[0] if tpl else None,
                "txp": binary_law(tpl, xp)[0] if tpl else None}
    if fam == "geom":
        sc = Scripted(build_geom(c["variant"], c["epsilon"], c["sensitivity"], c["lower"], c["upper"]))
        cur, tpl = live_take(sc, lc, (x,))
        s_ = min(c["epsilon"], lc["epsilon"]) / c["sensitivity"]
        return {"x": geom_full_law(cur, c["variant"], x, s_, eta_div=8.0)[0], "xp": geom_full_law(cur, c["variant"], xp, s_, eta_div=8.0)[0],
                "tx": None}
    if fam in ("Exponential", "PermuteAndFlip"):
        paf = fam == "PermuteAndFlip"
        out = {"tx": None}
        for tag, util in (("x", x), ("xp", xp)):
            inst, prx, _, _, cands = cross_exp_build(c, util, paf)
            cur, _ = live_take(inst, lc, (), paf=paf)
            out[tag] = cross_exp_law(cur, prx, cands, paf)
        return out
    sc = Scripted(lambda rng: M.ExponentialCategorical(epsilon=c["epsilon"], utility_list=[list(t) for t in c["utility_list"]],
                                                       random_state=rng))
    cur, _ = live_take(sc, lc, (x,))
    out = {"tx": None, "all": {}}
    for v in sorted({t[0] for t in c["utility_list"]} | {t[1] for t in c["utility_list"]}):
        out["all"][v] = Law()
        out["all"][v].add_segs(extract_steps(lambda k, v=v: cur.at(k, v), 0, GRID - 1))
    out["x"], out["xp"] = out["all"][x], out["all"][xp]
    return out


def live_ratio(ctx, fam, lc, x, xp, la, lb, extra=None):
    eps = lc["epsilon"]
    bound = exp_eps(eps)
    name = GEOM_NAME[lc["ctor"]["variant"]] if fam == "geom" else fam
    for a, b, xa, xb in ((la, lb, x, xp), (lb, la, xp, x)):
        for o in a.atoms():
            p, q = a.p(o), b.p(o)
            if p - a.unc(o) > bound * (q + b.unc(o)) * (1 + SLACK):
                ctx.violation(f"C01:{name}:stale-after-assignment",
                              f"{live_describe(fam, lc)}: the sampler that runs now has P[{o}|{xa}]={p!r} > e^{eps!r} * "
                              f"P[{o}|{xb}]={q!r} (ratio {p / q if q else INF:.6g} vs bound {bound:.6g} for the current epsilon)",
                              {"family": name, "mode": "live", "fam": fam, "life_cycle": lc, "x": xa, "xp": xb, "atom": o, "p": p, "q": q,
                               "eps": eps, **(extra or {})})
                return False
    return True


def gen_live_steps(r, eps1, every_assignment):
    """(warm-up calls, copy?, assigned epsilon).  every_assignment: the class reads epsilon at call time"""
    if every_assignment:
        eps2 = r.choice([eps1 * r.choice([0.5, 0.25, 1.0 / 6, 0.1, 2.0, 4.0, 1.5]), r.choice([0.5, 0.1, 1.0, 3.0]), r.loguniform(0.02, 6.0), eps1])
    else:
        eps2 = r.choice([eps1, eps1, eps1 * r.choice([2.0, 4.0, 1.5, 1.0 + 2.0 ** -20])])
    warm = r.choice([0, 1, 1, 2])
    return {"warm": warm, "warm_u": [r.u01() for _ in range(warm)], "copy": r.chance(0.5), "epsilon": float(eps2)}


def live_case(ctx, r, lines, cases, fam):
    e0 = r.choice([3.0, 2.0, 1.0, 0.5, r.loguniform(0.05, 5.0)])
    if fam == "Binary":
        ctor = {"epsilon": e0, "value0": "a", "value1": "b"}
        x, xp = "a", "b"
    elif fam == "geom":
        v = r.choice(["p", "t", "t", "f"])
        sens = r.choice([1, 1, 2, 3])
        x = r.randint(-20, 20)
        ctor = {"variant": v, "epsilon": max(e0, 0.3) * sens, "sensitivity": sens,
                "lower": None if v == "p" else x - r.randint(0, 6), "upper": None if v == "p" else x + r.randint(1, 6)}
        xp = x + r.choice([-1, 1]) * r.choice([sens, 1])
    elif fam in ("Exponential", "PermuteAndFlip"):
        paf = fam == "PermuteAndFlip"
        n = r.randint(2, 3 if paf else 5)
        sens = r.choice([1.0, 1.0, 2.0, 0.5])
        ctor = {"epsilon": e0, "sensitivity": sens, "monotonic": r.chance(0.5),
                "measure": None if paf or r.chance(0.5) else [r.choice([1.0, 2.0, 0.5]) for _ in range(n)],
                "labels": r.chance(0.3), "perm": list(range(n))}
        x = [r.randint(-3, 3) * sens for _ in range(n)]
        o = r.next() % n
        if r.chance(0.6) and not ctor["monotonic"]:
            xp = [a + sens for a in x]
            xp[o] = x[o] - sens
        else:
            xp = [a + (sens if r.chance(0.6) else 0.0) for a in x]
        if not within(x, xp, sens, ctor["monotonic"]):
            ctx.case(None)
            return
    else:
        n = r.randint(2, 4)
        labels = r.sample(LABEL_POOL, n)
        ul = [[labels[i], labels[j], float(r.randint(0, 4)) * 0.5] for i in range(n) for j in range(i + 1, n)]
        if all(t[2] == 0 for t in ul):
            ul[0][2] = 1.0
        ctor = {"epsilon": e0, "utility_list": ul}
        x, xp = labels[0], labels[1]
    lc = dict(gen_live_steps(r, ctor["epsilon"], fam == "Binary"), ctor=ctor)
    if fam == "ExponentialCategorical":
        lc["epsilon"] = float(ctor["epsilon"])
    if fam == "PermuteAndFlip":
        lc["warm"], lc["warm_u"] = 0, []
    same = lc["epsilon"] == ctor["epsilon"]
    try:
        laws = live_laws(fam, lc, x, xp)
    except (ValueError, TypeError, ZeroDivisionError, FloatingPointError) as e:
        ctx.count("live_constructor_refused:" + type(e).__name__)
        ctx.case(None)
        return
    name = GEOM_NAME[ctor["variant"]] if fam == "geom" else fam
    if any(isinstance(o, str) and o.startswith("ERR") for l in (laws["x"], laws["xp"]) for o in l.mass):
        ctx.count("live_error_outcome_skipped")
        ctx.case(None)
        return
    live_ratio(ctx, fam, lc, x, xp, laws["x"], laws["xp"])
    ctx.case(("live-" + name, repr(lc), repr(x), repr(xp)) if nontrivial(laws["x"], laws["xp"]) else None)
    ctx.count("live_objects")
    # (b) the model's law for the CURRENT parameters (and, after copy(), for the template's own)
    seq = [dict({k: v for k, v in ctor.items()}, epsilon=lc["epsilon"], _changed="life-cycle: " + live_describe(fam, lc))]
    if fam == "Binary":
        lines.append(f"binarylaw {fl(lc['epsilon'])}")
        cases.append(("blaw", fam, seq, 0, {"a": laws["x"], "b": laws["xp"]}))
        if laws["tx"] is not None:
            tseq = [dict(ctor, _changed="template of: " + live_describe(fam, lc))]
            lines.append(f"binarylaw {fl(ctor['epsilon'])}")
            cases.append(("blaw", fam, tseq, 0, {"a": laws["tx"], "b": laws["txp"]}))
        return
    if not same:
        return                       # calibration of construction time kept by the tree as it is: ratio only
    if fam == "geom":
        c = dict({k: ctor[k] for k in ("variant", "epsilon", "sensitivity", "lower", "upper")}, x=x, xp=xp)
        s_ = ctor["epsilon"] / ctor["sensitivity"]
        K = min(6000, int(38.0 / s_) + 3)
        lines.append(geom_model_pmf_lines(c, K))
        cases.append(("pmf", c, K, {x: laws["x"], xp: laws["xp"]}))
        for val_ in sorted({x, xp}):
            pl = geom_post_line(c, [val_ + k for k in range(-K, K + 1)])
            if pl:
                lines.append(pl)
                cases.append(("post", c, val_, K))
    elif fam in ("Exponential", "PermuteAndFlip"):
        paf = fam == "PermuteAndFlip"
        for tag, util in (("x", x), ("xp", xp)):
            c = {"epsilon": ctor["epsilon"], "sensitivity": ctor["sensitivity"], "monotonic": ctor["monotonic"], "measure": ctor["measure"]}
            lines.append(exp_line("paflaw" if paf else "exp", c, util))
            cases.append(("elaw", fam, seq, 0, tag, laws[tag], paf))
    else:
        ranks = rank_of(sorted({t[0] for t in ctor["utility_list"]} | {t[1] for t in ctor["utility_list"]}))
        triples = [(ranks[p], ranks[q], float(v)) for p, q, v in ctor["utility_list"]]
        lines.append(cat_line("catlaw", ctor["epsilon"], triples))
        cases.append(("claw", fam, seq, 0, ranks, laws["all"]))


def check_lifecycle(ctx, r, n):
    lines, cases = [], []
    for i in range(n):
        if i >= 12 and over_time(ctx, 1.0):
            break
        m = r.u01()
        fam = "Binary" if m < 0.5 else "geom" if m < 0.65 else "Exponential" if m < 0.8 else "PermuteAndFlip" if m < 0.85 \
            else "ExponentialCategorical"
        live_case(ctx, r, lines, cases, fam)
    _cross_compare(ctx, lines, cases, prefix="life-cycle")


def generate(ctx):
    """translator tie: the closed-form pieces of Binary / Geometric / Exponential / PermuteAndFlip / ExponentialCategorical
    are re-read from /repo's AST on every run, translated to Lean terms over ℝ and proved equal to the model's; the generated
    file then proves that the model's samplers ARE the composition of the generated pieces
    (harness/anchor_specs_c01.py, harness/anchors.py)"""
    from .. import anchors, anchor_specs_c01 as S
    from ..shim import REPO
    r = anchors.build(REPO, "C01", ["DPL.Model.Discrete"], S.specs(), opens="DPL.Discrete", postlude=getattr(S, "POST", ""))
    ctx.count("formula_anchors", r["obligations"])
    if r["errors"]:
        r["unavailable"] = r["errors"]      # anchors that could not be located / translated (not failed obligations)
    return r


def check(ctx):
    over_time(ctx)            # starts the soft-deadline clock at the beginning of the correspondence
    check_binary(ctx, ctx.fork("binary"), ctx.budget(60, 300))
    check_lifecycle(ctx, ctx.fork("life-cycle"), ctx.budget(60, 600))
    check_geometric(ctx, ctx.fork("geometric"), ctx.budget(95, 800))
    check_exponential(ctx, ctx.fork("exponential"), ctx.budget(400, 3000))
    check_exponential(ctx, ctx.fork("negative-measure"), ctx.budget(20, 200), negative=True)
    check_bernoulli(ctx, ctx.fork("bernoulli"), ctx.budget(60, 300))
    check_paf(ctx, ctx.fork("paf"), ctx.budget(100, 300))
    check_categorical(ctx, ctx.fork("categorical"), ctx.budget(260, 2500))
    check_hierarchical(ctx, ctx.fork("hierarchical"), ctx.budget(140, 1000))
    check_types(ctx, ctx.fork("types"), ctx.budget(170, 2500))
    check_cross(ctx, ctx.fork("cross-instance"), ctx.budget(60, 900))


# ------------------------------------------------------------------------------------------------------------------
# replay / witnesses
# ------------------------------------------------------------------------------------------------------------------
def _unj(x):
    from ..core import unjson_float
    if isinstance(x, list):
        return [_unj(y) for y in x]
    if isinstance(x, dict):
        return {k: _unj(v) for k, v in x.items()}
    return unjson_float(x)


def law_of(family, params, x):
    """exact law of the running implementation for one input (used by replay and the witnesses)"""
    p = params
    if family == "Binary":
        sc = Scripted(lambda rng: M.Binary(epsilon=p["epsilon"], value0=p["value0"], value1=p["value1"], random_state=rng))
        return binary_law(sc, x)[0]
    if family in ("Geometric", "GeometricTruncated", "GeometricFolded"):
        v = {"Geometric": "p", "GeometricTruncated": "t", "GeometricFolded": "f"}[family]
        sc = Scripted(build_geom(v, p["epsilon"], p["sensitivity"], p.get("lower"), p.get("upper")))
        s = p["epsilon"] / p["sensitivity"] if p["sensitivity"] > 0 else None
        return geom_full_law(sc, v, x, s, eta_div=16.0)[0]
    if family == "Exponential":
        c = dict(p)
        b, cands = build_exp(c, x)
        return exp_law(Scripted(b), cands)[0]
    if family == "PermuteAndFlip":
        with coin_interposed():
            return enumerate_law(paf_run(p, x), 1e-13, 2000000)[0]
    if family in ("ExponentialCategorical", "ExponentialHierarchical"):
        if family == "ExponentialCategorical":
            sc = Scripted(lambda rng: M.ExponentialCategorical(epsilon=p["epsilon"], utility_list=[list(t) for t in p["utility_list"]],
                                                               random_state=rng))
        else:
            sc = Scripted(lambda rng: M.ExponentialHierarchical(epsilon=p["epsilon"], hierarchy=p["hierarchy"], random_state=rng))
        law = Law()
        law.add_segs(extract_steps(lambda k: sc.at(k, x), 0, GRID - 1))
        return law
    raise ValueError(family)


def still_fails_typed(d):
    spec, x, xp, o, eps = d["spec"], d["x"], d["xp"], d["atom"], d["eps"]
    fam = spec["family"]
    if d.get("law_mode") == "atom":
        sc = Scripted(typed_build(spec, None))
        tx = {val(spec["x"]): mk(spec["x"]), val(spec["xp"]): mk(spec["xp"])}
        a, b = geom_atom_mass(sc, tx[x], o), geom_atom_mass(sc, tx[xp], o)
        return a >= MIN_MASS and a > exp_eps(eps) * (b + 6 * CELL + 2 * CUT_CELLS * CELL) * (1 + SLACK), a, b
    if fam in ("Exponential", "PermuteAndFlip"):
        uq = [float(val(z)) for z in spec["utility"]]
        ka, kb = ("utility", "utility_p") if list(x) == uq else ("utility_p", "utility")
        la, lb = typed_law(spec, ka), typed_law(spec, kb)
    elif fam in ("Geometric", "GeometricTruncated", "GeometricFolded"):
        sc = Scripted(typed_build(spec, None))
        tx = {val(spec["x"]): mk(spec["x"]), val(spec["xp"]): mk(spec["xp"])}
        s = float(val(spec["epsilon"])) / int(val(spec["sensitivity"]))
        v = typed_geom_mech(spec)[0]
        la, lb = geom_full_law(sc, v, tx[x], s, eta_div=16.0)[0], geom_full_law(sc, v, tx[xp], s, eta_div=16.0)[0]
    else:
        la, lb = typed_law(spec, x), typed_law(spec, xp)
    a, b = la.p(o), lb.p(o)
    return a >= MIN_MASS and a - la.unc(o) > exp_eps(eps) * (b + lb.unc(o)) * (1 + SLACK), a, b


def still_fails_cross(d):
    """rebuild the whole sequence in order (for both inputs) and re-extract the law of the target instance"""
    fam, seq, i, x, xp, o, eps = d["family"], d["sequence"], d["target"], d["x"], d["xp"], d["atom"], d["eps"]
    seq = [{k: v for k, v in a.items() if k != "_changed"} for a in seq]
    if fam in ("Exponential", "PermuteAndFlip"):
        paf = fam == "PermuteAndFlip"
        built = {tag: [cross_exp_build(a, d[tag], paf) for a in seq] for tag in ("utility", "utility_p")}
        ka, kb = ("utility", "utility_p") if list(built["utility"][i][2]) == list(x) else ("utility_p", "utility")
        la = cross_exp_law(built[ka][i][0], built[ka][i][1], built[ka][i][4], paf)
        lb = cross_exp_law(built[kb][i][0], built[kb][i][1], built[kb][i][4], paf)
    elif fam == "Binary":
        insts = [Scripted(lambda rng, a=a: M.Binary(epsilon=a["epsilon"], value0=a["value0"], value1=a["value1"], random_state=rng))
                 for a in seq]
        la, lb = binary_law(insts[i], x)[0], binary_law(insts[i], xp)[0]
    elif fam == "ExponentialCategorical":
        insts = [Scripted(lambda rng, a=a: M.ExponentialCategorical(epsilon=a["epsilon"], utility_list=[list(t) for t in a["utility_list"]],
                                                                  random_state=rng)) for a in seq]
        la, lb = Law(), Law()
        la.add_segs(extract_steps(lambda k: insts[i].at(k, x), 0, GRID - 1))
        lb.add_segs(extract_steps(lambda k: insts[i].at(k, xp), 0, GRID - 1))
    else:
        insts = [Scripted(build_geom(a["variant"], a["epsilon"], a["sensitivity"], a["lower"], a["upper"])) for a in seq]
        s_ = seq[i]["epsilon"] / seq[i]["sensitivity"]
        la = geom_full_law(insts[i], seq[i]["variant"], x, s_, eta_div=16.0)[0]
        lb = geom_full_law(insts[i], seq[i]["variant"], xp, s_, eta_div=16.0)[0]
    a, b = la.p(o), lb.p(o)
    return a >= MIN_MASS and a - la.unc(o) > exp_eps(eps) * (b + lb.unc(o)) * (1 + SLACK), a, b


def still_fails_live(d):
    """take a fresh object through the recorded life-cycle again and re-extract the two laws"""
    laws = live_laws(d["fam"], d["life_cycle"], d["x"], d["xp"])
    o = d["atom"]
    a, b = laws["x"].p(o), laws["xp"].p(o)
    return a >= MIN_MASS and a - laws["x"].unc(o) > exp_eps(d["eps"]) * (b + laws["xp"].unc(o)) * (1 + SLACK), a, b


def still_fails(d):
    if d.get("mode") == "typed":
        return still_fails_typed(d)
    if d.get("mode") == "live":
        return still_fails_live(d)
    if d.get("mode") == "cross":
        return still_fails_cross(d)
    fam, p, x, xp, o, eps = d["family"], d["params"], d["x"], d["xp"], d["atom"], d["eps"]
    if d.get("mode") == "atom":
        v = {"Geometric": "p", "GeometricTruncated": "t"}[fam]
        sc = Scripted(build_geom(v, p["epsilon"], p["sensitivity"], p.get("lower"), p.get("upper")))
        a, b = geom_atom_mass(sc, x, o), geom_atom_mass(sc, xp, o)
        return a >= MIN_MASS and a > exp_eps(eps) * (b + 6 * CELL + 2 * CUT_CELLS * CELL) * (1 + SLACK), a, b
    la, lb = law_of(fam, p, x), law_of(fam, p, xp)
    a, b = la.p(o), lb.p(o)
    return a >= MIN_MASS and a - la.unc(o) > exp_eps(eps) * (b + lb.unc(o)) * (1 + SLACK), a, b


def replay(ctx, data):
    d = _unj(data["data"])
    if d.get("mode") == "attribute":
        c = d["params"]
        good = dict(c, measure=[abs(m) for m in c["measure"]])
        mech = build_exp(good, c["utility"])[0](seams.ScriptedSystemRandom(uniforms=[0.5], cycle=True))
        mech.measure = list(c["measure"])
        try:
            mech.randomise()
            return True
        except ValueError:
            return False
    try:
        fails, a, b = still_fails(d)
    except ValueError as e:
        print(f"replay: the constructor now refuses this configuration ({e})")
        return False
    print(f"replay: P[{d['atom']}|x]={a!r}  P[{d['atom']}|x']={b!r}  e^eps={exp_eps(d['eps'])!r}")
    return bool(fails)


ISCLOSE_WITNESS = {
    "family": "ExponentialCategorical",
    "params": {"epsilon": 0.5, "utility_list": [["A", "B", 1.0], ["A", "C", 1.0], ["B", "C", 0.99988]]},
    "x": "A", "xp": "B", "atom": "A", "eps": 0.5,
}


def _wit_isclose(ctx):
    fails, a, b = still_fails(ISCLOSE_WITNESS)
    e = ISCLOSE_WITNESS["eps"]
    return bool(fails), (f"ExponentialCategorical(epsilon={e}, utility_list={ISCLOSE_WITNESS['params']['utility_list']}): normalisers "
                         f"differ by ~1e-5 relative, np.isclose declares the tree balanced and drops the factor 2: "
                         f"P['A'|'A']/P['A'|'B'] = {a / b if b else INF:.8g} > e^eps = {math.exp(e):.8g} (excess {a / b / math.exp(e) - 1 if b else INF:.2e} > 1e-6)")


NEGMEASURE_WITNESS = {
    "family": "Exponential",
    "params": {"epsilon": 1.0, "sensitivity": 1.0, "monotonic": False, "measure": [-1.0, 1.0, 1.0]},
    "x": [0.0, 1.0, 0.0], "xp": [0.0, 0.0, 0.0], "atom": 1, "eps": 1.0,
}


def _wit_negmeasure(ctx):
    try:
        fails, a, b = still_fails(NEGMEASURE_WITNESS)
    except ValueError:
        return False, "Exponential refuses negative measure entries (47698b4)"
    return bool(fails), ("Exponential(epsilon=1, sensitivity=1, measure=[-1, 1, 1]) accepts the negative measure entry; the "
                         f"cumulative probabilities are not monotone: utility [0,1,0] selects candidate 1 with probability {a:.6g}, "
                         f"the neighbouring utility [0,0,0] with probability {b:.3g} (ratio unbounded, e^eps = e)")


def _stale_witness(make, draw, what):
    """(still_fails, description): the same seeded draws from (a) a fresh instance with the CURRENT epsilon, (b) an instance
    constructed with another epsilon and then assigned the current one, (c) a fresh instance with the construction epsilon.
    Stale = (b) differs from (a) [and, where the whole calibration is cached, equals (c)]."""
    def run(eps0, eps1):
        m = make(eps0)
        if eps1 is not None:
            m.epsilon = eps1
        return [draw(m) for _ in range(64)]
    import warnings as _w
    with _w.catch_warnings():
        _w.simplefilter("ignore")
        a_, b_, c_ = run(0.5, None), run(3.0, 0.5), run(3.0, None)
    return (b_ != a_), what + (" (draws identical to an instance still at epsilon=3.0)" if b_ == c_ else "")


def _wit_stale_geometric(ctx):
    out = []
    for cls, kw in ((M.Geometric, {}), (M.GeometricTruncated, {"lower": -50, "upper": 50}), (M.GeometricFolded, {"lower": -50, "upper": 50})):
        f, d = _stale_witness(lambda e, cls=cls, kw=kw: cls(epsilon=e, sensitivity=1, random_state=7, **kw), lambda m: m.randomise(0),
                              cls.__name__)
        out.append((f, d))
    return any(f for f, _ in out), (
        "Geometric / GeometricTruncated / GeometricFolded compute `_scale = -epsilon/sensitivity` in __init__ and never again: "
        "g = Geometric(epsilon=3.0); g.epsilon = 0.5 leaves g._scale == -3.0, the sampler's ratio is e^3 although the mechanism "
        "reports epsilon 0.5 [" + "; ".join(d for f, d in out if f) + "]")


def _wit_stale_exponential(ctx):
    out = []
    for cls in (M.Exponential, M.PermuteAndFlip):
        f, d = _stale_witness(lambda e, cls=cls: cls(epsilon=e, sensitivity=1.0, utility=[0.0, 1.0, 2.0], random_state=7),
                              lambda m: m.randomise(), cls.__name__)
        out.append((f, d))
    return any(f for f, _ in out), (
        "Exponential / PermuteAndFlip compute `_probabilities` in __init__ and never again: Exponential(epsilon=3.0, sensitivity=1, "
        "utility=[0,1,2]) followed by mech.epsilon = 0.5 keeps cumulative probabilities [0.039, 0.214, 1] where a fresh "
        "instance has [0.254, 0.581, 1] [" + "; ".join(d for f, d in out if f) + "]")


def _wit_stale_categorical(ctx):
    ul = [["a", "b", 1], ["a", "c", 2], ["b", "c", 1]]
    f, d = _stale_witness(lambda e: M.ExponentialCategorical(epsilon=e, utility_list=ul, random_state=7),
                          lambda m: m.randomise("a"), "ExponentialCategorical")
    return f, ("ExponentialCategorical keeps `_normalising_constant` from __init__ while `_get_prob` reads the live epsilon: "
               "ExponentialCategorical(epsilon=3.0, utility_list=[a-b 1, a-c 2, b-c 1]) followed by mech.epsilon = 0.5 releases a law "
               "that is neither the epsilon=3 nor the epsilon=0.5 one (output 'c' has mass 0 from 'a' but 0.02 from 'c': "
               "unbounded ratio) [" + d + "]")


WITNESSES = {"C01:categorical:isclose-balanced": _wit_isclose, "C01:exponential:negative-measure": _wit_negmeasure,
             "C01:geometric-family:stale-scale-after-assignment": _wit_stale_geometric,
             "C01:exponential-family:stale-probabilities-after-assignment": _wit_stale_exponential,
             "C01:ExponentialCategorical:stale-normaliser-after-assignment": _wit_stale_categorical}
