"""./check <Cxx> [--tier quick|thorough] [--seed N]   |   ./check replay <file>"""
import argparse
import os
import sys


def main():
    if len(sys.argv) >= 2 and sys.argv[1] == "replay":
        from . import core
        sys.exit(core.run_replay(sys.argv[2]))
    ap = argparse.ArgumentParser()
    ap.add_argument("prop")
    ap.add_argument("--tier", default=os.environ.get("VERIF_TIER", "quick"), choices=["quick", "thorough"])
    ap.add_argument("--seed", type=int, default=int(os.environ.get("VERIF_SEED", "0") or 0))
    a = ap.parse_args()
    from . import core
    try:
        rc = core.run_property(a.prop.upper(), a.tier, a.seed)
    except SystemExit:
        raise
    except Exception:
        import traceback
        traceback.print_exc()
        print(f"INFRA-ERROR property={a.prop.upper()} (exit 2)")
        rc = 2
    sys.stdout.flush()
    sys.exit(rc)


if __name__ == "__main__":
    main()
