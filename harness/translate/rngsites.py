"""C14 translator: Python AST of every module under <repo>/diffprivlib -> table of RANDOMNESS SITES
(lean/DPL/Generated/C14Sites.lean), compared by Lean with the hand tables of lean/DPL/Model/RngSites.lean.

Extracted, per function body (intra-procedural, flow-sensitive on straight-line code, branch-aware for
`if <generator> is None`):

  (a) crsCalls     every `check_random_state(x[, secure])` call: file, Class.function, ORIGIN of x, secure
  (b) globalUses   every reference to / call of a global or seedable generator API: `np.random.*`, stdlib `random.*`,
                   `secrets.*`, sklearn's `check_random_state`, `os.urandom` (resolved through the module's imports)
  (c) draws        every method call on an object whose origin is a generator (`self._rng.random()`,
                   `random_state.randint(…)`, `mech._rng.random()`): origin of the receiver + method name
  (d) passes       every call argument (keyword or positional) whose origin is a generator / seed, and every
                   `random_state=` / `seed=` / `rng=` keyword: callee, callee kind (library / super().__init__ /
                   external), origin of what is passed
  (e) attrAssigns  every assignment of a generator / seed to an attribute (`self._rng = …`)

ORIGIN language (RngSites.Org): none | intConst | param n | selfAttr n | crs o secure | defaultRng | systemRandom |
genFrom api o | mechRng o | drawn o meth | ifSeeded c t | join a b.

What this translator TRUSTS / cannot see (stated in harness/props/c14.py TRUSTED): dataflow is intra-procedural;
generator objects are recognised by where they come from (the forms above) and parameters / attributes by NAME
(`random_state`, `_rng`, `rng`, `seed`, …); `*args` / `**kwargs` forwarding, `getattr`/`setattr` with computed names,
`exec`, monkey-patching are invisible.  It REFUSES (TranslatorError -> the static tie is reported unavailable, the
behavioural correspondence runs at 10x) whenever a generator-valued expression is used in a way it does not
understand: stored in a container, returned, captured by a nested function / lambda, unpacked, a draw-like method
called on an object of unknown origin, a `random_state=` keyword given a value of unknown origin, star-imports of
numpy.random / random, a non-literal `secure=` flag.
"""
import ast
import os


class TranslatorError(Exception):
    pass


RNG_NAMES = {"random_state", "_rng", "rng", "seed", "_random_state", "random_state_", "_seed", "generator", "prng"}
RNG_KW = {"random_state", "seed", "rng"}
# methods that draw from a generator (numpy RandomState / Generator, random.Random): a call of one of these on an
# object of UNKNOWN origin is refused (receivers that are plainly not generators are excluded below)
GEN_METHODS = {"random", "rand", "randn", "randint", "integers", "random_sample", "ranf", "sample", "uniform", "normal",
               "standard_normal", "gamma", "standard_gamma", "exponential", "standard_exponential", "laplace",
               "geometric", "binomial", "poisson", "beta", "choice", "choices", "shuffle", "permutation", "permuted",
               "bytes", "randbytes", "getrandbits", "randrange", "normalvariate", "gammavariate", "gauss",
               "expovariate", "betavariate", "triangular", "multivariate_normal", "dirichlet", "logistic", "seed",
               "standard_cauchy", "vonmises", "weibull", "rayleigh", "lognormal", "chisquare", "standard_t"}
GLOBAL_PREFIXES = ("numpy.random", "random.", "secrets.", "os.urandom", "sklearn.utils.check_random_state",
                   "sklearn.utils.validation.check_random_state", "scipy.stats", "numpy.random.")
GEN_CTORS = {"numpy.random.default_rng", "numpy.random.RandomState", "numpy.random.Generator",
             "numpy.random.PCG64", "numpy.random.MT19937", "random.Random"}
SYSRANDOM = {"secrets.SystemRandom", "random.SystemRandom"}
CRS = "diffprivlib.utils.check_random_state"
GENERATORISH = {"param", "selfAttr", "crs", "defaultRng", "systemRandom", "genFrom", "mechRng"}


def is_generatorish(o):
    if o is None:
        return False
    if o[0] in GENERATORISH:
        return True
    if o[0] == "ifSeeded":
        return is_generatorish(o[2])
    if o[0] == "join":
        return is_generatorish(o[1]) or is_generatorish(o[2])
    return False


def _dotted(node):
    if isinstance(node, ast.Name):
        return node.id
    if isinstance(node, ast.Attribute):
        b = _dotted(node.value)
        return None if b is None else b + "." + node.attr
    return None


class _Module:
    """one source file: import aliases, names defined at top level / in classes"""

    def __init__(self, rel, tree, libdefs, mechs):
        self.rel = rel
        self.tree = tree
        self.libdefs = libdefs
        self.mechs = mechs
        self.alias = {}
        self.methods = set()
        self.localdefs = set()
        for n in ast.walk(tree):
            if isinstance(n, ast.Import):
                for a in n.names:
                    if a.asname:
                        self.alias[a.asname] = a.name
                    else:
                        self.alias[a.name.split(".")[0]] = a.name.split(".")[0]
            elif isinstance(n, ast.ImportFrom):
                mod = n.module or ""
                if n.level:
                    mod = "diffprivlib." + mod if mod else "diffprivlib"   # relative import inside the package
                for a in n.names:
                    if a.name == "*":
                        if mod.split(".")[0] in ("random", "secrets") or mod.startswith("numpy"):
                            raise TranslatorError(f"{rel}: star import from {mod}")
                        continue
                    self.alias[a.asname or a.name] = mod + "." + a.name
            elif isinstance(n, ast.ClassDef):
                for m in n.body:
                    if isinstance(m, (ast.FunctionDef, ast.AsyncFunctionDef)):
                        self.methods.add(m.name)
        for n in tree.body:
            if isinstance(n, (ast.FunctionDef, ast.ClassDef, ast.AsyncFunctionDef)):
                self.localdefs.add(n.name)
        if rel == "utils.py":
            self.alias["check_random_state"] = CRS

    def canon(self, node, shadow):
        """canonical dotted name of a Name/Attribute chain, through the import aliases; None if it starts at a local"""
        d = _dotted(node)
        if d is None:
            return None
        head, _, rest = d.partition(".")
        if head in shadow:
            return None
        if head in self.alias:
            full = self.alias[head] + ("." + rest if rest else "")
        else:
            return None
        if full.startswith("np."):
            full = "numpy." + full[3:]
        # diffprivlib re-exports: every path that ends in check_random_state inside the package is THE helper
        if full.startswith("diffprivlib.") and full.endswith(".check_random_state"):
            return CRS
        return full


class _Fn:
    def __init__(self, mod, qual, params, out):
        self.mod = mod
        self.qual = qual
        self.params = params
        self.out = out
        self.env = {}
        self.mechs = {}          # local name -> origin of the random_state its mechanism was constructed with
        self.assigned = set(params)
        self.guards = []
        self.consumed_global = set()
        self.callables = {}      # local name -> "lib": bound to a library function / class (or a choice between two)

    # ------------------------------------------------------------------ helpers
    def err(self, node, what):
        raise TranslatorError(f"{self.mod.rel}:{getattr(node, 'lineno', '?')} in {self.qual}: {what}")

    def guard(self, o):
        for g in reversed(self.guards):
            o = ("ifSeeded", g, o)
        return o

    def site(self, table, *fields):
        self.out[table].append((self.mod.rel, self.qual) + fields)

    def shadow(self):
        return self.assigned

    def tracked_ref(self, node):
        """origin of a Name / Attribute that denotes a generator or seed, else None"""
        if isinstance(node, ast.Name):
            if node.id in self.env:
                return self.env[node.id]
            if node.id in self.params and node.id in RNG_NAMES:
                return ("param", node.id)
            return None
        if isinstance(node, ast.Attribute):
            base = node.value
            if isinstance(base, ast.Name) and base.id in ("self", "cls") and base.id in self.params:
                if node.attr in RNG_NAMES or "rng" in node.attr.lower() or "random_state" in node.attr:
                    return ("selfAttr", node.attr)
                return None
            if node.attr in RNG_NAMES and not isinstance(node.ctx, ast.Store):
                if isinstance(base, ast.Name) and base.id in self.mechs and node.attr == "_rng":
                    return ("mechRng", self.mechs[base.id])
                if self.mod.canon(node, self.shadow()) is not None:
                    return None          # module attribute such as numpy.random.seed: handled as a global use
                self.err(node, f"generator attribute `{ast.unparse(node)}` of an object of unknown origin")
        return None

    def is_none_list(self, node):
        return (isinstance(node, ast.BinOp) and isinstance(node.op, ast.Mult) and
                any(isinstance(s, ast.List) and len(s.elts) == 1 and isinstance(s.elts[0], ast.Constant) and
                    s.elts[0].value is None for s in (node.left, node.right)))

    def seeded_test(self, test):
        """`X is None` / `X is not None` on a tracked X -> (origin of X, True if the TRUE branch is the None branch)"""
        if isinstance(test, ast.Compare) and len(test.ops) == 1 and isinstance(test.ops[0], (ast.Is, ast.IsNot)):
            r = test.comparators[0]
            if isinstance(r, ast.Constant) and r.value is None:
                o = self.tracked_ref(test.left)
                if o is not None:
                    return o, isinstance(test.ops[0], ast.Is)
        return None

    # ------------------------------------------------------------------ expressions
    def need(self, node):
        """origin of an expression that is USED as a generator / seed (argument of check_random_state, random_state=…)"""
        o = self.ev(node)
        if o is not None:
            return o
        if isinstance(node, ast.Constant) and node.value is None:
            return ("none",)
        if isinstance(node, ast.Constant) and isinstance(node.value, int) and not isinstance(node.value, bool):
            return ("intConst",)
        if isinstance(node, ast.Name) and node.id in self.params and node.id not in self.env:
            return ("param", node.id)
        self.err(node, f"generator/seed position holds `{ast.unparse(node)[:60]}`, whose origin is unknown")

    def global_use(self, node, called):
        full = self.mod.canon(node, self.shadow())
        if full is None:
            return None
        if any(full == p.rstrip(".") or full.startswith(p if p.endswith(".") else p + ".") or full == p
               for p in GLOBAL_PREFIXES):
            if full in ("random", "secrets", "numpy.random"):
                return full            # the bare module object: reported when something is taken from it
            self.site("globalUses", full, called)
            return full
        return None

    def ev(self, node):
        """visit an expression: record sites, return its origin (None = not a generator / seed).  Raises when a
        generator-valued sub-expression is used in a way that is not understood."""
        if node is None:
            return None
        if isinstance(node, ast.Constant):
            return None
        if isinstance(node, (ast.Name, ast.Attribute)):
            o = self.tracked_ref(node)
            if o is not None:
                return o
            if isinstance(node, ast.Attribute):
                if self.global_use(node, False) is not None:
                    return None
                self.reject(self.ev(node.value), node.value, "attribute access")
            elif isinstance(node, ast.Name):
                full = self.global_use(node, False)
                if full in ("random", "secrets", "numpy.random"):
                    self.err(node, f"module object `{full}` used as a value")
            return None
        if isinstance(node, ast.Call):
            return self.ev_call(node)
        if isinstance(node, ast.IfExp):
            t = self.seeded_test(node.test)
            if t is None:
                self.generic(node.test)
            a, b = self.ev(node.body), self.ev(node.orelse)
            a_none = isinstance(node.body, ast.Constant) and node.body.value is None
            b_none = isinstance(node.orelse, ast.Constant) and node.orelse.value is None
            if t is not None and (a is not None or b is not None):
                c, true_is_none = t
                if true_is_none and a_none and b is not None:
                    return ("ifSeeded", c, b)
                if not true_is_none and b_none and a is not None:
                    return ("ifSeeded", c, a)
            if a is None and b is None:
                return None
            if a is not None and b is not None:
                return a if a == b else ("join", a, b)
            if is_generatorish(a) or is_generatorish(b):
                self.err(node, "conditional expression mixes a generator with a value of unknown origin")
            return None
        if isinstance(node, ast.Compare):
            for sub in [node.left] + list(node.comparators):
                self.ev(sub)           # comparing a generator (`is None`, `is np.random.mtrand._rand`) consumes nothing
            return None
        if isinstance(node, (ast.ListComp, ast.GeneratorExp, ast.SetComp, ast.DictComp)):
            saved = dict(self.env)
            for g in node.generators:
                self.bind_iter(g.target, g.iter)
                for c in g.ifs:
                    self.generic(c)
            if isinstance(node, ast.DictComp):
                self.generic(node.key)
                self.generic(node.value)
            else:
                self.generic(node.elt)
            self.env = saved
            return None
        if isinstance(node, ast.Lambda):
            for sub in ast.walk(node.body):
                if isinstance(sub, (ast.Name, ast.Attribute)) and self.tracked_ref(sub) is not None:
                    self.err(node, "lambda captures a generator")
            return None
        if self.is_none_list(node):
            return ("none",)
        if isinstance(node, ast.Starred):
            self.reject(self.ev(node.value), node, "star-argument")
            return None
        self.generic(node)
        return None

    def reject(self, o, node, where):
        if is_generatorish(o):
            self.err(node, f"generator `{ast.unparse(node)[:50]}` used in {where}")

    def generic(self, node):
        """an expression context that cannot hold a generator: drawn VALUES may flow through it freely"""
        if isinstance(node, (ast.Name, ast.Attribute, ast.Call, ast.IfExp, ast.Compare, ast.ListComp, ast.GeneratorExp,
                             ast.SetComp, ast.DictComp, ast.Lambda, ast.Constant, ast.Starred)):
            self.reject(self.ev(node), node, "an expression the translator does not follow")
            return
        for child in ast.iter_child_nodes(node):
            if isinstance(child, ast.expr):
                self.generic(child)
            elif isinstance(child, (ast.keyword, ast.comprehension, ast.slice if hasattr(ast, "slice") else ())):
                self.generic(child)

    def callee_kind(self, func):
        d = _dotted(func)
        if isinstance(func, ast.Attribute) and isinstance(func.value, ast.Call) and \
                isinstance(func.value.func, ast.Name) and func.value.func.id == "super":
            return "super()." + func.attr, "superInit" if func.attr == "__init__" else "external"
        if d is None:
            return ast.unparse(func)[:60], "external"
        head = d.split(".")[0]
        if head in ("self", "cls") and d.count(".") == 1:
            m = d.split(".")[1]
            return d, "lib" if (m in self.mod.methods or m in self.mod.localdefs) else "external"
        if "." not in d:
            if d in self.callables:
                return d, self.callables[d]
            if d in self.env or (d in self.assigned and d not in self.mod.alias and d not in self.mod.localdefs):
                return d, "external"            # a local callable (e.g. joblib `delayed(f)`)
            full = self.mod.alias.get(d, "")
            if d in self.mod.localdefs or full.startswith("diffprivlib."):
                return d, "lib"
            return d, "external"
        full = self.mod.canon(func, self.shadow()) or ""
        return d, "lib" if full.startswith("diffprivlib.") else "external"

    def ev_call(self, node):
        func = node.func
        full = self.mod.canon(func, self.shadow()) if isinstance(func, (ast.Name, ast.Attribute)) else None
        # --- check_random_state(x[, secure])
        if full == CRS:
            if any(isinstance(a, ast.Starred) for a in node.args) or any(k.arg is None for k in node.keywords):
                self.err(node, "check_random_state called with * / ** arguments")
            args = list(node.args)
            kws = {k.arg: k.value for k in node.keywords}
            seed = args[0] if args else kws.get("seed")
            sec = args[1] if len(args) > 1 else kws.get("secure")
            if seed is None or len(args) > 2 or set(kws) - {"seed", "secure"}:
                self.err(node, "check_random_state call shape not understood")
            if sec is None:
                secure = False
            elif isinstance(sec, ast.Constant) and isinstance(sec.value, bool):
                secure = sec.value
            else:
                self.err(node, "non-literal `secure` flag")
            o = self.need(seed)
            self.site("crsCalls", self.guard(o), secure)
            return ("crs", o, secure)
        # --- generator constructors / global APIs
        if full is not None and self.global_use(func, True) is not None:
            for a in node.args:
                if isinstance(a, ast.Starred):
                    self.err(node, "star-argument to a generator API")
            if full in SYSRANDOM and not node.args and not node.keywords:
                return ("systemRandom",)
            if full in GEN_CTORS:
                if not node.args and not node.keywords and full == "numpy.random.default_rng":
                    return ("defaultRng",)
                if len(node.args) == 1 and not node.keywords:
                    return ("genFrom", full, self.need(node.args[0]))
                self.err(node, f"{full} call shape not understood")
            for a in node.args:
                self.generic(a)
            for k in node.keywords:
                self.generic(k.value)
            return None
        # --- isinstance(x, T): consumes nothing
        if isinstance(func, ast.Name) and func.id == "isinstance" and func.id not in self.shadow():
            for a in node.args:
                self.ev(a)
            return None
        # --- a draw: method call on a tracked object
        if isinstance(func, ast.Attribute):
            recv = self.ev(func.value) if not isinstance(func.value, ast.Constant) else None
            if recv is not None and (is_generatorish(recv) or recv[0] == "join"):
                for a in node.args:
                    self.generic(a)
                for k in node.keywords:
                    self.generic(k.value)
                self.site("draws", self.guard(recv), func.attr)
                return ("drawn", recv, func.attr)
            if recv is None and func.attr in GEN_METHODS and not self.plainly_not_generator(func.value):
                self.err(node, f"draw-like call `{ast.unparse(func)[:60]}(…)` on an object of unknown origin")
        elif not isinstance(func, ast.Name):
            self.generic(func)
        # --- any other call: arguments that carry a generator / seed are hand-overs
        callee, kind = self.callee_kind(func)
        mech_cls = None
        if isinstance(func, ast.Name) and func.id in self.mod.mechs and \
                self.mod.alias.get(func.id, "diffprivlib." if func.id in self.mod.localdefs else "").startswith("diffprivlib."):
            mech_cls = func.id
        mech_rs = None
        for i, a in enumerate(node.args):
            if isinstance(a, ast.Starred):
                self.reject(self.ev(a.value), a, "star-argument")
                continue
            o = self.ev(a)
            if o is not None and (is_generatorish(o) or o[0] in ("join", "ifSeeded")):
                self.site("passes", callee, kind, self.guard(o))
        for k in node.keywords:
            if k.arg is None:
                self.reject(self.ev(k.value), k.value, "** forwarding")
                continue
            if k.arg in RNG_KW:
                o = self.need(k.value)
                self.site("passes", callee, kind, self.guard(o))
                if k.arg == "random_state":
                    mech_rs = o
            else:
                o = self.ev(k.value)
                if o is not None and (is_generatorish(o) or o[0] in ("join", "ifSeeded")):
                    self.site("passes", callee, kind, self.guard(o))
        if mech_cls is not None:
            return ("mech", mech_cls, mech_rs if mech_rs is not None else ("none",))
        return None

    def plainly_not_generator(self, node):
        """receivers of `.random()`-like calls that cannot be generator objects: numpy itself, literals"""
        d = _dotted(node)
        if d is not None:
            full = self.mod.canon(node, self.shadow())
            if full is not None and not any(full.startswith(p.rstrip(".")) for p in GLOBAL_PREFIXES):
                return True      # a module / imported name that is not a generator API (np.choice does not exist; np.X)
        return False

    # ------------------------------------------------------------------ statements
    def bind_iter(self, target, it):
        """`for target in it`: zip / enumerate / plain iteration propagate the origin of seeds"""
        if isinstance(it, ast.Call) and isinstance(it.func, ast.Name) and it.func.id == "zip" and \
                isinstance(target, ast.Tuple) and len(target.elts) == len(it.args):
            for t, a in zip(target.elts, it.args):
                self.bind_iter(t, a)
            return
        o = self.ev(it)
        if is_generatorish(o):
            self.err(it, "iteration over a generator object")
        for n in ast.walk(target):
            if isinstance(n, ast.Name):
                self.assigned.add(n.id)
                self.env.pop(n.id, None)
                self.mechs.pop(n.id, None)
        if o is not None and isinstance(target, ast.Name):
            self.env[target.id] = o
        elif o is not None:
            self.err(target, "seeds unpacked in a loop target")

    def lib_callable(self, node):
        if isinstance(node, ast.IfExp):
            return self.lib_callable(node.body) and self.lib_callable(node.orelse)
        if isinstance(node, ast.Name) and node.id not in self.env:
            if node.id in self.callables:
                return self.callables[node.id] == "lib"
            if node.id in self.assigned and node.id not in self.mod.alias and node.id not in self.mod.localdefs:
                return False
            return node.id in self.mod.localdefs or self.mod.alias.get(node.id, "").startswith("diffprivlib.")
        return False

    def assign(self, target, value_node, o):
        if isinstance(target, ast.Name):
            is_lib = value_node is not None and o is None and self.lib_callable(value_node)
            self.callables.pop(target.id, None)
            if is_lib:
                self.callables[target.id] = "lib"
            self.assigned.add(target.id)
            self.env.pop(target.id, None)
            self.mechs.pop(target.id, None)
            if o is not None and o[0] == "mech":
                self.mechs[target.id] = o[2]
            elif o is not None:
                self.env[target.id] = o
            return
        if isinstance(target, ast.Attribute):
            named = target.attr in RNG_NAMES or "rng" in target.attr.lower() or "random_state" in target.attr
            if o is not None and o[0] == "mech":
                o = None
            if o is not None and (is_generatorish(o) or named or o[0] in ("join", "ifSeeded")):
                if not (isinstance(target.value, ast.Name) and target.value.id == "self"):
                    # stored on another object (a copy, a sub-estimator): recorded under the full target text
                    self.generic(target.value)
                    self.site("attrAssigns", ast.unparse(target)[:60], self.guard(o))
                else:
                    self.site("attrAssigns", target.attr, self.guard(o))
            elif named:
                if value_node is not None and isinstance(value_node, ast.Constant) and value_node.value is None:
                    self.site("attrAssigns", target.attr, self.guard(("none",)))
                else:
                    self.err(target, f"attribute `{target.attr}` assigned a value of unknown origin")
            else:
                self.generic(target.value)
            return
        if isinstance(target, (ast.Tuple, ast.List)):
            if o is not None:
                self.err(target, "generator / seed unpacked into several names")
            if isinstance(value_node, (ast.Tuple, ast.List)) and len(value_node.elts) == len(target.elts):
                return      # handled element-wise by the caller
            for n in ast.walk(target):
                if isinstance(n, ast.Name):
                    self.assigned.add(n.id)
                    self.env.pop(n.id, None)
                    self.mechs.pop(n.id, None)
            return
        if isinstance(target, ast.Subscript):
            self.reject(o, target, "a container element")
            self.generic(target.value)
            self.generic(target.slice)
            return
        self.err(target, "assignment target not understood")

    def stmts(self, body):
        for s in body:
            self.stmt(s)

    def merge(self, e0, ea, eb, test):
        out = {}
        for name in set(ea) | set(eb):
            a, b = ea.get(name), eb.get(name)
            if a == b:
                out[name] = a
            elif test is not None and a is not None and b is not None and (a == ("none",) or b == ("none",)):
                c, true_is_none = test
                none_side, other = (a, b) if true_is_none else (b, a)
                out[name] = ("ifSeeded", c, other) if none_side == ("none",) else ("join", a, b)
            elif a is not None and b is not None:
                out[name] = ("join", a, b)
            else:
                if is_generatorish(a) or is_generatorish(b):
                    raise TranslatorError(f"{self.mod.rel} in {self.qual}: `{name}` holds a generator on one branch only")
        return out

    def stmt(self, s):
        if isinstance(s, (ast.FunctionDef, ast.AsyncFunctionDef)):
            for sub in ast.walk(s):
                if isinstance(sub, ast.Name) and sub.id in self.env and is_generatorish(self.env[sub.id]):
                    self.err(s, "nested function captures a generator")
            analyse_function(self.mod, s, self.qual + ".<locals>." + s.name, self.out)
            self.assigned.add(s.name)
            return
        if isinstance(s, ast.ClassDef):
            analyse_class(self.mod, s, self.qual + ".<locals>." + s.name, self.out)
            return
        if isinstance(s, ast.Assign):
            if len(s.targets) == 1 and isinstance(s.targets[0], (ast.Tuple, ast.List)) and \
                    isinstance(s.value, (ast.Tuple, ast.List)) and len(s.value.elts) == len(s.targets[0].elts):
                vals = [(v, self.ev(v)) for v in s.value.elts]
                for t, (v, o) in zip(s.targets[0].elts, vals):
                    self.assign(t, v, o)
                return
            o = self.ev(s.value)
            for t in s.targets:
                self.assign(t, s.value, o)
            return
        if isinstance(s, ast.AnnAssign):
            o = self.ev(s.value) if s.value is not None else None
            if s.value is not None:
                self.assign(s.target, s.value, o)
            return
        if isinstance(s, ast.AugAssign):
            self.reject(self.ev(s.value), s.value, "augmented assignment")
            if isinstance(s.target, ast.Name):
                self.env.pop(s.target.id, None)
            return
        if isinstance(s, ast.Return):
            o = self.ev(s.value) if s.value is not None else None
            if is_generatorish(o) or (o is not None and o[0] == "mech"):
                self.err(s, "a generator / mechanism is returned (inter-procedural flow)")
            return
        if isinstance(s, ast.Expr):
            self.ev(s.value)
            return
        if isinstance(s, ast.If):
            t = self.seeded_test(s.test)
            if t is None:
                self.generic(s.test)
            e0 = dict(self.env)
            m0 = dict(self.mechs)
            if t is not None and not t[1]:
                self.guards.append(t[0])
            self.stmts(s.body)
            if t is not None and not t[1]:
                self.guards.pop()
            ea, ma = self.env, self.mechs
            self.env, self.mechs = dict(e0), dict(m0)
            if t is not None and t[1]:
                self.guards.append(t[0])
            self.stmts(s.orelse)
            if t is not None and t[1]:
                self.guards.pop()
            eb, mb = self.env, self.mechs
            self.env = self.merge(e0, ea, eb, t)
            self.mechs = {k: v for k, v in ma.items() if mb.get(k) == v}
            return
        if isinstance(s, (ast.For, ast.AsyncFor)):
            self.bind_iter(s.target, s.iter)
            self.stmts(s.body)
            self.stmts(s.orelse)
            return
        if isinstance(s, ast.While):
            self.generic(s.test)
            self.stmts(s.body)
            self.stmts(s.orelse)
            return
        if isinstance(s, (ast.With, ast.AsyncWith)):
            for it in s.items:
                self.reject(self.ev(it.context_expr), it.context_expr, "a with-statement")
                if it.optional_vars is not None:
                    self.assign(it.optional_vars, None, None)
            self.stmts(s.body)
            return
        if isinstance(s, ast.Try) or (hasattr(ast, "TryStar") and isinstance(s, ast.TryStar)):
            self.stmts(s.body)
            for h in s.handlers:
                if h.type is not None:
                    self.generic(h.type)
                self.stmts(h.body)
            self.stmts(s.orelse)
            self.stmts(s.finalbody)
            return
        if isinstance(s, ast.Raise):
            if s.exc is not None:
                self.generic(s.exc)
            if s.cause is not None:
                self.generic(s.cause)
            return
        if isinstance(s, ast.Assert):
            self.generic(s.test)
            return
        if isinstance(s, ast.Delete):
            for t in s.targets:
                if isinstance(t, ast.Name):
                    self.env.pop(t.id, None)
                    self.mechs.pop(t.id, None)
            return
        if isinstance(s, (ast.Global, ast.Nonlocal)):
            if any(n in RNG_NAMES for n in s.names):
                self.err(s, "global / nonlocal generator name")
            return
        if isinstance(s, (ast.Import, ast.ImportFrom)):
            for a in s.names:
                mod = a.name if isinstance(s, ast.Import) else (s.module or "")
                if mod.split(".")[0] in ("random", "secrets") or mod.startswith("numpy.random"):
                    self.err(s, "function-level import of a generator module")
            return
        if isinstance(s, (ast.Pass, ast.Break, ast.Continue)):
            return
        if hasattr(ast, "Match") and isinstance(s, ast.Match):
            self.err(s, "match statement")
        self.err(s, f"statement {type(s).__name__} not understood")


def analyse_function(mod, fn, qual, out):
    a = fn.args
    params = [p.arg for p in a.posonlyargs + a.args + a.kwonlyargs]
    if a.vararg:
        params.append(a.vararg.arg)
    if a.kwarg:
        params.append(a.kwarg.arg)
    f = _Fn(mod, qual, params, out)
    for d in list(a.defaults) + [d for d in a.kw_defaults if d is not None]:
        f.generic(d)
    for d in fn.decorator_list:
        f.generic(d)
    if mod.rel == "utils.py" and qual == "check_random_state":
        # THE helper: its decision logic is the hand model `Rng.crs` (tied behaviourally, `crs_table`); here only the
        # generator APIs it touches are recorded
        for sub in ast.walk(fn):
            if isinstance(sub, ast.Call) and isinstance(sub.func, (ast.Name, ast.Attribute)):
                f.consumed_global.add(id(sub.func))
                f.global_use(sub.func, True)
            elif isinstance(sub, (ast.Attribute, ast.Name)) and id(sub) not in f.consumed_global:
                if f.global_use(sub, False) is not None:
                    for inner in ast.walk(sub):
                        f.consumed_global.add(id(inner))
        return
    f.stmts(fn.body)


def analyse_class(mod, cls, qual, out):
    f = _Fn(mod, qual + ".<body>", [], out)
    for s in cls.body:
        if isinstance(s, (ast.FunctionDef, ast.AsyncFunctionDef)):
            analyse_function(mod, s, qual + "." + s.name, out)
        elif isinstance(s, ast.ClassDef):
            analyse_class(mod, s, qual + "." + s.name, out)
        else:
            f.stmt(s)


def _sources(repo):
    root = os.path.join(repo, "diffprivlib")
    if not os.path.isdir(root):
        raise TranslatorError(f"{root} not found")
    files = []
    for d, _, fs in os.walk(root):
        for fn in fs:
            if fn.endswith(".py"):
                files.append(os.path.join(d, fn))
    return root, sorted(files)


def extract(repo):
    root, files = _sources(repo)
    trees = {}
    for p in files:
        rel = os.path.relpath(p, root).replace(os.sep, "/")
        try:
            trees[rel] = ast.parse(open(p, encoding="utf-8").read())
        except SyntaxError as e:
            raise TranslatorError(f"{rel}: {e}")
    libdefs, mechs = set(), set()
    for rel, tree in trees.items():
        for n in tree.body:
            if isinstance(n, (ast.FunctionDef, ast.ClassDef)):
                libdefs.add(n.name)
                if rel.startswith("mechanisms/") and isinstance(n, ast.ClassDef):
                    mechs.add(n.name)
    out = {"crsCalls": [], "globalUses": [], "draws": [], "passes": [], "attrAssigns": []}
    for rel in sorted(trees):
        mod = _Module(rel, trees[rel], libdefs, mechs)
        top = _Fn(mod, "<module>", [], out)
        for s in trees[rel].body:
            if isinstance(s, (ast.FunctionDef, ast.AsyncFunctionDef)):
                analyse_function(mod, s, s.name, out)
            elif isinstance(s, ast.ClassDef):
                analyse_class(mod, s, s.name, out)
            elif isinstance(s, (ast.Import, ast.ImportFrom)):
                continue
            else:
                top.stmt(s)
    if not any(r[0] == "mechanisms/base.py" for r in out["crsCalls"]):
        raise TranslatorError("no check_random_state call found in mechanisms/base.py (anchor not located)")
    return out


# ---------------------------------------------------------------------------------------------------- Lean emission
def _s(x):
    return '"' + x.replace("\\", "\\\\").replace('"', '\\"') + '"'


def org_lean(o):
    k = o[0]
    if k in ("none", "intConst", "defaultRng", "systemRandom"):
        return "." + k
    if k in ("param", "selfAttr"):
        return f"(.{k} {_s(o[1])})"
    if k == "crs":
        return f"(.crs {org_lean(o[1])} {'true' if o[2] else 'false'})"
    if k == "genFrom":
        return f"(.genFrom {_s(o[1])} {org_lean(o[2])})"
    if k == "mechRng":
        return f"(.mechRng {org_lean(o[1])})"
    if k == "drawn":
        return f"(.drawn {org_lean(o[1])} {_s(o[2])})"
    if k in ("ifSeeded", "join"):
        return f"(.{k} {org_lean(o[1])} {org_lean(o[2])})"
    if k == "mech":
        raise TranslatorError("a mechanism object is used as a generator / seed")
    raise TranslatorError(f"origin {o!r} cannot be emitted")


def _pkg(rel):
    head = rel.split("/")[0] if "/" in rel else ""
    return {"": ".top", "mechanisms": ".mechanisms", "models": ".models", "tools": ".tools"}.get(head, ".other")


def emit(t):
    L = ["/- GENERATED on every run by harness/translate/rngsites.py from /repo's current sources — do not edit. -/",
         "import DPL.Model.RngSites", "namespace DPL.Generated.C14Sites", "open DPL DPL.Rng DPL.RngSites", ""]

    def table(name, typ, rows):
        L.append(f"def {name} : List {typ} := [")
        L.append(",\n".join("  " + r for r in rows))
        L.append("]\n")

    table("crsCalls", "CrsCall",
          [f"⟨{_pkg(f)}, {_s(f)}, {_s(q)}, {org_lean(o)}, {'true' if sec else 'false'}⟩" for f, q, o, sec in t["crsCalls"]])
    table("globalUses", "GlobalUse",
          [f"⟨{_s(f)}, {_s(q)}, {_s(api)}, {'true' if c else 'false'}⟩" for f, q, api, c in sorted(t["globalUses"])])
    table("draws", "DrawSite", [f"⟨{_pkg(f)}, {_s(f)}, {_s(q)}, {org_lean(o)}, {_s(m)}⟩" for f, q, o, m in t["draws"]])
    table("passes", "PassSite",
          [f"⟨{_pkg(f)}, {_s(f)}, {_s(q)}, {_s(c)}, .{k}, {org_lean(o)}⟩" for f, q, c, k, o in t["passes"]])
    table("attrAssigns", "AttrAssign", [f"⟨{_s(f)}, {_s(q)}, {_s(a)}, {org_lean(o)}⟩" for f, q, a, o in t["attrAssigns"]])
    obligations = [
        ("no_global_draw",
         "the only uses of numpy's / the standard library's generator APIs anywhere in the library are the named "
         "exceptions the hand model accounts for (`crs`, `Mech.swaps`): nothing draws from a global generator",
         "globalUses = allowedGlobalUses"),
        ("mech_ctor_secure",
         "`_rng` is obtained by check_random_state(random_state, True) in DPMechanism.__init__ and is re-assigned only by "
         "the Staircase / Bingham swap; no other attribute holds a generator (plain `self.random_state = random_state` storage aside)",
         "attrAssigns.filter (!·.plainStorage) = expectedAttrAssigns"),
        ("mech_draws_via_rng", "every draw inside diffprivlib/mechanisms is made on `self._rng` (or on the secure "
         "generator of `bernoulli_neg_exp`)", "mechDrawsViaRng draws = true"),
        ("secure_crs_calls", "the secure check_random_state calls are exactly the two in mechanisms/base.py",
         "crsCalls.filter (·.secure) = secureCrsCalls"),
        ("nonsecure_crs_outside_mechanisms", "no non-secure check_random_state call inside diffprivlib/mechanisms",
         "nonSecureCrsOutsideMechanisms crsCalls = true"),
        ("noise_sites_match_plan",
         "the draws that do not come from the OS CSPRNG for an unseeded caller are exactly the hand-classified structural "
         "ones", "nonSecureDraws draws = structuralDraws.map (·.site)"),
        ("passes_closed", "whatever is handed on inside the library is, for an unseeded caller, None / the global "
         "singleton / a SystemRandom — each of which a mechanism turns into the OS CSPRNG", "passesClosed passes = true"),
        ("external_passes", "generators / seeds leave the library only at the two hand-listed places",
         "passes.filter (·.kind == .external) = externalPasses"),
    ]
    for name, doc, stmt in obligations:
        L.append(f"/-- {doc} -/")
        L.append(f"theorem {name} : {stmt} := by decide +kernel\n")
    L.append("end DPL.Generated.C14Sites")
    return "\n".join(L) + "\n", len(obligations)


def generate(repo, lean_dir):
    t = extract(repo)
    src, n = emit(t)
    d = os.path.join(lean_dir, "DPL", "Generated")
    os.makedirs(d, exist_ok=True)
    p = os.path.join(d, "C14Sites.lean")
    old = open(p).read() if os.path.exists(p) else None
    if old != src:
        with open(p, "w") as f:
            f.write(src)
    return {"obligations": n, "path": p, "sites": {k: len(v) for k, v in t.items()}}


if __name__ == "__main__":
    import json
    here = os.path.dirname(os.path.dirname(os.path.dirname(os.path.abspath(__file__))))
    print(json.dumps(generate(os.environ.get("VERIF_REPO", "/repo"), os.path.join(here, "lean"))))
