"""Python AST -> alias IR (DESIGN.md §3.3 item 3; lean/DPL/Model/Alias.lean).

For every analysed function the body is turned into a SET of abstract statements over versioned names:
    fresh v | alias v [u…] | write [u…]
One version per static assignment; a use lists every version that may reach it (branches are merged by union, loops
are iterated until the version sets are stable).  Calls to other analysed functions are bound context-insensitively
(parameters := alias of the arguments, result := alias of the callee's returns).  Library calls are classified by the
TRUSTED tables below (which calls return new memory, which may return a view, which write in place).
The Lean side proves that a statement set passing `check` never writes caller-owned memory along ANY execution order.
"""
import ast
import os

ALIAS_FUNCS = {
    "np.asarray", "np.asanyarray", "np.ravel", "np.reshape", "np.atleast_1d", "np.atleast_2d", "np.ascontiguousarray",
    "np.asfortranarray", "np.squeeze", "np.transpose", "np.swapaxes", "np.expand_dims", "np.broadcast_to",
    "np.nditer", "np.array_split", "np.split", "np.moveaxis", "np.real", "np.imag", "np.diag", "np.diagonal",
    "check_array", "validate_data", "check_X_y", "column_or_1d", "_check_y", "_check_sample_weight",
    "list", "tuple", "zip", "enumerate", "iter", "reversed", "sorted_view", "dict", "set", "next", "getattr",
    "super", "delayed", "Parallel",
}
FRESH_BUILTINS = {
    "len", "int", "float", "bool", "str", "range", "sum", "min", "max", "abs", "isinstance", "issubclass", "hasattr",
    "type", "round", "any", "all", "sorted", "repr", "print", "callable", "id", "divmod", "pow",
    "check_random_state", "warn_unused_args", "check_epsilon_delta", "_check_partial_fit_first_call",
    "check_classification_targets", "stable_cumsum", "svd_flip", "minimize",
}
ALIAS_METHODS = {"reshape", "ravel", "view", "squeeze", "transpose", "swapaxes", "get", "items", "values", "keys",
                 "pop", "setdefault", "load_default", "set_default", "__getitem__", "take_along_axis"}
FRESH_METHODS = {"copy", "sum", "mean", "var", "std", "min", "max", "any", "all", "item", "tolist", "dot", "flatten",
                 "argsort", "argmax", "argmin", "cumsum", "prod", "round", "clip", "nonzero", "searchsorted", "randomise",
                 "check", "spend", "total", "remaining", "random", "randint", "uniform", "permutation", "normal",
                 "standard_normal", "gamma", "choice", "format", "join", "split", "lower", "upper", "index", "count",
                 "append", "extend", "insert", "remove", "reverse", "warn", "bias", "variance", "is_integer", "conj",
                 "trace", "diagonal_copy", "iternext", "apply", "predict", "decision_function", "get_params", "set_params",
                 "_validate_params", "_warn_unused_args", "_validate_estimator", "_make_estimator", "toarray"}
MUTATING_METHODS = {"sort", "fill", "resize", "partition", "put", "itemset", "setfield", "shuffle", "setflags",
                    "byteswap_inplace", "__setitem__", "__iadd__", "__isub__", "__imul__", "__itruediv__"}
MUTATING_FUNCS_FIRST_ARG = {"np.copyto", "np.put", "np.place", "np.putmask", "np.fill_diagonal", "np.random.shuffle",
                            "np.put_along_axis"}
FRESH_ATTRS = {"shape", "size", "ndim", "dtype", "itemsize", "nbytes", "flags", "strides", "multi_index", "finished",
               "epsilon", "delta", "n_clusters", "n_features_in_", "__name__", "__class__"}


def dotted(node):
    if isinstance(node, ast.Name):
        return node.id
    if isinstance(node, ast.Attribute):
        b = dotted(node.value)
        return None if b is None else b + "." + node.attr
    return None


class Program:
    def __init__(self):
        self.stmts = []          # ("fresh", v) | ("alias", v, (u…)) | ("write", (u…), where)
        self.names = []          # id -> description
        self.funcs = {}          # key -> FuncDef record
        self.analysed = {}       # key -> {"params": {name: v}, "ret": v}
        self.notes = []

    def new(self, desc):
        self.names.append(desc)
        return len(self.names) - 1

    def emit_bind(self, v, srcs):
        srcs = tuple(sorted(set(srcs)))
        if srcs:
            self.stmts.append(("alias", v, srcs))
        else:
            self.stmts.append(("fresh", v))

    def emit_write(self, srcs, where):
        srcs = tuple(sorted(set(srcs)))
        if srcs:
            self.stmts.append(("write", srcs, where))


class FuncRec:
    def __init__(self, key, module, cls, node, path):
        self.key, self.module, self.cls, self.node, self.path = key, module, cls, node, path


def collect(repo, modules):
    """all function definitions of the given module files: key 'module:Class.func' / 'module:func'"""
    recs = {}
    for m in modules:
        path = os.path.join(repo, m)
        tree = ast.parse(open(path).read(), path)
        for node in tree.body:
            if isinstance(node, ast.FunctionDef):
                recs[f"{m}:{node.name}"] = FuncRec(f"{m}:{node.name}", m, None, node, path)
            elif isinstance(node, ast.ClassDef):
                for sub in node.body:
                    if isinstance(sub, ast.FunctionDef):
                        recs[f"{m}:{node.name}.{sub.name}"] = FuncRec(f"{m}:{node.name}.{sub.name}", m, node.name, sub, path)
    return recs


MIXIN = {"_check_bounds": "diffprivlib/validation.py:check_bounds",
         "_clip_to_norm": "diffprivlib/validation.py:clip_to_norm",
         "_clip_to_bounds": "diffprivlib/validation.py:clip_to_bounds"}


class Walker:
    def __init__(self, prog, rec):
        self.p, self.rec = prog, rec
        self.cur = {}
        self.tag = rec.key.split("/")[-1]

    # ---- resolution of callees
    def resolve(self, name):
        if name is None:
            return None
        recs = self.p.funcs
        if name.startswith("self."):
            meth = name[5:]
            if "." in meth:
                return None
            if meth in MIXIN and MIXIN[meth] in recs:
                return MIXIN[meth]
            if self.rec.cls:
                k = f"{self.rec.module}:{self.rec.cls}.{meth}"
                if k in recs:
                    return k
            k = f"{self.rec.module}:{meth}"      # staticmethod(_preprocess_data) pattern
            return k if k in recs else None
        if "." in name:
            return None
        k = f"{self.rec.module}:{name}"
        if k in recs:
            return k
        cands = [key for key in recs if key.endswith(":" + name)]   # imported from another analysed module
        return cands[0] if len(cands) == 1 else None

    # ---- expressions: returns the set of versions the value may share memory with (empty = fresh)
    def ev(self, e):
        if e is None:
            return set()
        if isinstance(e, ast.Name):
            return set(self.cur.get(e.id, ()))
        if isinstance(e, ast.Attribute):
            d = dotted(e)
            if d is not None and d in self.cur:
                return set(self.cur[d])
            if e.attr in FRESH_ATTRS:
                self.ev(e.value)
                return set()
            return self.ev(e.value)
        if isinstance(e, ast.Subscript):
            self.ev(e.slice)
            return self.ev(e.value)
        if isinstance(e, ast.Call):
            return self.call(e)
        if isinstance(e, (ast.BinOp,)):
            self.ev(e.left), self.ev(e.right)
            return set()
        if isinstance(e, ast.UnaryOp):
            self.ev(e.operand)
            return set()
        if isinstance(e, ast.Compare):
            self.ev(e.left)
            for c in e.comparators:
                self.ev(c)
            return set()
        if isinstance(e, ast.BoolOp):
            s = set()
            for v in e.values:
                s |= self.ev(v)
            return s
        if isinstance(e, ast.IfExp):
            self.ev(e.test)
            return self.ev(e.body) | self.ev(e.orelse)
        if isinstance(e, (ast.Tuple, ast.List, ast.Set)):
            s = set()
            for v in e.elts:
                s |= self.ev(v)
            return s
        if isinstance(e, ast.Dict):
            s = set()
            for v in list(e.keys) + list(e.values):
                s |= self.ev(v)
            return s
        if isinstance(e, ast.Starred):
            return self.ev(e.value)
        if isinstance(e, (ast.ListComp, ast.SetComp, ast.GeneratorExp, ast.DictComp)):
            saved = dict(self.cur)
            for g in e.generators:
                self.bind_target(g.target, self.ev(g.iter), "comp")
                for c in g.ifs:
                    self.ev(c)
            s = self.ev(e.elt) if not isinstance(e, ast.DictComp) else (self.ev(e.key) | self.ev(e.value))
            self.cur = saved
            return s
        if isinstance(e, ast.Slice):
            self.ev(e.lower), self.ev(e.upper), self.ev(e.step)
            return set()
        if isinstance(e, ast.NamedExpr):
            s = self.ev(e.value)
            self.bind_target(e.target, s, "walrus")
            return s
        if isinstance(e, (ast.Await, ast.Yield, ast.YieldFrom)):
            return self.ev(e.value)
        return set()     # Constant, JoinedStr, Lambda, …

    def call(self, e):
        name = dotted(e.func)
        args = list(e.args) + [k.value for k in e.keywords]
        arg_srcs = [self.ev(a) for a in e.args]
        kw_srcs = {k.arg: self.ev(k.value) for k in e.keywords}
        allsrc = set().union(*arg_srcs, *kw_srcs.values()) if (arg_srcs or kw_srcs) else set()
        where = f"{self.tag}:{e.lineno}"
        if "out" in kw_srcs:
            self.p.emit_write(kw_srcs["out"], where + ":out=")
        # analysed callee
        callee = self.resolve(name)
        if callee is not None:
            info = analyse_function(self.p, callee)
            params = info["param_order"]
            offset = 0
            for i, s in enumerate(arg_srcs):
                if i + offset < len(params):
                    self.p.emit_bind_extra(info["params"][params[i + offset]], s)
            for k, s in kw_srcs.items():
                if k in info["params"]:
                    self.p.emit_bind_extra(info["params"][k], s)
                elif info.get("kwargs") is not None:
                    self.p.emit_bind_extra(info["kwargs"], s)
            return {info["ret"]}
        if name in MUTATING_FUNCS_FIRST_ARG and arg_srcs:
            self.p.emit_write(arg_srcs[0], where + ":" + name)
            return set()
        if isinstance(e.func, ast.Attribute):
            recv = self.ev(e.func.value)
            meth = e.func.attr
            base = dotted(e.func.value)
            if meth in MUTATING_METHODS:
                if meth == "shuffle" and arg_srcs:
                    self.p.emit_write(arg_srcs[0], where + ":shuffle")
                else:
                    self.p.emit_write(recv, where + "." + meth)
                return set()
            if base in ("np", "numpy", "np.linalg", "np.random", "warnings", "math", "sk_pca", "np.ma") or \
                    (base or "").startswith("np."):
                if name in ALIAS_FUNCS:
                    return allsrc
                return set()
            if meth == "astype":
                cp = [k for k in e.keywords if k.arg == "copy"]
                if cp and isinstance(cp[0].value, ast.Constant) and cp[0].value.value is False:
                    return recv
                return set()
            if meth in FRESH_METHODS:
                return set()
            if meth in ALIAS_METHODS:
                return recv | allsrc
            return recv | allsrc       # unknown method: may return a view of its receiver / arguments
        if name in ALIAS_FUNCS:
            return allsrc
        if name in FRESH_BUILTINS:
            return set()
        if name is not None and name[:1].isupper():
            return set()                # constructor of a mechanism / accountant / estimator
        return allsrc                   # unknown function: conservative

    # ---- binding
    def bind_target(self, t, srcs, what):
        if isinstance(t, ast.Name):
            v = self.p.new(f"{self.tag}:{t.id}@{getattr(t, 'lineno', 0)}")
            self.p.emit_bind(v, srcs)
            self.cur[t.id] = {v}
        elif isinstance(t, ast.Attribute):
            d = dotted(t)
            if d is not None and d.startswith("self."):
                v = self.p.new(f"{self.tag}:{d}@{t.lineno}")
                self.p.emit_bind(v, srcs)
                self.cur[d] = {v}
            else:
                self.p.emit_write(self.ev(t.value), f"{self.tag}:{t.lineno}:attr-store")
        elif isinstance(t, (ast.Tuple, ast.List)):
            for el in t.elts:
                self.bind_target(el, srcs, what)
        elif isinstance(t, ast.Starred):
            self.bind_target(t.value, srcs, what)
        elif isinstance(t, ast.Subscript):
            self.ev(t.slice)
            self.p.emit_write(self.ev(t.value), f"{self.tag}:{t.lineno}:item-store")

    # ---- statements
    def block(self, body):
        for s in body:
            self.stmt(s)

    def merged(self, *maps):
        out = {}
        for m in maps:
            for k, v in m.items():
                out.setdefault(k, set()).update(v)
        return out

    def loop(self, run_body):
        for _ in range(6):
            before = {k: set(v) for k, v in self.cur.items()}
            n_before = len(self.p.stmts)
            run_body()
            self.cur = self.merged(before, self.cur)
            if self.cur == before:
                break
            if _ < 5:
                pass
        return

    def stmt(self, s):
        if isinstance(s, ast.Assign):
            srcs = self.ev(s.value)
            for t in s.targets:
                self.bind_target(t, srcs, "assign")
        elif isinstance(s, ast.AnnAssign):
            if s.value is not None:
                self.bind_target(s.target, self.ev(s.value), "assign")
        elif isinstance(s, ast.AugAssign):
            self.ev(s.value)
            t = s.target
            where = f"{self.tag}:{s.lineno}:augassign"
            if isinstance(t, ast.Name):
                self.p.emit_write(self.cur.get(t.id, ()), where)
            elif isinstance(t, ast.Attribute):
                d = dotted(t)
                if d is not None and d in self.cur:
                    self.p.emit_write(self.cur[d], where)
                else:
                    self.p.emit_write(self.ev(t.value), where)
            elif isinstance(t, ast.Subscript):
                self.ev(t.slice)
                self.p.emit_write(self.ev(t.value), where)
        elif isinstance(s, ast.Expr):
            self.ev(s.value)
        elif isinstance(s, ast.Return):
            self.p.emit_bind_extra(self.p.analysed[self.rec.key]["ret"], self.ev(s.value))
        elif isinstance(s, ast.If):
            self.ev(s.test)
            start = {k: set(v) for k, v in self.cur.items()}
            self.block(s.body)
            a = self.cur
            self.cur = {k: set(v) for k, v in start.items()}
            self.block(s.orelse)
            self.cur = self.merged(a, self.cur)
        elif isinstance(s, (ast.For, ast.AsyncFor)):
            it = self.ev(s.iter)

            def body():
                self.bind_target(s.target, it, "for")
                self.block(s.body)
            self.loop(body)
            self.block(s.orelse)
        elif isinstance(s, ast.While):
            def body():
                self.ev(s.test)
                self.block(s.body)
            self.loop(body)
            self.block(s.orelse)
        elif isinstance(s, (ast.With, ast.AsyncWith)):
            for item in s.items:
                src = self.ev(item.context_expr)
                if item.optional_vars is not None:
                    self.bind_target(item.optional_vars, src, "with")
            self.block(s.body)
        elif isinstance(s, ast.Try):
            start = {k: set(v) for k, v in self.cur.items()}
            self.block(s.body)
            after_body = self.cur
            outs = [after_body]
            for h in s.handlers:
                self.cur = self.merged(start, after_body)
                self.block(h.body)
                outs.append(self.cur)
            self.cur = self.merged(*outs)
            self.block(s.orelse)
            self.block(s.finalbody)
        elif isinstance(s, ast.Delete):
            pass
        elif isinstance(s, (ast.FunctionDef, ast.AsyncFunctionDef, ast.ClassDef)):
            self.p.notes.append(f"{self.tag}:{s.lineno}: nested definition `{s.name}` not analysed (closure)")
        else:
            for ch in ast.iter_child_nodes(s):
                if isinstance(ch, ast.expr):
                    self.ev(ch)


def _emit_bind_extra(self, v, srcs):
    """additional alias edge into an existing version (parameters of callees, return values)"""
    srcs = tuple(sorted(set(srcs)))
    if srcs:
        self.stmts.append(("alias", v, srcs))


Program.emit_bind_extra = _emit_bind_extra


def analyse_function(prog, key):
    if key in prog.analysed:
        return prog.analysed[key]
    rec = prog.funcs[key]
    a = rec.node.args
    params = [x.arg for x in a.posonlyargs + a.args]
    kwonly = [x.arg for x in a.kwonlyargs]
    info = {"params": {}, "param_order": [], "ret": None, "kwargs": None}
    tag = key.split("/")[-1]
    for nm in params + kwonly:
        info["params"][nm] = prog.new(f"{tag}:param {nm}")
    if a.vararg:
        info["params"][a.vararg.arg] = prog.new(f"{tag}:param *{a.vararg.arg}")
    if a.kwarg:
        info["kwargs"] = prog.new(f"{tag}:param **{a.kwarg.arg}")
        info["params"][a.kwarg.arg] = info["kwargs"]
    info["param_order"] = [p_ for p_ in params if p_ != "self"] if rec.cls and params[:1] == ["self"] and \
        not any(isinstance(d, ast.Name) and d.id == "staticmethod" for d in rec.node.decorator_list) else params
    info["ret"] = prog.new(f"{tag}:return")
    prog.analysed[key] = info
    w = Walker(prog, rec)
    for nm, v in info["params"].items():
        w.cur[nm] = {v}
    w.block(rec.node.body)
    return info


def closure(stmts, roots):
    T = set(roots)
    changed = True
    while changed:
        changed = False
        for s in stmts:
            if s[0] == "alias" and s[1] not in T and any(u in T for u in s[2]):
                T.add(s[1])
                changed = True
    return T


MODULES = [
    "diffprivlib/validation.py", "diffprivlib/tools/utils.py", "diffprivlib/tools/histograms.py",
    "diffprivlib/tools/quantiles.py", "diffprivlib/models/pca.py", "diffprivlib/models/standard_scaler.py",
    "diffprivlib/models/linear_regression.py", "diffprivlib/models/naive_bayes.py", "diffprivlib/models/k_means.py",
    "diffprivlib/models/logistic_regression.py", "diffprivlib/models/utils.py", "diffprivlib/models/forest.py",
]

# entry point -> (function key, names owned by the caller: parameters and `self.<attr>` set by the caller)
ENTRIES = {
    "tools.mean": ("diffprivlib/tools/utils.py:mean", ["array", "bounds"]),
    "tools.nanmean": ("diffprivlib/tools/utils.py:nanmean", ["array", "bounds"]),
    "tools.var": ("diffprivlib/tools/utils.py:var", ["array", "bounds"]),
    "tools.nanvar": ("diffprivlib/tools/utils.py:nanvar", ["array", "bounds"]),
    "tools.std": ("diffprivlib/tools/utils.py:std", ["array", "bounds"]),
    "tools.nanstd": ("diffprivlib/tools/utils.py:nanstd", ["array", "bounds"]),
    "tools.sum": ("diffprivlib/tools/utils.py:sum", ["array", "bounds"]),
    "tools.nansum": ("diffprivlib/tools/utils.py:nansum", ["array", "bounds"]),
    "tools.count_nonzero": ("diffprivlib/tools/utils.py:count_nonzero", ["array"]),
    "tools.histogram": ("diffprivlib/tools/histograms.py:histogram", ["sample", "bins", "range", "weights"]),
    "tools.histogramdd": ("diffprivlib/tools/histograms.py:histogramdd", ["sample", "bins", "range", "weights"]),
    "tools.histogram2d": ("diffprivlib/tools/histograms.py:histogram2d", ["array_x", "array_y", "bins", "range", "weights"]),
    "tools.quantile": ("diffprivlib/tools/quantiles.py:quantile", ["array", "quant", "bounds"]),
    "tools.percentile": ("diffprivlib/tools/quantiles.py:percentile", ["array", "percent", "bounds"]),
    "tools.median": ("diffprivlib/tools/quantiles.py:median", ["array", "bounds"]),
    "validation.clip_to_bounds": ("diffprivlib/validation.py:clip_to_bounds", ["array", "bounds"]),
    "validation.clip_to_norm": ("diffprivlib/validation.py:clip_to_norm", ["array"]),
    "validation.check_bounds": ("diffprivlib/validation.py:check_bounds", ["bounds"]),
    "models.PCA._fit_full": ("diffprivlib/models/pca.py:PCA._fit_full", ["X", "self.bounds"]),
    "models.PCA.fit_transform": ("diffprivlib/models/pca.py:PCA.fit_transform", ["X", "self.bounds"]),
    "models.covariance_eig": ("diffprivlib/models/utils.py:covariance_eig", ["array"]),
    "models.StandardScaler.partial_fit": ("diffprivlib/models/standard_scaler.py:StandardScaler.partial_fit", ["X", "self.bounds"]),
    "models.LinearRegression.fit": ("diffprivlib/models/linear_regression.py:LinearRegression.fit", ["X", "y", "self.bounds_X", "self.bounds_y"]),
    "models.GaussianNB._partial_fit": ("diffprivlib/models/naive_bayes.py:GaussianNB._partial_fit", ["X", "y", "self.bounds"]),
    "models.KMeans.fit": ("diffprivlib/models/k_means.py:KMeans.fit", ["X", "self.bounds"]),
    "models.LogisticRegression.fit": ("diffprivlib/models/logistic_regression.py:LogisticRegression.fit", ["X", "y"]),
    "models.RandomForestClassifier.fit": ("diffprivlib/models/forest.py:RandomForestClassifier.fit", ["X", "y", "self.bounds", "self.classes"]),
    "models.DecisionTreeClassifier.fit": ("diffprivlib/models/forest.py:DecisionTreeClassifier.fit", ["X", "y", "self.bounds", "self.classes"]),
}


def analyse(repo):
    """-> {entry: {"stmts": [...], "names": [...], "callers": [ids], "taint": [ids], "unsafe": [(where, names)]}}"""
    funcs = collect(repo, MODULES)
    out = {}
    for entry, (key, owned) in ENTRIES.items():
        if key not in funcs:
            out[entry] = {"missing": key}
            continue
        prog = Program()
        prog.funcs = funcs
        # `self.<attr>` owned by the caller: give the entry function an initial binding
        rec = funcs[key]
        info_params = None
        a = rec.node.args
        prog.analysed.clear()
        # pre-create so that we can add the self.<attr> roots before walking
        callers = []
        # analyse with a Walker that starts with self.attrs bound
        params = [x.arg for x in a.posonlyargs + a.args] + [x.arg for x in a.kwonlyargs]
        info = {"params": {}, "param_order": [p_ for p_ in params if p_ != "self"], "ret": None, "kwargs": None}
        tag = key.split("/")[-1]
        for nm in params:
            info["params"][nm] = prog.new(f"{tag}:param {nm}")
        if a.kwarg:
            info["kwargs"] = prog.new(f"{tag}:param **{a.kwarg.arg}")
            info["params"][a.kwarg.arg] = info["kwargs"]
        info["ret"] = prog.new(f"{tag}:return")
        prog.analysed[key] = info
        w = Walker(prog, rec)
        for nm, v in info["params"].items():
            w.cur[nm] = {v}
        for nm in owned:
            if nm.startswith("self."):
                v = prog.new(f"{tag}:caller {nm}")
                w.cur[nm] = {v}
                callers.append(v)
            elif nm in info["params"]:
                callers.append(info["params"][nm])
            else:
                out.setdefault(entry, {})
                prog.notes.append(f"{entry}: caller-owned parameter `{nm}` not found in signature")
        w.block(rec.node.body)
        seen, uniq = set(), []
        for s_ in prog.stmts:                 # a SET of statements: loop iterations repeat them
            k_ = s_[:2] if s_[0] == "write" else s_
            if k_ not in seen:
                seen.add(k_)
                uniq.append(s_)
        prog.stmts = uniq
        T = closure(prog.stmts, callers)
        unsafe = [(s[2], [prog.names[u] for u in s[1] if u in T]) for s in prog.stmts
                  if s[0] == "write" and any(u in T for u in s[1])]
        out[entry] = {"stmts": prog.stmts, "names": prog.names, "callers": callers, "taint": sorted(T),
                      "unsafe": unsafe, "notes": prog.notes, "functions": sorted(prog.analysed)}
    return out


def lean_source(res):
    L = ["/- GENERATED on every run by harness/translate/alias.py from /repo's current sources — do not edit. -/",
         "import DPL.Model.Alias", "namespace DPL.C20.Gen", "open DPL.Alias", ""]
    n_ob = 0
    for entry, r in res.items():
        nm = entry.replace(".", "_")
        if "stmts" not in r:
            continue

        def st(s):
            if s[0] == "fresh":
                return f".fresh {s[1]}"
            if s[0] == "alias":
                return f".alias {s[1]} [{', '.join(map(str, s[2]))}]"
            return f".write [{', '.join(map(str, s[1]))}]"
        L.append(f"/-- {entry}: {len(r['stmts'])} statements over {len(r['names'])} versioned names; "
                 f"functions: {', '.join(k.split(':')[-1] for k in r['functions'])} -/")
        body = ",\n  ".join(st(s) for s in r["stmts"]) if r["stmts"] else ""
        L.append(f"def prog_{nm} : List AStmt := [\n  {body}]")
        L.append(f"def taint_{nm} : List Name := [{', '.join(map(str, r['taint']))}]")
        L.append(f"def callers_{nm} : List Name := [{', '.join(map(str, r['callers']))}]")
        L.append(f"theorem ok_{nm} : check prog_{nm} taint_{nm} callers_{nm} = true := by decide +kernel")
        L.append("")
        n_ob += 1
    L.append("end DPL.C20.Gen")
    return "\n".join(L) + "\n", n_ob
