"""C06 translator: the *information-flow skeleton* of every tool / estimator method named by C06, extracted from the CURRENT
sources of /repo (AST only, nothing is imported), as Lean data (lean/DPL/Generated/C06Flows.lean) with one obligation per
entry point: `flowsOk fn = true`, decided by the taint checker of lean/DPL/Model/TaintIR.lean whose soundness
(noninterference, loops included) is proved in lean/DPL/Proofs/TaintIR.lean (`DPL.C06.static_taint_sound`).

Every program variable `v` becomes two IR variables: `v` (contents) and `v#s` (its SHAPE: dimensions, dtype, Python type,
None-ness), because C06 makes the dataset's shape public.  Sources of taint: the contents of the data parameters
(DATA_PARAMS).  Every expression is summarised by the set of IR variables its value depends on and the set its shape
depends on; a Python statement becomes `assign`s of these two halves, so the Lean side needs only a one-bit lattice.

What is CLEAN whatever flows into it (`declass`): the result of `<obj>.randomise(v)`; the result of a call of another
entry point of this table (a library function / method with its own obligation) — its non-data arguments are the `cfg` of
the declass and must be clean, the arguments bound to its data parameters are the `input`.
What is a `probe` (explicit allow-list ALLOWED_PROBES): the occupancy patterns DESIGN §6 C06 grants.
What ends a path outside the property: `raise` (refusal; may be data dependent), a `warnings.warn(…, PrivacyLeakWarning)`
(the declared leak of C11; `halt warned`, must sit under data-independent control).

Anything outside the understood shapes raises TranslatorError for THAT entry point: it is listed as unavailable, never
reported as a violation.  An entry point that calls an unavailable one is unavailable too.
"""
import ast
import copy
import os

TOOL_FILES = ["tools/utils.py", "tools/histograms.py"]
# (file, class or None, function)
MODEL_ENTRIES = [
    ("models/utils.py", None, "covariance_eig"),
    ("models/standard_scaler.py", None, "_incremental_mean_and_var"),
    ("models/standard_scaler.py", "StandardScaler", "partial_fit"),
    ("models/naive_bayes.py", "GaussianNB", "_noisy_class_counts"),
    ("models/naive_bayes.py", "GaussianNB", "_update_mean_variance"),
    ("models/naive_bayes.py", "GaussianNB", "_partial_fit"),
    ("models/linear_regression.py", None, "_construct_regression_obj"),
]
# named by C06 but beyond this translator: never attempted (reported in the evidence as not covered by the static tie;
# NOT an "unavailable anchor" — that is reserved for entry points that were followed on the validated revision and no
# longer can be, which escalates the behavioural check)
NOT_FOLLOWED = [
    "LinearRegression.fit: `_preprocess_data` returns the data and the noisy means in one tuple (needs per-result "
    "summaries of a callee)",
    "KMeans._update_centers: the shape of `np.sum(X[labels == cluster], axis=0)` is (dims,) although the mask is data "
    "(needs per-axis shapes)",
    "KMeans.fit: calls _update_centers; moreover `labels_` and `inertia_` ARE functions of the data by design (per-record "
    "assignments), only `cluster_centers_` is a release in the sense of C06",
    "PCA.fit / forest: not attempted",
]
PRIMITIVES = {"_check_cells"}          # accountant arithmetic only (C09's business); never sees data
DATA_PARAMS = {"array", "X", "y", "sample", "weights", "sample_weight", "labels", "array_x", "array_y"}

# --- the shape allow-list: what of a (possibly tainted) object is public -------------------------------------------------
SHAPE_ATTRS = {"shape", "ndim", "dtype", "size"}
NDITER_SHAPE_ATTRS = {"finished", "multi_index"}          # position of an np.nditer: a function of the operand's shape
SHAPE_FUNCS = {"len", "np.ndim", "np.size", "np.shape", "isinstance", "type", "hasattr", "callable", "issubclass",
               "np.issubdtype"}
LIKE_FUNCS = {"np.zeros_like", "np.ones_like", "np.empty_like"}     # value AND shape from the shape of argument 0
KEEP_SHAPE_ATTRS = {"T", "real", "flat"}                  # value from the value, shape from the shape

# --- calls whose result SHAPE is a function of the SHAPES of the positional arguments and the VALUES of the others ------
# (everything else: the shape of the result may depend on the values of all arguments — np.unique, boolean masks, …)
REG_FUNCS = {
    "np.asarray", "np.asanyarray", "np.array", "np.ravel", "np.sqrt", "np.abs", "np.sign", "np.isnan", "np.cbrt",
    "np.mean", "np.nanmean", "np.var", "np.nanvar", "np.sum", "np.nansum", "np.min", "np.max", "np.nanmin", "np.nanmax",
    "np.sort", "np.argsort", "np.argmin", "np.argmax", "np.diff", "np.linalg.norm", "np.linalg.eigvalsh", "np.all",
    "np.any", "np.ptp", "np.dot", "np.matmul", "np.multiply", "np.tensordot", "np.vstack", "np.isin", "np.isclose",
    "np.maximum", "np.minimum", "np.clip", "np.nditer", "np.histogram", "np.histogramdd", "np.errstate",
    "max", "min", "abs", "float", "int", "enumerate", "zip", "reversed", "tuple", "list", "sum",
    "clip_to_bounds", "validate_data", "_func", "_handle_zeros_in_scale",
    "self._clip_to_bounds", "self._check_bounds", "check_bounds", "self._distances_labels",
}
# of these the result shape is a function of the shapes of ALL positional arguments (the others: of the shape of the
# first positional argument / the receiver and of the VALUES of everything else — axis, a new shape, a repeat count …)
NARY_FUNCS = {"np.dot", "np.matmul", "np.multiply", "np.tensordot", "np.vstack", "np.isin", "np.isclose", "np.maximum",
              "np.minimum", "np.einsum", "max", "min", "zip", "dot", "searchsorted", "self._clip_to_bounds",
              "clip_to_bounds", "validate_data", "self._distances_labels"}
# two results: (histogram, edges).  The edges are a function of `bins`, `range` and the sample's shape (with range=None
# they are read off the data: that path has already ended in `halt warned`)
HIST_FUNCS = {"np.histogram", "np.histogramdd"}
REG_FUNCS_FIRST_CONST = {"np.einsum"}                     # first argument is a literal subscripts string
REG_METHODS = {"sum", "astype", "dot", "max", "min", "any", "all", "mean", "copy", "searchsorted", "var", "std", "type",
               "reshape"}
MUTATORS = {"pop", "append", "extend", "sort", "fill", "remove", "insert", "clear", "update", "setdefault", "put",
            "resize", "partition", "shuffle", "reverse", "iternext"}
# statement-level calls that carry no data anywhere (their arguments are still required to be clean: see `effect`)
SKIP_STMT_CALLS = {"warn_unused_args", "self._warn_unused_args", "self._validate_params", "warnings.warn"}
ACCOUNTANT_CALLS = {"accountant.check", "accountant.spend", "self.accountant.check", "self.accountant.spend",
                    "_check_cells"}

# --- data-dependent structure the property grants (DESIGN §6 C06 "probes"): (entry point, expression) -------------------
ALLOWED_PROBES = {
    ("GaussianNB._partial_fit", "np.unique(y)"),
    ("GaussianNB._noisy_class_counts", "np.unique(y)"),
    ("KMeans._update_centers", "cluster not in labels"),
}


# --- expressions whose value is granted to be a function of the SHAPE of their argument, each with the condition that is
# re-checked on the current sources (a failed condition withdraws the grant: the obligation then fails)
#   np.isnan(X) inside the scaler: X has passed `validate_data` WITHOUT any keyword that admits NaN, so the mask is all-False
GRANTED_SHAPE_EXPRS = {
    ("_incremental_mean_and_var", "np.isnan(X)"): "scaler_refuses_nan",
    ("StandardScaler.partial_fit", "np.isnan(X)"): "scaler_refuses_nan",
}


class TranslatorError(Exception):
    pass


def _uq(n):
    return ast.unparse(n)


def _params(fn):
    a = fn.args
    return [x.arg for x in a.posonlyargs + a.args + a.kwonlyargs]


class Index:
    def __init__(self, root):
        self.root = root
        self.trees = {}
        self.funcs = {}          # (file, None, name) / (file, cls, name) -> FunctionDef
        self.modnames = {}       # file -> {local name -> key of a library function}
        files = sorted(set(TOOL_FILES + [m[0] for m in MODEL_ENTRIES]))
        for rel in files:
            p = os.path.join(root, "diffprivlib", rel)
            if not os.path.exists(p):
                continue
            with open(p) as f:
                self.trees[rel] = ast.parse(f.read())
        if not all(r in self.trees for r in TOOL_FILES):
            raise TranslatorError("tools/utils.py / tools/histograms.py not found")
        for rel, tree in self.trees.items():
            for node in tree.body:
                if isinstance(node, ast.FunctionDef):
                    self.funcs[(rel, None, node.name)] = node
                elif isinstance(node, ast.ClassDef):
                    for m in node.body:
                        if isinstance(m, ast.FunctionDef):
                            self.funcs[(rel, node.name, m.name)] = m
        self.mechs = self._mechanism_names()
        byname = {}
        for (rel, cls, name), fn in self.funcs.items():
            if cls is None:
                byname.setdefault(name, []).append((rel, cls, name))
        for rel, tree in self.trees.items():
            ns = {}
            for node in tree.body:
                if isinstance(node, ast.ImportFrom) and (node.module or "").startswith("diffprivlib"):
                    for a in node.names:
                        cands = [k for k in byname.get(a.name, [])
                                 if (node.module or "").replace(".", "/").endswith(k[0][:-3].replace("diffprivlib/", ""))
                                 or k[0][:-3].split("/")[0] in (node.module or "")]
                        if len(cands) == 1:
                            ns[a.asname or a.name] = cands[0]
            for node in tree.body:
                if isinstance(node, ast.FunctionDef):
                    ns[node.name] = (rel, None, node.name)
            self.modnames[rel] = ns

    def _mechanism_names(self):
        p = os.path.join(self.root, "diffprivlib", "mechanisms", "__init__.py")
        names = set()
        with open(p) as f:
            for node in ast.parse(f.read()).body:
                if isinstance(node, ast.ImportFrom):
                    names.update(a.asname or a.name for a in node.names)
        names -= {"DPMachine", "DPMechanism", "TruncationAndFoldingMixin"}
        if len(names) < 10:
            raise TranslatorError("mechanism classes not found in diffprivlib/mechanisms/__init__.py")
        return names

    def condition(self, name):
        if name == "scaler_refuses_nan":
            k = ("models/standard_scaler.py", "StandardScaler", "partial_fit")
            if k not in self.funcs:
                return False
            calls = [n for n in ast.walk(self.funcs[k]) if isinstance(n, ast.Call) and _uq(n.func) == "validate_data"]
            assigns = [n for n in ast.walk(self.funcs[k]) if isinstance(n, ast.Assign) and n.value in calls
                       and _uq(n.targets[0]) == "X"]
            callers = [kk for kk, fn in self.funcs.items() if kk != k and kk[2] != "_incremental_mean_and_var"
                       and any(isinstance(n, ast.Name) and n.id == "_incremental_mean_and_var" for n in ast.walk(fn))]
            return (len(calls) == 1 and len(assigns) == 1 and not callers
                    and not any(kw.arg is None or "finite" in kw.arg or "nan" in kw.arg for kw in calls[0].keywords))
        return False

    def noisy(self, fn):
        for n in ast.walk(fn):
            if isinstance(n, ast.Name) and n.id in self.mechs:
                return True
            if isinstance(n, ast.Call) and isinstance(n.func, ast.Attribute) and n.func.attr == "randomise":
                return True
            if isinstance(n, ast.Call) and any(k.arg == "epsilon" for k in n.keywords):
                return True
        return False


def entry_keys(ix):
    keys = []
    for rel in TOOL_FILES:
        for node in ix.trees[rel].body:
            if isinstance(node, ast.FunctionDef) and ("epsilon" in _params(node)) and node.name not in PRIMITIVES:
                keys.append((rel, None, node.name))
    if len(keys) < 12:
        raise TranslatorError("tool entry points not found (tools moved?)")
    missing = []
    for k in MODEL_ENTRIES:
        if k in ix.funcs:
            keys.append(k)
        else:
            missing.append(k)
    return keys, missing


def qual(key):
    return f"{key[1]}.{key[2]}" if key[1] else key[2]


# ------------------------------------------------------------------------------------------------------ the translator

class Tr:
    def __init__(self, ix, key, entries):
        self.ix, self.key, self.entries = ix, key, entries
        self.rel, self.cls, self.name = key
        self.fn = ix.funcs[key]
        self.q = qual(key)
        self.params = _params(self.fn)
        if self.fn.args.vararg:
            raise TranslatorError(f"{self.q}: *args")
        if self.fn.args.kwarg:
            self.params.append(self.fn.args.kwarg.arg)
        self.locals = set(self.params)
        for n in ast.walk(self.fn):
            if isinstance(n, ast.Name) and isinstance(n.ctx, (ast.Store, ast.Del)):
                self.locals.add(n.id)
            elif isinstance(n, ast.FunctionDef) and n is not self.fn:
                self.locals.add(n.name)
            elif isinstance(n, (ast.Global, ast.Nonlocal, ast.Lambda, ast.Yield, ast.YieldFrom, ast.Await, ast.Starred,
                                ast.NamedExpr, ast.ClassDef, ast.Match)):
                raise TranslatorError(f"{self.q}: unsupported construct {type(n).__name__}")
        self.vars = {}           # IR variable name -> number
        self.ops = {}
        self.nbranch = 0
        self.ntmp = 0
        self.temps = set()       # temporaries: value-only variables
        self.classvars = set()   # locals that hold a mechanism CLASS
        self.self_written = []   # self.<attr> variables assigned (what a `return self` releases)
        self.subst = {}          # comprehension / loop target overrides: name -> (V, S)
        self.stack = [[]]
        self.callees = set()
        self.probes = 0
        self.declass = 0
        self.in_loop = 0

    # -- IR emission
    def v(self, name):
        if name not in self.vars:
            self.vars[name] = len(self.vars)
        return self.vars[name]

    def op(self, text):
        if text not in self.ops:
            self.ops[text] = len(self.ops)
        return self.ops[text]

    def emit(self, st):
        self.stack[-1].append(st)

    def assign(self, x, what, args):
        self.emit(("assign", self.v(x), self.op(what), sorted(self.v(a) for a in args)))

    def assign_pair(self, name, what, V, S):
        """program variable `name` := a value depending on V, whose shape depends on S"""
        self.assign(name + "#s", "shape:" + what, S)
        self.assign(name, what, set(V) | {name + "#s"})

    def tmp(self, tag):
        self.ntmp += 1
        t = f"%{tag}{self.ntmp}"
        self.temps.add(t)
        return t

    # -- names
    def callee_text(self, f):
        try:
            return _uq(f)
        except Exception:                                    # pragma: no cover
            return "?"

    def var_of(self, node):
        """the program variable an lvalue / rvalue node denotes, or None"""
        if isinstance(node, ast.Name) and (node.id in self.locals or node.id in self.temps):
            return node.id
        if isinstance(node, ast.Attribute) and isinstance(node.value, ast.Name) and node.value.id == "self":
            return "self." + node.attr
        return None

    def dv(self, name):
        if name in self.subst:
            return self.subst[name]
        if name in self.temps:
            return {name}, {name}
        return {name, name + "#s"}, {name + "#s"}

    # -- dependency summary of an expression: (V, S)
    def deps(self, e):
        if e is None or isinstance(e, ast.Constant):
            return set(), set()
        if isinstance(e, ast.Name):
            if e.id == "self":
                return set(), set()
            if e.id in self.locals or e.id in self.temps or e.id in self.subst:
                return tuple(set(x) for x in self.dv(e.id))
            return set(), set()                               # a module-level name: numpy, a class, a library function
        if isinstance(e, ast.Attribute):
            pv = self.var_of(e)
            if pv is not None:
                return tuple(set(x) for x in self.dv(pv))
            V, S = self.deps(e.value)
            if e.attr in SHAPE_ATTRS or e.attr in NDITER_SHAPE_ATTRS:
                return set(S), set(S)
            if e.attr in KEEP_SHAPE_ATTRS:
                return V, S
            return V, set(V)
        if isinstance(e, (ast.Tuple, ast.List, ast.Set)):
            return self.union([self.deps(x) for x in e.elts])
        if isinstance(e, ast.Dict):
            V, _ = self.union([self.deps(x) for x in list(e.keys) + list(e.values)])
            return V, set(V)
        if isinstance(e, ast.BinOp):
            return self.union([self.deps(e.left), self.deps(e.right)])
        if isinstance(e, ast.UnaryOp):
            return self.deps(e.operand)
        if isinstance(e, ast.BoolOp):
            V, _ = self.union([self.deps(x) for x in e.values])
            return V, set(V)
        if isinstance(e, ast.Compare):
            parts = [e.left] + list(e.comparators)
            if all(isinstance(o, (ast.Is, ast.IsNot)) for o in e.ops):
                _, S = self.union([self.deps(x) for x in parts])
                return set(S), set(S)                         # `x is None`: the Python type of x
            return self.union([self.deps(x) for x in parts])
        if isinstance(e, ast.IfExp):
            Vt, _ = self.deps(e.test)
            V, S = self.union([self.deps(e.body), self.deps(e.orelse)])
            return V | Vt, S | Vt
        if isinstance(e, ast.Subscript):
            V, S = self.deps(e.value)
            Vi, _ = self.deps(e.slice)
            return V | Vi, S | Vi
        if isinstance(e, ast.Slice):
            V, _ = self.union([self.deps(x) for x in (e.lower, e.upper, e.step)])
            return V, set(V)
        if isinstance(e, (ast.ListComp, ast.GeneratorExp, ast.SetComp)):
            return self.comp_deps(e)
        if isinstance(e, ast.JoinedStr):
            V, _ = self.union([self.deps(x.value) for x in e.values if isinstance(x, ast.FormattedValue)])
            return V, set(V)
        if isinstance(e, ast.Call):
            return self.call_deps(e)
        raise TranslatorError(f"{self.q}: expression {type(e).__name__} not understood: {_uq(e)[:60]}")

    @staticmethod
    def union(ds):
        V, S = set(), set()
        for a, b in ds:
            V |= a
            S |= b
        return V, S

    def comp_deps(self, e):
        saved = dict(self.subst)
        try:
            V, S = set(), set()
            for g in e.generators:
                if g.is_async:
                    raise TranslatorError(f"{self.q}: async comprehension")
                Vi, Si = self.deps(g.iter)
                for t in ast.walk(g.target):
                    if isinstance(t, ast.Name):
                        self.subst[t.id] = (set(Vi), set(Vi))
                V |= Vi
                S |= Si
                for c in g.ifs:
                    Vc, _ = self.deps(c)
                    V |= Vc
                    S |= Vc
            Ve, Se = self.deps(e.elt)
            return V | Ve, S | Se
        finally:
            self.subst = saved

    def call_deps(self, c):
        f = c.func
        text = self.callee_text(f)
        if any(k.arg is None for k in c.keywords):
            kw = [k.value for k in c.keywords]
        else:
            kw = [k.value for k in c.keywords]
        pos = list(c.args)
        if isinstance(f, ast.Attribute) and f.attr == "randomise":
            raise TranslatorError(f"{self.q}: randomise call in a position the translator does not hoist: {_uq(c)[:60]}")
        g = GRANTED_SHAPE_EXPRS.get((self.q, _uq(c)))
        if g is not None and self.ix.condition(g):
            _, S0 = self.deps(pos[0])
            return set(S0), set(S0)
        if text in SHAPE_FUNCS:
            _, S0 = self.deps(pos[0]) if pos else (set(), set())
            Vr, _ = self.union([self.deps(a) for a in pos[1:] + kw])
            return S0 | Vr, S0 | Vr
        if text in LIKE_FUNCS:
            _, S0 = self.deps(pos[0])
            Vr, _ = self.union([self.deps(a) for a in pos[1:] + kw])
            return S0 | Vr, S0 | Vr
        recv = None
        fV = set()
        if isinstance(f, ast.Attribute):
            base = f.value
            root = base
            while isinstance(root, ast.Attribute):
                root = root.value
            is_module_path = isinstance(root, ast.Name) and not (root.id in self.locals or root.id in self.temps
                                                                 or root.id in self.subst or root.id == "self")
            if not is_module_path and not (isinstance(base, ast.Name) and base.id == "self"):
                recv = base                                   # a method call on an object (anything but `np.linalg.…`)
            if isinstance(base, ast.Name) and base.id == "self":
                fV = self.self_call_reads(f.attr)
        elif isinstance(f, ast.Name):
            if f.id in self.locals and f.id not in self.classvars:
                fV = self.deps(f)[0]                          # calling a local callable: a function of it and the arguments
        else:
            raise TranslatorError(f"{self.q}: call of {text[:40]}")
        regular = (text in REG_FUNCS or text in REG_FUNCS_FIRST_CONST
                   or (recv is not None and f.attr in REG_METHODS))
        allargs = ([recv] if recv is not None else []) + pos
        if regular:
            nary = text in NARY_FUNCS or (recv is not None and f.attr in NARY_FUNCS)
            V, S = self.union([self.deps(a) for a in (allargs if nary else allargs[:1])])
            Vk, _ = self.union([self.deps(a) for a in kw + ([] if nary else allargs[1:])])
            return V | Vk | fV, S | Vk | fV
        V, _ = self.union([self.deps(a) for a in allargs + kw])
        V |= fV
        return V, set(V)

    def self_call_reads(self, meth):
        """`self.m(…)` on a method that draws no noise: a function of its arguments and of the attributes of self"""
        V = set()
        for name in list(self.vars):
            if name.startswith("self.") and not name.endswith("#s"):
                V |= {name, name + "#s"}
        k = (self.rel, self.cls, meth)
        if k in self.ix.funcs:
            for n in ast.walk(self.ix.funcs[k]):
                if isinstance(n, ast.Attribute) and isinstance(n.value, ast.Name) and n.value.id == "self":
                    V |= {"self." + n.attr, "self." + n.attr + "#s"}
        return V

    # -- hoisting of declassifications / probes / side effects out of an expression
    def library_callee(self, c):
        """key of the library entry point a call goes to, or None"""
        f = c.func
        if isinstance(f, ast.Name):
            if f.id in self.locals:
                if self.q == "_wrap_axis" and f.id == "func" and f.id in self.params:
                    return ("<param>", None, "func")
                return None
            return self.ix.modnames[self.rel].get(f.id)
        if isinstance(f, ast.Attribute) and isinstance(f.value, ast.Name) and f.value.id == "self" and self.cls:
            k = (self.rel, self.cls, f.attr)
            if k in self.ix.funcs and (k in self.entries or self.ix.noisy(self.ix.funcs[k])):
                return k
        return None

    def hoist(self, e):
        tr = self

        class H(ast.NodeTransformer):
            def visit_Lambda(self, n):
                raise TranslatorError(f"{tr.q}: lambda")

            def visit_ListComp(self, n):
                if not tr.contains_release(n):
                    return self.generic_visit(n)
                return tr.comp_loop(n)

            visit_GeneratorExp = visit_ListComp

            def visit_Compare(self, n):
                if (tr.q, _uq(n)) in ALLOWED_PROBES:
                    return tr.mk_probe(n)
                return self.generic_visit(n)

            def visit_Call(self, n):
                if (tr.q, _uq(n)) in ALLOWED_PROBES:
                    return tr.mk_probe(n)
                n = self.generic_visit(n)
                f = n.func
                if isinstance(f, ast.Attribute) and f.attr == "randomise":
                    if len(n.args) != 1 or n.keywords:
                        raise TranslatorError(f"{tr.q}: randomise with unusual arguments")
                    cfg, _ = tr.deps(f.value)
                    inp, _ = tr.deps(n.args[0])
                    return tr.mk_declass("randomise", cfg, inp)
                k = tr.library_callee(n)
                if k is not None and not (isinstance(f, ast.Name) and f.id in tr.ix.mechs):
                    return tr.lib_call(n, k)
                if isinstance(f, ast.Attribute) and f.attr in MUTATORS and isinstance(f.value, ast.Name) \
                        and (f.value.id in tr.locals):
                    tr.pending_mut.append((f.value.id, n))
                return n

        self.pending_mut = []
        out = H().visit(copy.deepcopy(e))
        return out

    def contains_release(self, n):
        for x in ast.walk(n):
            if isinstance(x, ast.Call):
                if isinstance(x.func, ast.Attribute) and x.func.attr == "randomise":
                    return True
                if self.library_callee(x) is not None and not (isinstance(x.func, ast.Name) and x.func.id in self.ix.mechs):
                    return True
                if (self.q, _uq(x)) in ALLOWED_PROBES:
                    return True
        return False

    def mk_declass(self, what, cfg, inp):
        t = self.tmp("d")
        self.emit(("declass", self.v(t), sorted(self.v(a) for a in cfg), sorted(self.v(a) for a in inp)))
        self.declass += 1
        return ast.Name(id=t, ctx=ast.Load())

    def mk_probe(self, n):
        V, _ = self.deps(n)
        t = self.tmp("p")
        self.emit(("probe", self.v(t), sorted(self.v(a) for a in V)))
        self.probes += 1
        return ast.Name(id=t, ctx=ast.Load())

    def lib_call(self, n, k):
        if k[0] == "<param>":
            if not n.args:
                raise TranslatorError(f"{self.q}: func() without data argument")
            inp, _ = self.deps(n.args[0])
            cfg, _ = self.union([self.deps(a) for a in n.args[1:]] + [self.deps(x.value) for x in n.keywords])
            return self.mk_declass("func", cfg, inp)
        if k not in self.entries:
            raise TranslatorError(f"{self.q}: calls {qual(k)}, which draws noise but is not an analysed entry point")
        self.callees.add(k)
        callee = self.ix.funcs[k]
        ps = _params(callee)
        if k[1] is not None:
            ps = ps[1:]                                       # self
        cfg, inp = set(), set()
        for i, a in enumerate(n.args):
            if i >= len(ps):
                raise TranslatorError(f"{self.q}: too many positional arguments for {qual(k)}")
            (inp if ps[i] in DATA_PARAMS else cfg).update(self.deps(a)[0])
        for kw in n.keywords:
            (inp if kw.arg in DATA_PARAMS else cfg).update(self.deps(kw.value)[0])
        if k[1] is not None:
            cfg |= self.self_call_reads(k[2])                 # the estimator's attributes are parameters of the call
        t = self.mk_declass(qual(k), cfg, inp)
        # attributes the callee writes on self: noise-derived (its own obligation makes its release clean)
        return t

    def comp_loop(self, n):
        if len(n.generators) != 1 or n.generators[0].ifs:
            raise TranslatorError(f"{self.q}: comprehension with a mechanism call and filters / several generators")
        g = n.generators[0]
        acc = self.tmp("acc")
        self.assign(acc, "[]", set())

        def body():
            e = self.hoist(n.elt)
            V, _ = self.deps(e)
            self.assign(acc, "append", V | {acc})
        self.for_loop(g.target, g.iter, body)
        return ast.Name(id=acc, ctx=ast.Load())

    # -- loops
    def block(self, f):
        self.stack.append([])
        f()
        return self.stack.pop()

    def for_loop(self, target, it_expr, body_fn):
        it_expr = self.hoist(it_expr)
        self.flush_mut(it_expr)
        Vi, Si = self.deps(it_expr)
        it = self.tmp("it")
        self.assign(it, "iter", Si)                           # the iteration state: a function of the iterable's SHAPE

        def body():
            names = [t.id for t in ast.walk(target) if isinstance(t, ast.Name)]
            if not names or any(not isinstance(t, (ast.Name, ast.Tuple)) for t in ast.walk(target)
                                if not isinstance(t, ast.expr_context)):
                raise TranslatorError(f"{self.q}: loop target {_uq(target)}")
            for nm in names:
                # one element: its contents from the iterable's contents; its shape from the iterable's shape when the
                # iterable is a plain sequence of equal-shaped items (an array / range); otherwise from its contents
                self.assign(nm + "#s", "elem-shape", (Si if len(names) == 1 else Vi) | {it})
                self.assign(nm, "elem", Vi | {it, nm + "#s"})
            self.assign(it, "advance", {it})
            body_fn()
        self.in_loop += 1
        b = self.block(body)
        self.in_loop -= 1
        self.emit_loop([self.v(it)], b)

    def emit_loop(self, cond, b):
        k = len(self.assigned_in(b)) + 2
        self.nbranch += 1
        self.emit(("loop", k, self.nbranch, sorted(cond), b))

    def assigned_in(self, b):
        s = set()
        for st in b:
            if st[0] in ("assign", "declass", "probe"):
                s.add(st[1])
            elif st[0] == "branch":
                s |= self.assigned_in(st[3]) | self.assigned_in(st[4])
            elif st[0] == "loop":
                s |= self.assigned_in(st[4])
        return s

    def flush_mut(self, whole):
        """a mutating method call inside an expression: the receiver afterwards depends on everything in the expression"""
        for name, call in self.pending_mut:
            V, _ = self.deps(whole)
            Vn, _ = self.dv(name)
            self.assign_pair(name, "mutated", V | Vn, V | Vn)
        self.pending_mut = []

    # -- statements
    def stmts(self, body):
        i = 0
        while i < len(body):
            s = body[i]
            # `if c: …; continue` at loop-body level: the rest of the body is the else branch
            if (self.in_loop and isinstance(s, ast.If) and not s.orelse and s.body
                    and isinstance(s.body[-1], ast.Continue)):
                rest = body[i + 1:]
                test = self.hoist(s.test)
                self.flush_mut(test)
                V, _ = self.deps(test)
                t = self.block(lambda: self.stmts(s.body[:-1]))
                e = self.block(lambda: self.stmts(rest))
                self.nbranch += 1
                self.emit(("branch", self.nbranch, sorted(self.v(a) for a in V), t, e))
                return
            if self.stmt(s) == "dead":
                return
            i += 1

    def is_leak_warning(self, s):
        return (isinstance(s, ast.Expr) and isinstance(s.value, ast.Call) and _uq(s.value.func) == "warnings.warn"
                and any(isinstance(a, ast.Name) and a.id == "PrivacyLeakWarning" for a in s.value.args))

    def store(self, tgt, what, V, S, rhs=None):
        if isinstance(tgt, (ast.Tuple, ast.List)):
            if isinstance(rhs, (ast.Tuple, ast.List)) and len(rhs.elts) == len(tgt.elts):
                parts = [self.deps(x) for x in rhs.elts]       # evaluate all right-hand sides first
                for t, (v, s_) in zip(tgt.elts, parts):
                    self.store(t, what, v, s_)
            elif (isinstance(rhs, ast.Call) and self.callee_text(rhs.func) in HIST_FUNCS and len(tgt.elts) == 2
                  and rhs.args and not any(k.arg is None for k in rhs.keywords)):
                _, S0 = self.deps(rhs.args[0])
                Vc, _ = self.union([self.deps(a) for a in rhs.args[1:]]
                                   + [self.deps(k.value) for k in rhs.keywords if k.arg in ("bins", "range", "density")])
                self.store(tgt.elts[0], what, V, S0 | Vc)
                self.store(tgt.elts[1], what, S0 | Vc, S0 | Vc)
            elif isinstance(rhs, ast.Call) and (self.callee_text(rhs.func) in REG_FUNCS or self.var_of(rhs) is not None):
                for t in tgt.elts:
                    self.store(t, what, V, S)                  # a tuple of arrays with regular shapes
            else:
                for t in tgt.elts:
                    self.store(t, what, V, V)                  # unpacking: an item's shape depends on the whole value
            return
        pv = self.var_of(tgt)
        if pv is not None:
            if pv in self.params and pv in DATA_PARAMS and False:
                pass
            if pv.startswith("self.") and pv not in self.self_written:
                self.self_written.append(pv)
            self.assign_pair(pv, what, V, S)
            return
        if isinstance(tgt, ast.Subscript):
            base = tgt.value
            while isinstance(base, ast.Subscript):
                base = base.value
            bv = self.var_of(base)
            if bv is None:
                raise TranslatorError(f"{self.q}: assignment target {_uq(tgt)[:40]}")
            Vi = set()
            t2 = tgt
            while isinstance(t2, ast.Subscript):
                Vi |= self.deps(t2.slice)[0]
                t2 = t2.value
            Vb, Sb = self.dv(bv)
            if bv.startswith("self.") and bv not in self.self_written:
                self.self_written.append(bv)
            self.assign_pair(bv, "setitem", set(Vb) | Vi | V, set(Sb))
            return
        raise TranslatorError(f"{self.q}: assignment target {_uq(tgt)[:40]}")

    def stmt(self, s):
        if isinstance(s, ast.Expr) and isinstance(s.value, ast.Constant):
            return
        if self.is_leak_warning(s):
            self.emit(("halt", "warned"))
            return "dead"
        if isinstance(s, ast.Assign):
            rhs = self.hoist(s.value)
            self.flush_mut(rhs)
            V, S = self.deps(rhs)
            # a local that holds a mechanism class
            names = [x for x in ast.walk(s.value) if isinstance(x, ast.Name) and isinstance(x.ctx, ast.Load)]
            if (isinstance(s.value, (ast.Name, ast.IfExp)) and len(s.targets) == 1 and isinstance(s.targets[0], ast.Name)):
                leaves = [s.value] if isinstance(s.value, ast.Name) else [s.value.body, s.value.orelse]
                if all(isinstance(x, ast.Name) and x.id in self.ix.mechs for x in leaves):
                    self.classvars.add(s.targets[0].id)
            for t in s.targets:
                self.store(t, _uq(s.value)[:80], V, S, rhs)
            return
        if isinstance(s, ast.AugAssign):
            rhs = self.hoist(s.value)
            self.flush_mut(rhs)
            V, S = self.deps(rhs)
            Vt, St = self.deps(s.target)
            self.store(s.target, "aug:" + _uq(s.value)[:70], V | Vt, S | St)
            return
        if isinstance(s, ast.AnnAssign):
            raise TranslatorError(f"{self.q}: annotated assignment")
        if isinstance(s, ast.Return):
            if isinstance(s.value, ast.Name) and s.value.id == "self":
                vs = set()
                for a in self.self_written:
                    vs |= {a, a + "#s"}
                self.emit(("ret", sorted(self.v(a) for a in vs)))
                return "dead"
            e = self.hoist(s.value) if s.value is not None else None
            if e is not None:
                self.flush_mut(e)
            V, _ = self.deps(e)
            self.emit(("ret", sorted(self.v(a) for a in V)))
            return "dead"
        if isinstance(s, ast.Raise):
            self.emit(("halt", "raised"))
            return "dead"
        if isinstance(s, ast.If):
            test = self.hoist(s.test)
            self.flush_mut(test)
            V, _ = self.deps(test)
            t = self.block(lambda: self.stmts(s.body))
            e = self.block(lambda: self.stmts(s.orelse))
            self.nbranch += 1
            self.emit(("branch", self.nbranch, sorted(self.v(a) for a in V), t, e))
            return
        if isinstance(s, ast.For):
            if s.orelse:
                raise TranslatorError(f"{self.q}: for-else")
            self.for_loop(s.target, s.iter, lambda: self.stmts(s.body))
            return
        if isinstance(s, ast.While):
            if s.orelse:
                raise TranslatorError(f"{self.q}: while-else")
            if self.contains_release(s.test):
                raise TranslatorError(f"{self.q}: mechanism call in a loop condition")
            V, _ = self.deps(s.test)
            self.in_loop += 1
            b = self.block(lambda: self.stmts(s.body))
            self.in_loop -= 1
            self.emit_loop([self.v(a) for a in V], b)
            return
        if isinstance(s, ast.With):
            for it in s.items:
                if it.optional_vars is not None or self.contains_release(it.context_expr):
                    raise TranslatorError(f"{self.q}: with … as")
            self.stmts(s.body)
            return
        if isinstance(s, ast.Try):
            if len(s.body) != 1 or s.finalbody or s.orelse or not isinstance(s.body[0], ast.Assign) \
                    or self.contains_release(s.body[0]):
                raise TranslatorError(f"{self.q}: try statement")
            V, _ = self.deps(s.body[0].value)
            t = self.block(lambda: self.stmts(s.body))
            hs = []
            for h in s.handlers:
                hs.append(self.block(lambda h=h: self.stmts(h.body)))
            e = []
            for hb in reversed(hs):                            # which handler runs: again a function of the same values
                self.nbranch += 1
                e = [("branch", self.nbranch, sorted(self.v(a) for a in V), hb, e)]
            self.nbranch += 1
            self.emit(("branch", self.nbranch, sorted(self.v(a) for a in V), t, e))
            return
        if isinstance(s, ast.Delete):
            return
        if isinstance(s, ast.Pass):
            return
        if isinstance(s, ast.FunctionDef):
            free = set()
            bound = set(_params(s))
            for n in ast.walk(s):
                if isinstance(n, ast.Name) and isinstance(n.ctx, ast.Store):
                    bound.add(n.id)
            for n in ast.walk(s):
                if isinstance(n, ast.Call) and isinstance(n.func, ast.Attribute) and n.func.attr == "randomise":
                    raise TranslatorError(f"{self.q}: mechanism call inside nested function {s.name}")
                if isinstance(n, ast.Name) and isinstance(n.ctx, ast.Load) and n.id in self.locals and n.id not in bound:
                    free |= self.dv(n.id)[0]
            self.assign_pair(s.name, "closure", free, free)
            return
        if isinstance(s, ast.Expr) and isinstance(s.value, ast.Call):
            c = s.value
            text = self.callee_text(c.func)
            if text in SKIP_STMT_CALLS or text in ACCOUNTANT_CALLS:
                # no data may reach them: their arguments are made an (unreleased but checked) configuration
                if self.contains_release(ast.Tuple(elts=list(c.args) + [k.value for k in c.keywords], ctx=ast.Load())):
                    raise TranslatorError(f"{self.q}: mechanism call inside the arguments of {text}")
                V, _ = self.union([self.deps(a) for a in c.args] + [self.deps(k.value) for k in c.keywords])
                if text in ACCOUNTANT_CALLS and V:
                    self.assign_pair("%accountant", "accountant", V | {"%accountant"}, V | {"%accountant"})
                    self.uses_acc = True
                return
            f = c.func
            if isinstance(f, ast.Attribute) and f.attr in MUTATORS and self.var_of(f.value) is not None:
                e = self.hoist(c)
                self.pending_mut = []
                name = self.var_of(f.value)
                Vn, Sn = self.dv(name)
                Va, _ = self.union([self.deps(a) for a in e.args] + [self.deps(k.value) for k in e.keywords])
                if f.attr == "iternext":
                    self.assign(name + "#s", "iternext", set(Sn))
                    self.assign(name, "iternext", set(Vn))
                else:
                    self.assign_pair(name, "mutate:" + f.attr, set(Vn) | Va, set(Sn) | Va)
                return
            if isinstance(f, ast.Attribute) and isinstance(f.value, ast.Name) and f.value.id == "self":
                k = (self.rel, self.cls, f.attr)
                if k in self.ix.funcs and self.ix.noisy(self.ix.funcs[k]):
                    self.hoist(c)
                    return
                # a method that draws no noise (own or inherited from scikit-learn): its effect on the estimator is a
                # function of its arguments and of the estimator's attributes, and is part of what `return self` releases
                V, _ = self.union([self.deps(a) for a in c.args] + [self.deps(kw.value) for kw in c.keywords])
                V |= self.self_call_reads(f.attr)
                nm = "self.<effect of " + f.attr + ">"
                if nm not in self.self_written:
                    self.self_written.append(nm)
                self.assign_pair(nm, "effect", V, V)
                return
            raise TranslatorError(f"{self.q}: statement call {text[:50]}")
        raise TranslatorError(f"{self.q}: statement {type(s).__name__}")

    def run(self):
        body = self.fn.body
        self.stmts(body)
        ir = self.stack[0]
        if not any(True for _ in self.walk(ir, "ret")):
            self.emit(("ret", []))
        srcs = [p for p in self.params if p in DATA_PARAMS]
        if self.q == "histogram2d":
            pass
        return {"key": self.key, "name": self.q, "sources": sorted(self.v(p) for p in srcs), "source_names": srcs,
                "body": ir, "vars": dict(self.vars), "ops": dict(self.ops), "callees": set(self.callees),
                "declass": self.declass, "probes": self.probes}

    def walk(self, b, kind):
        for st in b:
            if st[0] == kind:
                yield st
            if st[0] == "branch":
                yield from self.walk(st[3], kind)
                yield from self.walk(st[4], kind)
            elif st[0] == "loop":
                yield from self.walk(st[4], kind)


# --------------------------------------------------------------------------------------------------------- Lean output

def _size(b):
    n = 0
    for st in b:
        n += 1
        if st[0] == "branch":
            n += _size(st[3]) + _size(st[4])
        elif st[0] == "loop":
            n += _size(st[4])
    return n


def _lst(xs):
    return "[" + ", ".join(str(x) for x in xs) + "]"


def lean_block(b, ind):
    pad = " " * ind
    if not b:
        return ".skip"
    parts = []
    for st in b:
        k = st[0]
        if k == "assign":
            parts.append(f"{pad}  .assign {st[1]} {st[2]} {_lst(st[3])}")
        elif k == "declass":
            parts.append(f"{pad}  .declass {st[1]} {_lst(st[2])} {_lst(st[3])}")
        elif k == "probe":
            parts.append(f"{pad}  .probe {st[1]} {_lst(st[2])}")
        elif k == "ret":
            parts.append(f"{pad}  .ret {_lst(st[1])}")
        elif k == "halt":
            parts.append(f"{pad}  .halt .{st[1]}")
        elif k == "branch":
            parts.append(f"{pad}  .branch {st[1]} {_lst(st[2])}\n{pad}    ({lean_block(st[3], ind + 4)})\n"
                         f"{pad}    ({lean_block(st[4], ind + 4)})")
        elif k == "loop":
            parts.append(f"{pad}  .loop {st[1]} {st[2]} {_lst(st[3])}\n{pad}    ({lean_block(st[4], ind + 4)})")
        else:                                                 # pragma: no cover
            raise TranslatorError(f"unknown IR node {k}")
    return "Stmt.block [\n" + ",\n".join(parts) + "]"


def lean_ident(name):
    return "fn_" + name.replace(".", "_")


def analyse(repo):
    ix = Index(repo)
    keys, missing = entry_keys(ix)
    entries, unavailable = {}, [f"{qual(k)}: not found in {k[0]}" for k in missing]
    keyset = set(keys)
    for k in keys:
        try:
            fn = ix.funcs[k]
            if fn.decorator_list and any(not _uq(d).startswith(("copy_docstring", "staticmethod", "_fit_context"))
                                         for d in fn.decorator_list):
                raise TranslatorError(f"{qual(k)}: decorated with {[_uq(d) for d in fn.decorator_list]}")
            r = Tr(ix, k, keyset).run()
            if _size(r["body"]) > 600:
                raise TranslatorError(f"{qual(k)}: body too large ({_size(r['body'])} IR statements)")
            entries[k] = r
        except TranslatorError as e:
            unavailable.append(str(e))
        except RecursionError:
            unavailable.append(f"{qual(k)}: expression nesting too deep")
    # an entry point whose callee has no obligation is itself unavailable
    changed = True
    while changed:
        changed = False
        for k in list(entries):
            bad = [c for c in entries[k]["callees"] if c not in entries]
            if bad:
                unavailable.append(f"{qual(k)}: calls {qual(bad[0])}, which is unavailable")
                del entries[k]
                changed = True
    return [entries[k] for k in keys if k in entries], unavailable


def lean_source(entries):
    L = ["/- GENERATED by harness/translate/taint.py from the sources of /repo on every run — do not edit.",
         "",
         "One information-flow skeleton per entry point of C06 (IR and checker: DPL/Model/TaintIR.lean; what a passed",
         "check means: DPL.C06.static_taint_sound).  `v#s` is the SHAPE half of program variable `v`; `%…` are temporaries.",
         "-/", "import DPL.Model.TaintIR", "namespace DPL.Generated.C06Flows", "open DPL DPL.TaintIR", ""]
    for r in entries:
        ident = lean_ident(r["name"])
        names = sorted(r["vars"].items(), key=lambda kv: kv[1])
        L.append(f"/- {r['name']}  ({r['key'][0]}): sources {r['source_names']}; {r['declass']} declassification site(s), "
                 f"{r['probes']} probe(s)")
        line = "   variables:"
        for nme, i in names:
            item = f" {i}={nme}"
            if len(line) + len(item) > 118:
                L.append(line)
                line = "    "
            line += item
        L.append(line)
        L.append("-/")
        L.append(f"def {ident} : Fn := ⟨{_lst(r['sources'])},\n  {lean_block(r['body'], 2)}⟩")
        L.append(f"theorem {ident}_ok : flowsOk {ident} = true := by decide +kernel")
        L.append("")
    L += ["end DPL.Generated.C06Flows", ""]
    return "\n".join(L)


def generate(repo, lean_dir):
    entries, unavailable = analyse(repo)
    src = lean_source(entries)
    d = os.path.join(lean_dir, "DPL", "Generated")
    os.makedirs(d, exist_ok=True)
    p = os.path.join(d, "C06Flows.lean")
    old = open(p).read() if os.path.exists(p) else None
    if old != src:
        with open(p, "w") as f:
            f.write(src)
    return {"entries": [e["name"] for e in entries], "obligations": len(entries), "unavailable": unavailable, "path": p,
            "not_followed": list(NOT_FOLLOWED),
            "declass_sites": sum(e["declass"] for e in entries), "probes": sum(e["probes"] for e in entries)}


# ---- a Python mirror of the Lean checker, for diagnostics only (never used for a verdict) -----------------------------

def py_flow(b, G, pc, why=None):
    G = set(G)
    for st in b:
        k = st[0]
        if k == "assign":
            if pc or (set(st[3]) & G):
                G.add(st[1])
            else:
                G.discard(st[1])
        elif k == "declass":
            if pc or (set(st[2]) & G):
                if why is not None:
                    why.append(("declass", st, pc))
                return None
            G.discard(st[1])
        elif k == "probe":
            if pc:
                return None
            G.discard(st[1])
        elif k == "branch":
            p2 = pc or bool(set(st[2]) & G)
            a, c = py_flow(st[3], G, p2, why), py_flow(st[4], G, p2, why)
            if a is None or c is None:
                return None
            G = a | c
        elif k == "loop":
            inv = set(G)
            while True:
                r = py_flow(st[4], inv, pc or bool(set(st[3]) & inv), why)
                if r is None:
                    return None
                if r <= inv:
                    break
                inv |= r
            G = inv
        elif k == "ret":
            if pc or (set(st[1]) & G):
                if why is not None:
                    why.append(("ret", st, pc, sorted(set(st[1]) & G)))
                return None
        elif k == "halt":
            if st[1] != "raised" and pc:
                return None
    return G


if __name__ == "__main__":                                    # pragma: no cover
    import sys
    root = sys.argv[1] if len(sys.argv) > 1 else "/repo"
    ents, un = analyse(root)
    for r in ents:
        why = []
        ok = py_flow(r["body"], r["sources"], False, why) is not None
        print(("ok  " if ok else "FAIL"), r["name"], _size(r["body"]), "stmts", r["declass"], "declass", r["probes"], "probes")
        if not ok:
            inv = {v: k for k, v in r["vars"].items()}
            for w in why[:3]:
                print("     ", w[0], "pc=", w[2], [inv[i] for i in (w[1][2] if w[0] == "declass" else w[3])][:12])
    for u in un:
        print("unavailable:", u)
