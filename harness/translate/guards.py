"""C11 translator: Python AST of /repo -> Lean guard table (lean/DPL/Generated/C11Table.lean).

For every public entry point (ANCHORS) it follows the delegation chain to the function that holds the fallback logic
(checking that each domain parameter is passed through unchanged), and extracts from that function

  * every fallback site: an assignment to a domain parameter (`p = …` / `self.p = …`) whose right-hand side calls
    np.min / np.max / np.nanmin / np.nanmax / np.unique / np.linalg.norm on the data (or is a name that was assigned
    from such a call), with its PATH CONDITION (conjunction of the enclosing `if` tests, negated on `else` branches);
  * every `warnings.warn(…, PrivacyLeakWarning)` statement with its path condition, and which fallback sites it
    DOMINATES (it is an earlier statement of a block that contains the site);
  * for np.histogram / np.histogramdd, whose fallback happens inside numpy, the fallback condition is a fixed,
    hand-stated fact about numpy (IMPLICIT) and the dominating warnings are those before the numpy call.

Anything the small guard language cannot express raises `Untranslatable` (the check then relies on the exhaustive
runtime matrix alone and says so).
"""
import ast
import os

LEAN_PARAM = {"bounds": "bounds", "range": "range", "data_norm": "dataNorm", "norm": "norm", "classes": "classes",
              "bounds_X": "boundsX", "bounds_y": "boundsY"}
DERIVE_FUNCS = {"np.min", "np.max", "np.nanmin", "np.nanmax", "np.unique", "np.linalg.norm", "np.amin", "np.amax",
                "np.ptp", "np.percentile", "np.quantile"}
NUMPY_IMPLICIT = {"np.histogram", "np.histogramdd", "np.histogram2d"}
BINS_TEST = "np.array(bins, dtype=object).ndim == 0 or not np.all([np.ndim(_bin) for _bin in bins])"


class Untranslatable(Exception):
    pass


def _tool(name, chain=None, file="tools/utils.py"):
    return {"entry": name, "file": file, "chain": chain or [name], "params": ["bounds"], "flags": {}}


ANCHORS = [
    {"entry": "count_nonzero", "file": "tools/utils.py", "chain": ["count_nonzero", "sum"], "params": [], "flags": {},
     "constant": {"bounds": "(0, 1)"}},
    _tool("mean", ["mean", "_mean"]), _tool("nanmean", ["nanmean", "_mean"]),
    _tool("var", ["var", "_var"]), _tool("nanvar", ["nanvar", "_var"]),
    _tool("std", ["std", "_std", "_var"]), _tool("nanstd", ["nanstd", "_std", "_var"]),
    _tool("sum", ["sum", "_sum"]), _tool("nansum", ["nansum", "_sum"]),
    {"entry": "histogram", "file": "tools/histograms.py", "chain": ["histogram"], "params": ["range"], "flags": {},
     "implicit": {"call": "np.histogram", "param": "range", "derive": ("isNone", 0)}},
    {"entry": "histogramdd", "file": "tools/histograms.py", "chain": ["histogramdd"], "params": ["range"],
     "flags": {BINS_TEST: "someBinIsCount"},
     "implicit": {"call": "np.histogramdd", "param": "range",
                  "derive": ("and", ("flag", 0), ("or", ("isNone", 0), ("hasNone", 0)))}},
    {"entry": "histogram2d", "file": "tools/histograms.py", "chain": ["histogram2d", "histogramdd"],
     "params": ["range"], "flags": {BINS_TEST: "someBinIsCount"},
     "implicit": {"call": "np.histogramdd", "param": "range",
                  "derive": ("and", ("flag", 0), ("or", ("isNone", 0), ("hasNone", 0)))}},
    _tool("quantile", ["quantile"], "tools/quantiles.py"),
    _tool("percentile", ["percentile", "quantile"], "tools/quantiles.py"),
    _tool("median", ["median", "quantile"], "tools/quantiles.py"),
    {"entry": "GaussianNB", "file": "models/naive_bayes.py", "chain": ["GaussianNB._partial_fit"],
     "params": ["bounds"], "flags": {}},
    {"entry": "KMeans", "file": "models/k_means.py", "chain": ["KMeans.fit"], "params": ["bounds"], "flags": {}},
    {"entry": "StandardScaler", "file": "models/standard_scaler.py", "chain": ["StandardScaler.partial_fit"],
     "params": ["bounds"], "flags": {}},
    {"entry": "LinearRegression", "file": "models/linear_regression.py", "chain": ["LinearRegression.fit"],
     "params": ["bounds_X", "bounds_y"], "flags": {}},
    {"entry": "LogisticRegression", "file": "models/logistic_regression.py", "chain": ["LogisticRegression.fit"],
     "params": ["data_norm"], "flags": {}},
    {"entry": "PCA", "file": "models/pca.py", "chain": ["PCA._fit_full"], "params": ["bounds", "data_norm"],
     "flags": {"self.centered": "centered"}},
    {"entry": "RandomForestClassifier", "file": "models/forest.py", "chain": ["RandomForestClassifier.fit"],
     "params": ["bounds", "classes"], "flags": {}},
    {"entry": "DecisionTreeClassifier", "file": "models/forest.py", "chain": ["DecisionTreeClassifier.fit"],
     "params": ["bounds", "classes"], "flags": {}},
    {"entry": "covariance_eig", "file": "models/utils.py", "chain": ["covariance_eig"], "params": ["norm"],
     "flags": {}},
]


def _find_function(tree, qual):
    parts = qual.split(".")
    body = tree.body
    node = None
    for p in parts:
        node = next((n for n in body if isinstance(n, (ast.FunctionDef, ast.ClassDef)) and n.name == p), None)
        if node is None:
            raise Untranslatable(f"function {qual} not found")
        body = node.body
    if not isinstance(node, ast.FunctionDef):
        raise Untranslatable(f"{qual} is not a function")
    return node


def _dotted(node):
    if isinstance(node, ast.Name):
        return node.id
    if isinstance(node, ast.Attribute):
        b = _dotted(node.value)
        return None if b is None else b + "." + node.attr
    return None


def _param_of(node, params):
    """Name `p` or Attribute `self.p` of a tracked parameter -> its position"""
    d = _dotted(node)
    if d is None:
        return None
    if d.startswith("self."):
        d = d[5:]
    return params.index(d) if d in params else None


class _Fn:
    def __init__(self, fn, params, flags):
        self.fn = fn
        self.params = params
        self.flags = flags                  # unparse-text -> flag name
        self.flag_names = list(dict.fromkeys(flags.values()))
        self.tainted = set()
        self.warns = []                     # (id, path)
        self.sites = []                     # (param index, path, [warn ids])
        self.implicit_dom = {}              # numpy call name -> [warn ids]

    # ---- conditions
    def cond(self, test):
        txt = ast.unparse(test)
        if txt in self.flags:
            return ("flag", self.flag_names.index(self.flags[txt]))
        if isinstance(test, ast.BoolOp):
            op = "or" if isinstance(test.op, ast.Or) else "and"
            cs = [self.cond(v) for v in test.values]
            out = cs[0]
            for c in cs[1:]:
                out = (op, out, c)
            return out
        if isinstance(test, ast.UnaryOp) and isinstance(test.op, ast.Not):
            return ("not", self.cond(test.operand))
        if isinstance(test, ast.Compare) and len(test.ops) == 1:
            l, op, r = test.left, test.ops[0], test.comparators[0]
            if isinstance(op, (ast.Is, ast.IsNot)) and isinstance(r, ast.Constant) and r.value is None:
                i = _param_of(l, self.params)
                if i is not None:
                    c = ("isNone", i)
                    return c if isinstance(op, ast.Is) else ("not", c)
            if isinstance(op, ast.In) and isinstance(l, ast.Constant) and l.value is None:
                i = _param_of(r, self.params)
                if i is not None:
                    return ("hasNone", i)
        if isinstance(test, ast.Call) and _dotted(test.func) == "isinstance" and len(test.args) == 2:
            i = _param_of(test.args[0], self.params)
            kinds = ast.unparse(test.args[1]).replace(" ", "")
            if i is not None and kinds == "list":
                return ("isList", i)
            if i is not None and kinds in ("(list,tuple)", "(tuple,list)"):
                return ("isSeq", i)
        if isinstance(test, ast.Call) and _dotted(test.func) == "any" and len(test.args) == 1 \
                and isinstance(test.args[0], ast.GeneratorExp) and len(test.args[0].generators) == 1:
            g = test.args[0]
            comp = g.generators[0]
            e = g.elt
            if (not comp.ifs and isinstance(comp.target, ast.Name) and isinstance(e, ast.Compare) and len(e.ops) == 1
                    and isinstance(e.ops[0], ast.Is) and isinstance(e.left, ast.Name) and e.left.id == comp.target.id
                    and isinstance(e.comparators[0], ast.Constant) and e.comparators[0].value is None):
                i = _param_of(comp.iter, self.params)
                if i is not None:
                    return ("hasNone", i)
        raise Untranslatable(f"guard `{txt}` in {self.fn.name}")

    @staticmethod
    def conj(path):
        if not path:
            return ("tt",)
        out = path[0]
        for c in path[1:]:
            out = ("and", out, c)
        return out

    # ---- statements
    def _derives(self, value):
        for n in ast.walk(value):
            if isinstance(n, ast.Call) and _dotted(n.func) in DERIVE_FUNCS:
                return True
            if isinstance(n, ast.Name) and n.id in self.tainted:
                return True
        return False

    @staticmethod
    def _is_plw(stmt):
        if not (isinstance(stmt, ast.Expr) and isinstance(stmt.value, ast.Call)):
            return False
        c = stmt.value
        if _dotted(c.func) != "warnings.warn":
            return False
        args = [ast.unparse(a) for a in c.args[1:]] + [ast.unparse(k.value) for k in c.keywords if k.arg == "category"]
        return "PrivacyLeakWarning" in args

    def block(self, stmts, path, dom):
        dom = list(dom)
        for st in stmts:
            if self._is_plw(st):
                wid = len(self.warns)
                self.warns.append((wid, list(path)))
                dom.append(wid)
                continue
            for n in ast.walk(st) if not isinstance(st, (ast.If, ast.For, ast.While, ast.With, ast.Try)) else []:
                if isinstance(n, ast.Call) and _dotted(n.func) in NUMPY_IMPLICIT:
                    # the fallback happens inside numpy: every PrivacyLeakWarning statement that precedes the call
                    # (traversal is in source order) counts, under its own path condition
                    self.implicit_dom.setdefault(_dotted(n.func), []).extend(w for w, _ in self.warns)
            if isinstance(st, ast.Assign):
                der = self._derives(st.value)
                targets = []
                for t in st.targets:
                    targets += list(t.elts) if isinstance(t, (ast.Tuple, ast.List)) else [t]
                for t in targets:
                    i = _param_of(t, self.params)
                    if i is not None and der:
                        self.sites.append((i, list(path), list(dom)))
                    elif isinstance(t, ast.Name) and der and i is None:
                        self.tainted.add(t.id)
            elif isinstance(st, ast.If):
                c = self.cond(st.test) if self._relevant(st) else None
                if c is None:
                    # a test that guards neither a fallback nor a warning: its branches are scanned under the same path
                    self.block(st.body, path, dom)
                    self.block(st.orelse, path, dom)
                else:
                    self.block(st.body, path + [c], dom)
                    self.block(st.orelse, path + [("not", c)], dom)
            elif isinstance(st, (ast.For, ast.While)):
                self.block(st.body, path, dom)
            elif isinstance(st, ast.With):
                self.block(st.body, path, dom)
            elif isinstance(st, ast.Try):
                self.block(st.body, path, dom)

    def _relevant(self, if_stmt):
        """does this `if` contain (at any depth) a PrivacyLeakWarning or a fallback assignment to a tracked parameter?"""
        for n in ast.walk(if_stmt):
            if isinstance(n, ast.Expr) and self._is_plw(n):
                return True
        return self._assign_derives_somewhere(if_stmt)

    def _assign_derives_somewhere(self, if_stmt):
        for n in ast.walk(if_stmt):
            if isinstance(n, ast.Assign) and self._derives(n.value):
                for t in n.targets:
                    ts = list(t.elts) if isinstance(t, (ast.Tuple, ast.List)) else [t]
                    if any(_param_of(x, self.params) is not None for x in ts):
                        return True
        return False


def _check_chain(tree, anchor):
    """each function of the chain must call the next one passing every tracked parameter through unchanged"""
    chain = anchor["chain"]
    for a, b in zip(chain, chain[1:]):
        fn = _find_function(tree, a)
        target = b.split(".")[-1]
        calls = [n for n in ast.walk(fn) if isinstance(n, ast.Call) and (_dotted(n.func) or "").split(".")[-1] == target]
        if not calls:
            raise Untranslatable(f"{a} does not call {b}")
        for c in calls:
            kw = {k.arg: k.value for k in c.keywords}
            for p in anchor["params"]:
                if p not in kw or _dotted(kw[p]) != p:
                    raise Untranslatable(f"{a} does not pass {p}={p} to {b}")
            for p, const in anchor.get("constant", {}).items():
                if p not in kw or ast.unparse(kw[p]) != const:
                    raise Untranslatable(f"{a} does not pass the constant {p}={const} to {b}")


def extract(repo):
    """-> list of entries: {entry, params, flags, rows:[(param, derive, warn)]}"""
    out = []
    trees = {}
    for anchor in ANCHORS:
        path = os.path.join(repo, "diffprivlib", anchor["file"])
        if path not in trees:
            trees[path] = ast.parse(open(path).read())
        tree = trees[path]
        _check_chain(tree, anchor)
        params = anchor["params"]
        rows = []
        flag_names = list(dict.fromkeys(anchor["flags"].values()))
        if params:
            fn = _find_function(tree, anchor["chain"][-1])
            f = _Fn(fn, params, anchor["flags"])
            f.block(fn.body, [], [])
            wpath = {wid: p for wid, p in f.warns}
            for i, dpath, dom in f.sites:
                warn = ("ff",)
                ws = [f.conj(wpath[w]) for w in dom]
                if ws:
                    warn = ws[0]
                    for w in ws[1:]:
                        warn = ("or", warn, w)
                rows.append((params[i], f.conj(dpath), warn))
            imp = anchor.get("implicit")
            if imp:
                if imp["call"] not in f.implicit_dom:
                    raise Untranslatable(f"{anchor['entry']}: no call of {imp['call']}")
                ws = [f.conj(wpath[w]) for w in dict.fromkeys(f.implicit_dom[imp["call"]])]
                warn = ("ff",)
                if ws:
                    warn = ws[0]
                    for w in ws[1:]:
                        warn = ("or", warn, w)
                rows.append((imp["param"], imp["derive"], warn))
            if not rows:
                raise Untranslatable(f"{anchor['entry']}: no fallback site found for {params}")
        out.append({"entry": anchor["entry"], "params": params, "flags": flag_names, "rows": rows})
    return out


def lean_cond(c):
    k = c[0]
    if k in ("tt", "ff"):
        return "Cond." + k
    if k in ("isNone", "hasNone", "isList", "isSeq", "flag"):
        return f"(Cond.{k} {c[1]})"
    if k == "not":
        return f"(Cond.not {lean_cond(c[1])})"
    return f"(Cond.{k} {lean_cond(c[1])} {lean_cond(c[2])})"


def emit(entries):
    lines = ["/- GENERATED by harness/translate/guards.py from the sources of /repo on every run — do not edit. -/",
             "import DPL.Model.Warnings", "namespace DPL.Generated.C11Table", "open DPL DPL.Warn", "",
             "def genTable : List EntryPoint := ["]
    rows_total = 0
    ents = []
    for e in entries:
        ps = ", ".join("." + LEAN_PARAM[p] for p in e["params"])
        fs = ", ".join("." + f for f in e["flags"])
        rs = ",\n      ".join(f"⟨.{LEAN_PARAM[p]}, {lean_cond(d)}, {lean_cond(w)}⟩" for p, d, w in e["rows"])
        rows_total += len(e["rows"])
        ents.append(f"  ⟨.{e['entry']}, [{ps}], [{fs}],\n     [{rs}]⟩")
    lines.append(",\n".join(ents))
    lines += ["]", "",
              "/-- the table extracted from the current sources is the hand-written one the theorems are about -/",
              "theorem gen_eq_hand : genTable = DPL.Warn.table := by decide +kernel", "",
              "/-- completeness re-proved over the extracted table itself -/",
              "theorem gen_complete : genTable.all (·.completeOn) = true := by decide +kernel", "",
              f"theorem gen_size : genTable.length = {len(entries)} := by decide", "",
              "end DPL.Generated.C11Table", ""]
    return "\n".join(lines), rows_total


def generate(repo, lean_dir):
    entries = extract(repo)
    src, rows = emit(entries)
    d = os.path.join(lean_dir, "DPL", "Generated")
    os.makedirs(d, exist_ok=True)
    p = os.path.join(d, "C11Table.lean")
    old = open(p).read() if os.path.exists(p) else None
    if old != src:
        with open(p, "w") as f:
            f.write(src)
    return {"entries": len(entries), "rows": rows, "path": p}


if __name__ == "__main__":
    import sys
    here = os.path.dirname(os.path.dirname(os.path.dirname(os.path.abspath(__file__))))
    print(generate(os.environ.get("VERIF_REPO", "/repo"), os.path.join(here, "lean")))
