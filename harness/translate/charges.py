"""C09 translator: the *charge skeleton* of every public tool and every estimator fit, extracted from the CURRENT sources
of /repo (AST only, nothing is imported), as Lean data (lean/DPL/Generated/C09Charges.lean) with one obligation per entry
point: `wellCharged sk = true` (tools), `wellChargedM sk = true` (estimator methods), `ctorResolves sk = true`
(`__init__`), decided by the checker of lean/DPL/Model/ChargeIR.lean whose soundness for EVERY path is proved in
lean/DPL/Proofs/ChargeIR.lean (`DPL.C09.static_skeleton_sound`).

Entry points (discovered from the AST):
  tools/{utils,histograms,quantiles}.py  every module-level function with an `accountant` parameter, plus `_wrap_axis`
                                         (receives the accountant through **kwargs); `_check_cells` is the primitive of
                                         the `cellCheck` event and is not analysed (the dynamic check covers it)
  models/*.py                            every method whose body mentions `self.accountant`; `__init__` gets the
                                         obligation "resolves the accountant", the others "check / noise / spend"
Events (see ChargeIR.lean): resolve, check, cellCheck, mech, sub, call, spend, ret, raise.  Intra-procedural and
name-based:
  * the own accountant is the variable `accountant` (tools; also `kwargs.get("accountant")` / `**kwargs` in a function
    that has no such parameter) or `self.accountant` (methods); a name assigned `BudgetAccountant()` is a throw-away one;
    anything else (e.g. `BudgetAccountant.load_default(None)`) is "another accountant" and never counts as own;
  * a mechanism is a reference to a class exported by diffprivlib.mechanisms, a `.randomise(` call, or a reference to a
    library function/method/class (tools/, models/) that has no `accountant` parameter and (transitively) contains one;
  * "same epsilon" is equality of the unparsed argument expressions (`/` and `*` kept structural for cell shares); the
    entry point's own `epsilon` / `self.epsilon` is always expression 0 and must not be re-assigned.
Anything outside the understood shapes raises TranslatorError for THAT entry point: it is listed as unavailable (the
behavioural check is then run at 10x budget), never reported as a violation.
"""
import ast
import os

TOOL_FILES = ["tools/utils.py", "tools/histograms.py", "tools/quantiles.py"]
MODEL_FILES = ["models/naive_bayes.py", "models/k_means.py", "models/standard_scaler.py", "models/linear_regression.py",
               "models/pca.py", "models/forest.py", "models/logistic_regression.py"]
AUX_FILES = ["models/utils.py"]                # helpers called by the models (covariance_eig)
PRIMITIVES = {"_check_cells"}
# sklearn's per-tree worker: calls tree.fit(...) on trees that carry their own throw-away accountant (forest __init__)
EXTERNAL_SUB = {"_parallel_build_trees"}
OWN_EPS = {"epsilon", "self.epsilon"}


class TranslatorError(Exception):
    pass


# ------------------------------------------------------------------------------------------------ library index

def _params(fn):
    a = fn.args
    return [x.arg for x in a.posonlyargs + a.args + a.kwonlyargs]


class Index:
    """bare-name index of the library functions / methods / classes the skeletons refer to"""

    def __init__(self, root):
        self.root = root
        self.trees = {}
        for rel in TOOL_FILES + MODEL_FILES + AUX_FILES:
            p = os.path.join(root, "diffprivlib", rel)
            if not os.path.exists(p):
                raise TranslatorError(f"{rel} not found")
            with open(p) as f:
                self.trees[rel] = ast.parse(f.read())
        self.mechs = self._mechanism_names()
        self.funcs = {}        # bare name -> FunctionDef (module level)
        self.classes = {}      # class name -> {method name -> FunctionDef}
        self.bases = {}
        for rel, tree in self.trees.items():
            for node in tree.body:
                if isinstance(node, ast.FunctionDef):
                    self.funcs[node.name] = node
                elif isinstance(node, ast.ClassDef):
                    self.classes[node.name] = {m.name: m for m in node.body if isinstance(m, ast.FunctionDef)}
                    self.bases[node.name] = [ast.unparse(b).split(".")[-1] for b in node.bases]
        self.takes_acc = {n for n, f in self.funcs.items() if "accountant" in _params(f)}
        for n, f in self.funcs.items():     # receives the accountant through **kwargs
            if f.args.kwarg and any(ast.unparse(c).startswith(f.args.kwarg.arg + ".get('accountant')")
                                    for c in ast.walk(f) if isinstance(c, ast.Call)):
                self.takes_acc.add(n)
        self.model_classes = {c for c, ms in self.classes.items()
                              if "__init__" in ms and "accountant" in _params(ms["__init__"])}
        self._noisy()

    def _mechanism_names(self):
        p = os.path.join(self.root, "diffprivlib", "mechanisms", "__init__.py")
        names = set()
        with open(p) as f:
            for node in ast.parse(f.read()).body:
                if isinstance(node, ast.ImportFrom):
                    names.update(a.asname or a.name for a in node.names)
        names -= {"DPMachine", "DPMechanism", "TruncationAndFoldingMixin"}
        if len(names) < 10:
            raise TranslatorError("mechanism classes not found in diffprivlib/mechanisms/__init__.py")
        return names

    def _direct_noise(self, fn):
        for n in ast.walk(fn):
            if isinstance(n, ast.Name) and (n.id in self.mechs or n.id in EXTERNAL_SUB):
                return True
            if isinstance(n, ast.Call):
                if isinstance(n.func, ast.Attribute) and n.func.attr == "randomise":
                    return True
                if any(k.arg == "accountant" for k in n.keywords):
                    return True
        return False

    def _noisy(self):
        """functions / (class, method) pairs without an accountant of their own that draw noise (fixpoint, by name)"""
        self.noisy_funcs = {n for n, f in self.funcs.items() if n not in self.takes_acc and self._direct_noise(f)}
        self.noisy_methods = {(c, m) for c, ms in self.classes.items() for m, f in ms.items()
                              if m != "__init__" and self._direct_noise(f) and not self._mentions_self_acc(f)}
        changed = True
        while changed:
            changed = False
            for n, f in self.funcs.items():
                if n in self.noisy_funcs or n in self.takes_acc:
                    continue
                if any(isinstance(x, ast.Name) and (x.id in self.noisy_funcs or x.id in self.noisy_classes())
                       for x in ast.walk(f)):
                    self.noisy_funcs.add(n)
                    changed = True
            for c, ms in self.classes.items():
                for m, f in ms.items():
                    if (c, m) in self.noisy_methods or m == "__init__" or self._mentions_self_acc(f):
                        continue
                    for x in ast.walk(f):
                        if (isinstance(x, ast.Name) and (x.id in self.noisy_funcs or x.id in self.noisy_classes())) or \
                                (isinstance(x, ast.Attribute) and isinstance(x.value, ast.Name) and x.value.id == "self"
                                 and (c, x.attr) in self.noisy_methods):
                            self.noisy_methods.add((c, m))
                            changed = True
                            break

    def noisy_classes(self):
        """helper classes (no accountant) with a noisy method"""
        return {c for (c, _m) in self.noisy_methods if c not in self.model_classes}

    @staticmethod
    def _mentions_self_acc(fn):
        return any(isinstance(n, ast.Attribute) and n.attr == "accountant" and isinstance(n.value, ast.Name)
                   and n.value.id == "self" for n in ast.walk(fn))

    def method_noisy(self, cls, name):
        seen = set()
        todo = [cls]
        while todo:
            c = todo.pop()
            if c in seen or c not in self.classes:
                continue
            seen.add(c)
            if (c, name) in self.noisy_methods:
                return True
            todo.extend(self.bases.get(c, ()))
        return False


# ------------------------------------------------------------------------------------------------ skeleton extraction

class Interner:
    def __init__(self):
        self.exprs = {"<own epsilon>": 0}
        self.names = {"randomise": 0}

    def expr_id(self, text):
        if text in OWN_EPS:
            return 0
        return self.exprs.setdefault(text, len(self.exprs))

    def name_id(self, text):
        return self.names.setdefault(text, len(self.names))


class Extractor:
    """one entry point -> nested lists: ("ev", lean) | ("branch", a, b) | ("loop", body) | ("seq", [..])"""

    def __init__(self, index, interner, fn, cls=None):
        self.ix, self.it, self.fn, self.cls = index, interner, fn, cls
        self.is_method = cls is not None
        self.where = (cls + "." if cls else "") + fn.name
        params = _params(fn)
        self.has_acc_param = "accountant" in params
        self.kwarg = fn.args.kwarg.arg if fn.args.kwarg else None
        self.own_kwargs = (not self.is_method and not self.has_acc_param and self.kwarg is not None and
                           fn.name in index.takes_acc)
        if not self.is_method and "epsilon" not in params:
            raise TranslatorError(f"{self.where}: no `epsilon` parameter")
        self.env = {}           # local name -> "fresh" | "other" | ("inst", ClassName)
        self.acc_rebound = False

    def err(self, msg):
        raise TranslatorError(f"{self.where}: {msg}")

    # ---- expressions of epsilon / delta
    def E(self, node):
        if isinstance(node, ast.BinOp) and isinstance(node.op, ast.Div):
            return f"(.div {self.E(node.left)} {self.E(node.right)})"
        if isinstance(node, ast.BinOp) and isinstance(node.op, ast.Mult):
            return f"(.mul {self.E(node.left)} {self.E(node.right)})"
        return f"(.atom {self.it.expr_id(ast.unparse(node))})"

    # ---- which accountant does an expression denote?
    def acc_ref(self, node):
        txt = ast.unparse(node)
        if self.is_method:
            if txt == "self.accountant":
                return "own"
        else:
            if txt == "accountant" and self.has_acc_param:
                return "other" if self.acc_rebound else "own"
            if self.own_kwargs and txt == f"{self.kwarg}.get('accountant')":
                return "own"
        if txt == "BudgetAccountant()":
            return "fresh"
        if isinstance(node, ast.Name) and self.env.get(node.id) in ("fresh", "other"):
            return self.env[node.id]
        return "other"

    def looks_like_accountant(self, node):
        txt = ast.unparse(node)
        return ("accountant" in txt.lower() or "acc" in txt.lower().split("_") or
                (isinstance(node, ast.Name) and self.env.get(node.id) in ("fresh", "other")))

    @staticmethod
    def b(x):
        return "true" if x else "false"

    # ---- events of an expression, in evaluation order
    def expr(self, node, out):
        if node is None:
            return
        if isinstance(node, (ast.Lambda,)):
            inner = []
            self.expr(node.body, inner)
            if inner:
                self.err("lambda with charge-relevant body")
            return
        if isinstance(node, (ast.ListComp, ast.SetComp, ast.GeneratorExp, ast.DictComp)):
            gens = node.generators
            self.expr(gens[0].iter, out)
            body = []
            for i, g in enumerate(gens):
                if i:
                    self.expr(g.iter, body)
                for c in g.ifs:
                    self.expr(c, body)
            if isinstance(node, ast.DictComp):
                self.expr(node.key, body)
                self.expr(node.value, body)
            else:
                self.expr(node.elt, body)
            if body:
                out.append(("loop", body))
            return
        if isinstance(node, ast.IfExp):
            self.expr(node.test, out)
            a, c = [], []
            self.expr(node.body, a)
            self.expr(node.orelse, c)
            if a or c:
                out.append(("branch", a, c))
            return
        if isinstance(node, ast.BoolOp):
            self.expr(node.values[0], out)
            rest = []
            for v in node.values[1:]:
                self.expr(v, rest)
            if rest:
                self.err("charge-relevant operand of a short-circuit and/or")
            return
        if isinstance(node, ast.Call):
            self.call(node, out)
            return
        if isinstance(node, ast.Name):
            self.name_ref(node, out)
            return
        if isinstance(node, ast.Attribute):
            self.expr(node.value, out)
            if self.is_method and isinstance(node.value, ast.Name) and node.value.id == "self" and \
                    self.ix.method_noisy(self.cls, node.attr):
                out.append(("ev", f".mech {self.it.name_id('self.' + node.attr)}"))
            elif isinstance(node.value, ast.Name) and isinstance(self.env.get(node.value.id), tuple) and \
                    self.ix.method_noisy(self.env[node.value.id][1], node.attr):
                out.append(("ev", f".mech {self.it.name_id(self.env[node.value.id][1] + '.' + node.attr)}"))
            return
        for child in ast.iter_child_nodes(node):
            if isinstance(child, ast.expr):
                self.expr(child, out)
            elif isinstance(child, (ast.keyword,)):
                self.expr(child.value, out)
            elif isinstance(child, ast.comprehension):
                self.err("unexpected comprehension")

    def name_ref(self, node, out):
        n = node.id
        if not isinstance(node.ctx, ast.Load):
            return
        if n in self.ix.mechs:
            out.append(("ev", f".mech {self.it.name_id(n)}"))
        elif n in EXTERNAL_SUB:
            out.append(("ev", f".sub {self.it.name_id(n)}"))
        elif n in self.ix.noisy_funcs or n in self.ix.noisy_classes():
            if n == self.fn.name:
                return
            out.append(("ev", f".mech {self.it.name_id(n)}"))
        elif n in self.ix.takes_acc and n not in PRIMITIVES and not (n == self.fn.name and not self.is_method):
            # an accountant-taking helper used as a value (not called here): only `_wrap_axis(func, ...)` does that
            self.pending_funcs.add(n)

    def call(self, node, out):
        f = node.func
        ftxt = ast.unparse(f)
        kws = {k.arg: k.value for k in node.keywords}
        star_kwargs = [k.value for k in node.keywords if k.arg is None]
        # accountant primitives
        if ftxt == "BudgetAccountant.load_default":
            self.err(f"`{ast.unparse(node)}` outside the resolving assignment")
        if isinstance(f, ast.Attribute) and f.attr in ("check", "spend") and \
                (f.attr == "spend" or self.looks_like_accountant(f.value)):
            if isinstance(f.value, ast.Call) and ast.unparse(f.value.func) == "BudgetAccountant.load_default":
                ref = "other"          # an accountant resolved on the spot is not the one that was checked
            else:
                self.expr(f.value, out)
                ref = self.acc_ref(f.value)
            if len(node.args) != 2 or node.keywords:
                self.err(f"`{ast.unparse(node)}`: expected two positional arguments")
            if ref == "fresh":
                self.err(f"`{ast.unparse(node)}` on a throw-away accountant")
            out.append(("ev", f".{f.attr} {self.b(ref == 'own')} {self.E(node.args[0])} {self.E(node.args[1])}"))
            return
        if ftxt == "_check_cells":
            if len(node.args) != 4 or node.keywords:
                self.err("`_check_cells` call shape")
            ref = self.acc_ref(node.args[0])
            out.append(("ev", f".cellCheck {self.b(ref == 'own')} " + " ".join(self.E(a) for a in node.args[1:])))
            return
        # arguments first
        self.pending_funcs = set()
        if not (isinstance(f, ast.Name) and (f.id in self.ix.takes_acc)):
            self.expr(f, out)
        for a in node.args:
            self.expr(a.value if isinstance(a, ast.Starred) else a, out)
        for k in node.keywords:
            if k.arg != "accountant":
                self.expr(k.value, out)
        pending, self.pending_funcs = self.pending_funcs, set()
        if isinstance(f, ast.Attribute) and f.attr == "randomise":
            out.append(("ev", f".mech {self.it.name_id('randomise')}"))
            return
        is_helper = isinstance(f, ast.Name) and f.id in self.ix.takes_acc
        callback = isinstance(f, ast.Name) and self.own_kwargs and f.id in _params(self.fn)   # `func(...)` in _wrap_axis
        if isinstance(f, ast.Name) and f.id in self.ix.model_classes:
            return                       # constructing an estimator draws nothing
        if "accountant" in kws or is_helper or callback:
            if "accountant" in kws:
                ref = self.acc_ref(kws["accountant"])
            elif self.own_kwargs and any(isinstance(s, ast.Name) and s.id == self.kwarg for s in star_kwargs):
                ref = "own"
            else:
                ref = "other"            # accountant not handed on: the callee charges the default
            if "epsilon" in kws:
                eps = self.E(kws["epsilon"])
            else:
                eps = f"(.atom {self.it.expr_id('<epsilon not passed: ' + ftxt + '>')})"
            if ref == "fresh":
                out.append(("ev", f".sub {self.it.name_id(ftxt)}"))
            else:
                out.append(("ev", f".call {self.b(ref == 'own')} {eps}"))
            return
        if pending:
            self.err(f"accountant-taking function(s) {sorted(pending)} passed to `{ftxt}` without an accountant")

    # ---- statements
    def block(self, stmts):
        out = []
        for st in stmts:
            self.stmt(st, out)
        return out

    def assign_target(self, t, value, out):
        txt = ast.unparse(t)
        if txt in OWN_EPS and (self.is_method or txt == "epsilon") and self.fn.name != "__init__":
            self.err("the own epsilon is re-assigned")
        if txt == "self.accountant" and self.is_method and self.fn.name != "__init__":
            self.err("self.accountant is re-assigned outside __init__")
        if isinstance(t, ast.Name):
            if t.id == "accountant" and not self.is_method:
                self.acc_rebound = True
            if value is not None and ast.unparse(value) == "BudgetAccountant()":
                self.env[t.id] = "fresh"
            elif value is not None and isinstance(value, ast.Call) and \
                    ast.unparse(value.func) in ("BudgetAccountant", "BudgetAccountant.load_default"):
                self.env[t.id] = "other"
            elif value is not None and isinstance(value, ast.Call) and isinstance(value.func, ast.Name) and \
                    value.func.id in self.ix.noisy_classes():
                self.env[t.id] = ("inst", value.func.id)
            else:
                self.env.pop(t.id, None)
        elif isinstance(t, (ast.Tuple, ast.List)):
            for e in t.elts:
                self.assign_target(e, None, out)
        else:
            self.expr(t, out)

    def is_resolve(self, st):
        if not (isinstance(st, ast.Assign) and len(st.targets) == 1 and isinstance(st.value, ast.Call)):
            return False
        if ast.unparse(st.value.func) != "BudgetAccountant.load_default":
            return False
        tgt = ast.unparse(st.targets[0])
        arg = ast.unparse(st.value.args[0]) if len(st.value.args) == 1 and not st.value.keywords else None
        if self.is_method:
            return self.fn.name == "__init__" and tgt == "self.accountant" and arg == "accountant" and \
                "accountant" in _params(self.fn)
        return tgt == "accountant" and arg == "accountant" and self.has_acc_param and not self.acc_rebound

    def stmt(self, st, out):
        if isinstance(st, ast.Expr) and isinstance(st.value, ast.Constant):
            return
        if self.is_resolve(st):
            out.append(("ev", ".resolve"))
            return
        if isinstance(st, ast.Assign):
            self.expr(st.value, out)
            for t in st.targets:
                self.assign_target(t, st.value, out)
        elif isinstance(st, ast.AugAssign):
            self.expr(st.value, out)
            self.assign_target(st.target, None, out)
        elif isinstance(st, ast.AnnAssign):
            self.expr(st.value, out)
            self.assign_target(st.target, st.value, out)
        elif isinstance(st, ast.Expr):
            self.expr(st.value, out)
        elif isinstance(st, ast.Return):
            self.expr(st.value, out)
            out.append(("ev", f".ret {self.b(st.value is not None and ast.unparse(st.value) == 'self')}"))
        elif isinstance(st, ast.Raise):
            out.append(("ev", ".raise"))
        elif isinstance(st, ast.If):
            self.expr(st.test, out)
            env0, reb0 = dict(self.env), self.acc_rebound
            a = self.block(st.body)
            env1, reb1 = self.env, self.acc_rebound
            self.env, self.acc_rebound = dict(env0), reb0
            c = self.block(st.orelse)
            self.env = {k: v for k, v in self.env.items() if env1.get(k) == v}
            for k in set(env1) | set(self.env):
                if env1.get(k) != self.env.get(k):
                    self.env[k] = "other"
            self.acc_rebound = reb1 or self.acc_rebound
            if a or c:
                out.append(("branch", a, c))
        elif isinstance(st, (ast.For, ast.While)):
            self.expr(st.iter if isinstance(st, ast.For) else None, out)
            body = []
            if isinstance(st, ast.While):
                self.expr(st.test, body)
            else:
                self.assign_target(st.target, None, body)
            body += self.block(st.body)
            if st.orelse:
                tail = self.block(st.orelse)
                if tail:
                    self.err("charge-relevant for/while ... else")
            if any(self._has(body, k) for k in (".ret", ".raise")) and isinstance(st, ast.While):
                pass
            if body:
                out.append(("loop", body))
        elif isinstance(st, ast.With):
            for it in st.items:
                self.expr(it.context_expr, out)
            out.extend(self.block(st.body))
        elif isinstance(st, ast.Try):
            inner = self.block(st.body) + [x for h in st.handlers for x in self.block(h.body)] + \
                self.block(st.orelse) + self.block(st.finalbody)
            if inner:
                self.err("charge-relevant statements inside try/except")
        elif isinstance(st, (ast.FunctionDef, ast.ClassDef)):
            inner = Extractor(self.ix, self.it, self.fn, self.cls)
            inner.env = dict(self.env)
            try:
                got = inner.block(st.body) if isinstance(st, ast.FunctionDef) else []
            except TranslatorError:
                got = ["?"]
            if [g for g in got if g != ("ev", ".ret false")]:
                self.err(f"nested def `{st.name}` with charge-relevant body")
        elif isinstance(st, (ast.Pass, ast.Import, ast.ImportFrom, ast.Assert, ast.Delete, ast.Global, ast.Nonlocal,
                             ast.Break, ast.Continue)):
            if isinstance(st, (ast.Break, ast.Continue)):
                pass        # leaving an iteration early = a shorter path through a loop whose body is already optional
        else:
            self.err(f"unsupported statement {type(st).__name__}")

    @staticmethod
    def _has(tree, prefix):
        for n in tree:
            if n[0] == "ev" and n[1].startswith(prefix):
                return True
            if n[0] in ("branch", "loop") and any(Extractor._has(x, prefix) for x in n[1:]):
                return True
        return False

    def run(self):
        self.pending_funcs = set()
        body = self.block(self.fn.body)
        # break/continue inside a loop whose later statements matter would need a finer model
        for n in ast.walk(self.fn):
            if isinstance(n, (ast.For, ast.While)):
                evs = Extractor(self.ix, self.it, self.fn, self.cls)
                evs.env = dict(self.env)
                evs.pending_funcs = set()
                try:
                    inner = evs.block(n.body)
                except TranslatorError:
                    inner = ["?"]
                if inner and any(isinstance(x, (ast.Break, ast.Continue)) for b in n.body for x in ast.walk(b)):
                    self.err("break/continue in a charge-relevant loop")
        if self.fn.name != "__init__":
            last = self.fn.body[-1]
            if not isinstance(last, (ast.Return, ast.Raise)):
                body.append(("ev", ".ret false"))
        elif self._has(body, ".ret"):
            self.err("explicit return in __init__")
        return body


def lean_sk(tree, ind=2):
    pad = " " * ind

    def one(n, ind):
        p = " " * ind
        if n[0] == "ev":
            return f"{p}.atom ({n[1]})"
        if n[0] == "branch":
            return f"{p}.branch\n{blk(n[1], ind + 2)}\n{blk(n[2], ind + 2)}"
        if n[0] == "loop":
            return f"{p}.loop\n{blk(n[1], ind + 2)}"
        raise TranslatorError(f"internal: node {n[0]}")

    def blk(ns, ind):
        p = " " * ind
        if not ns:
            return f"{p}.skip"
        return f"{p}(Sk.block [\n" + ",\n".join(one(x, ind + 2) for x in ns) + "])"

    return blk(tree, ind) if tree else pad + ".skip"


def _size(tree):
    return sum(1 + sum(_size(x) for x in n[1:] if isinstance(x, list)) for n in tree)


def lean_ident(name):
    return "sk_" + name.replace(".", "_")


def analyse(repo):
    """-> (entries: [(name, kind, skeleton)], unavailable: [str], interner)"""
    ix = Index(repo)
    it = Interner()
    entries, unavailable = [], []
    todo = []
    for rel in TOOL_FILES:
        for node in ix.trees[rel].body:
            if isinstance(node, ast.FunctionDef) and node.name in ix.takes_acc and node.name not in PRIMITIVES:
                todo.append((node.name, "tool", node, None))
    for rel in MODEL_FILES:
        for node in ix.trees[rel].body:
            if not isinstance(node, ast.ClassDef) or node.name not in ix.model_classes:
                continue
            ms = [m for m in node.body if isinstance(m, ast.FunctionDef)]
            touching = [m for m in ms if m.name != "__init__" and Index._mentions_self_acc(m)]
            if not touching:
                unavailable.append(f"{node.name}: no method mentions self.accountant")
                continue
            todo.append((f"{node.name}.__init__", "ctor", ix.classes[node.name]["__init__"], node.name))
            for m in touching:
                todo.append((f"{node.name}.{m.name}", "method", m, node.name))
    if len([t for t in todo if t[1] == "tool"]) < 10 or len([t for t in todo if t[1] == "method"]) < 5:
        raise TranslatorError("entry points not found (tools/models moved?)")
    for name, kind, fn, cls in todo:
        try:
            if fn.decorator_list and any(not ast.unparse(d).startswith(("copy_docstring", "staticmethod"))
                                         for d in fn.decorator_list):
                raise TranslatorError(f"{name}: decorated with {[ast.unparse(d) for d in fn.decorator_list]}")
            sk = Extractor(ix, it, fn, cls).run()
            if _size(sk) > 400:
                raise TranslatorError(f"{name}: skeleton too large ({_size(sk)} nodes)")
            entries.append((name, kind, sk))
        except TranslatorError as e:
            unavailable.append(str(e))
        except RecursionError:
            unavailable.append(f"{name}: expression nesting too deep")
    return entries, unavailable, it


OBLIGATION = {"tool": "wellCharged", "method": "wellChargedM", "ctor": "ctorResolves"}


def lean_source(entries, it):
    L = ["/- GENERATED by harness/translate/charges.py from the sources of /repo on every run — do not edit.",
         "",
         "expression ids (0 is always the entry point's own epsilon):"]
    for t, i in sorted(it.exprs.items(), key=lambda kv: kv[1]):
        L.append(f"  {i} = {t}")
    L.append("mechanism / helper ids:")
    for t, i in sorted(it.names.items(), key=lambda kv: kv[1]):
        L.append(f"  {i} = {t}")
    L += ["-/", "import DPL.Model.ChargeIR", "namespace DPL.Generated.C09Charges", "open DPL DPL.ChargeIR", ""]
    for name, kind, sk in entries:
        ident = lean_ident(name)
        L.append(f"def {ident} : Sk :=\n{lean_sk(sk)}")
        L.append(f"theorem {ident}_ok : {OBLIGATION[kind]} {ident} = true := by decide +kernel")
        L.append("")
    L += ["end DPL.Generated.C09Charges", ""]
    return "\n".join(L)


def generate(repo, lean_dir):
    entries, unavailable, it = analyse(repo)
    src = lean_source(entries, it)
    d = os.path.join(lean_dir, "DPL", "Generated")
    os.makedirs(d, exist_ok=True)
    p = os.path.join(d, "C09Charges.lean")
    old = open(p).read() if os.path.exists(p) else None
    if old != src:
        with open(p, "w") as f:
            f.write(src)
    return {"entries": [e[0] for e in entries], "obligations": len(entries), "unavailable": unavailable, "path": p}
