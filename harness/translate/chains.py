"""C13 translator: the validation chains of every mechanism class, extracted from the CURRENT sources of /repo, as Lean
data (lean/DPL/Generated/C13Chains.lean) together with the obligations that they equal the hand-written tables the
theorems are about (DPL.Val.chainOf / checkAllBlocks / ctorBlocks / ctorFix).

For every concrete class of diffprivlib.mechanisms and every `_check_*` method the method found along the class's real
MRO is parsed and flattened into its sequence of `if <test>: raise <Exc>` steps; `super()._check_x(...)` /
`Base._check_x(...)` calls are replaced by the flattened chain of the method they resolve to.  `_check_all` and
`__init__` are flattened the same way into the ORDER of the blocks they run (inline tests on the value to randomise form
the `value` block).  Each test is recognised by its exact source text (TESTS); anything else raises Untranslatable.
"""
import ast
import inspect
import os
import textwrap


class Untranslatable(Exception):
    pass


MECHS = ["Binary", "Bingham", "Exponential", "PermuteAndFlip", "ExponentialCategorical", "ExponentialHierarchical",
         "Gaussian", "GaussianAnalytic", "GaussianDiscrete", "Geometric", "GeometricTruncated", "GeometricFolded",
         "Laplace", "LaplaceTruncated", "LaplaceFolded", "LaplaceBoundedDomain", "LaplaceBoundedNoise", "Snapping",
         "Staircase", "Uniform", "Vector"]
BLOCKS = ["epsDelta", "sensitivity", "bounds", "labels", "utility", "gamma", "alpha", "dimension", "nLt1", "value"]
METHOD_BLOCK = {"_check_epsilon_delta": "epsDelta", "_check_sensitivity": "sensitivity", "_check_bounds": "bounds",
                "_check_labels": "labels", "_check_utility_candidates_measure": "utility", "_check_gamma": "gamma",
                "_check_alpha": "alpha", "_check_dimension": "dimension"}
ERR = {"TypeError": "typeError", "ValueError": "valueError"}

# exact source text of a test -> list of Lean `Pred` terms (an `A or B` test that raises one exception is the same as
# two consecutive steps)
TESTS = {
    "not isinstance(epsilon, Real) or not isinstance(delta, Real)": ["notRealEither epsilon delta"],
    "not epsilon >= 0": ["notGe0 epsilon"],
    "not 0 <= delta <= 1": ["notIn01 delta"],
    "epsilon + delta == 0": ["sumEq0 epsilon delta"],
    "not delta == 0": ["notEq0 delta"],
    "epsilon == 0 or delta == 0": ["eq0Either epsilon delta"],
    "isinstance(epsilon, Real) and epsilon > 1.0": ["realAndGt1 epsilon"],
    "epsilon == 0": ["eq0 epsilon"],
    "isinstance(delta, Real) and (not 0 < delta < 0.5)": ["realAndNotIn0Half delta"],
    "not epsilon == 0": ["notEq0 epsilon"],
    "not 0 < delta <= 0.5": ["notIn0HalfClosed delta"],
    "epsilon <= 2 * machine_epsilon": ["leTwoEpsneg epsilon"],
    "not isinstance(sensitivity, Real)": ["notReal sensitivity"],
    "not isinstance(sensitivity, Integral)": ["notIntegral sensitivity"],
    "not sensitivity >= 0": ["notGe0 sensitivity"],
    "not isinstance(function_sensitivity, Real) or not isinstance(data_sensitivity, Real)":
        ["notRealEither sensitivity dataSensitivity"],
    "not function_sensitivity >= 0 or not data_sensitivity >= 0": ["notGe0 sensitivity", "notGe0 dataSensitivity"],
    "not isinstance(lower, Real) or not isinstance(upper, Real)": ["notRealEither lower upper"],
    "lower > upper": ["gt lower upper"],
    "not isinstance(lower, Integral) and abs(lower) != float('inf')": ["notIntegralNotInf lower"],
    "not isinstance(upper, Integral) and abs(upper) != float('inf')": ["notIntegralNotInf upper"],
    "not np.isclose(2 * lower, np.round(2 * lower)) or not np.isclose(2 * upper, np.round(2 * upper))":
        ["notHalfIntEither lower upper"],
    "not np.isfinite(upper - lower)": ["notFiniteDiff upper lower"],
    "not isinstance(gamma, Real)": ["notReal gamma"],
    "not 0.0 <= gamma <= 1.0": ["notIn01 gamma"],
    "not isinstance(alpha, Real)": ["notReal alpha"],
    "alpha <= 0": ["le0 alpha"],
    "not isinstance(vector_dim, Real) or not np.isclose(vector_dim, int(vector_dim))": ["dimNotInt dimension"],
    "int(vector_dim) < 1": ["dimLt1 dimension"],
    "not isinstance(value0, str) or not isinstance(value1, str)": ["flag labelsNotStr"],
    "len(value0) * len(value1) == 0": ["flag labelsEmpty"],
    "value0 == value1": ["flag labelsEqual"],
    "not isinstance(utility, list)": ["flag utilNotList"],
    "not all((isinstance(u, Real) for u in utility))": ["flag utilNonReal"],
    "len(utility) < 1": ["flag utilEmpty"],
    "np.isinf(utility).any()": ["flag utilInf"],
    "not isinstance(candidates, list)": ["flag candNotList"],
    "len(candidates) != len(utility)": ["flag candLen"],
    "not isinstance(measure, list)": ["flag measNotList"],
    "not all((isinstance(m, Real) for m in measure))": ["flag measNonReal"],
    "np.isinf(measure).any()": ["flag measInf"],
    "not all((m >= 0 for m in measure))": ["flag measNegative"],
    "len(measure) != len(utility)": ["flag measLen"],
    # tests on the value inside _check_all
    "not isinstance(value, Real)": ["notReal value"],
    "not isinstance(value, Integral)": ["notIntegral value"],
    "not isinstance(value, str)": ["flag valueNotStr"],
    "value not in [self.value0, self.value1]": ["flag valueNotInDomain"],
    "value not in self._domain_values": ["flag valueNotInDomain"],
    "value is not None": ["flag valueNotNone"],
    "not callable(value)": ["flag valueNotCallable"],
    "not isinstance(value, np.ndarray)": ["flag valueNotArray"],
    "value.ndim != 2": ["flag valueBadShape"],
    "value.shape[0] != value.shape[1]": ["flag valueBadShape"],
    "not np.allclose(value, value.T)": ["flag valueBadShape"],
    "self.n < 1": ["flag Flag.nLt1"],
}
# assignments that a recognised test relies on
REQUIRED_ASSIGN = {"epsilon <= 2 * machine_epsilon": "machine_epsilon = np.finfo(float).epsneg"}
# guards that only skip optional structured arguments (their tests are abstracted to flags that are False then)
TRANSPARENT_IFS = {"candidates is not None", "measure is not None"}


ALLOWED_DECORATORS = ("classmethod", "staticmethod", "copy_docstring(", "abc.abstractmethod")


def _fn_ast(fn):
    src = textwrap.dedent(inspect.getsource(fn))
    node = ast.parse(src).body[0]
    # a decorator such as functools.lru_cache / cached_property changes WHEN (and on which arguments) the body runs: the
    # extracted chain would then no longer describe what a call does
    for d in node.decorator_list:
        txt = ast.unparse(d)
        if not txt.startswith(ALLOWED_DECORATORS):
            raise Untranslatable(f"{fn.__qualname__} is wrapped by @{txt}: the checks may not run on every call")
    return node


def _resolve(inst_cls, after_cls, name):
    """the class after `after_cls` (or from the start if None) in inst_cls's MRO that defines `name`"""
    mro = list(inst_cls.__mro__)
    start = 0 if after_cls is None else mro.index(after_cls) + 1
    for c in mro[start:]:
        if name in c.__dict__:
            return c
    return None


def _unwrap(f):
    while isinstance(f, (classmethod, staticmethod)):
        f = f.__func__
    return getattr(f, "__wrapped__", f)


def _call_target(call):
    """('super', name) | ('class', ClassName, name) | ('self', name) | None"""
    f = call.func
    if not isinstance(f, ast.Attribute):
        return None
    v = f.value
    if isinstance(v, ast.Call) and isinstance(v.func, ast.Name) and v.func.id == "super":
        return ("super", f.attr)
    if isinstance(v, ast.Name) and v.id in ("self", "cls"):
        return ("self", f.attr)
    if isinstance(v, ast.Name) and v.id[:1].isupper():
        return ("class", v.id, f.attr)
    return None


def _calls_in(stmt):
    return [n for n in ast.walk(stmt) if isinstance(n, ast.Call) and _call_target(n)]


def flatten_check(inst_cls, def_cls, name, by_name):
    """chain of (pred, err) of method `name` as defined in def_cls, for an instance of inst_cls"""
    fn = _unwrap(def_cls.__dict__[name])
    node = _fn_ast(fn)
    assigns = {ast.unparse(s) for s in ast.walk(node) if isinstance(s, ast.Assign)}
    out = []

    def splice(call):
        t = _call_target(call)
        if t[0] == "super" and t[1] == name:
            c = _resolve(inst_cls, def_cls, name)
        elif t[0] == "class" and t[2] == name:
            c = by_name[t[1]]
        else:
            return False
        if c is None:
            raise Untranslatable(f"{def_cls.__name__}.{name}: no target for {ast.unparse(call)}")
        out.extend(flatten_check(inst_cls, c, name, by_name))
        return True

    def walk(stmts):
        for st in stmts:
            if isinstance(st, ast.If):
                txt = ast.unparse(st.test)
                raises = [s for s in st.body if isinstance(s, ast.Raise)]
                if raises and len(st.body) == 1 and not st.orelse:
                    if txt not in TESTS:
                        raise Untranslatable(f"{def_cls.__name__}.{name}: unknown test `{txt}`")
                    if txt in REQUIRED_ASSIGN and REQUIRED_ASSIGN[txt] not in assigns:
                        raise Untranslatable(f"{def_cls.__name__}.{name}: `{txt}` without `{REQUIRED_ASSIGN[txt]}`")
                    exc = raises[0].exc
                    en = exc.func.id if isinstance(exc, ast.Call) else exc.id
                    if en not in ERR:
                        raise Untranslatable(f"{def_cls.__name__}.{name}: raises {en}")
                    for p in TESTS[txt]:
                        out.append((p, ERR[en]))
                elif txt in TRANSPARENT_IFS and not st.orelse:
                    walk(st.body)
                elif any(isinstance(s, ast.Raise) for s in ast.walk(st)):
                    raise Untranslatable(f"{def_cls.__name__}.{name}: unsupported `if {txt}` containing a raise")
                # an `if` without raise (Staircase: gamma default) does not validate anything
            elif isinstance(st, (ast.Return, ast.Assign, ast.Expr)):
                for c in _calls_in(st):
                    splice(c)
            elif isinstance(st, ast.Raise):
                raise Untranslatable(f"{def_cls.__name__}.{name}: unconditional raise")
    walk(node.body)
    return out


def chain_for(cls, method, by_name):
    c = _resolve(cls, None, method)
    if c is None:
        return []
    return flatten_check(cls, c, method, by_name)


def dedupe(steps):
    out = []
    for s in steps:
        if not out or out[-1] != s:
            out.append(s)
    return out


def flatten_order(inst_cls, def_cls, name, by_name, inline):
    """order of blocks run by `_check_all` / `__init__`; inline tests are appended to `inline` (block name, pred, err)"""
    fn = _unwrap(def_cls.__dict__[name])
    node = _fn_ast(fn)
    order = []
    fixed = {}

    def add(b):
        if b not in order:
            order.append(b)

    for st in node.body:
        if isinstance(st, ast.If):
            txt = ast.unparse(st.test)
            if any(isinstance(s, ast.Raise) for s in st.body):
                if name == "__init__":
                    continue        # constructor-only guards (mixin used without a mechanism) are not parameter checks
                if txt not in TESTS:
                    raise Untranslatable(f"{def_cls.__name__}.{name}: unknown test `{txt}`")
                exc = [s for s in st.body if isinstance(s, ast.Raise)][0].exc
                en = exc.func.id if isinstance(exc, ast.Call) else exc.id
                b = "nLt1" if txt == "self.n < 1" else "value"
                add(b)
                for p in TESTS[txt]:
                    inline.append((b, p, ERR[en]))
            continue
        for c in _calls_in(st):
            t = _call_target(c)
            if (t[0] == "super" and t[1] == name) or (t[0] == "class" and t[2] == name):
                target = _resolve(inst_cls, def_cls, name) if t[0] == "super" else by_name[t[1]]
                if target is None:
                    continue
                sub, subfixed = flatten_order(inst_cls, target, name, by_name, inline)
                for kw in c.keywords:
                    if kw.arg in ("epsilon", "delta") and isinstance(kw.value, ast.Constant):
                        fixed[kw.arg] = kw.value.value
                fixed.update({k: v for k, v in subfixed.items() if k not in fixed})
                for b in sub:
                    add(b)
            elif t[0] == "self" and t[1] in METHOD_BLOCK:
                add(METHOD_BLOCK[t[1]])
    return order, fixed


def first_statement_is_check_all(cls):
    c = _resolve(cls, None, "randomise")
    node = _fn_ast(_unwrap(c.__dict__["randomise"]))
    body = [s for s in node.body if not (isinstance(s, ast.Expr) and isinstance(s.value, ast.Constant))]
    return bool(body) and ast.unparse(body[0]) == "self._check_all(value)"


def extract(mechanisms_module):
    by_name = {n: getattr(mechanisms_module, n) for n in dir(mechanisms_module)
               if inspect.isclass(getattr(mechanisms_module, n))}
    res = {}
    for m in MECHS:
        cls = by_name[m]
        chains = {b: [] for b in BLOCKS}
        for meth, b in METHOD_BLOCK.items():
            chains[b] = dedupe(chain_for(cls, meth, by_name))
        inline = []
        ca_cls = _resolve(cls, None, "_check_all")
        check_all, _ = flatten_order(cls, ca_cls, "_check_all", by_name, inline)
        for b in ("value", "nLt1"):
            chains[b] = dedupe([(p, e) for bb, p, e in inline if bb == b])
        ctor, fixed = flatten_order(cls, _resolve(cls, None, "__init__"), "__init__", by_name, [])
        # blocks whose chain is empty for this class are not listed in the hand tables
        check_all = [b for b in check_all if chains[b]]
        ctor = [b for b in ctor if chains[b]]
        res[m] = {"chains": chains, "check_all": check_all, "ctor": ctor, "fixed": fixed,
                  "starts": first_statement_is_check_all(cls)}
    return res


def _lean_const(v):
    if isinstance(v, bool):
        return f"(.bool {'true' if v else 'false'})"
    if isinstance(v, int):
        return f"(.int {v})"
    if isinstance(v, float) and v == 0.0:
        return "(.flt .zero)"
    raise Untranslatable(f"constructor constant {v!r}")


def emit(res):
    L = ["/- GENERATED by harness/translate/chains.py from the sources of /repo on every run — do not edit. -/",
         "import DPL.Model.Validation", "namespace DPL.Generated.C13Chains",
         "open DPL DPL.Val DPL.Val.Pred DPL.Val.Var DPL.Val.VErr DPL.Val.Flag", "",
         "def genChain : Mech → Block → Chain"]
    n_chains = 0
    for m in MECHS:
        for b in BLOCKS:
            steps = res[m]["chains"][b]
            if steps:
                n_chains += 1
            body = ", ".join(f"⟨{p}, {e}⟩" for p, e in steps)
            L.append(f"  | .{m}, .{b} => [{body}]")
    L += ["", "def genCheckAll : Mech → List Block"]
    for m in MECHS:
        L.append(f"  | .{m} => [" + ", ".join("." + b for b in res[m]["check_all"]) + "]")
    L += ["", "def genCtor : Mech → List Block"]
    for m in MECHS:
        L.append(f"  | .{m} => [" + ", ".join("." + b for b in res[m]["ctor"]) + "]")
    L += ["", "def genCtorFix : Mech → Option (Var × PyVal)"]
    for m in MECHS:
        fx = res[m]["fixed"]
        if len(fx) > 1:
            raise Untranslatable(f"{m}: constructor fixes {fx}")
        if fx:
            (k, v), = fx.items()
            L.append(f"  | .{m} => some (.{k}, {_lean_const(v)})")
        else:
            L.append(f"  | .{m} => none")
    L += ["", "/-- is `self._check_all(value)` the first statement of the class's `randomise`? -/",
          "def genStartsWithCheckAll : Mech → Bool"]
    for m in MECHS:
        L.append(f"  | .{m} => {'true' if res[m]['starts'] else 'false'}")
    L += ["",
          "/-- every `_check_*` chain extracted from the current sources is the hand-written one the theorems are about -/",
          "theorem chains_eq (m : Mech) (b : Block) : genChain m b = chainOf m b := by cases m <;> cases b <;> rfl", "",
          "theorem checkAll_eq (m : Mech) : genCheckAll m = checkAllBlocks m := by cases m <;> rfl", "",
          "theorem ctor_eq (m : Mech) : genCtor m = ctorBlocks m := by cases m <;> rfl", "",
          "theorem ctorFix_eq (m : Mech) : genCtorFix m = ctorFix m := by cases m <;> rfl", "",
          "theorem randomise_starts_with_check_all (m : Mech) : genStartsWithCheckAll m = true := by cases m <;> rfl", "",
          "end DPL.Generated.C13Chains", ""]
    return "\n".join(L), n_chains


def generate(repo, lean_dir):
    import importlib
    import sys
    if repo not in sys.path:
        sys.path.insert(0, repo)
    mech = importlib.import_module("diffprivlib.mechanisms")
    if not os.path.realpath(mech.__file__).startswith(os.path.realpath(repo)):
        raise Untranslatable(f"diffprivlib.mechanisms comes from {mech.__file__}, not from {repo}")
    res = extract(mech)
    src, n = emit(res)
    d = os.path.join(lean_dir, "DPL", "Generated")
    os.makedirs(d, exist_ok=True)
    p = os.path.join(d, "C13Chains.lean")
    old = open(p).read() if os.path.exists(p) else None
    if old != src:
        with open(p, "w") as f:
            f.write(src)
    return {"chains": n, "obligations": 5, "path": p}
