"""C04 translator: the bodies of `BudgetAccountant.check`, `BudgetAccountant.spend` and the `slack` setter are re-read from
/repo's CURRENT AST (diffprivlib/accountant.py; `Budget.__ge__`/`__le__` from diffprivlib/utils.py for comparisons of
budgets) and emitted as terms of the IR of `lean/DPL/Model/AccountantIR.lean`.  The generated file
`lean/DPL/Generated/C04Methods.lean` proves, with the scripts that prove it for the hand copies
(`lean/DPL/Proofs/AccountantIR.lean`), that the interpreter run on the GENERATED bodies is the model's `Acc.step` — the
machine the C04 theorems are about.

What the translator understands (anything else raises `TranslatorError` for that method, which the caller lists as an
unavailable static tie — never a violation, never a crash):
  atoms        the parameters | 0 | 1 | self.epsilon | self.delta | self.slack | self.__min_epsilon |
               the two names bound by `a, b = self.total(…)`
  guards       comparisons `< <= > >= ==` of atoms (chains allowed), `X == float("inf")`, `and` / `or` / `not`,
               `P >= Q` / `P <= Q` / `P > Q` / `P < Q` with P, Q budgets (`Budget(self.epsilon, self.delta)`, `self.total(…)`, a local bound
               to one) — expanded with the CURRENT bodies of `Budget.__ge__` / `__le__` / `__gt__` / `__lt__` (tuple `__eq__`)
  statements   `check_epsilon_delta(a, b[, allow_zero=const])` | `if G: return True|self` | `if G: raise X(…)` |
               `<local> = self.spent_budget + [(a, b)]` | `[x | a, b] = self.total([spent_budget=…][, slack=…])` |
               `raise X(…)` (X = ValueError | BudgetError | TypeError) | `self.check(a, b)` |
               `self.__spent_budget.append((a, b))` | `self.__slack = float(a)` | `return True|self` | docstring | pass
What it trusts (TRUSTED line in harness/props/c04.py): `Budget(self.epsilon, self.delta)` does not raise (the ceilings were
validated by the constructor); `float(x)` is the identity on the model's carrier; a call of `self.total(…)` inside a guard
is evaluated before the comparison it takes part in.  Checked as extra obligations: the four property getters return the
private attributes (`spent_budget` a copy), every `return` of `total()` is a `Budget(…)`.
"""
import ast
import os

CLASS = "BudgetAccountant"
ERRS = {"ValueError": ".valueError", "BudgetError": ".budgetError", "TypeError": ".typeError"}
GETTERS = ("epsilon", "delta", "slack", "spent_budget")


class TranslatorError(Exception):
    pass


def _is_num(e, v):
    return (isinstance(e, ast.Constant) and not isinstance(e.value, bool) and isinstance(e.value, (int, float))
            and e.value == v)


def _is_inf(e):
    if (isinstance(e, ast.Call) and isinstance(e.func, ast.Name) and e.func.id == "float" and len(e.args) == 1
            and not e.keywords and isinstance(e.args[0], ast.Constant) and isinstance(e.args[0].value, str)):
        return e.args[0].value.strip().lower() in ("inf", "+inf", "infinity", "+infinity")
    if isinstance(e, ast.Attribute) and isinstance(e.value, ast.Name) and e.value.id in ("np", "numpy", "math") \
            and e.attr == "inf":
        return True
    return False


def _cond(e, atom, pair_cmp, where, call=None):
    """guard -> Cond term.  `atom(expr)` -> Atom term or raises; `pair_cmp(l, op, r)` -> Cond term or None;
    `call(expr)` -> Cond term or None for a call used as a truth value"""
    if isinstance(e, ast.Call) and call is not None:
        c = call(e)
        if c is not None:
            return c
    if isinstance(e, ast.BoolOp):
        parts = [_cond(v, atom, pair_cmp, where, call) for v in e.values]
        k = ".and" if isinstance(e.op, ast.And) else ".or"
        t = parts[-1]
        for p in reversed(parts[:-1]):
            t = f"({k} {p} {t})"
        return t
    if isinstance(e, ast.UnaryOp) and isinstance(e.op, ast.Not):
        return f"(.not {_cond(e.operand, atom, pair_cmp, where, call)})"
    if isinstance(e, ast.Compare):
        links = []
        left = e.left
        for op, right in zip(e.ops, e.comparators):
            links.append(_link(left, op, right, atom, pair_cmp, where))
            left = right
        t = links[-1]
        for p in reversed(links[:-1]):
            t = f"(.and {p} {t})"
        return t
    raise TranslatorError(f"{where}: guard `{ast.unparse(e)}`")


def _link(l, op, r, atom, pair_cmp, where):
    if pair_cmp is not None:
        c = pair_cmp(l, op, r)
        if c is not None:
            return c
    if isinstance(op, (ast.Eq, ast.NotEq)) and (_is_inf(l) or _is_inf(r)):
        if _is_inf(l) and _is_inf(r):
            raise TranslatorError(f"{where}: `inf == inf`")
        t = f"(.isInf {atom(r if _is_inf(l) else l)})"
        return t if isinstance(op, ast.Eq) else f"(.not {t})"
    a, b = atom(l), atom(r)
    if isinstance(op, ast.Lt):
        return f"(.lt {a} {b})"
    if isinstance(op, ast.LtE):
        return f"(.le {a} {b})"
    if isinstance(op, ast.Gt):
        return f"(.lt {b} {a})"
    if isinstance(op, ast.GtE):
        return f"(.le {b} {a})"
    if isinstance(op, ast.Eq):
        return f"(.eq {a} {b})"
    if isinstance(op, ast.NotEq):
        return f"(.not (.eq {a} {b}))"
    raise TranslatorError(f"{where}: comparison `{ast.unparse(l)} {type(op).__name__} {ast.unparse(r)}`")


def _strip_doc(body):
    out = []
    for st in body:
        if isinstance(st, ast.Expr) and isinstance(st.value, ast.Constant) and isinstance(st.value.value, str):
            continue
        if isinstance(st, ast.Pass):
            continue
        out.append(st)
    return out


class BudgetOrder:
    """`Budget.__ge__` / `Budget.__le__` of the current utils.py as guard templates over (self[0], self[1], other[0], other[1])"""

    def __init__(self, repo):
        path = os.path.join(repo, "diffprivlib", "utils.py")
        try:
            tree = ast.parse(open(path).read())
        except (OSError, SyntaxError) as e:
            raise TranslatorError(f"utils.py: {e}")
        cls = next((n for n in tree.body if isinstance(n, ast.ClassDef) and n.name == "Budget"), None)
        if cls is None:
            raise TranslatorError("class Budget not found")
        if not any(isinstance(b, ast.Name) and b.id == "tuple" for b in cls.bases):
            raise TranslatorError("Budget is no longer a tuple subclass")
        self.fns = {n.name: n for n in cls.body if isinstance(n, ast.FunctionDef)}

    def expand(self, method, p, q, depth=0):
        """Cond term of `P.<method>(Q)` for the pairs p = (p0, p1), q = (q0, q1) of Atom terms"""
        fn = self.fns.get(method)
        if fn is None and method == "__eq__":
            # not overridden: tuple equality, component by component
            return f"(.and (.eq {p[0]} {q[0]}) (.eq {p[1]} {q[1]}))"
        if fn is None or depth > 3:
            raise TranslatorError(f"Budget.{method} not found")
        args = [a.arg for a in fn.args.args]
        if len(args) != 2 or fn.decorator_list:
            raise TranslatorError(f"Budget.{method}: signature")
        env = {args[0]: p, args[1]: q}
        where = f"Budget.{method}"

        def atom(e):
            if (isinstance(e, ast.Subscript) and isinstance(e.value, ast.Name) and e.value.id in env
                    and isinstance(e.slice, ast.Constant) and e.slice.value in (0, 1)
                    and not isinstance(e.slice.value, bool)):
                return env[e.value.id][e.slice.value]
            raise TranslatorError(f"{where}: `{ast.unparse(e)}`")

        def call(e):
            # `self.__ge__(other)` etc. inside another comparison method
            f = e.func
            if (isinstance(f, ast.Attribute) and isinstance(f.value, ast.Name) and f.value.id in env and len(e.args) == 1
                    and not e.keywords and isinstance(e.args[0], ast.Name) and e.args[0].id in env
                    and f.attr in ("__ge__", "__le__", "__gt__", "__lt__", "__eq__")):
                return self.expand(f.attr, env[f.value.id], env[e.args[0].id], depth + 1)
            return None
        body = _strip_doc(fn.body)
        # `if G: return True` `return False`   |   `return G`
        if (len(body) == 2 and isinstance(body[0], ast.If) and not body[0].orelse and len(body[0].body) == 1
                and isinstance(body[0].body[0], ast.Return) and isinstance(body[0].body[0].value, ast.Constant)
                and body[0].body[0].value.value is True and isinstance(body[1], ast.Return)
                and isinstance(body[1].value, ast.Constant) and body[1].value.value is False):
            return _cond(body[0].test, atom, None, where, call)
        if len(body) == 1 and isinstance(body[0], ast.Return) and body[0].value is not None:
            return _cond(body[0].value, atom, None, where, call)
        raise TranslatorError(f"{where}: body has a new shape")


class _Body:
    def __init__(self, fn, kind, order, total_params):
        self.fn, self.kind, self.order, self.total_params = fn, kind, order, total_params
        self.where = {"check": "check", "spend": "spend", "slack": "slack.setter"}[kind]
        a = fn.args
        if a.vararg or a.kwarg or a.kwonlyargs or a.defaults or a.posonlyargs:
            raise TranslatorError(f"{self.where}: signature")
        params = [x.arg for x in a.args]
        want = 3 if kind in ("check", "spend") else 2
        if len(params) != want:
            raise TranslatorError(f"{self.where}: {len(params) - 1} parameters")
        self.selfname = params[0]
        self.names = ({params[1]: ".eps", params[2]: ".delta"} if want == 3 else {params[1]: ".argSlack"})
        self.spent_locals = {}      # local -> SpentExpr term
        self.pair_locals = set()    # locals bound to the Budget returned by the latest total()
        self.tot_names = {}         # local -> .totEps / .totDelta (of the latest total())

    def fail(self, msg):
        raise TranslatorError(f"{self.where}: {msg}")

    def self_attr(self, e, attr):
        return (isinstance(e, ast.Attribute) and isinstance(e.value, ast.Name) and e.value.id == self.selfname
                and e.attr == attr)

    def atom(self, e):
        if isinstance(e, ast.Name):
            if e.id in self.tot_names:
                return self.tot_names[e.id]
            if e.id in self.names:
                return self.names[e.id]
            self.fail(f"name `{e.id}`")
        if _is_num(e, 0):
            return ".zero"
        if _is_num(e, 1):
            return ".one"
        for attr, t in (("epsilon", ".ceilEps"), ("delta", ".ceilDelta"), ("slack", ".slack"),
                        ("__min_epsilon", ".minEps")):
            if self.self_attr(e, attr):
                return t
        self.fail(f"expression `{ast.unparse(e)}`")

    def pair_of_tuple(self, e):
        if isinstance(e, ast.Tuple) and len(e.elts) == 2:
            return self.atom(e.elts[0]), self.atom(e.elts[1])
        self.fail(f"`{ast.unparse(e)}` is not a pair")

    # ---- total(...) calls
    def is_total_call(self, e):
        return (isinstance(e, ast.Call) and isinstance(e.func, ast.Attribute) and e.func.attr == "total"
                and isinstance(e.func.value, ast.Name) and e.func.value.id == self.selfname)

    def spent_expr(self, e):
        if isinstance(e, ast.Constant) and e.value is None:
            return ".own"
        if isinstance(e, ast.Name) and e.id in self.spent_locals:
            return self.spent_locals[e.id]
        if (isinstance(e, ast.BinOp) and isinstance(e.op, ast.Add) and self.self_attr(e.left, "spent_budget")
                and isinstance(e.right, ast.List) and len(e.right.elts) == 1):
            a, b = self.pair_of_tuple(e.right.elts[0])
            return f"(.ownPlus {a} {b})"
        self.fail(f"spent_budget argument `{ast.unparse(e)}`")

    def slack_expr(self, e):
        if isinstance(e, ast.Constant) and e.value is None:
            return ".own"
        return f"(.given {self.atom(e)})"

    def total_call(self, e):
        """-> the `letTotal` statement; invalidates what earlier totals bound"""
        got = {}
        if len(e.args) > len(self.total_params):
            self.fail(f"`{ast.unparse(e)}`")
        for name, v in zip(self.total_params, e.args):
            got[name] = v
        for kw in e.keywords:
            if kw.arg not in self.total_params or kw.arg in got:
                self.fail(f"`{ast.unparse(e)}`")
            got[kw.arg] = kw.value
        sp = self.spent_expr(got["spent_budget"]) if "spent_budget" in got else ".own"
        sl = self.slack_expr(got["slack"]) if "slack" in got else ".own"
        self.pair_locals.clear()
        self.tot_names.clear()
        return f".letTotal {sp} {sl}"

    # ---- guards
    def guard(self, test):
        """-> (pre-statements, Cond term)"""
        pre = []
        # a total() call may only sit in a guard that is ONE comparison (no short-circuit can skip it)
        n_tot = sum(1 for n in ast.walk(test) if self.is_total_call(n))
        if n_tot and not (n_tot == 1 and isinstance(test, ast.Compare) and len(test.ops) == 1
                          and (self.is_total_call(test.left) or self.is_total_call(test.comparators[0]))):
            self.fail(f"total() inside the compound guard `{ast.unparse(test)}`")

        def pair(e):
            if (isinstance(e, ast.Call) and isinstance(e.func, ast.Name) and e.func.id == "Budget"
                    and len(e.args) == 2 and not e.keywords):
                p = (self.atom(e.args[0]), self.atom(e.args[1]))
                if p != (".ceilEps", ".ceilDelta"):
                    self.fail(f"`{ast.unparse(e)}`: only the Budget of the ceilings is known not to raise")
                return p
            if self.is_total_call(e):
                pre.append(self.total_call(e))
                return (".totEps", ".totDelta")
            if isinstance(e, ast.Name) and e.id in self.pair_locals:
                return (".totEps", ".totDelta")
            return None

        def pair_cmp(l, op, r):
            # Budget(...) first: Python evaluates the left operand first, and it cannot raise
            pl = pair(l)
            pr = pair(r)
            if pl is None and pr is None:
                return None
            if pl is None or pr is None:
                self.fail(f"budget compared with a non-budget in `{ast.unparse(test)}`")
            m = {ast.GtE: "__ge__", ast.LtE: "__le__", ast.Gt: "__gt__", ast.Lt: "__lt__"}.get(type(op))
            if m is None:
                self.fail(f"budget comparison `{type(op).__name__}` (only >=, <=, >, < are understood)")
            return self.order.expand(m, pl, pr)
        c = _cond(test, self.atom, pair_cmp, self.where)
        return pre, c

    # ---- statements
    def ret_ok(self, st):
        v = st.value
        if self.kind == "check":
            return isinstance(v, ast.Constant) and v.value is True
        if self.kind == "spend":
            return isinstance(v, ast.Name) and v.id == self.selfname
        return False

    def err_of(self, st):
        x = st.exc
        if isinstance(x, ast.Call):
            x = x.func
        if isinstance(x, ast.Name) and x.id in ERRS and st.cause is None:
            return ERRS[x.id]
        self.fail(f"`{ast.unparse(st)[:60]}`")

    def stmt(self, st):
        """-> list of Stmt terms"""
        if isinstance(st, ast.Expr) and isinstance(st.value, ast.Call):
            c = st.value
            f = c.func
            if isinstance(f, ast.Name) and f.id == "check_epsilon_delta":
                if len(c.args) not in (2, 3):
                    self.fail(f"`{ast.unparse(c)}`")
                allow = None
                if len(c.args) == 3:
                    allow = c.args[2]
                for kw in c.keywords:
                    if kw.arg != "allow_zero" or allow is not None:
                        self.fail(f"`{ast.unparse(c)}`")
                    allow = kw.value
                if allow is not None and not (isinstance(allow, ast.Constant) and isinstance(allow.value, bool)):
                    self.fail(f"`{ast.unparse(c)}`")
                z = "true" if (allow is not None and allow.value) else "false"
                return [f".validate {self.atom(c.args[0])} {self.atom(c.args[1])} {z}"]
            if (isinstance(f, ast.Attribute) and isinstance(f.value, ast.Name) and f.value.id == self.selfname
                    and f.attr == "check" and self.kind == "spend" and len(c.args) == 2 and not c.keywords):
                return [f".callCheck {self.atom(c.args[0])} {self.atom(c.args[1])}"]
            if (isinstance(f, ast.Attribute) and f.attr == "append" and self.self_attr(f.value, "__spent_budget")
                    and len(c.args) == 1 and not c.keywords):
                a, b = self.pair_of_tuple(c.args[0])
                return [f".append {a} {b}"]
            self.fail(f"call `{ast.unparse(c)[:60]}`")
        if isinstance(st, ast.If):
            if st.orelse or len(st.body) != 1:
                self.fail(f"`if {ast.unparse(st.test)}` with else / several statements")
            inner = st.body[0]
            if isinstance(inner, ast.Return) and self.ret_ok(inner):
                pre, c = self.guard(st.test)
                return pre + [f".retIf {c}"]
            if isinstance(inner, ast.Raise):
                x = self.err_of(inner)
                pre, c = self.guard(st.test)
                return pre + [f".raiseIf {x} {c}"]
            self.fail(f"`if {ast.unparse(st.test)}: {ast.unparse(inner)[:40]}`")
        if isinstance(st, ast.Assign) and len(st.targets) == 1:
            t, v = st.targets[0], st.value
            if self.is_total_call(v):
                s = self.total_call(v)
                if isinstance(t, ast.Name) and t.id not in self.names and t.id != self.selfname:
                    self.pair_locals.add(t.id)
                    return [s]
                if (isinstance(t, ast.Tuple) and len(t.elts) == 2 and all(isinstance(x, ast.Name) for x in t.elts)
                        and t.elts[0].id != t.elts[1].id
                        and not any(x.id in self.names or x.id == self.selfname for x in t.elts)):
                    self.tot_names[t.elts[0].id] = ".totEps"
                    self.tot_names[t.elts[1].id] = ".totDelta"
                    return [s]
                self.fail(f"`{ast.unparse(st)}`")
            if isinstance(t, ast.Name) and t.id not in self.names and t.id != self.selfname:
                self.spent_locals[t.id] = self.spent_expr(v)
                self.pair_locals.discard(t.id)
                self.tot_names.pop(t.id, None)
                return []
            if self.self_attr(t, "__slack") and self.kind == "slack":
                if (isinstance(v, ast.Call) and isinstance(v.func, ast.Name) and v.func.id == "float"
                        and len(v.args) == 1 and not v.keywords):
                    v = v.args[0]
                return [f".setSlack {self.atom(v)}"]
            self.fail(f"assignment `{ast.unparse(st)[:60]}`")
        if isinstance(st, ast.Raise):
            return [f".raise {self.err_of(st)}"]
        if isinstance(st, ast.Return):
            if self.ret_ok(st):
                return [".ret"]
            self.fail(f"`{ast.unparse(st)}`")
        self.fail(f"statement `{ast.unparse(st).splitlines()[0][:60]}`")

    def prog(self):
        out = []
        for st in _strip_doc(self.fn.body):
            out += self.stmt(st)
        return "[" + ", ".join(out) + "]"


def _class(repo):
    path = os.path.join(repo, "diffprivlib", "accountant.py")
    try:
        tree = ast.parse(open(path).read())
    except (OSError, SyntaxError) as e:
        raise TranslatorError(f"accountant.py: {e}")
    cls = next((n for n in tree.body if isinstance(n, ast.ClassDef) and n.name == CLASS), None)
    if cls is None:
        raise TranslatorError("class BudgetAccountant not found")
    return cls


def _decos(fn):
    return [ast.unparse(d) for d in fn.decorator_list]


def extract(repo):
    """-> ({"Check"|"Spend"|"SetSlack": Prog term}, unavailable: [str], getters: [(name, returned expression)],
    total_returns_budget: bool)"""
    cls = _class(repo)
    fns = [n for n in cls.body if isinstance(n, ast.FunctionDef)]
    order = BudgetOrder(repo)

    def one(name, decos):
        c = [f for f in fns if f.name == name and _decos(f) == decos]
        if len(c) != 1:
            raise TranslatorError(f"{name} ({decos or 'plain method'}) not found exactly once")
        return c[0]
    total = one("total", [])
    tp = [a.arg for a in total.args.args][1:]
    if tp != ["spent_budget", "slack"] or len(total.args.defaults) != 2 or not all(
            isinstance(d, ast.Constant) and d.value is None for d in total.args.defaults):
        raise TranslatorError("total(): signature")
    rets = [n for n in ast.walk(total) if isinstance(n, ast.Return)]
    total_budget = bool(rets) and all(isinstance(r.value, ast.Call) and isinstance(r.value.func, ast.Name)
                                      and r.value.func.id == "Budget" and len(r.value.args) == 2 for r in rets)
    getters = []
    for g in GETTERS:
        fn = one(g, ["property"])
        body = _strip_doc(fn.body)
        if len(body) != 1 or not isinstance(body[0], ast.Return) or body[0].value is None:
            raise TranslatorError(f"property {g}: body has a new shape")
        sn = fn.args.args[0].arg
        txt = ast.unparse(body[0].value)
        if sn != "self":
            txt = ast.unparse(_Rename(sn).visit(body[0].value))
        getters.append((g, txt))
    bodies, unavailable = {}, []
    for suffix, name, kind, decos in (("Check", "check", "check", []), ("Spend", "spend", "spend", []),
                                      ("SetSlack", "slack", "slack", ["slack.setter"])):
        try:
            bodies[suffix] = _Body(one(name, decos), kind, order, tp).prog()
        except TranslatorError as e:
            unavailable.append(str(e))
    return bodies, unavailable, getters, total_budget


class _Rename(ast.NodeTransformer):
    def __init__(self, old):
        self.old = old

    def visit_Name(self, n):
        return ast.copy_location(ast.Name(id="self", ctx=n.ctx), n) if n.id == self.old else n


HEADER = """/- GENERATED on every run from /repo's current diffprivlib/accountant.py (and Budget.__ge__/__le__ of utils.py) by
harness/translate/accountantir.py — do not edit. -/
import DPL.Proofs.AccountantIR
namespace DPL.Gen.C04
open DPL DPL.AccIR

"""


def _s(x):
    return '"' + x.replace("\\", "/").replace('"', "'") + '"'


def generate(repo, lean_dir):
    """writes lean/DPL/Generated/C04Methods.lean; -> {"build", "obligations", "unavailable", "bodies"}"""
    bodies, unavailable, getters, total_budget = extract(repo)
    out = [HEADER]
    n = 0
    if "Check" in bodies:
        out.append(f"def genCheck : Prog :=\n  {bodies['Check']}\n")
        out.append("/-- `check` as coded is the model's `check` (state untouched, same outcome), any carrier -/\n"
                   "theorem genCheck_ok : CheckOk genCheck := by\n  unfold genCheck; acc_ir_check\n")
        n += 1
        if "Spend" in bodies:
            out.append(f"def genSpend : Prog :=\n  {bodies['Spend']}\n")
            out.append("/-- `spend` as coded (calling `check` as coded) is the model's `spend` step, any carrier -/\n"
                       "theorem genSpend_ok : SpendOk genCheck genSpend := by\n"
                       "  unfold genSpend; acc_ir_spend genCheck_ok\n")
            n += 1
    elif "Spend" in bodies:
        unavailable.append("spend: needs the body of check")
    if "SetSlack" in bodies:
        out.append(f"def genSetSlack : Prog :=\n  {bodies['SetSlack']}\n")
        out.append("/-- the `slack` setter as coded is the model's `setSlack` step, any carrier -/\n"
                   "theorem genSetSlack_ok : SetSlackOk genSetSlack := by\n  unfold genSetSlack; acc_ir_setslack\n")
        n += 1
    out.append("def getters : List (String × String) :=\n  [" + ", ".join(f"({_s(g)}, {_s(t)})" for g, t in getters) + "]\n"
               "/-- `self.epsilon`, `self.delta`, `self.slack` read the private attributes; `self.spent_budget` is a copy -/\n"
               "theorem getters_ok : getters = handGetters := by decide\n")
    out.append(f"def totalReturnsBudget : Bool := {'true' if total_budget else 'false'}\n"
               "/-- every `return` of `total()` is a `Budget(…)` (so that `>=` against it is `Budget.__ge__`) -/\n"
               "theorem total_returns_budget : totalReturnsBudget = true := by decide\n")
    n += 2
    out.append("end DPL.Gen.C04\n")
    src = "\n".join(out)
    path = os.path.join(lean_dir, "DPL", "Generated", "C04Methods.lean")
    os.makedirs(os.path.dirname(path), exist_ok=True)
    old = open(path).read() if os.path.exists(path) else None
    if old != src:
        with open(path, "w") as f:
            f.write(src)
    return {"build": ["DPL.Generated.C04Methods"], "obligations": n, "unavailable": unavailable, "bodies": bodies}
