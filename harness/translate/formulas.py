"""Formula anchors (DESIGN.md §3.3 item 1): a Python expression taken from /repo's current AST is translated to a Lean
term over ℝ; the generated file states `generated = hand model` and proves it with a fixed tactic script, so a sign
slip, a wrong divisor or a swapped pair in the code breaks an obligation at `lake build`.

Usage (from a property module's `generate(ctx)`):
    A = Anchors(repo)
    e = A.find("diffprivlib/accountant.py", "BudgetAccountant.total", assign_target="total_epsilon_drv")
    lean = A.to_lean(e, {"epsilon_exp_sum": "x", "epsilon_sq_sum": "q", "slack": "s"})
"""
import ast
import os
from fractions import Fraction


class AnchorError(Exception):
    pass


FUNCS1 = {"np.exp": "Real.exp", "np.log": "Real.log", "np.sqrt": "Real.sqrt", "math.exp": "Real.exp",
          "math.log": "Real.log", "math.sqrt": "Real.sqrt", "float": "", "np.float64": "", "np.abs": "abs", "abs": "abs",
          "np.cbrt": "CBRT", "np.expm1": "EXPM1", "np.log1p": "LOG1P",
          "np.cos": "Real.cos", "math.cos": "Real.cos", "np.floor": "FLOOR", "math.floor": "FLOOR"}
CONSTS = {"np.pi": "Real.pi", "math.pi": "Real.pi"}


def dotted(node):
    if isinstance(node, ast.Name):
        return node.id
    if isinstance(node, ast.Attribute):
        b = dotted(node.value)
        return None if b is None else b + "." + node.attr
    return None


class Anchors:
    def __init__(self, repo):
        self.repo = repo
        self._trees = {}

    def tree(self, rel):
        if rel not in self._trees:
            p = os.path.join(self.repo, rel)
            self._trees[rel] = ast.parse(open(p).read(), p)
        return self._trees[rel]

    def func(self, rel, qual):
        parts = qual.split(".")
        body = self.tree(rel).body
        node = None
        for i, nm in enumerate(parts):
            found = None
            for n in body:
                if isinstance(n, (ast.FunctionDef, ast.ClassDef)) and n.name == nm:
                    found = n
                    break
            if found is None:
                raise AnchorError(f"{rel}: {qual}: `{nm}` not found")
            node = found
            body = found.body
        return node

    def find(self, rel, qual, assign_target=None, aug_target=None, return_index=None, nth=0, call_kw=None):
        """the expression assigned to `assign_target` (n-th such assignment in source order), added by `aug_target +=`,
        returned by the n-th `return`, or passed as keyword `call_kw=(callee, kw)` in the n-th such call"""
        fn = self.func(rel, qual)
        hits = []
        for n in ast.walk(fn):
            if assign_target is not None and isinstance(n, ast.Assign):
                for t in n.targets:
                    if ast.unparse(t) == assign_target:
                        hits.append((n.lineno, n.col_offset, n.value))
            if aug_target is not None and isinstance(n, ast.AugAssign) and ast.unparse(n.target) == aug_target:
                hits.append((n.lineno, n.col_offset, n.value))
            if return_index is not None and isinstance(n, ast.Return) and n.value is not None:
                hits.append((n.lineno, n.col_offset, n.value))
            if call_kw is not None and isinstance(n, ast.Call) and (dotted(n.func) or "").split(".")[-1] == call_kw[0]:
                for k in n.keywords:
                    if k.arg == call_kw[1]:
                        hits.append((n.lineno, n.col_offset, k.value))
        hits.sort(key=lambda h: (h[0], h[1]))
        idx = return_index if (return_index is not None and assign_target is None and aug_target is None
                               and call_kw is None) else nth
        if idx >= len(hits):
            raise AnchorError(f"{rel}: {qual}: anchor {assign_target or aug_target or call_kw or 'return'}[{idx}] "
                              f"not found ({len(hits)} candidates)")
        return hits[idx][2]

    # ---- translation to a Lean term over ℝ
    def to_lean(self, e, env):
        """env maps source text of a sub-expression (ast.unparse form) to a Lean term"""
        src = ast.unparse(e)
        if src in env:
            return env[src]
        if isinstance(e, ast.Constant):
            v = e.value
            if isinstance(v, bool):
                raise AnchorError("bool constant")
            if isinstance(v, int):
                return f"({v} : ℝ)"
            if isinstance(v, float):
                if v == float("inf") or v != v:
                    raise AnchorError("non-finite constant")
                fr = Fraction(repr(v))
                return f"(({fr.numerator} : ℝ) / {fr.denominator})" if fr.denominator != 1 else f"({fr.numerator} : ℝ)"
            raise AnchorError(f"constant {v!r}")
        if isinstance(e, ast.Attribute) and dotted(e) in CONSTS:
            return CONSTS[dotted(e)]
        if isinstance(e, ast.UnaryOp):
            if isinstance(e.op, ast.USub):
                return f"(-{self.to_lean(e.operand, env)})"
            if isinstance(e.op, ast.UAdd):
                return self.to_lean(e.operand, env)
        if isinstance(e, ast.BinOp):
            a = self.to_lean(e.left, env)
            if isinstance(e.op, ast.Pow):
                if isinstance(e.right, ast.Constant) and isinstance(e.right.value, int) and e.right.value >= 0:
                    return f"({a} ^ {e.right.value})"
                return f"(Real.rpow {a} {self.to_lean(e.right, env)})"
            b = self.to_lean(e.right, env)
            if isinstance(e.op, ast.Mod):       # Python float `a % b` = a - b * floor(a / b)
                return f"({a} - {b} * ((⌊{a} / {b}⌋ : ℤ) : ℝ))"
            op = {ast.Add: "+", ast.Sub: "-", ast.Mult: "*", ast.Div: "/"}.get(type(e.op))
            if op is None:
                raise AnchorError(f"operator {type(e.op).__name__}")
            return f"({a} {op} {b})"
        if isinstance(e, ast.Call):
            name = dotted(e.func)
            if name in FUNCS1 and len(e.args) == 1 and not e.keywords:
                x = self.to_lean(e.args[0], env)
                f = FUNCS1[name]
                if f == "":
                    return x
                if f == "EXPM1":
                    return f"(Real.exp {x} - 1)"
                if f == "LOG1P":
                    return f"(Real.log (1 + {x}))"
                if f == "CBRT":
                    return f"(Real.rpow {x} (1 / 3))"
                if f == "abs":
                    return f"|{x}|"
                if f == "FLOOR":
                    return f"((⌊{x}⌋ : ℤ) : ℝ)"
                return f"({f} {x})"
            if name in ("max", "min", "np.maximum", "np.minimum") and len(e.args) >= 2 and not e.keywords:
                f = "max" if "max" in name else "min"
                out = self.to_lean(e.args[0], env)
                for a_ in e.args[1:]:
                    out = f"({f} {out} {self.to_lean(a_, env)})"
                return out
            if name in ("np.max", "np.min", "max", "min") and len(e.args) == 1 and isinstance(e.args[0], (ast.List, ast.Tuple)):
                f = "max" if "max" in name else "min"
                xs = [self.to_lean(x, env) for x in e.args[0].elts]
                out = xs[0]
                for x in xs[1:]:
                    out = f"({f} {out} {x})"
                return out
            if isinstance(e.func, ast.Attribute) and e.func.attr in ("max", "min") and not e.args and \
                    isinstance(e.func.value, ast.Call) and dotted(e.func.value.func) in ("np.abs", "abs") and \
                    isinstance(e.func.value.args[0], (ast.List, ast.Tuple)):
                f = e.func.attr
                xs = [f"|{self.to_lean(x, env)}|" for x in e.func.value.args[0].elts]
                out = xs[0]
                for x in xs[1:]:
                    out = f"({f} {out} {x})"
                return out
        if isinstance(e, ast.IfExp):
            raise AnchorError("conditional expression: anchor its branches separately")
        raise AnchorError(f"cannot translate `{src}`")


def lean_file(namespace, imports, items):
    """items: list of dicts {name, vars: [..], hyps: [..lean props..], gen: lean term, hand: lean term, tactic: str}"""
    L = ["/- GENERATED on every run from /repo's current sources by harness/translate/formulas.py — do not edit. -/"]
    L += [f"import {i}" for i in imports]
    L += [f"namespace {namespace}", "open DPL", ""]
    for it in items:
        vs = " ".join(it["vars"])
        binder = f"({vs} : ℝ) " if it["vars"] else ""
        hyps = " ".join(f"(h{i} : {h})" for i, h in enumerate(it.get("hyps", [])))
        L.append(f"/-- from `{it['source']}` -/")
        L.append(f"noncomputable def gen_{it['name']} {binder}: ℝ := {it['gen']}")
        L.append(f"theorem gen_{it['name']}_eq {binder}{hyps} : gen_{it['name']} {vs} = {it['hand']} := by")
        L.append(f"  unfold gen_{it['name']}")
        for t in it.get("tactic", "ring").split("\n"):
            L.append("  " + t)
        L.append("")
    L.append(f"end {namespace}")
    return "\n".join(L) + "\n"
