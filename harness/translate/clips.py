"""C10 translator: the *clip skeleton* ("clipped before use") of every tool / estimator method of /repo that receives
data together with declared bounds, extracted from the CURRENT sources (AST only, nothing is imported), as Lean data
(lean/DPL/Generated/C10Clips.lean) with one obligation per entry point:

    theorem sk_<entry>_ok : clippedBeforeUse <#vars> <data vars> sk_<entry> = true := by decide +kernel

`clippedBeforeUse` (lean/DPL/Model/ClipIR.lean) is an abstract interpretation done IN LEAN (per variable: clean / raw /
tainted); its soundness for every interpretation of the operations is `DPL.C10.static_clip_sound`.  This module only
lowers Python to the IR — it makes no judgement about states:

  clip dst src b       `clip_to_bounds(src, B)` / `self._clip_to_bounds` / `clip_to_norm(src, c)` / `self._clip_to_norm`;
                       `np.histogram(src, range=R)` / `np.histogramdd`: numpy drops samples outside the range (they fall
                       in no bin), which is modelled as the clamp-equivalent *range filter* — also idempotent, also
                       commuting with selections; the harness' dynamic check compares with "D restricted to the range".
                       b = 0 iff B is THE DECLARED bounds of the data variable `src` stems from: the paired parameter
                       itself (`bounds`, `self.bounds`, `self.bounds_X`, `self.data_norm`, `range`) or the result of
                       `check_bounds(<declared>, <shape>[, min_separation=…])` / `self._check_bounds(…)` WITHOUT a `dtype`
                       argument, followed flow-sensitively through local assignments; any other expression (a tuple of
                       dtype-converted `lower, upper`, other bounds, a constant) gets its own id > 0.
  reshape dst src k a  `np.ravel / np.asarray / np.asanyarray / np.array / np.atleast_*d / check_array / validate_data /
                       check_X_y / self._validate_data (element of the returned tuple) / .copy() / src[index]`
  assign dst op args   every other assignment, with ALL variables the right-hand side mentions (any call that is not one
                       of the shapes above is an arbitrary function of its arguments — reductions need no list)
  use mech             construction of a class exported by diffprivlib.mechanisms, `.randomise(…)`
  use release          `self.<attr> = …`, `self.<attr>[…] = …`, `self.<attr> op= …`
  use effect           an expression statement (a call made for its effect) that is not a method call on a local
  ret / raise
  branch / loop        with the variables the condition (the iterated expression) mentions
Argument modes: `inv 0` = `.shape .ndim .dtype .size len() np.shape np.ndim np.size isinstance type hasattr
np.issubdtype np.zeros_like/ones_like/empty_like, `x is None``; `inv 1` = `np.isnan(x)` (a NaN stays a NaN under both
clips); `deleg c` = the expression is handed as the data argument to entry point `c`, which is translated and has its own
obligation in the same file, AND `c`'s bounds parameter(s) are bound to expressions built from the caller's declared
bounds (otherwise the mode is `val`).  In `_wrap_axis` the callback `func` is such a callee (every caller must pass an
entry point, which is checked at the call).

Scope restrictions, stated in the generated file:
  * `if <declared parameter> is None [or …]:` — the data-derived fallback (C11's subject) is NOT part of the skeleton:
    C10 speaks about declared bounds; the `else` arm is kept.
  * not covered (listed, with the reason; no obligation): `count_nonzero` (no bounds parameter: the array is turned into
    booleans and summed with the constant bounds (0, 1), inside which every boolean lies — the clip is the identity);
    `PCA._fit_full` (`X = X - self.mean_` precedes the norm clip; that this is the identity when `centered` is a fact
    about values, not about data flow; the bounds are not a clipping domain there, see harness/props/c10.py TRUSTED).
Anything outside the understood shapes raises TranslatorError for THAT entry point: it is listed as unavailable (the
behavioural check then runs at 10x budget), never reported as a violation.
"""
import ast
import os


class TranslatorError(Exception):
    pass


# (file, qualified name, {data parameter: its declared-bounds parameter})
ENTRIES = [
    ("tools/utils.py", "_wrap_axis", {"array": "bounds"}),
    ("tools/utils.py", "_mean", {"array": "bounds"}),
    ("tools/utils.py", "_var", {"array": "bounds"}),
    ("tools/utils.py", "_std", {"array": "bounds"}),
    ("tools/utils.py", "_sum", {"array": "bounds"}),
    ("tools/utils.py", "mean", {"array": "bounds"}),
    ("tools/utils.py", "nanmean", {"array": "bounds"}),
    ("tools/utils.py", "var", {"array": "bounds"}),
    ("tools/utils.py", "nanvar", {"array": "bounds"}),
    ("tools/utils.py", "std", {"array": "bounds"}),
    ("tools/utils.py", "nanstd", {"array": "bounds"}),
    ("tools/utils.py", "sum", {"array": "bounds"}),
    ("tools/utils.py", "nansum", {"array": "bounds"}),
    ("tools/quantiles.py", "quantile", {"array": "bounds"}),
    ("tools/quantiles.py", "percentile", {"array": "bounds"}),
    ("tools/quantiles.py", "median", {"array": "bounds"}),
    ("tools/histograms.py", "histogram", {"sample": "range"}),
    ("tools/histograms.py", "histogramdd", {"sample": "range"}),
    ("tools/histograms.py", "histogram2d", {"array_x": "range", "array_y": "range"}),
    ("models/naive_bayes.py", "GaussianNB._partial_fit", {"X": "self.bounds"}),
    ("models/k_means.py", "KMeans.fit", {"X": "self.bounds"}),
    ("models/standard_scaler.py", "StandardScaler.partial_fit", {"X": "self.bounds"}),
    ("models/linear_regression.py", "_preprocess_data", {"X": "bounds_X", "y": "bounds_y"}),
    ("models/linear_regression.py", "LinearRegression.fit", {"X": "self.bounds_X", "y": "self.bounds_y"}),
    ("models/logistic_regression.py", "LogisticRegression.fit", {"X": "self.data_norm"}),
    ("models/forest.py", "RandomForestClassifier.fit", {"X": "self.bounds"}),
    ("models/forest.py", "DecisionTreeClassifier.fit", {"X": "self.bounds"}),
]
NOT_COVERED = [
    ("count_nonzero", "no bounds parameter: booleans summed with the constant bounds (0, 1); the clip is the identity"),
    ("PCA._fit_full", "`X = X - self.mean_` precedes the norm clip (identity only when centered: a fact about values)"),
]
CALLBACK = {"_wrap_axis": "func"}            # entry -> parameter that is called as a callee with its own obligation

CLIP_FUNCS = {"clip_to_bounds", "self._clip_to_bounds", "clip_to_norm", "self._clip_to_norm"}
RANGE_FILTERS = {"np.histogram", "np.histogramdd"}
CHECK_BOUNDS = {"check_bounds", "self._check_bounds"}
RESHAPE_FUNCS = {"np.ravel", "np.asarray", "np.asanyarray", "np.array", "np.atleast_1d", "np.atleast_2d", "check_array",
                 "np.ascontiguousarray"}
VALIDATORS = {"validate_data", "check_X_y", "self._validate_data"}     # return their array argument(s), re-arranged
INV_ATTRS = {"shape", "ndim", "dtype", "size"}
INV_FUNCS = {"len", "np.shape", "np.ndim", "np.size", "isinstance", "type", "hasattr", "np.issubdtype", "np.zeros_like",
             "np.ones_like", "np.empty_like"}
NAN_FUNCS = {"np.isnan"}
INPLACE_OK = True


def _params(fn):
    a = fn.args
    ps = [x.arg for x in a.posonlyargs + a.args]
    return ps, [x.arg for x in a.kwonlyargs], (a.vararg.arg if a.vararg else None), (a.kwarg.arg if a.kwarg else None)


def _mechanism_names(root):
    p = os.path.join(root, "diffprivlib", "mechanisms", "__init__.py")
    names = set()
    with open(p) as f:
        for node in ast.parse(f.read()).body:
            if isinstance(node, ast.ImportFrom):
                names.update(a.asname or a.name for a in node.names)
    names -= {"DPMachine", "DPMechanism", "TruncationAndFoldingMixin"}
    if len(names) < 10:
        raise TranslatorError("mechanism classes not found in diffprivlib/mechanisms/__init__.py")
    return names


class Lib:
    def __init__(self, root):
        self.root = root
        self.mechs = _mechanism_names(root)
        self.trees = {}
        self.fns = {}            # entry qualified name -> (FunctionDef, is_method, file)
        self.visible = {}        # file -> bare names that denote library functions there (defined or imported from diffprivlib)
        for rel in sorted({e[0] for e in ENTRIES}):
            p = os.path.join(root, "diffprivlib", rel)
            if not os.path.exists(p):
                continue
            with open(p) as f:
                self.trees[rel] = ast.parse(f.read())
            vis = set()
            for node in ast.walk(self.trees[rel]):
                if isinstance(node, ast.ImportFrom) and (node.module or "").startswith("diffprivlib"):
                    vis.update(a.asname or a.name for a in node.names)
            for node in self.trees[rel].body:
                if isinstance(node, ast.FunctionDef):
                    vis.add(node.name)
            self.visible[rel] = vis

    def find(self, rel, qual):
        tree = self.trees.get(rel)
        if tree is None:
            raise TranslatorError(f"{qual}: {rel} not found")
        if "." in qual:
            cls, name = qual.split(".")
            for node in tree.body:
                if isinstance(node, ast.ClassDef) and node.name == cls:
                    for m in node.body:
                        if isinstance(m, ast.FunctionDef) and m.name == name:
                            return m, True
            raise TranslatorError(f"{qual}: not found in {rel}")
        for node in tree.body:
            if isinstance(node, ast.FunctionDef) and node.name == qual:
                return node, False
        raise TranslatorError(f"{qual}: not found in {rel}")


def _txt(node):
    return ast.unparse(node)


def _is_none_test(test, declared):
    """`P is None` or an `or` of such, every P a declared-bounds parameter"""
    if isinstance(test, ast.BoolOp) and isinstance(test.op, ast.Or):
        return all(_is_none_test(v, declared) for v in test.values)
    return (isinstance(test, ast.Compare) and len(test.ops) == 1 and isinstance(test.ops[0], ast.Is) and
            isinstance(test.comparators[0], ast.Constant) and test.comparators[0].value is None and
            _txt(test.left) in declared)


class Extractor:
    def __init__(self, lib, rel, qual, pairs, entry_specs):
        self.lib, self.rel, self.qual, self.pairs = lib, rel, qual, dict(pairs)
        self.fn, self.is_method = lib.find(rel, qual)
        self.specs = entry_specs                     # bare name -> (qual, pairs, FunctionDef, is_method, file)
        pos, kwonly, vararg, kwarg = _params(self.fn)
        self.params = [p for p in pos + kwonly + [vararg, kwarg] if p and p != "self"]
        for d, b in self.pairs.items():
            if d not in self.params:
                raise TranslatorError(f"{qual}: no data parameter `{d}`")
            if not b.startswith("self.") and b not in self.params:
                raise TranslatorError(f"{qual}: no bounds parameter `{b}`")
        self.declared = set(self.pairs.values())
        self.locals = set(self.params)
        for n in ast.walk(self.fn):
            if isinstance(n, ast.Name) and isinstance(n.ctx, (ast.Store, ast.Del)):
                self.locals.add(n.id)
            elif isinstance(n, ast.FunctionDef) and n is not self.fn:
                self.locals.add(n.name)
            elif isinstance(n, (ast.Global, ast.Nonlocal)):
                raise TranslatorError(f"{qual}: global/nonlocal")
        self.vars = {}           # name -> id
        for d in self.pairs:
            self.var(d)
        self.ops, self.sinks, self.conds, self.callees, self.bexprs = {}, {}, {}, {}, {"<declared bounds>": 0}
        self.ntemp = 0
        # translator-side provenance (flow-sensitive): bounds provenance and data root of a variable
        self.bprov = {b: ("decl", b) for b in self.declared}
        self.root = {d: d for d in self.pairs}
        self.delegations = set()
        self.callback = CALLBACK.get(qual)
        self.clips = []          # (line, src text, bounds text, b)

    # ---- tables
    def err(self, msg, node=None):
        ln = f" (line {node.lineno})" if node is not None and hasattr(node, "lineno") else ""
        raise TranslatorError(f"{self.qual}: {msg}{ln}")

    def var(self, name):
        return self.vars.setdefault(name, len(self.vars))

    def temp(self, what):
        self.ntemp += 1
        return self.var(f"<tmp{self.ntemp}: {what[:40]}>")

    @staticmethod
    def intern(table, key):
        return table.setdefault(key, len(table))

    def varname(self, node):
        """tracked variable denoted by a Name / self.attr expression, else None"""
        if isinstance(node, ast.Name):
            return node.id if node.id in self.locals else None
        if isinstance(node, ast.Attribute) and isinstance(node.value, ast.Name) and node.value.id == "self" and \
                self.is_method:
            return "self." + node.attr
        return None

    # ---- bounds provenance
    def bounds_prov(self, node):
        """("decl", P) | ("part", P) | ("elem", prov, i) | ("other", text)"""
        v = self.varname(node)
        if v is not None:
            return self.bprov.get(v, ("other", v))
        if isinstance(node, ast.Call) and _txt(node.func) in CHECK_BOUNDS and node.args:
            inner = self.bounds_prov(node.args[0])
            kws = {k.arg for k in node.keywords}
            if inner[0] == "decl" and kws <= {"shape", "min_separation"} and len(node.args) <= 3:
                return inner
            return ("other", _txt(node))
        if isinstance(node, ast.Tuple) and len(node.elts) == 2:
            a, b = (self.bounds_prov(e) for e in node.elts)
            if a[0] == "elem" and b[0] == "elem" and a[1] == b[1] and a[1][0] == "decl" and (a[2], b[2]) == (0, 1):
                return a[1]
        if isinstance(node, ast.Subscript) and isinstance(node.slice, ast.Constant) and node.slice.value in (0, 1):
            return ("elem", self.bounds_prov(node.value), node.slice.value)
        for n in ast.walk(node):
            w = self.varname(n) if isinstance(n, (ast.Name, ast.Attribute)) else None
            if w is not None and self.bprov.get(w, ("other",))[0] in ("decl", "part"):
                return ("part", self.bprov[w][1])
        return ("other", _txt(node))

    def set_prov(self, name, value):
        """after `name = value`"""
        if value is None:
            self.bprov.pop(name, None)
            return
        p = self.bounds_prov(value)
        if p[0] == "other":
            self.bprov.pop(name, None)
        else:
            self.bprov[name] = p

    # ---- view chains (re-arrangements of a tracked variable)
    def as_view(self, node):
        """-> (base Name/attr node, [index expressions]) when `node` is a chain of re-arrangements of a variable"""
        if self.varname(node) is not None:
            return node, []
        if isinstance(node, ast.Call):
            f = _txt(node.func)
            if f in RESHAPE_FUNCS and node.args and not isinstance(node.args[0], ast.Starred):
                got = self.as_view(node.args[0])
                if got:
                    extra = list(node.args[1:]) + [k.value for k in node.keywords]
                    return got[0], got[1] + extra
            if isinstance(node.func, ast.Attribute) and node.func.attr == "copy":
                got = self.as_view(node.func.value)
                if got:
                    return got[0], got[1] + list(node.args) + [k.value for k in node.keywords]
        if isinstance(node, ast.Subscript):
            got = self.as_view(node.value)
            if got:
                return got[0], got[1] + [node.slice]
        return None

    def lower_view(self, node, out, what):
        """variable id holding the value of the view chain `node` (a temp when it is not a plain variable)"""
        base, idx = self.as_view(node)
        b = self.varname(base)
        if not idx:
            return self.var(b), b
        args = []
        for i in idx:
            args += self.deps(i, out)
        t = self.temp(what)
        tn = [k for k, v in self.vars.items() if v == t][0]
        out.append(("ev", f".reshape {t} {self.var(b)} {self.intern(self.ops, 'view: ' + _txt(node)[:60])} {self.args(args)}"))
        if b in self.root:
            self.root[tn] = self.root[b]
        return t, tn

    # ---- dependencies of an expression (events of nested clips / mechanisms are appended to `out`)
    @staticmethod
    def args(deps):
        seen, res = set(), []
        for d in deps:
            if d not in seen:
                seen.add(d)
                res.append(d)
        return "[" + ", ".join(f"({v}, {m})" for v, m in res) + "]"

    @staticmethod
    def weaken(deps, mode):
        return [(v, mode if m == ".val" else m) for v, m in deps]

    def deps(self, node, out):
        if node is None or isinstance(node, ast.Constant):
            return []
        v = self.varname(node)
        if v is not None:
            if isinstance(node, ast.Name) and not isinstance(node.ctx, ast.Load):
                return []
            return [(self.var(v), ".val")]
        if isinstance(node, ast.Name):
            return []
        if isinstance(node, ast.Attribute):
            inner = self.deps(node.value, out)
            return self.weaken(inner, ".inv 0") if node.attr in INV_ATTRS else inner
        if isinstance(node, ast.Call):
            return self.call(node, out)
        if isinstance(node, ast.Compare) and len(node.ops) == 1 and isinstance(node.ops[0], (ast.Is, ast.IsNot)) and \
                isinstance(node.comparators[0], ast.Constant) and node.comparators[0].value is None:
            return self.weaken(self.deps(node.left, out), ".inv 0")
        if isinstance(node, ast.Lambda):
            bound = {a.arg for a in node.args.args + node.args.kwonlyargs}
            return [d for d in self.free_deps(node.body, bound)]
        if isinstance(node, (ast.ListComp, ast.SetComp, ast.GeneratorExp, ast.DictComp)):
            res = []
            body = []
            for g in node.generators:
                it = self.deps(g.iter, out)
                res += it
                self.bind(g.target, it, body, None)
                for c in g.ifs:
                    res += self.deps(c, body)
            if isinstance(node, ast.DictComp):
                res += self.deps(node.key, body) + self.deps(node.value, body)
            else:
                res += self.deps(node.elt, body)
            if any(b[0] != "ev" or not b[1].startswith((".assign", ".reshape")) for b in body):
                self.err("comprehension with a clip / sink / control flow in its body", node)
            if body:
                out.append(("loop", self.intern(self.conds, "for-comprehension: " + _txt(node.generators[0].iter)[:50]),
                            self.args(self.deps(node.generators[0].iter, [])), body))
            return res
        if isinstance(node, (ast.Yield, ast.YieldFrom, ast.Await, ast.NamedExpr)):
            self.err(f"unsupported expression {type(node).__name__}", node)
        res = []
        for child in ast.iter_child_nodes(node):
            if isinstance(child, ast.expr):
                res += self.deps(child, out)
            elif isinstance(child, ast.keyword):
                res += self.deps(child.value, out)
            elif isinstance(child, ast.comprehension):
                self.err("unexpected comprehension", node)
        return res

    def free_deps(self, node, bound):
        res = []
        for n in ast.walk(node):
            w = self.varname(n) if isinstance(n, (ast.Name, ast.Attribute)) else None
            if w is not None and w not in bound:
                res.append((self.var(w), ".val"))
        return res

    def callee_of(self, node):
        """entry point denoted by the callee expression of a call, or None"""
        f = node.func
        if isinstance(f, ast.Name):
            if self.callback and f.id == self.callback:
                return "<callback>"
            if f.id in self.specs and f.id in self.lib.visible.get(self.rel, ()) and f.id not in self.locals:
                return f.id
        if isinstance(f, ast.Attribute) and isinstance(f.value, ast.Name) and f.value.id == "self" and \
                f.attr in self.specs and not self.specs[f.attr][3]:
            return f.attr                           # staticmethod alias of a module-level entry (`self._preprocess_data`)
        return None

    def call(self, node, out):
        f = _txt(node.func)
        kws = {k.arg: k.value for k in node.keywords if k.arg}
        if any(isinstance(a, ast.Starred) for a in node.args) and (f in CLIP_FUNCS or f in RANGE_FILTERS or
                                                                     self.callee_of(node)):
            self.err(f"starred arguments in `{f}(…)`", node)
        # --- the clip helpers
        if f in CLIP_FUNCS or f in RANGE_FILTERS:
            if not node.args:
                self.err(f"`{f}` without a positional array", node)
            if f in CLIP_FUNCS:
                bnode = node.args[1] if len(node.args) > 1 else kws.get("bounds", kws.get("clip"))
                rest = list(node.args[2:])
            else:
                bnode = kws.get("range")
                rest = list(node.args[1:]) + [v for k, v in kws.items() if k != "range"]
            if self.as_view(node.args[0]) is None:
                # clipping a computed value: an ordinary function of it (cannot clean raw data)
                return self.generic_call(node, out)
            src, srcname = self.lower_view(node.args[0], out, _txt(node.args[0]))
            extra = []
            for r in rest:
                extra += self.deps(r, out)
            if bnode is None:
                b = self.intern(self.bexprs, f"<no bounds given to {f}>")
                bdeps = []
            else:
                bdeps = self.deps(bnode, out)
                prov = self.bounds_prov(bnode)
                want = self.pairs.get(self.root.get(srcname))
                if prov[0] == "decl" and (prov[1] == want or (want is None and prov[1] in self.declared)):
                    b = 0
                else:
                    b = self.intern(self.bexprs, f"{_txt(bnode)}  [{' '.join(map(str, prov))}]"
                                    + (f" (declared for this array: {want})" if want else ""))
                    b = b or self.intern(self.bexprs, _txt(bnode) + " ")
            t = self.temp(f)
            tn = [k for k, v in self.vars.items() if v == t][0]
            out.append(("ev", f".clip {t} {src} {b}"))
            if srcname in self.root:
                self.root[tn] = self.root[srcname]
            self.clips.append((node.lineno, _txt(node.args[0]), _txt(bnode) if bnode is not None else "-", b))
            return [(t, ".val")] + bdeps + extra
        # --- clip-invariant views
        if f in INV_FUNCS or f in NAN_FUNCS:
            mode = ".inv 1" if f in NAN_FUNCS else ".inv 0"
            res = []
            for i, a in enumerate(node.args):
                d = self.deps(a.value if isinstance(a, ast.Starred) else a, out)
                res += self.weaken(d, mode) if i == 0 else d
            for k in node.keywords:
                res += self.deps(k.value, out)
            return res
        # --- mechanisms
        if isinstance(node.func, ast.Name) and node.func.id in self.lib.mechs and node.func.id not in self.locals:
            d = self.arg_deps(node, out)
            out.append(("ev", f".use .mech {self.intern(self.sinks, node.func.id)} {self.args(d)}"))
            return d
        if isinstance(node.func, ast.Attribute) and node.func.attr == "randomise":
            d = self.deps(node.func.value, out) + self.arg_deps(node, out)
            out.append(("ev", f".use .mech {self.intern(self.sinks, 'randomise')} {self.args(d)}"))
            return d
        # --- delegation to an entry point with its own obligation
        callee = self.callee_of(node)
        if callee is not None:
            return self.delegate(node, callee, out)
        return self.generic_call(node, out)

    def arg_deps(self, node, out):
        res = []
        for a in node.args:
            res += self.deps(a.value if isinstance(a, ast.Starred) else a, out)
        for k in node.keywords:
            res += self.deps(k.value, out)
        return res

    def generic_call(self, node, out):
        res = []
        fn = node.func
        if isinstance(fn, ast.Attribute):
            res += self.deps(fn.value, out)          # receiver of a method call
        elif not isinstance(fn, ast.Name):
            res += self.deps(fn, out)
        elif self.varname(fn) is not None:
            res += self.deps(fn, out)                # a local that holds a function
        return res + self.arg_deps(node, out)

    def delegate(self, node, callee, out):
        kws = {k.arg: k.value for k in node.keywords if k.arg}
        if callee == "<callback>":
            # the callback of `_wrap_axis`: same conventions as every tool — data first, `bounds=` keyword
            data_params, bounds_params, pos = ["<first>"], ["bounds"], ["<first>"]
            cid = self.intern(self.callees, "<callback `" + self.callback + "`: the calling entry point>")
        else:
            qual, pairs, cfn, cmeth, _file = self.specs[callee]
            pos, kwonly, _va, _kw = _params(cfn)
            if cmeth:
                pos = pos[1:]
            data_params = list(pairs)
            bounds_params = sorted(set(pairs.values()))
            if any(b.startswith("self.") for b in bounds_params):
                self.err(f"delegation to the method `{callee}` (its bounds are attributes)", node)
            cid = self.intern(self.callees, qual)
            self.delegations.add(callee)
        bound = {}
        for i, a in enumerate(node.args):
            if i < len(pos):
                bound[pos[i]] = a
            else:
                bound[f"<extra{i}>"] = a
        for k, v in kws.items():
            bound[k] = v
        # a function handed on as a callback must itself be an entry point
        if callee in CALLBACK:
            cb = bound.get(CALLBACK[callee])
            if not (isinstance(cb, ast.Name) and cb.id in self.specs and cb.id in self.lib.visible.get(self.rel, ())):
                self.err(f"`{callee}` is handed a callback that is not an entry point: {_txt(cb) if cb else None}", node)
            self.delegations.add(cb.id)
            del bound[CALLBACK[callee]]
        ok_bounds = all(bp in bound and self.bounds_prov(bound[bp])[0] in ("decl", "part") for bp in bounds_params)
        res = []
        for name, a in bound.items():
            if name in data_params:
                elems = a.elts if isinstance(a, (ast.List, ast.Tuple)) else [a]
                if ok_bounds and all(self.as_view(e) is not None for e in elems):
                    for e in elems:
                        vid, _n = self.lower_view(e, out, _txt(e))
                        res.append((vid, f".deleg {cid}"))
                    continue
            res += self.deps(a, out)
        for k in node.keywords:
            if k.arg is None:
                res += self.deps(k.value, out)
        return res

    # ---- assignments
    def bind(self, target, deps, out, value, aug=False):
        """`target = <expression with dependencies deps>`"""
        if isinstance(target, (ast.Tuple, ast.List)):
            for i, e in enumerate(target.elts):
                if isinstance(e, ast.Starred):
                    e = e.value
                sub = None
                if value is not None and isinstance(value, (ast.Tuple, ast.List)) and len(value.elts) == len(target.elts):
                    sub = value.elts[i]
                self.bind(e, deps, out, sub)
                v = self.varname(e)
                if v is not None and value is not None and sub is None:
                    p = self.bounds_prov(value)
                    if p[0] != "other":
                        self.bprov[v] = ("elem", p, i)
            return
        v = self.varname(target)
        if v is not None:
            own = [(self.var(v), ".val")] if aug else []
            out.append(("ev", f".assign {self.var(v)} {self.intern(self.ops, _txt(value)[:60] if value is not None else '<element>')} "
                              f"{self.args(own + deps)}"))
            if v.startswith("self."):
                out.append(("ev", f".use .release {self.intern(self.sinks, v)} {self.args(own + deps)}"))
            if not aug:
                self.set_prov(v, value)           # declared bounds re-assigned from anything else stop being declared
            else:
                self.bprov.pop(v, None)
            self.root.pop(v, None)
            return
        if isinstance(target, (ast.Subscript, ast.Attribute)):
            base = target
            extra = []
            while isinstance(base, (ast.Subscript, ast.Attribute)) and self.varname(base) is None:
                if isinstance(base, ast.Subscript):
                    extra += self.deps(base.slice, out)
                base = base.value
            b = self.varname(base)
            if b is None:
                out.append(("ev", f".use .effect {self.intern(self.sinks, 'store: ' + _txt(target)[:50])} {self.args(deps + extra)}"))
                return
            all_d = [(self.var(b), ".val")] + extra + deps
            out.append(("ev", f".assign {self.var(b)} {self.intern(self.ops, 'store into ' + _txt(target)[:50])} {self.args(all_d)}"))
            if b.startswith("self."):
                out.append(("ev", f".use .release {self.intern(self.sinks, b)} {self.args(all_d)}"))
            self.root.pop(b, None)
            self.bprov.pop(b, None)
            return
        self.err(f"unsupported assignment target `{_txt(target)}`", target)

    def assign(self, st, out):
        value = st.value
        targets = st.targets if isinstance(st, ast.Assign) else [st.target]
        f = _txt(value.func) if isinstance(value, ast.Call) else None
        # X, y = validate_data(self, X, y, …): pairwise re-arrangement
        if f in VALIDATORS and len(targets) == 1:
            arrs = [a for a in value.args if not (isinstance(a, ast.Name) and a.id == "self")]
            tg = targets[0].elts if isinstance(targets[0], ast.Tuple) else [targets[0]]
            if len(tg) <= len(arrs) and all(self.varname(t) is not None for t in tg) and \
                    all(self.as_view(a) is not None for a in arrs[:len(tg)]):
                extra = []
                for a in arrs[len(tg):]:
                    extra += self.deps(a, out)
                for k in value.keywords:
                    extra += self.deps(k.value, out)
                srcs = [self.lower_view(a, out, _txt(a)) for a in arrs[:len(tg)]]
                for t, (sid, sname) in zip(tg, srcs):
                    self.reshape_into(self.varname(t), sid, sname, f, extra, out)
                return
        if len(targets) == 1 and self.varname(targets[0]) is not None and not isinstance(st, ast.AugAssign):
            tname = self.varname(targets[0])
            # dst = clip(view, bounds)
            if f in CLIP_FUNCS:
                before = len(self.clips)
                d = self.call(value, out)
                if len(self.clips) == before + 1 and out and out[-1][0] == "ev" and out[-1][1].startswith(".clip"):
                    # retarget the temp of the clip to the assigned variable (extra dependencies must be clean too)
                    _c, t, src, b = out[-1][1].split()
                    rest = [x for x in d if x != (int(t), ".val")]
                    out[-1] = ("ev", f".clip {self.var(tname)} {src} {b}")
                    tn = [k for k, v in self.vars.items() if v == int(t)][0]
                    if rest:
                        out.append(("ev", f".use .effect {self.intern(self.sinks, 'arguments of ' + f)} {self.args(rest)}"))
                    if tname.startswith("self."):
                        out.append(("ev", f".use .release {self.intern(self.sinks, tname)} {self.args([(self.var(tname), '.val')])}"))
                    r = self.root.pop(tn, None)
                    self.root.pop(tname, None)
                    if r is not None:
                        self.root[tname] = r
                    self.bprov.pop(tname, None)
                    return
                self.bind(targets[0], d, out, value)
                return
            # dst = view chain of a variable
            if self.as_view(value) is not None and self.varname(value) is None :
                base, idx = self.as_view(value)
                extra = []
                for i in idx:
                    extra += self.deps(i, out)
                bname = self.varname(base)
                self.reshape_into(tname, self.var(bname), bname, _txt(value)[:60], extra, out)
                return
        d = self.deps(value, out)
        if isinstance(st, ast.AugAssign):
            self.bind(st.target, d, out, None, aug=True)
            return
        for t in targets:
            self.bind(t, d, out, value)

    def reshape_into(self, tname, sid, sname, what, extra, out):
        out.append(("ev", f".reshape {self.var(tname)} {sid} {self.intern(self.ops, 'view: ' + what)} {self.args(extra)}"))
        if tname.startswith("self."):
            out.append(("ev", f".use .release {self.intern(self.sinks, tname)} {self.args([(self.var(tname), '.val')])}"))
        r = self.root.get(sname)
        self.root.pop(tname, None)
        if r is not None:
            self.root[tname] = r
        if tname != sname:
            self.bprov.pop(tname, None)

    # ---- statements
    def snapshot(self):
        return dict(self.bprov), dict(self.root)

    def restore(self, snap):
        self.bprov, self.root = dict(snap[0]), dict(snap[1])

    def merge(self, a, b):
        """provenance facts that hold on both paths"""
        self.bprov = {k: v for k, v in a[0].items() if b[0].get(k) == v}
        self.root = {k: v for k, v in a[1].items() if b[1].get(k) == v}

    def block(self, stmts):
        out = []
        for st in stmts:
            self.stmt(st, out)
        return out

    @staticmethod
    def leaves(tree):
        """does every path through the block end in ret / raise?"""
        if not tree:
            return False
        last = tree[-1]
        if last[0] == "ev":
            return last[1].startswith((".ret", ".raise"))
        if last[0] == "branch":
            return Extractor.leaves(last[3]) and Extractor.leaves(last[4])
        return False

    def stmt(self, st, out):
        if isinstance(st, ast.Expr) and isinstance(st.value, ast.Constant):
            return
        if isinstance(st, (ast.Assign, ast.AugAssign)):
            self.assign(st, out)
        elif isinstance(st, ast.AnnAssign):
            if st.value is not None:
                self.bind(st.target, self.deps(st.value, out), out, st.value)
        elif isinstance(st, ast.Expr):
            v = st.value
            if isinstance(v, ast.Call) and isinstance(v.func, ast.Attribute):
                base = v.func.value
                while isinstance(base, (ast.Subscript, ast.Attribute)) and self.varname(base) is None:
                    base = base.value
                b = self.varname(base)
                if b is not None and v.func.attr != "randomise":
                    # a method call on a variable, made for its effect: may modify the variable
                    self.bprov.pop(b, None)
                    d = [(self.var(b), ".val")] + self.deps(v.func.value, out) + self.arg_deps(v, out)
                    out.append(("ev", f".assign {self.var(b)} {self.intern(self.ops, _txt(v.func)[:60])} {self.args(d)}"))
                    if b.startswith("self."):
                        out.append(("ev", f".use .release {self.intern(self.sinks, b)} {self.args(d)}"))
                    self.root.pop(b, None)
                    return
            d = self.deps(v, out)
            if d:
                out.append(("ev", f".use .effect {self.intern(self.sinks, _txt(v.func)[:50] if isinstance(v, ast.Call) else 'expression')} {self.args(d)}"))
        elif isinstance(st, ast.Return):
            d = self.deps(st.value, out)
            out.append(("ev", f".ret {self.args(d)}"))
        elif isinstance(st, ast.Raise):
            out.append(("ev", ".raise"))
        elif isinstance(st, ast.If):
            if _is_none_test(st.test, self.declared):
                # the data-derived fallback: outside C10 (declared bounds); keep the else arm
                self.skipped.append(f"line {st.lineno}: if {_txt(st.test)}")
                for s in st.orelse:
                    self.stmt(s, out)
                return
            d = self.deps(st.test, out)
            snap = self.snapshot()
            a = self.block(st.body)
            sa = self.snapshot()
            self.restore(snap)
            c = self.block(st.orelse)
            sc = self.snapshot()
            if self.leaves(a) and not self.leaves(c):
                self.restore(sc)
            elif self.leaves(c) and not self.leaves(a):
                self.restore(sa)
            else:
                self.merge(sa, sc)
            out.append(("branch", self.intern(self.conds, _txt(st.test)[:60]), self.args(d), a, c))
        elif isinstance(st, (ast.For, ast.While)):
            if st.orelse:
                self.err("for/while … else", st)
            for n in st.body:
                for x in ast.walk(n):
                    if isinstance(x, (ast.Break, ast.Continue)):
                        self.err("break/continue", x)
            src = st.iter if isinstance(st, ast.For) else st.test
            pre = []
            d = self.deps(src, pre)
            if pre and isinstance(st, ast.While):
                self.err("loop condition with a clip / sink", st)
            nclips = len(self.clips)
            for _round in range(4):
                snap = self.snapshot()
                del self.clips[nclips:]
                body = []
                if isinstance(st, ast.For):
                    self.bind(st.target, d, body, None)
                body += self.block(st.body)
                after = self.snapshot()
                self.merge(snap, after)
                if self.snapshot() == snap:
                    break
            else:
                self.err("provenance does not stabilise in a loop", st)
            out.extend(pre)
            out.append(("loop", self.intern(self.conds, ("for " + _txt(st.target) + " in " if isinstance(st, ast.For) else "while ")
                                            + _txt(src)[:50]), self.args(d), body))
        elif isinstance(st, ast.With):
            for it in st.items:
                d = self.deps(it.context_expr, out)
                if it.optional_vars is not None:
                    self.bind(it.optional_vars, d, out, None)
            for s in st.body:
                self.stmt(s, out)
        elif isinstance(st, ast.Try):
            if st.finalbody or st.orelse:
                self.err("try … else/finally", st)
            alld = []
            for s in st.body:
                for n in ast.walk(s):
                    w = self.varname(n) if isinstance(n, (ast.Name, ast.Attribute)) else None
                    if w is not None:
                        alld.append((self.var(w), ".val"))
            snap = self.snapshot()
            a = self.block(st.body)
            sa = self.snapshot()
            hs = None
            for h in st.handlers:
                self.restore(snap)
                hb = self.block(h.body)
                if hs is not None:
                    self.err("several except handlers", st)
                hs = (hb, self.snapshot())
            if hs is None:
                self.err("try without handler", st)
            self.merge(sa, hs[1])
            # whether (and where) the body raises is a function of everything the body reads
            out.append(("branch", self.intern(self.conds, f"try (line {st.lineno}) completes"), self.args(alld), a,
                        a + hs[0]))
        elif isinstance(st, ast.FunctionDef):
            bound = {a.arg for a in st.args.args + st.args.kwonlyargs} | {st.name}
            for n in ast.walk(st):
                if isinstance(n, ast.Name) and isinstance(n.ctx, ast.Store):
                    bound.add(n.id)
            d = []
            for s in st.body:
                d += self.free_deps(s, bound)
            out.append(("ev", f".assign {self.var(st.name)} {self.intern(self.ops, 'def ' + st.name)} {self.args(d)}"))
        elif isinstance(st, ast.Delete):
            for t in st.targets:
                v = self.varname(t)
                if v in self.declared:
                    self.err("declared bounds deleted", st)
        elif isinstance(st, (ast.Pass, ast.Import, ast.ImportFrom)):
            pass
        elif isinstance(st, ast.Assert):
            d = self.deps(st.test, out)
            out.append(("branch", self.intern(self.conds, "assert " + _txt(st.test)[:50]), self.args(d), [], [("ev", ".raise")]))
        else:
            self.err(f"unsupported statement {type(st).__name__}", st)

    def run(self):
        self.skipped = []
        if any(not _txt(d).startswith(("copy_docstring", "staticmethod")) for d in self.fn.decorator_list):
            self.err(f"decorated with {[_txt(d) for d in self.fn.decorator_list]}")
        body = self.block(self.fn.body)
        if not self.leaves(body):
            body.append(("ev", ".ret []"))
        return body


def _flat(tree):
    for n in tree:
        if n[0] == "ev":
            yield n[1]
        elif n[0] == "branch":
            yield n[2]
            yield from _flat(n[3])
            yield from _flat(n[4])
        elif n[0] == "loop":
            yield n[2]
            yield from _flat(n[3])


def _size(tree):
    return sum(1 for _ in _flat(tree))


def lean_sk(tree, ind=2):
    def one(n, ind):
        p = " " * ind
        if n[0] == "ev":
            return f"{p}.atom ({n[1]})"
        if n[0] == "branch":
            return f"{p}.branch {n[1]} {n[2]}\n{blk(n[3], ind + 2)}\n{blk(n[4], ind + 2)}"
        if n[0] == "loop":
            return f"{p}.loop {n[1]} {n[2]}\n{blk(n[3], ind + 2)}"
        raise TranslatorError(f"internal: node {n[0]}")

    def blk(ns, ind):
        p = " " * ind
        if not ns:
            return f"{p}.skip"
        return f"{p}(Sk.block [\n" + ",\n".join(one(x, ind + 2) for x in ns) + "])"

    return blk(tree, ind)


def lean_ident(qual):
    return "sk_" + qual.replace(".", "_")


def analyse(repo):
    """-> (entries: [dict], unavailable: [str])"""
    lib = Lib(repo)
    specs = {}
    pre_unavailable = []
    for rel, qual, pairs in ENTRIES:
        try:
            fn, is_method = lib.find(rel, qual)
            specs[qual.split(".")[-1] if not is_method else qual] = (qual, pairs, fn, is_method, rel)
        except TranslatorError as e:
            pre_unavailable.append(str(e))
    if len(specs) < 10:
        raise TranslatorError("entry points not found (tools/models moved?)")
    done, unavailable = {}, list(pre_unavailable)
    for key, (qual, pairs, fn, is_method, rel) in specs.items():
        try:
            ex = Extractor(lib, rel, qual, pairs, specs)
            sk = ex.run()
            if _size(sk) > 600:
                raise TranslatorError(f"{qual}: skeleton too large ({_size(sk)} nodes)")
            done[key] = {"name": qual, "sk": sk, "ex": ex, "nvars": len(ex.vars),
                         "data": [ex.vars[d] for d in pairs], "delegates": sorted(ex.delegations)}
        except TranslatorError as e:
            unavailable.append(str(e))
        except RecursionError:
            unavailable.append(f"{qual}: expression nesting too deep")
    # a delegation is only as good as the callee's own obligation
    changed = True
    while changed:
        changed = False
        for key in list(done):
            bad = [c for c in done[key]["delegates"] if c not in done]
            if bad:
                unavailable.append(f"{done[key]['name']}: delegates to {bad}, which could not be translated")
                del done[key]
                changed = True
    return list(done.values()), unavailable


def lean_source(entries):
    L = ["/- GENERATED by harness/translate/clips.py from the sources of /repo on every run — do not edit.",
         "",
         "One clip skeleton per entry point that receives data together with declared bounds; obligation:",
         "`clippedBeforeUse <#vars> <data vars> sk = true` (meaning: DPL.C10.static_clip_sound).",
         "The data-derived fallback `if <declared bounds> is None:` is outside C10 and not part of a skeleton.",
         "Not covered (no obligation):"]
    for n, why in NOT_COVERED:
        L.append(f"  {n}: {why}")
    L += ["-/", "import DPL.Model.ClipIR", "namespace DPL.Generated.C10Clips", "open DPL DPL.ClipIR", ""]
    for e in entries:
        ex = e["ex"]
        ident = lean_ident(e["name"])
        L.append(f"/- {e['name']}   data -> declared bounds: {ex.pairs}")
        L.append("   variables: " + "; ".join(f"{i} = {n}" for n, i in sorted(ex.vars.items(), key=lambda kv: kv[1])))
        L.append("   bounds expressions: " + "; ".join(f"{i} = {n}" for n, i in sorted(ex.bexprs.items(), key=lambda kv: kv[1])))
        L.append("   clips: " + ("; ".join(f"line {ln}: clip({s}, {b}) -> b={i}" for ln, s, b, i in ex.clips) or "none (delegates)"))
        if ex.callees:
            L.append("   callees with their own obligation: " + "; ".join(f"{i} = {n}" for n, i in sorted(ex.callees.items(), key=lambda kv: kv[1])))
        if ex.sinks:
            L.append("   sinks: " + "; ".join(f"{i} = {n}" for n, i in sorted(ex.sinks.items(), key=lambda kv: kv[1])))
        if ex.conds:
            L.append("   conditions: " + "; ".join(f"{i} = {n}" for n, i in sorted(ex.conds.items(), key=lambda kv: kv[1])))
        if ex.skipped:
            L.append("   undeclared-bounds fallback not in the skeleton: " + "; ".join(ex.skipped))
        for i in range(len(L) - 1, -1, -1):
            if L[i].startswith("/- "):
                break
            L[i] = L[i].replace("-/", "- /").replace("/-", "/ -")
        L[i] = "/- " + L[i][3:].replace("-/", "- /").replace("/-", "/ -")
        L.append("-/")
        L.append(f"def {ident} : Sk :=\n{lean_sk(e['sk'])}")
        L.append(f"theorem {ident}_ok : clippedBeforeUse {e['nvars']} {e['data']} {ident} = true := by decide +kernel")
        L.append("")
    L += ["end DPL.Generated.C10Clips", ""]
    return "\n".join(L)


def generate(repo, lean_dir):
    entries, unavailable = analyse(repo)
    src = lean_source(entries)
    d = os.path.join(lean_dir, "DPL", "Generated")
    os.makedirs(d, exist_ok=True)
    p = os.path.join(d, "C10Clips.lean")
    old = open(p).read() if os.path.exists(p) else None
    if old != src:
        with open(p, "w") as f:
            f.write(src)
    return {"entries": [e["name"] for e in entries], "obligations": len(entries), "unavailable": unavailable, "path": p,
            "not_covered": [n for n, _ in NOT_COVERED]}


if __name__ == "__main__":
    import sys
    info = generate(sys.argv[1] if len(sys.argv) > 1 else "/repo",
                    sys.argv[2] if len(sys.argv) > 2 else os.path.join(os.path.dirname(__file__), "..", "..", "lean"))
    print(info)
