"""C16 translator: the bodies of the five scoping methods of `BudgetAccountant` (`__enter__`, `__exit__`, `set_default`,
`pop_default`, `load_default`) are re-read from /repo's CURRENT AST and emitted as terms of the small imperative IR of
`lean/DPL/Model/ScopeIR.lean`; the generated file `lean/DPL/Generated/C16Scope.lean` proves, with the same scripts that
prove it for the hand copies, that the interpreter run on the GENERATED bodies is the hand-written machine
(`enterI`, `exitI`, `stepI`) the C16 theorems are about.

What the translator understands (anything else raises `Untranslatable`, which the caller reports as an unavailable
static tie — never as a violation):
  expressions  None | self | <the parameter of load_default> | BudgetAccountant._default | self.old_default |
               <the one local variable> | BudgetAccountant() | X.pop_default() (X = self | BudgetAccountant) |
               E.set_default()
  statements   BudgetAccountant._default = E | self.old_default = E | <local> = E | E (call) |
               if E is [not] None: … (no else) | del self.old_default | return [E] | docstring | pass |
               `if not isinstance(<param>, BudgetAccountant): raise TypeError(…)` (dropped: the model's identities are all
               accountants; C13 covers the type refusal)
What it trusts: that these five methods are reached only through Python's own protocol (`with`, attribute lookup on the
class), that no other code assigns `BudgetAccountant._default` or `old_default` (checked: a scan of the whole module for
other assignments is part of the extraction and reported as an extra obligation).
"""
import ast
import os

CLASS = "BudgetAccountant"
METHODS = {"__enter__": "Enter", "__exit__": "Exit", "set_default": "Set", "pop_default": "Pop", "load_default": "Load"}


class Untranslatable(Exception):
    pass


class _M:
    def __init__(self, fn):
        self.fn = fn
        args = [a.arg for a in fn.args.args]
        static = any(isinstance(d, ast.Name) and d.id == "staticmethod" for d in fn.decorator_list)
        self.selfname = None if static else (args[0] if args else None)
        rest = args if static else args[1:]
        # __exit__ takes the three exception arguments; none of them may be used as a value
        self.param = rest[0] if (fn.name == "load_default" and rest) else None
        self.local = None

    def expr(self, e):
        if isinstance(e, ast.Constant) and e.value is None:
            return ".none"
        if isinstance(e, ast.Name):
            if e.id == self.selfname:
                return ".self"
            if self.param is not None and e.id == self.param:
                return ".arg"
            if self.local is not None and e.id == self.local:
                return ".loc"
            raise Untranslatable(f"{self.fn.name}: name `{e.id}`")
        if isinstance(e, ast.Attribute):
            if isinstance(e.value, ast.Name) and e.value.id == CLASS and e.attr == "_default":
                return ".clsDefault"
            if isinstance(e.value, ast.Name) and e.value.id == self.selfname and e.attr == "old_default":
                return ".selfOld"
            raise Untranslatable(f"{self.fn.name}: attribute `{ast.unparse(e)}`")
        if isinstance(e, ast.Call) and not e.keywords:
            f = e.func
            if isinstance(f, ast.Name) and f.id == CLASS and not e.args:
                return ".newAcc"
            if isinstance(f, ast.Attribute) and not e.args:
                if f.attr == "pop_default" and isinstance(f.value, ast.Name) and f.value.id in (CLASS, self.selfname):
                    return ".callPop"
                if f.attr == "set_default":
                    return f"(.callSet {self.expr(f.value)})"
            raise Untranslatable(f"{self.fn.name}: call `{ast.unparse(e)}`")
        raise Untranslatable(f"{self.fn.name}: expression `{ast.unparse(e)}`")

    def is_type_guard(self, st):
        """`if not isinstance(<param>, BudgetAccountant): raise TypeError(…)`"""
        if not (isinstance(st, ast.If) and not st.orelse and len(st.body) == 1 and isinstance(st.body[0], ast.Raise)):
            return False
        t = st.test
        return (isinstance(t, ast.UnaryOp) and isinstance(t.op, ast.Not) and isinstance(t.operand, ast.Call)
                and isinstance(t.operand.func, ast.Name) and t.operand.func.id == "isinstance"
                and len(t.operand.args) == 2 and isinstance(t.operand.args[0], ast.Name)
                and t.operand.args[0].id == self.param
                and isinstance(t.operand.args[1], ast.Name) and t.operand.args[1].id == CLASS)

    def stmt(self, st):
        if isinstance(st, ast.Pass):
            return None
        if isinstance(st, ast.Expr):
            if isinstance(st.value, ast.Constant) and isinstance(st.value.value, str):
                return None                                           # docstring
            return f"(.eval {self.expr(st.value)})"
        if isinstance(st, ast.Assign) and len(st.targets) == 1:
            t = st.targets[0]
            v = self.expr(st.value)
            if isinstance(t, ast.Attribute) and isinstance(t.value, ast.Name):
                if t.value.id == CLASS and t.attr == "_default":
                    return f"(.setCls {v})"
                if t.value.id == self.selfname and t.attr == "old_default":
                    return f"(.setOld {v})"
            if isinstance(t, ast.Name) and t.id not in (self.selfname, self.param):
                if self.local not in (None, t.id):
                    raise Untranslatable(f"{self.fn.name}: a second local variable `{t.id}`")
                self.local = t.id
                return f"(.setLoc {v})"
            raise Untranslatable(f"{self.fn.name}: assignment `{ast.unparse(st)}`")
        if isinstance(st, ast.Delete) and len(st.targets) == 1:
            t = st.targets[0]
            if (isinstance(t, ast.Attribute) and isinstance(t.value, ast.Name) and t.value.id == self.selfname
                    and t.attr == "old_default"):
                return ".delOld"
            raise Untranslatable(f"{self.fn.name}: `{ast.unparse(st)}`")
        if isinstance(st, ast.Return):
            return f"(.ret {self.expr(st.value) if st.value is not None else '.none'})"
        if isinstance(st, ast.If):
            if self.is_type_guard(st):
                return None
            t = st.test
            if (not st.orelse and isinstance(t, ast.Compare) and len(t.ops) == 1 and len(t.comparators) == 1
                    and isinstance(t.comparators[0], ast.Constant) and t.comparators[0].value is None
                    and isinstance(t.ops[0], (ast.Is, ast.IsNot))):
                c = self.expr(t.left)
                body = self.block(st.body)
                return f"(.{'ifIsNone' if isinstance(t.ops[0], ast.Is) else 'ifNotNone'} {c} {body})"
            raise Untranslatable(f"{self.fn.name}: `if {ast.unparse(t)}`")
        raise Untranslatable(f"{self.fn.name}: statement `{ast.unparse(st).splitlines()[0]}`")

    def block(self, body):
        out = [s for s in (self.stmt(st) for st in body) if s is not None]
        if not out:
            return ".skip"
        term = out[-1]
        for s in reversed(out[:-1]):
            term = f"(.seq {s} {term})"
        return term


def extract(repo):
    """{Lean suffix: Stmt term}, plus the list of OTHER places in the library that assign the scoping attributes"""
    path = os.path.join(repo, "diffprivlib", "accountant.py")
    tree = ast.parse(open(path).read())
    cls = next((n for n in tree.body if isinstance(n, ast.ClassDef) and n.name == CLASS), None)
    if cls is None:
        raise Untranslatable("class BudgetAccountant not found")
    fns = {n.name: n for n in cls.body if isinstance(n, ast.FunctionDef)}
    out = {}
    for py, suffix in METHODS.items():
        if py not in fns:
            raise Untranslatable(f"method {py} not found")
        out[suffix] = _M(fns[py]).block(fns[py].body)
    # other writers of `_default` / `old_default` anywhere in the library (there must be none besides the class-level
    # `_default = None` and the five methods)
    others = []
    for root, _dirs, files in os.walk(os.path.join(repo, "diffprivlib")):
        for f in files:
            if not f.endswith(".py"):
                continue
            p = os.path.join(root, f)
            inside = set()
            if os.path.samefile(p, path):
                t = tree
                for py in METHODS:
                    inside.update(id(n) for n in ast.walk(fns[py]))
            else:
                try:
                    t = ast.parse(open(p).read())
                except SyntaxError as e:
                    raise Untranslatable(f"{p}: {e}")
            for n in ast.walk(t):
                if id(n) in inside:
                    continue
                tg = []
                if isinstance(n, ast.Assign):
                    tg = n.targets
                elif isinstance(n, (ast.AugAssign, ast.AnnAssign)):
                    tg = [n.target]
                elif isinstance(n, ast.Delete):
                    tg = n.targets
                for x in tg:
                    for y in ast.walk(x):
                        if isinstance(y, ast.Attribute) and y.attr in ("_default", "old_default"):
                            others.append(f"{os.path.relpath(p, repo)}: {ast.unparse(n)[:80]}")
                if isinstance(n, ast.Call) and isinstance(n.func, ast.Name) and n.func.id == "setattr" and len(n.args) >= 2 \
                        and isinstance(n.args[1], ast.Constant) and n.args[1].value in ("_default", "old_default"):
                    others.append(f"{os.path.relpath(p, repo)}: {ast.unparse(n)[:80]}")
    others.sort()
    # the class-level initialisation `_default = None`
    init = [st for st in cls.body if isinstance(st, ast.Assign) and any(isinstance(t, ast.Name) and t.id == "_default"
                                                                      for t in st.targets)]
    init_none = len(init) == 1 and isinstance(init[0].value, ast.Constant) and init[0].value.value is None
    return out, others, init_none


HEADER = """/- GENERATED on every run from /repo's current diffprivlib/accountant.py by harness/translate/scopeir.py — do not edit. -/
import DPL.Proofs.ScopeIR
namespace DPL.Gen.C16
open DPL DPL.ScopeIR

"""


def generate(repo, lean_dir):
    bodies, others, init_none = extract(repo)
    out = [HEADER]
    for suffix in ("Pop", "Set", "Enter", "Exit", "Load"):
        out.append(f"def gen{suffix} : Stmt := {bodies[suffix]}\n")
    out.append("/-- `pop_default` meets the contract the interpreter assumes for calls of it -/\n"
               "theorem genPop_ok : PopOk genPop := by\n  intro σ; unfold genPop; scope_ir_simple\n")
    out.append("/-- `set_default` meets the contract the interpreter assumes for calls of it -/\n"
               "theorem genSet_ok : SetOk genSet := by\n  intro σ a; unfold genSet; scope_ir_simple\n")
    out.append("/-- `__enter__` as coded is the machine's `enterI` -/\n"
               "theorem genEnter_ok : EnterOk genEnter := by\n  intro σ a; unfold genEnter; scope_ir_simple\n")
    out.append("/-- `__exit__` as coded is the machine's `exitI` (and returns a falsy value) -/\n"
               "theorem genExit_ok : ExitOk genExit := by\n  unfold genExit; scope_ir_exit\n")
    out.append("/-- `load_default` as coded is the machine's `load` step -/\n"
               "theorem genLoad_ok : LoadOk genLoad := by\n  unfold genLoad; scope_ir_load\n")
    # no other writer of the scoping attributes; `_default` starts as None (St.init)
    out.append(f"def otherWriters : List String := [{', '.join(chr(34) + o.replace(chr(92), '/').replace(chr(34), chr(39)) + chr(34) for o in others)}]\n"
               "/-- nothing else in the library assigns `_default` / `old_default`, except the writers the hand model lists\n"
               "(`ScopeIR.knownOtherWriters`: the save/restore around sklearn's throw-away estimator in forest.py) -/\n"
               "theorem no_other_writers : otherWriters = knownOtherWriters := by decide\n")
    out.append(f"def classDefaultStartsNone : Bool := {'true' if init_none else 'false'}\n"
               "/-- the class attribute is initialised to `None` (`St.init`) -/\n"
               "theorem class_default_starts_none : classDefaultStartsNone = true := by decide\n")
    out.append("end DPL.Gen.C16\n")
    src = "\n".join(out)
    path = os.path.join(lean_dir, "DPL", "Generated", "C16Scope.lean")
    os.makedirs(os.path.dirname(path), exist_ok=True)
    old = open(path).read() if os.path.exists(path) else None
    if old != src:
        with open(path, "w") as f:
            f.write(src)
    return {"build": ["DPL.Generated.C16Scope"], "obligations": 7, "bodies": bodies}
