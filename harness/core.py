"""Check runner shared by all properties (DESIGN.md §4).

A property module (harness/props/cXX.py) provides
    PROPERTY      = "C04"
    LEAN_MODULE   = "DPL.Properties.C04"
    TRUSTED       = [...]            # property-specific trusted-base lines (what is modelled, not verified)
    UNPROVED      = [...]            # parts that are only validated (named in the evidence)
    def generate(ctx): ...           # optional: regenerate lean/DPL/Generated/* from /repo (translator tie)
    def check(ctx): ...              # correspondence + direct checks; uses ctx.budget(n) for case counts
    def replay(ctx, data): ...       # re-execute one replay record against the current tree; returns bool (fails?)
    WITNESSES = {signature: fn(ctx) -> (still_fails: bool, description)}   # known-finding witnesses
and reports through
    ctx.case(nontrivial_key)                       one explored case (key=None: trivial)
    ctx.disagree(unit, input, model, impl)         model/implementation correspondence broken
    ctx.violation(signature, what, data)           the property itself fails on the implementation (concrete input)
    ctx.sample(obj)                                an example case for the evidence file
"""
import importlib
import json
import os
import sys
import time
import traceback

from . import gen, leanio

VERIF = leanio.VERIF
EVID = os.path.join(VERIF, "evidence")
REPLAYS = os.path.join(VERIF, "replays")
KNOWN = os.path.join(VERIF, "known_findings.json")

COMMON_TRUSTED = [
    "Lean 4.33 kernel; Mathlib v4.33 as installed; axioms propext, Classical.choice, Quot.sound only "
    "(audited with #print axioms on every property theorem on every run; no native_decide/bv_decide/sorry)",
    "the hand-written Lean model is tied to /repo only by the sampled correspondence run of this check "
    "(same executable definitions, run on IEEE doubles by the driver, compared with the real Python code)",
    "the Python harness itself: shims, scripted-randomness seams, canonicalisation, tolerances",
    "IEEE-754 rounding is not modelled in the theorems (they are over R/Q/Z or an arbitrary carrier)",
]


def _jsonable(o):
    import numpy as np
    if isinstance(o, dict):
        return {str(k): _jsonable(v) for k, v in o.items()}
    if isinstance(o, (list, tuple)):
        return [_jsonable(v) for v in o]
    if isinstance(o, np.ndarray):
        return _jsonable(o.tolist())
    if isinstance(o, (np.integer,)):
        return int(o)
    if isinstance(o, (np.floating, float)):
        f = float(o)
        if f != f:
            return "nan"
        if f in (float("inf"), float("-inf")):
            return "inf" if f > 0 else "-inf"
        return f
    if isinstance(o, (np.bool_,)):
        return bool(o)
    if isinstance(o, (int, str, bool)) or o is None:
        return o
    if isinstance(o, complex):
        return f"complex({o.real},{o.imag})"
    return repr(o)


def unjson_float(x):
    if x == "nan":
        return float("nan")
    if x == "inf":
        return float("inf")
    if x == "-inf":
        return float("-inf")
    return x


class Ctx:
    def __init__(self, prop, tier, seed):
        self.prop = prop
        self.tier = tier
        self.seed = seed
        self.rng = gen.SplitMix64(seed * 1000003 + sum(map(ord, prop)))
        self.scale = int(os.environ.get("VERIF_SCALE", "1") or 1)   # escalation multiplier (10 during the search)
        self.searching = False
        self.evaluations = 0
        self.nontrivial = set()
        self.samples = []
        self.disagreements = []
        self.violations = []
        self._per_sig = {}
        self.counters = {}
        self.traces_validated = 0
        self.boundary_skipped = 0
        self.notes = []
        self.t0 = time.time()

    # ---- budgets
    def budget(self, quick, thorough=None):
        n = quick if self.tier == "quick" else (thorough if thorough is not None else quick * 20)
        return int(n * self.scale)

    def fork(self, tag):
        return self.rng.fork(tag)

    # ---- reporting
    def case(self, key=None, n=1):
        self.evaluations += n
        if key is not None:
            if len(self.nontrivial) < 2_000_000:
                self.nontrivial.add(key if isinstance(key, (str, int, tuple)) else repr(key))

    def count(self, name, n=1):
        self.counters[name] = self.counters.get(name, 0) + n

    def sample(self, obj, cap=6):
        if len(self.samples) < cap:
            self.samples.append(_jsonable(obj))

    def trace_ok(self, n=1):
        self.traces_validated += n

    def disagree(self, unit, input_, model, impl, note=""):
        if len(self.disagreements) < 50:
            self.disagreements.append({"unit": unit, "input": _jsonable(input_), "model": _jsonable(model),
                                       "impl": _jsonable(impl), "note": note})
        self.count("disagreements")

    def violation(self, signature, what, data):
        """the property itself fails on the real code, with a concrete input"""
        # keep a few per signature, so that a flood of one (possibly known) finding cannot crowd out a different one
        n_sig = self._per_sig.get(signature, 0)
        self._per_sig[signature] = n_sig + 1
        if n_sig < 6 and len(self.violations) < 600:
            self.violations.append({"signature": signature, "what": what, "data": _jsonable(data)})
        self.count("violations_raw")

    def note(self, s):
        if len(self.notes) < 40:
            self.notes.append(s)


def load_known():
    if not os.path.exists(KNOWN):
        return {"open": [], "fixed": []}
    return json.load(open(KNOWN))


def _write_replay(prop, seed, body):
    os.makedirs(REPLAYS, exist_ok=True)
    path = os.path.join(REPLAYS, f"{prop}_{seed}_{int(time.time())}.json")
    body = dict(body)
    body.setdefault("property", prop)
    body.setdefault("seed", seed)
    body["replay_cmd"] = f"./check replay {os.path.relpath(path, VERIF)}"
    with open(path, "w") as f:
        json.dump(_jsonable(body), f, indent=1)
    return os.path.relpath(path, VERIF)


def _evidence(mod, ctx, lean, outcome, known_lines, wall):
    names = lean.get("theorems", [])
    und = lean.get("undischarged", [])
    gen_obl = lean.get("generated_obligations", 0)
    obligations = max(1, len(names) + gen_obl) if lean.get("built") else max(1, len(names) + gen_obl + len(und))
    discharged = 0
    if lean.get("built"):
        bad = set(n.split(":")[0] for n in und)
        discharged = len([n for n in names if n not in bad]) + gen_obl
    cov = {
        "obligations": obligations,
        "discharged": discharged,
        "checker_cmd": f"cd lean && lake build {mod.LEAN_MODULE} && lake env lean <#print axioms for each theorem>"
                       + (" && lake env leanchecker " + mod.LEAN_MODULE if ctx.tier == "thorough" else ""),
        "trusted_base": COMMON_TRUSTED + list(getattr(mod, "TRUSTED", [])),
        "theorems": names,
        "axioms_used": sorted({a for v in lean.get("axioms", {}).values() for a in v}),
        "undischarged": und,
        "validated_only": list(getattr(mod, "UNPROVED", [])),
        "lean_modules_audited": lean.get("modules", []),
        "leanchecker": lean.get("leanchecker"),
        "evaluations": max(1, ctx.evaluations),
        "distinct_nontrivial": len(ctx.nontrivial),
        "rule": getattr(mod, "RULE", "generated from one SplitMix64 stream seeded by VERIF_SEED; a case is non-trivial "
                                     "when it exercises a non-default branch; distinct by its canonical key"),
        "samples": ctx.samples or [{"note": "no sample recorded"}],
        "traces_validated_against_impl": ctx.traces_validated,
        "correspondence_disagreements": ctx.disagreements[:10],
        "boundary_skipped": ctx.boundary_skipped,
        "counters": ctx.counters,
        "known_findings_reported": known_lines,
        "outcome": outcome,
        "static_tie_unavailable": lean.get("static_tie_unavailable", []),
        "source_pin": lean.get("source_pin"),
        "notes": ctx.notes,
    }
    ev = {
        "property_id": mod.PROPERTY,
        "tier": ctx.tier,
        "seed": ctx.seed,
        "level": "proof",
        "coverage": cov,
        "assumptions": COMMON_TRUSTED + list(getattr(mod, "TRUSTED", [])),
        "wall_s": round(wall, 3),
        "violations": 0 if outcome == "ok" else 1,
    }
    # Runs against a scratch copy of the repository (seeded-change trials: VERIF_REPO) or at an escalated budget on
    # demand (VERIF_SCALE) must not overwrite the evidence of the registered checks on /repo itself.
    evid = EVID
    if os.environ.get("VERIF_REPO") not in (None, "", "/repo") or (os.environ.get("VERIF_SCALE") or "1") != "1":
        evid = os.path.join(VERIF, "evidence-scratch")
    os.makedirs(evid, exist_ok=True)
    tmp = os.path.join(evid, mod.PROPERTY + ".json.tmp")
    with open(tmp, "w") as f:
        json.dump(ev, f, indent=1)
    os.replace(tmp, os.path.join(evid, mod.PROPERTY + ".json"))


def _library_exception(ctx, exc):
    """An exception that escapes a check and was RAISED INSIDE THE LIBRARY UNDER TEST (a frame under the repo path) is a
    behavioural difference of the code, not a crash of the check: record it as a broken correspondence."""
    from .shim import REPO
    repo = os.path.realpath(REPO)
    tb = traceback.extract_tb(exc.__traceback__)
    frames = [f for f in tb if os.path.realpath(f.filename).startswith(repo + os.sep)]
    if not frames:
        return None
    f = frames[-1]
    ctx.disagree("check-aborted-by-library-exception", {"where": f"{os.path.relpath(f.filename, repo)}:{f.lineno} in {f.name}"},
                 "the model and the unchanged library do not raise here", f"{type(exc).__name__}: {exc}"[:400],
                 note="an exception raised inside the library under test aborted the check")
    return True


def run_property(prop, tier, seed):
    t0 = time.time()
    mod = importlib.import_module(f"harness.props.{prop.lower()}")
    ctx = Ctx(prop, tier, seed)
    known = load_known()
    open_sigs = {k["signature"]: k for k in known.get("open", []) if k["property"] == prop}

    # 1. translator tie (optional): regenerate Lean facts from the current sources; 2. proofs.  One lock around both, so
    # that the files built are the ones generated from THIS run's copy of the repository.
    gen_info = {}
    with leanio.GenLock():
        if hasattr(mod, "generate"):
            try:
                gen_info = mod.generate(ctx) or {}
            except Exception as e:  # a translator that cannot parse the new code shape is not a violation by itself
                gen_info = {"error": f"{type(e).__name__}: {e}"}
                ctx.note("translator failed: " + gen_info["error"])
        lean = leanio.lean_stage(mod.LEAN_MODULE, tier, extra_build=gen_info.get("build", ()))
    lean["generated_obligations"] = gen_info.get("obligations", 0) if lean.get("built") else 0
    if gen_info.get("error"):
        lean.setdefault("undischarged", []).append("translator: " + gen_info["error"])
    proof_broken = (not lean["built"]) or bool(lean["undischarged"])
    # A formula anchor that can no longer be LOCATED in the source (renamed local, restructured statement) is a limit of
    # the secondary, static tie — not a failed obligation.  DESIGN §3.3: the behavioural correspondence (primary tie) is
    # then run at 10x budget; the evidence records which anchors were unavailable.
    unavailable = list(gen_info.get("unavailable", ()))
    if unavailable:
        ctx.note("static tie unavailable for anchors: " + "; ".join(unavailable)[:600])
        ctx.scale = 10

    lean["static_tie_unavailable"] = unavailable

    # Source pins (harness/pins.py): when the files this property is anchored in (or what they import from the library)
    # differ from the revision the model was last validated against, the correspondence is run at a larger budget.
    # Not a violation, not a broken tie - a deeper re-validation exactly when the code has changed.
    try:
        from . import pins
        from .shim import REPO as _repo
        changed, pinned_rev = pins.changed_for(prop, _repo)
    except Exception as e:  # noqa
        changed, pinned_rev = [], None
        ctx.note(f"source pins unavailable: {type(e).__name__}: {e}")
    lean["source_pin"] = {"validated_revision": pinned_rev, "changed_files": changed}
    if changed and tier == "quick":
        ctx.note(f"source differs from the validated revision {str(pinned_rev)[:10]} in {', '.join(changed)[:300]}: "
                 f"correspondence budget x{pins.CHANGED_SCALE}")
        ctx.scale = max(ctx.scale, pins.CHANGED_SCALE)

    # 3. correspondence + direct checks
    infra_error = None
    try:
        mod.check(ctx)
    except leanio.LeanError as e:
        if lean["built"]:
            infra_error = f"LeanError: {e}"
        else:
            ctx.note(f"driver unavailable because the build is broken: {e}")
    except Exception as e:
        infra_error = _library_exception(ctx, e) or traceback.format_exc()
        if infra_error is True:
            infra_error = None

    def new_violations():
        return [v for v in ctx.violations if v["signature"] not in open_sigs]

    outcome = "ok"
    replay_path = None
    nv = new_violations()
    if infra_error and not nv:
        print(infra_error, file=sys.stderr)
        print(f"INFRA-ERROR property={prop}: the check itself failed (exit 2)")
        _evidence(mod, ctx, lean, "infra-error", [], time.time() - t0)
        return 2

    if not nv and (proof_broken or ctx.disagreements):
        # a broken proof obligation or correspondence is not by itself a violation: search for a failing input
        ctx.note("escalating: " + ("proof obligation broken; " if proof_broken else "") +
                 (f"{len(ctx.disagreements)} correspondence disagreement(s)" if ctx.disagreements else ""))
        ctx.scale = 10
        ctx.searching = True
        ctx.hints = list(ctx.disagreements)
        try:
            (getattr(mod, "search", None) or mod.check)(ctx)
        except Exception:
            ctx.note("search raised: " + traceback.format_exc()[-500:])
        nv = new_violations()

    if nv:
        v = nv[0]
        outcome = "violation"
        replay_path = _write_replay(prop, seed, {"kind": "failing-input", "signature": v["signature"],
                                                 "what": v["what"], "data": v["data"],
                                                 "other_violations": [x["what"] for x in nv[1:6]]})
        print(f"failing input: {v['what']}")
        print(f"VIOLATION property={prop} replay={replay_path}")
    elif proof_broken or ctx.disagreements:
        outcome = "violation-no-input"
        replay_path = _write_replay(prop, seed, {
            "kind": "no-failing-input-found",
            "what": "a proof obligation or the model/implementation correspondence no longer checks; the search "
                    "found no input on which the property itself fails",
            "undischarged_theorems": lean.get("undischarged", []),
            "lean_log": lean.get("log", "")[-3000:],
            "correspondence_units": sorted({d["unit"] for d in ctx.disagreements}),
            "first_disagreements": ctx.disagreements[:5]})
        for d in ctx.disagreements[:3]:
            print(f"correspondence: unit={d['unit']} input={json.dumps(d['input'])[:300]} model={json.dumps(d['model'])[:200]} "
                  f"impl={json.dumps(d['impl'])[:200]} {d['note']}")
        for u in lean.get("undischarged", [])[:5]:
            print(f"proof obligation: {u}")
        print(f"VIOLATION property={prop} replay={replay_path} no-failing-input-found")

    # 4. known findings: one line per open entry whose witness still fails
    known_lines = []
    wit = getattr(mod, "WITNESSES", {})
    for sig, entry in open_sigs.items():
        still = None
        desc = entry.get("what", "")
        if sig in wit:
            try:
                still, d2 = wit[sig](ctx)
                desc = d2 or desc
            except Exception as e:
                still, desc = True, f"{desc} (witness raised {type(e).__name__}: {e})"
        else:
            still = any(v["signature"] == sig for v in ctx.violations)
        if still:
            line = f"KNOWN-FINDING: property={prop} {sig}: {desc}"
            print(line)
            known_lines.append(line)
        else:
            ctx.note(f"known finding {sig} no longer reproduces")

    _evidence(mod, ctx, lean, outcome, known_lines, time.time() - t0)
    n_th = len(lean.get("theorems", []))
    print(f"[{prop}] tier={tier} seed={seed} theorems={n_th} undischarged={len(lean.get('undischarged', []))} "
          f"evaluations={ctx.evaluations} distinct_nontrivial={len(ctx.nontrivial)} traces={ctx.traces_validated} "
          f"disagreements={len(ctx.disagreements)} violations={len(ctx.violations)} known={len(known_lines)} "
          f"wall={time.time() - t0:.1f}s outcome={outcome}")
    return 0 if outcome == "ok" else 1


def run_replay(path):
    data = json.load(open(path if os.path.isabs(path) else os.path.join(VERIF, path)))
    prop = data["property"]
    mod = importlib.import_module(f"harness.props.{prop.lower()}")
    ctx = Ctx(prop, "quick", int(data.get("seed", 0)))
    if data.get("kind") == "no-failing-input-found":
        print("replay: this record names proof obligations / correspondence units, re-running the quick check")
        return run_property(prop, "quick", int(data.get("seed", 0)))
    fails = mod.replay(ctx, data)
    if fails:
        print(f"replay: still fails: {data.get('what')}")
        print(f"VIOLATION property={prop} replay={path}")
        return 1
    print("replay: no longer fails")
    return 0
