"""Source pins: the revision of /repo against which the hand-written model was last validated is recorded as one
structural hash per library file (pins.json, written by tools/pin_sources.py after a clean run of every check).

On every run the current hashes of the files a property is anchored in — and of everything those files import from
inside the library — are compared with the pins.  A difference is NOT a violation and not even a broken tie: it only
says "the code this model was validated against has changed", and the behavioural correspondence (the primary tie) is
then run at a larger budget (CHANGED_SCALE x the quick budget), so that a change is met by a deeper re-validation exactly
when there is something new to validate.  The hash is over the AST with docstrings removed: re-formatting, comments and
docstring edits do not trigger it."""
import ast
import hashlib
import json
import os

VERIF = os.path.dirname(os.path.dirname(os.path.abspath(__file__)))
PINS = os.path.join(VERIF, "pins.json")
CHANGED_SCALE = int(os.environ.get("VERIF_CHANGED_SCALE", "4") or 4)


def _strip_docstrings(tree):
    for n in ast.walk(tree):
        if isinstance(n, (ast.Module, ast.FunctionDef, ast.AsyncFunctionDef, ast.ClassDef)) and n.body:
            b = n.body[0]
            if isinstance(b, ast.Expr) and isinstance(b.value, ast.Constant) and isinstance(b.value.value, str):
                n.body = n.body[1:] or [ast.Pass()]
    return tree


def fingerprint(path):
    try:
        tree = _strip_docstrings(ast.parse(open(path, encoding="utf-8").read()))
        return hashlib.sha256(ast.dump(tree, include_attributes=False).encode()).hexdigest()[:24]
    except (OSError, SyntaxError) as e:
        return "unreadable:" + type(e).__name__


def library_files(repo):
    out = []
    for d, _, fs in os.walk(os.path.join(repo, "diffprivlib")):
        for f in fs:
            if f.endswith(".py"):
                out.append(os.path.relpath(os.path.join(d, f), repo))
    return sorted(out)


def _imports(repo, rel):
    """library files imported by `rel` (absolute `diffprivlib.x.y` and relative forms), resolved to paths"""
    try:
        tree = ast.parse(open(os.path.join(repo, rel), encoding="utf-8").read())
    except (OSError, SyntaxError):
        return set()
    pkg = os.path.dirname(rel).replace(os.sep, ".")
    mods = set()
    for n in ast.walk(tree):
        if isinstance(n, ast.Import):
            mods.update(a.name for a in n.names)
        elif isinstance(n, ast.ImportFrom):
            base = n.module or ""
            if n.level:
                parts = pkg.split(".")
                parts = parts[:len(parts) - (n.level - 1)]
                base = ".".join(parts + ([n.module] if n.module else []))
            mods.add(base)
            mods.update(base + "." + a.name for a in n.names)
    out = set()
    for m in mods:
        if not m.startswith("diffprivlib"):
            continue
        p = m.replace(".", os.sep)
        hit = False
        for cand in (p + ".py", os.path.join(p, "__init__.py")):
            if os.path.exists(os.path.join(repo, cand)):
                out.add(cand)
                hit = True
        if not hit and "." in m:
            # `from diffprivlib.mechanisms import Laplace`: a NAME re-exported by a package __init__ - follow it to the
            # module that the __init__ takes it from
            pk, name = m.rsplit(".", 1)
            init = os.path.join(pk.replace(".", os.sep), "__init__.py")
            if os.path.exists(os.path.join(repo, init)):
                out |= _reexport(repo, init, name)
    return out


def _reexport(repo, init, name):
    try:
        tree = ast.parse(open(os.path.join(repo, init), encoding="utf-8").read())
    except (OSError, SyntaxError):
        return set()
    pkg = os.path.dirname(init).replace(os.sep, ".")
    out = set()
    for n in tree.body:
        if isinstance(n, ast.ImportFrom) and any((a.asname or a.name) == name or a.name == "*" for a in n.names):
            base = n.module or ""
            if n.level:
                parts = pkg.split(".")
                parts = parts[:len(parts) - (n.level - 1)]
                base = ".".join(parts + ([n.module] if n.module else []))
            p = base.replace(".", os.sep)
            for cand in (p + ".py", os.path.join(p, "__init__.py")):
                if os.path.exists(os.path.join(repo, cand)):
                    out.add(cand)
    return out


def closure(repo, files):
    seen, todo = set(), [f for f in files if f.endswith(".py")]
    while todo:
        f = todo.pop()
        if f in seen or not os.path.exists(os.path.join(repo, f)):
            continue
        seen.add(f)
        # a package __init__ that re-exports everything would pull in the whole library: follow imports of real modules
        # and of the __init__ files on the path, but not the re-exports of an __init__
        if os.path.basename(f) == "__init__.py":
            continue
        todo.extend(_imports(repo, f))
    return sorted(seen)


def anchored_files(prop):
    for line in open(os.path.join(VERIF, "properties.jsonl")):
        p = json.loads(line)
        if p["id"] == prop:
            return list(p["anchors"].get("files", []))
    return []


def changed_for(prop, repo):
    """-> (list of changed/new/removed files relevant to `prop`, pinned revision or None)"""
    try:
        pins = json.load(open(PINS))
    except (OSError, ValueError):
        return [], None
    files = closure(repo, anchored_files(prop))
    changed = [f for f in files if pins["files"].get(f) != fingerprint(os.path.join(repo, f))]
    changed += [f for f in anchored_files(prop) if f.endswith(".py") and not os.path.exists(os.path.join(repo, f))]
    return sorted(set(changed)), pins.get("revision")
