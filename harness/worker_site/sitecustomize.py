"""Picked up by child interpreters (joblib/loky worker processes, the fresh-interpreter runs of C15) when the harness
puts this directory on PYTHONPATH and sets VERIF_WORKER_SHIM=1: applies the same third-party API shims as the parent
(harness/shim.py) BEFORE the library is imported in the child, and makes the child import the same /repo tree
(VERIF_REPO).  Without it a loky worker dies on `import diffprivlib` (DESIGN.md §8).  Nothing in /repo is touched."""
import os
import sys

if os.environ.get("VERIF_WORKER_SHIM") == "1":
    _verif = os.path.dirname(os.path.dirname(os.path.dirname(os.path.abspath(__file__))))
    if _verif not in sys.path:
        sys.path.insert(0, _verif)
    try:
        import harness.shim  # noqa: F401
    except Exception as _e:  # pragma: no cover - a child that cannot import will fail loudly later anyway
        sys.stderr.write(f"verif worker shim failed: {type(_e).__name__}: {_e}\n")
