"""Formula anchors of C01 (discrete mechanisms): the closed-form pieces of Binary / Geometric / Exponential /
PermuteAndFlip / ExponentialCategorical `randomise` are re-read from /repo's current AST, translated to Lean terms over ℝ
and proved equal to the terms of lean/DPL/Model/Discrete.lean; the POST theorems then state that the model's sampler IS
the composition of the generated pieces (so a changed formula, operator or comparison direction breaks `lake build`)."""
from . import anchor_locators as L

BIN = "diffprivlib/mechanisms/binary.py"
GEO = "diffprivlib/mechanisms/geometric.py"
EXP = "diffprivlib/mechanisms/exponential.py"
FIN = "rfl"


def sp(name, file, func, env, binders, args, hand, tactic=FIN, **kw):
    return dict(name=name, file=file, func=func, env=env, binders=binders, args=args, hand=hand, tactic=tactic, **kw)


def specs():
    benv = {"self._rng.random()": "u", "self.epsilon": "e", "self.delta": "d", "unif_rv": "x"}
    genv = {"self._rng.random()": "u", "self._scale": "sc", "self.epsilon": "e", "self.sensitivity": "s",
            "unif_rv": "v", "sgn": "sg", "value": "(val : ℝ)"}
    xenv = {"epsilon": "e", "sensitivity": "s", "monotonic": "m", "scale": "sc", "utility": "x"}
    cenv = {"self.epsilon": "e", "self._get_utility(value1, value2)": "ut", "balancing_factor": "bf",
            "self._sensitivity": "s"}
    R = "Geometric.randomise"
    FP = "Exponential._find_probabilities"
    PFP = "PermuteAndFlip._find_probabilities"
    GP = "ExponentialCategorical._get_prob"
    return [
        # ---- Binary.randomise: unif_rv = u * (exp(eps) + 1); flip iff exp(eps) + delta < unif_rv
        sp("binaryUnif", BIN, "Binary.randomise", benv, "(e u : ℝ)", "e u", "u * (Real.exp e + 1)",
           pick=dict(assign_target="unif_rv")),
        sp("binaryFlipLo", BIN, "Binary.randomise", benv, "(e d : ℝ)", "e d", "Real.exp e + d",
           locate=L.test_side(BIN, "Binary.randomise", "if", 0, 0)),
        sp("binaryFlipHi", BIN, "Binary.randomise", benv, "(x : ℝ)", "x", "x",
           locate=L.test_side(BIN, "Binary.randomise", "if", 0, 1)),
        # ---- Geometric: _scale, the centred and spread uniform, the sign, the floor argument, the returned sum
        sp("geomScale", GEO, "Geometric.__init__", genv, "(e s : ℝ)", "e s", "-e / s",
           locate=L.ifexp_branch(GEO, "Geometric.__init__", "self._scale", "body")),
        sp("geomUnif", GEO, R, genv, "(u sc : ℝ)", "u sc", "(u - 1 / 2) * (1 + Real.exp sc)",
           locate=L.assign_then_aug(GEO, R, "unif_rv")),
        sp("geomTestLo", GEO, R, genv, "(v : ℝ)", "v", "v", locate=L.ifexp_test_side(GEO, R, "sgn", 0)),
        sp("geomTestHi", GEO, R, genv, "", "", "0", locate=L.ifexp_test_side(GEO, R, "sgn", 1)),
        sp("geomSgnNeg", GEO, R, genv, "", "", "-1", locate=L.ifexp_branch(GEO, R, "sgn", "body")),
        sp("geomSgnPos", GEO, R, genv, "", "", "1", locate=L.ifexp_branch(GEO, R, "sgn", "orelse")),
        sp("geomFloorArg", GEO, R, genv, "(sg v sc : ℝ)", "sg v sc", "Real.log (sg * v) / sc",
           locate=L.call_arg(GEO, R, "np.floor", 0, within="return")),
        sp("geomReturn", GEO, R, genv, "(val : ℤ) (sg v sc : ℝ)", "val sg v sc",
           "(val : ℝ) + sg * ((⌊Real.log (sg * v) / sc⌋ : ℤ) : ℝ)", locate=L.strip_int(L.find(GEO, R, return_index=0))),
        # ---- Exponential / PermuteAndFlip: scale and (log-)weights
        sp("expScale", EXP, FP, xenv, "(e s m : ℝ)", "e s m", "e / s / (2 - m)",
           locate=L.ifexp_branch(EXP, FP, "scale", "body")),
        sp("expScaleTestLo", EXP, FP, xenv, "", "", "0", locate=L.ifexp_test_side(EXP, FP, "scale", 0)),
        sp("expScaleTestHi", EXP, FP, xenv, "(e s : ℝ)", "e s", "s / e", locate=L.ifexp_test_side(EXP, FP, "scale", 1)),
        sp("expWeight", EXP, FP, xenv, "(sc x : ℝ)", "sc x", "Real.exp (sc * x)",
           pick=dict(assign_target="probabilities", nth=1)),
        sp("pafScale", EXP, PFP, xenv, "(e s m : ℝ)", "e s m", "e / s / (2 - m)",
           locate=L.ifexp_branch(EXP, PFP, "scale", "body")),
        sp("pafScaleTestLo", EXP, PFP, xenv, "", "", "0", locate=L.ifexp_test_side(EXP, PFP, "scale", 0)),
        sp("pafScaleTestHi", EXP, PFP, xenv, "(e s : ℝ)", "e s", "s / e", locate=L.ifexp_test_side(EXP, PFP, "scale", 1)),
        sp("pafLogProb", EXP, PFP, xenv, "(sc x : ℝ)", "sc x", "sc * x",
           pick=dict(assign_target="log_probabilities", nth=1)),
        # the parameter of the coin `bernoulli_neg_exp(-self._probabilities[idx], rng)` of PermuteAndFlip.randomise
        sp("pafCoinGamma", EXP, "PermuteAndFlip.randomise", {"self._probabilities[idx]": "lp"}, "(lp : ℝ)", "lp", "-lp",
           locate=L.call_arg(EXP, "PermuteAndFlip.randomise", "bernoulli_neg_exp", 0)),
        # ---- ExponentialCategorical._get_prob
        sp("catDiag", EXP, GP, cenv, "", "", "1", pick=dict(return_index=0)),
        sp("catBalTrue", EXP, GP, cenv, "", "", "1", locate=L.ifexp_branch(EXP, GP, "balancing_factor", "body")),
        sp("catBalFalse", EXP, GP, cenv, "", "", "2", locate=L.ifexp_branch(EXP, GP, "balancing_factor", "orelse")),
        sp("catProb", EXP, GP, cenv, "(e ut bf s : ℝ)", "e ut bf s", "Real.exp (-e * ut / bf / s)",
           pick=dict(return_index=1)),
    ]


POST = """
/-- `Binary.randomise` as coded (pieces read from the AST) IS the model's `binaryRandomise` -/
theorem binaryRandomise_eq (e d u : ℝ) (ind : Bool) :
    binaryRandomise e d ind u =
      if gen_binaryFlipLo e d < gen_binaryFlipHi (gen_binaryUnif e u) then !ind else ind := by
  simp only [binaryRandomise, gen_binaryFlipLo, gen_binaryFlipHi, gen_binaryUnif, transc_exp]
  rfl

/-- `Geometric.randomise` as coded IS the model's `geomRandomise` (sensitivity > 0) -/
theorem geomRandomise_eq (e : ℝ) (s : ℕ) (hs : 0 < s) (val : ℤ) (u : ℝ) :
    ((geomRandomise e s val u : ℤ) : ℝ) =
      if gen_geomTestLo (gen_geomUnif u (gen_geomScale e s)) < gen_geomTestHi then
        gen_geomReturn val gen_geomSgnNeg (gen_geomUnif u (gen_geomScale e s)) (gen_geomScale e s)
      else gen_geomReturn val gen_geomSgnPos (gen_geomUnif u (gen_geomScale e s)) (gen_geomScale e s) := by
  simp only [geomRandomise, hs, ↓reduceIte, geomNoise, gen_geomScale, gen_geomUnif, gen_geomTestLo, gen_geomTestHi,
    gen_geomReturn, gen_geomSgnNeg, gen_geomSgnPos, transc_exp, transc_log, transc_floor]
  by_cases h : (u - 1 / 2) * (1 + Real.exp (-e / (s : ℝ))) < 0
  · simp only [h, ↓reduceIte, neg_one_mul]
    push_cast
    ring
  · simp only [h, ↓reduceIte, one_mul]
    push_cast
    ring

/-- the floor argument inside the returned expression is the anchored one -/
theorem geomReturn_floorArg (val : ℤ) (sg v sc : ℝ) :
    gen_geomReturn val sg v sc = (val : ℝ) + sg * ((⌊gen_geomFloorArg sg v sc⌋ : ℤ) : ℝ) := by
  simp only [gen_geomReturn, gen_geomFloorArg]

/-- the scale of `Exponential._find_probabilities` as coded IS the model's `expScale` -/
theorem expScale_eq (e s : ℝ) (mono : Bool) :
    expScale e s mono =
      if gen_expScaleTestLo < gen_expScaleTestHi e s then some (gen_expScale e s (if mono then 1 else 0)) else none := by
  cases mono <;> simp [expScale, gen_expScale, gen_expScaleTestLo, gen_expScaleTestHi] <;> norm_num

theorem pafScale_eq (e s : ℝ) (mono : Bool) :
    expScale e s mono =
      if gen_pafScaleTestLo < gen_pafScaleTestHi e s then some (gen_pafScale e s (if mono then 1 else 0)) else none := by
  cases mono <;> simp [expScale, gen_pafScale, gen_pafScaleTestLo, gen_pafScaleTestHi] <;> norm_num

/-- finite scale, no measure: the un-normalised weights as coded -/
theorem expWeights_eq (sc tol : ℝ) (utils : List ℝ) :
    expWeights (some sc) tol utils [] = utils.map (fun x => gen_expWeight sc (x - pyMax utils)) := by
  simp only [expWeights, gen_expWeight, transc_exp, List.isEmpty_nil, ↓reduceIte]

theorem pafLogProbs_eq (sc : ℝ) (utils : List ℝ) :
    pafLogProbs (some sc) utils = utils.map (fun x => some (gen_pafLogProb sc (x - pyMax utils))) := by
  simp only [pafLogProbs, gen_pafLogProb]

/-- `_get_prob` as coded IS the model's `catProb` -/
theorem catProb_eq (e s : ℝ) (utl : List ((Nat × Nat) × ℝ)) (bal : Bool) (a b : Nat) :
    catProb e utl s bal a b =
      if a = b then gen_catDiag
      else gen_catProb e (catUtility utl a b) (if bal then gen_catBalTrue else gen_catBalFalse) s := by
  simp only [catProb, gen_catDiag, gen_catProb, gen_catBalTrue, gen_catBalFalse, transc_exp]
"""
