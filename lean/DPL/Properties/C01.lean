/-
C01 — discrete mechanisms: the sampler that actually runs is ε-DP.

Every statement is about the executable model `DPL/Model/Discrete.lean` (the very definitions the driver runs on doubles
against the Python code), instantiated at ℝ.  A sampler is a function of its uniform(s); for single-uniform samplers
"the probability of output o" is the Lebesgue measure of `{u ∈ [0,1) | sampler u = o}`; for the multi-uniform samplers
(`bernoulli_neg_exp`, permute-and-flip) the law is the recursion mirroring the branching (`pafLaw`, `stopAt`), each
comparison `u ≤ t` being a Bernoulli(t) branch and `int(u·n)` a uniform index (`index_law`).
Proofs of the helper lemmas are in `DPL/Proofs/Discrete*.lean`.
-/
import DPL.Proofs.DiscreteExp
import DPL.Proofs.DiscreteSelect
import DPL.Proofs.DiscreteCat
import DPL.Proofs.DiscreteBern
import DPL.Proofs.DiscreteGeomDP
import DPL.Proofs.DiscretePAF

namespace DPL.C01
open DPL DPL.Discrete MeasureTheory Set
open scoped ENNReal

/-! ### Binary -/

/-- `Binary.randomise` flips its input for a set of uniforms of measure `1/(e^ε+1)` and keeps it with `e^ε/(e^ε+1)` -/
theorem binary_law (eps : ℝ) (ind : Bool) :
    volume {u : ℝ | u ∈ Ico (0:ℝ) 1 ∧ binaryRandomise eps 0 ind u = !ind} = ENNReal.ofReal (1 / (Real.exp eps + 1)) ∧
    volume {u : ℝ | u ∈ Ico (0:ℝ) 1 ∧ binaryRandomise eps 0 ind u = ind}
      = ENNReal.ofReal (Real.exp eps / (Real.exp eps + 1)) := by
  refine ⟨by rw [binary_flip_volume]; simp [binaryFlipProb], ?_⟩
  rw [binary_keep_volume]; congr 1; simp [binaryFlipProb]; ring

/-- for both inputs and both outputs `P[M(x)=o] ≤ e^ε · P[M(x')=o]` -/
theorem binary_dp (eps : ℝ) (heps : 0 ≤ eps) (x x' o : Bool) :
    volume {u : ℝ | u ∈ Ico (0:ℝ) 1 ∧ binaryRandomise eps 0 x u = o}
      ≤ ENNReal.ofReal (Real.exp eps) * volume {u : ℝ | u ∈ Ico (0:ℝ) 1 ∧ binaryRandomise eps 0 x' u = o} :=
  binary_ratio eps heps x x' o

/-! ### Geometric, GeometricTruncated, GeometricFolded -/

/-- the noise of `Geometric.randomise`: the uniforms giving noise `k` form a set of measure `(1-r)/(1+r)·r^|k|`,
`r = e^s` (`s = -ε/sensitivity < 0`) -/
theorem geom_law (s : ℝ) (hs : s < 0) (k : ℤ) :
    volume {u : ℝ | u ∈ Ico (0:ℝ) 1 ∧ geomNoise s u = k}
      = ENNReal.ofReal ((1 - Real.exp s) / (1 + Real.exp s) * Real.exp s ^ k.natAbs) := by
  rw [Discrete.geom_law s hs k, geomPmf_eq_pow]

example : volume {u : ℝ | u ∈ Ico (0:ℝ) 1 ∧ geomNoise (-1) u = 3}
    = ENNReal.ofReal ((1 - Real.exp (-1)) / (1 + Real.exp (-1)) * Real.exp (-1) ^ 3) :=
  geom_law (-1) (by norm_num) 3

/-- atom-wise ε-DP of `Geometric.randomise` for integer inputs at most `sensitivity` apart (sensitivity 0 included) -/
theorem geom_dp (eps : ℝ) (heps : 0 < eps) (sens : ℕ) (x x' : ℤ) (hnb : |x - x'| ≤ (sens : ℤ)) (o : ℤ) :
    volume {u : ℝ | u ∈ Ico (0:ℝ) 1 ∧ geomRandomise eps sens x u = o}
      ≤ ENNReal.ofReal (Real.exp eps) * volume {u : ℝ | u ∈ Ico (0:ℝ) 1 ∧ geomRandomise eps sens x' u = o} :=
  Discrete.geom_dp eps heps sens x x' hnb o

example : |(5:ℤ) - 7| ≤ ((2:ℕ) : ℤ) := by norm_num

/-- an atom-wise bound lifts to every set of outputs (countable output space; no summability side conditions) -/
theorem dp_sets_of_atoms {Ω ι : Type*} [MeasurableSpace Ω] [Countable ι] (μ : Measure Ω) (A : Set Ω) (f f' : Ω → ι)
    (hm' : ∀ o, NullMeasurableSet (A ∩ f' ⁻¹' {o}) μ) (K : ℝ≥0∞)
    (hat : ∀ o, μ (A ∩ f ⁻¹' {o}) ≤ K * μ (A ∩ f' ⁻¹' {o})) (S : Set ι) :
    μ (A ∩ f ⁻¹' S) ≤ K * μ (A ∩ f' ⁻¹' S) :=
  Discrete.dp_sets_of_atoms μ A f f' hm' K hat S

/-- … and survives any post-processing `g` that does not depend on the input -/
theorem dp_postprocess {Ω ι β : Type*} [MeasurableSpace Ω] [Countable ι] (μ : Measure Ω) (A : Set Ω) (f f' : Ω → ι)
    (hm' : ∀ o, NullMeasurableSet (A ∩ f' ⁻¹' {o}) μ) (K : ℝ≥0∞)
    (hat : ∀ o, μ (A ∩ f ⁻¹' {o}) ≤ K * μ (A ∩ f' ⁻¹' {o})) (g : ι → β) (T : Set β) :
    μ (A ∩ (g ∘ f) ⁻¹' T) ≤ K * μ (A ∩ (g ∘ f') ⁻¹' T) :=
  Discrete.dp_postprocess μ A f f' hm' K hat g T

/-- `GeometricTruncated.randomise`, every pair of bounds (integer or infinite), every set of outputs -/
theorem geom_trunc_dp (eps : ℝ) (heps : 0 < eps) (sens : ℕ) (x x' : ℤ) (hnb : |x - x'| ≤ (sens : ℤ))
    (lo hi : Bnd) (T : Set (Option ℤ)) :
    volume {u : ℝ | u ∈ Ico (0:ℝ) 1 ∧ geomTruncRandomise eps sens lo hi x u ∈ T}
      ≤ ENNReal.ofReal (Real.exp eps) * volume {u : ℝ | u ∈ Ico (0:ℝ) 1 ∧ geomTruncRandomise eps sens lo hi x' u ∈ T} :=
  Discrete.geom_trunc_dp eps heps sens x x' hnb lo hi T

/-- `GeometricFolded.randomise`, every pair of bounds (integer, half-integer or infinite), every set of outputs -/
theorem geom_fold_dp (eps : ℝ) (heps : 0 < eps) (sens : ℕ) (x x' : ℤ) (hnb : |x - x'| ≤ (sens : ℤ))
    (lo hi : Bnd) (fuel : ℕ) (T : Set (Option ℤ)) :
    volume {u : ℝ | u ∈ Ico (0:ℝ) 1 ∧ geomFoldRandomise eps sens lo hi fuel x u ∈ T}
      ≤ ENNReal.ofReal (Real.exp eps) *
        volume {u : ℝ | u ∈ Ico (0:ℝ) 1 ∧ geomFoldRandomise eps sens lo hi fuel x' u ∈ T} :=
  Discrete.geom_fold_dp eps heps sens x x' hnb lo hi fuel T

/-! ### Exponential -/

/-- `Exponential.randomise` on cumulative probabilities (first index with `u < cum_i`): candidate `i` is returned
exactly for `u ∈ [cum_{i-1}, cum_i)`, a set of uniforms of measure `p_i` (the `isclose` fallback and the RuntimeError are unreachable when the probabilities sum to one) -/
theorem exp_select_law (rtol atol : ℝ) (ps : List ℝ) (hnn : ∀ p ∈ ps, 0 ≤ p) (hsum : ps.sum = 1) (i : ℕ)
    (hi : i < ps.length) :
    volume {u : ℝ | u ∈ Ico (0:ℝ) 1 ∧ expSelect rtol atol (cumFrom 0 ps) u = .ok i} = ENNReal.ofReal ps[i] :=
  expSelect_law rtol atol ps hnn hsum i hi

example : volume {u : ℝ | u ∈ Ico (0:ℝ) 1 ∧ expSelect 0 0 (cumFrom 0 [1/4, 3/4]) u = .ok 1}
    = ENNReal.ofReal ([1/4, 3/4] : List ℝ)[1] :=
  exp_select_law 0 0 [1/4, 3/4] (by intro p hp; simp at hp; rcases hp with rfl | rfl <;> norm_num) (by norm_num) 1
    (by simp)

/-- the exponential mechanism as coded (shift by `max(utility)`, `exp`, base measure, normalisation): utility vectors
within `sensitivity` in sup-norm, scale `ε/(2·sensitivity)`, non-negative measure with a positive entry (or none) -/
theorem exp_dp (eps sens tol : ℝ) (heps : 0 < eps) (hsens : 0 < sens) (us us' ms : List ℝ)
    (hlen : us.length = us'.length) (hne : us ≠ []) (hms : ms = [] ∨ ms.length = us.length)
    (hm0 : ∀ m ∈ ms, 0 ≤ m) (hpos : ms = [] ∨ ∃ m ∈ ms, 0 < m)
    (hnb : ∀ i (h1 : i < us.length) (h2 : i < us'.length), |us[i] - us'[i]| ≤ sens) (i : ℕ) :
    (expPmf eps sens false tol us ms).getD i 0 ≤ Real.exp eps * (expPmf eps sens false tol us' ms).getD i 0 := by
  have hne' := length_ne_nil hlen hne
  have hms' : ms = [] ∨ ms.length = us'.length := by rw [← hlen]; exact hms
  unfold expPmf
  have hsc : expScale eps sens false = some (eps / sens / 2) := by simp [expScale, div_pos hsens heps]
  rw [hsc]
  refine exp_dp_core (eps / sens / 2) (-sens) sens eps tol (by positivity) (by field_simp; ring_nf; rfl) us' us ms
    hlen.symm hne' hms' hm0 (fun j h1 h2 => ?_)
    (expWeights_sum_pos _ tol us' ms hne' hms' hm0 hpos) (expWeights_sum_pos _ tol us ms hne hms hm0 hpos) i
  have := abs_le.mp (hnb j h2 h1)
  constructor <;> linarith [this.1, this.2]

example : ∀ i (h1 : i < ([0, 1] : List ℝ).length) (h2 : i < ([1, 1] : List ℝ).length),
    |([0, 1] : List ℝ)[i] - ([1, 1] : List ℝ)[i]| ≤ 1 := by
  intro i h1 h2
  have : i = 0 ∨ i = 1 := by simp at h1; omega
  rcases this with rfl | rfl <;> norm_num

/-- the shift by `max(utility)` coded in `_find_probabilities` (against overflow) cancels in the normalisation: the law
without measure is that of the textbook exponential mechanism `exp(s·u_i) / Σ_j exp(s·u_j)` -/
theorem exp_shift_cancels (eps sens tol : ℝ) (heps : 0 < eps) (hsens : 0 < sens) (mono : Bool) (us : List ℝ) :
    expPmf eps sens mono tol us [] =
      normalise (us.map (fun x => Real.exp (eps / sens / (if mono then 1 else 2) * x))) := by
  unfold expPmf expWeights
  simp only [expScale, div_pos hsens heps, if_true, List.isEmpty_nil, transc_exp]
  exact Discrete.exp_shift_cancels _ (pyMax us) us

/-- monotonic utilities (`u ≤ u' ≤ u + sensitivity` pointwise): scale `ε/sensitivity`, both directions -/
theorem exp_dp_monotonic (eps sens tol : ℝ) (heps : 0 < eps) (hsens : 0 < sens) (us us' ms : List ℝ)
    (hlen : us.length = us'.length) (hne : us ≠ []) (hms : ms = [] ∨ ms.length = us.length)
    (hm0 : ∀ m ∈ ms, 0 ≤ m) (hpos : ms = [] ∨ ∃ m ∈ ms, 0 < m)
    (hnb : ∀ i (h1 : i < us.length) (h2 : i < us'.length), us[i] ≤ us'[i] ∧ us'[i] ≤ us[i] + sens) (i : ℕ) :
    (expPmf eps sens true tol us ms).getD i 0 ≤ Real.exp eps * (expPmf eps sens true tol us' ms).getD i 0 ∧
    (expPmf eps sens true tol us' ms).getD i 0 ≤ Real.exp eps * (expPmf eps sens true tol us ms).getD i 0 := by
  have hne' := length_ne_nil hlen hne
  have hms' : ms = [] ∨ ms.length = us'.length := by rw [← hlen]; exact hms
  unfold expPmf
  have hsc : expScale eps sens true = some (eps / sens / 1) := by simp [expScale, div_pos hsens heps]
  rw [hsc]
  have hZ := expWeights_sum_pos (eps / sens / 1) tol us ms hne hms hm0 hpos
  have hZ' := expWeights_sum_pos (eps / sens / 1) tol us' ms hne' hms' hm0 hpos
  constructor
  · refine exp_dp_core (eps / sens / 1) (-sens) 0 eps tol (by positivity) (by field_simp; ring_nf; rfl) us' us ms
      hlen.symm hne' hms' hm0 (fun j h1 h2 => ?_) hZ' hZ i
    have := hnb j h2 h1
    constructor <;> linarith [this.1, this.2]
  · refine exp_dp_core (eps / sens / 1) 0 sens eps tol (by positivity) (by field_simp; ring_nf; rfl) us us' ms
      hlen hne hms hm0 (fun j h1 h2 => ?_) hZ hZ' i
    have := hnb j h1 h2
    constructor <;> linarith [this.1, this.2]

/-- degenerate branch (`sensitivity = 0`, infinite scale): neighbours within sup-norm 0 are equal, so the laws are -/
theorem exp_dp_degenerate (eps tol : ℝ) (heps : 0 ≤ eps) (mono : Bool) (us us' ms : List ℝ)
    (hlen : us.length = us'.length)
    (hnb : ∀ i (h1 : i < us.length) (h2 : i < us'.length), |us[i] - us'[i]| ≤ 0) (i : ℕ)
    (hnn : 0 ≤ (expPmf eps 0 mono tol us' ms).getD i 0) :
    (expPmf eps 0 mono tol us ms).getD i 0 ≤ Real.exp eps * (expPmf eps 0 mono tol us' ms).getD i 0 := by
  have : us = us' := by
    apply List.ext_getElem hlen
    intro j h1 h2
    have := abs_nonpos_iff.mp (hnb j h1 h2)
    linarith
  subst this
  have he : 1 ≤ Real.exp eps := Real.one_le_exp heps
  nlinarith

/-! ### bernoulli_neg_exp -/

/-- the inner loop of `bernoulli_neg_exp` stops with `counter = n+1` exactly when the first `n` uniforms pass their
tests `u_j ≤ γ/j` and the next one fails; it then returns `(n+1) % 2`.  For `0 ≤ γ ≤ 1` each test is a Bernoulli(γ/j)
branch (`branch_prob_range`), so the event has probability `stopAt γ n = Π_{j≤n} γ/j · (1 − γ/(n+1))`; the coin is 1
iff `n` is even, and those probabilities sum to `exp(−γ)`. -/
theorem bernoulli_neg_exp_law (γ : ℝ) :
    (∀ (pre : List ℝ) (u : ℝ) (rest : List ℝ),
        (∀ j (h : j < pre.length), pre[j] ≤ γ / ((1 + j : ℕ) : ℝ)) → ¬ u ≤ γ / ((1 + pre.length : ℕ) : ℝ) →
        bernLoop γ (pre ++ u :: rest) 1 = .ok ((1 + pre.length) % 2 == 1, rest)) ∧
    (∀ n : ℕ, stopAt γ n = (∏ j ∈ Finset.range n, γ / ((j : ℝ) + 1)) * (1 - γ / ((n : ℝ) + 1))) ∧
    HasSum (fun m : ℕ => stopAt γ (2 * m)) (bernLaw γ) :=
  ⟨fun pre u rest h1 h2 => bernLoop_stop γ pre u rest 1 h1 h2, stopAt_eq_prod γ, by
    simpa [bernLaw] using bern_even_sum γ⟩

/-- for `γ > 1` the outer loop multiplies unit coins: the mirrored recursion is again `exp(−γ)` -/
theorem bernoulli_neg_exp_outer_law (fuel : ℕ) (γ : ℝ) (h0 : 0 ≤ γ) (h : γ < fuel) :
    bernOuterLaw fuel γ = bernLaw γ := by
  simpa [bernLaw] using bernOuterLaw_eq fuel γ h0 h

/-! ### PermuteAndFlip -/

/-- `int(u·n)` picks every index with probability `1/n` -/
theorem index_law (n : ℕ) (hn : 0 < n) (j : ℕ) (hj : j < n) :
    volume {u : ℝ | u ∈ Ico (0:ℝ) 1 ∧ (⌊u * (n : ℝ)⌋).toNat = j} = ENNReal.ofReal (1 / (n : ℝ)) :=
  Discrete.index_law n hn j hj

/-- the sampler's own branching recursion (`pafLaw`, executable, printed by the driver and compared with the law
extracted from the running code) equals the closed recursion `L p S r = p_r · I p (S∖r)` of the proof -/
theorem paf_law_closed (p : ℕ → ℝ) (ids : List ℕ) (hnd : ids.Nodup) (fuel : ℕ) (hf : ids.length ≤ fuel) (r : ℕ) :
    pafLaw p fuel ids r = if r ∈ ids then PAF.L p ids.toFinset r else 0 :=
  pafLaw_eq_L p ids hnd fuel hf r

/-- permute-and-flip as coded (`p_i = exp(scale·(u_i − max u))`, scale `ε/(2·sensitivity)`), any number of candidates -/
theorem paf_dp (eps sens : ℝ) (heps : 0 < eps) (hsens : 0 < sens) (us us' : List ℝ)
    (hlen : us.length = us'.length) (hne : us ≠ [])
    (hnb : ∀ i (h1 : i < us.length) (h2 : i < us'.length), |us[i] - us'[i]| ≤ sens) (r : ℕ) :
    (pafPmf (pafHeads (pafLogProbs (expScale eps sens false) us))).getD r 0
      ≤ Real.exp eps * (pafPmf (pafHeads (pafLogProbs (expScale eps sens false) us'))).getD r 0 :=
  Discrete.paf_dp eps sens heps hsens us us' hlen hne hnb r

/-- monotonic utilities: scale `ε/sensitivity`, both directions -/
theorem paf_dp_monotonic (eps sens : ℝ) (heps : 0 < eps) (hsens : 0 < sens) (us us' : List ℝ)
    (hlen : us.length = us'.length) (hne : us ≠ [])
    (hnb : ∀ i (h1 : i < us.length) (h2 : i < us'.length), us[i] ≤ us'[i] ∧ us'[i] ≤ us[i] + sens) (r : ℕ) :
    (pafPmf (pafHeads (pafLogProbs (expScale eps sens true) us))).getD r 0
        ≤ Real.exp eps * (pafPmf (pafHeads (pafLogProbs (expScale eps sens true) us'))).getD r 0
      ∧ (pafPmf (pafHeads (pafLogProbs (expScale eps sens true) us'))).getD r 0
        ≤ Real.exp eps * (pafPmf (pafHeads (pafLogProbs (expScale eps sens true) us))).getD r 0 :=
  Discrete.paf_dp_monotonic eps sens heps hsens us us' hlen hne hnb r

/-- degenerate branch (`sensitivity = 0`): neighbours within sup-norm 0 are equal, so the laws are -/
theorem paf_dp_degenerate (eps : ℝ) (heps : 0 ≤ eps) (mono : Bool) (us us' : List ℝ) (hlen : us.length = us'.length)
    (hnb : ∀ i (h1 : i < us.length) (h2 : i < us'.length), |us[i] - us'[i]| ≤ 0) (r : ℕ)
    (hnn : 0 ≤ (pafPmf (pafHeads (pafLogProbs (expScale eps 0 mono) us'))).getD r 0) :
    (pafPmf (pafHeads (pafLogProbs (expScale eps 0 mono) us))).getD r 0
      ≤ Real.exp eps * (pafPmf (pafHeads (pafLogProbs (expScale eps 0 mono) us'))).getD r 0 := by
  have : us = us' := by
    apply List.ext_getElem hlen
    intro j h1 h2
    have := abs_nonpos_iff.mp (hnb j h1 h2)
    linarith
  subst this
  have he : 1 ≤ Real.exp eps := Real.one_le_exp heps
  nlinarith

/-- the selection probabilities of permute-and-flip sum to `1 − Π(1 − p_i)` (to 1 as soon as one head probability is 1,
which the shift by the maximum guarantees) -/
theorem paf_total_mass (heads : List ℝ) :
    lsum (pafPmf heads) = 1 - ∏ i ∈ Finset.range heads.length, (1 - heads.getD i 0) :=
  pafPmf_sum heads

/-! ### ExponentialCategorical / ExponentialHierarchical -/

/-- the constructor keeps every utility in `[0, sensitivity]` (sensitivity = the largest listed value) -/
theorem cat_utility_range (rtol atol eps : ℝ) (ul : List (ℕ × ℕ × ℝ)) (c : Cat ℝ)
    (h : catBuild rtol atol eps ul = .ok c) (a b : ℕ) :
    0 ≤ catUtility c.util a b ∧ catUtility c.util a b ≤ c.sens :=
  catBuild_utility_range rtol atol eps ul c h a b

/-- unbalanced case (factor 2 kept): any two labels, any output -/
theorem cat_dp_unbalanced (rtol atol eps : ℝ) (heps : 0 ≤ eps) (ul : List (ℕ × ℕ × ℝ)) (c : Cat ℝ)
    (hb : catBuild rtol atol eps ul = .ok c) (hs : 0 < c.sens) (hbal : c.balanced = false)
    (x x' : ℕ) (hx : x ∈ c.domain) (hx' : x' ∈ c.domain) (j : ℕ) :
    (catPmf eps c x).getD j 0 ≤ Real.exp eps * (catPmf eps c x').getD j 0 :=
  cat_dp_unbalanced_aux eps heps c (catBuild_wf rtol atol eps ul c hb) hbal hs
    (catBuild_utility_range rtol atol eps ul c hb) x x' hx hx' j

/-- balanced case (factor 2 dropped): correct when the two normalisers are EQUAL -/
theorem cat_dp_balanced (rtol atol eps : ℝ) (heps : 0 ≤ eps) (ul : List (ℕ × ℕ × ℝ)) (c : Cat ℝ)
    (hb : catBuild rtol atol eps ul = .ok c) (hs : 0 < c.sens) (hbal : c.balanced = true)
    (x x' : ℕ) (hx : x ∈ c.domain) (hx' : x' ∈ c.domain)
    (hZ : (catWeights eps c x).sum = (catWeights eps c x').sum) (j : ℕ) :
    (catPmf eps c x).getD j 0 ≤ Real.exp eps * (catPmf eps c x').getD j 0 :=
  cat_dp_balanced_aux eps heps c (catBuild_wf rtol atol eps ul c hb) hbal hs
    (catBuild_utility_range rtol atol eps ul c hb) x x' hx hx' hZ j

/-- end-to-end for whatever the constructor decides, under the hypothesis the code's decision needs: when the
(`np.isclose`-based) balanced flag is set, the normalisers are equal.  The faithful model sets the flag when they are
within `rtol` relative (1e-12 since 252dfe7, 1e-5 before — which was a genuine excess of up to 2e-5 over `e^ε`). -/
theorem cat_dp_partial (rtol atol eps : ℝ) (heps : 0 ≤ eps) (ul : List (ℕ × ℕ × ℝ)) (c : Cat ℝ)
    (hb : catBuild rtol atol eps ul = .ok c) (hs : 0 < c.sens)
    (hflag : c.balanced = true → ∀ x ∈ c.domain, ∀ x' ∈ c.domain, (catWeights eps c x).sum = (catWeights eps c x').sum)
    (x x' : ℕ) (hx : x ∈ c.domain) (hx' : x' ∈ c.domain) (j : ℕ) :
    (catPmf eps c x).getD j 0 ≤ Real.exp eps * (catPmf eps c x').getD j 0 := by
  cases hbal : c.balanced with
  | false => exact cat_dp_unbalanced rtol atol eps heps ul c hb hs hbal x x' hx hx' j
  | true => exact cat_dp_balanced rtol atol eps heps ul c hb hs hbal x x' hx hx' (hflag hbal x hx x' hx') j

/-- the full claim (no hypothesis on the flag).  NOT proved and false in exact arithmetic for `rtol > 0`: normalisers
within the tolerance but unequal give a ratio `e^ε·Z_{x'}/Z_x > e^ε`; with the code's `rtol = 1e-12` the excess is
at most 1e-12 relative, far inside the property's 1e-6 slack (checked on the running code by the harness). -/
def cat_dp_full : Prop :=
  ∀ (rtol atol eps : ℝ), 0 ≤ eps → ∀ (ul : List (ℕ × ℕ × ℝ)) (c : Cat ℝ), catBuild rtol atol eps ul = .ok c →
    0 < c.sens → ∀ x ∈ c.domain, ∀ x' ∈ c.domain, ∀ j : ℕ,
      (catPmf eps c x).getD j 0 ≤ Real.exp eps * (catPmf eps c x').getD j 0

/-- the utilities `ExponentialHierarchical` derives from a hierarchy (`height − common prefix`) are symmetric … -/
theorem hier_utility_symm (height : ℕ) (p q : List ℕ) : hierUtility height p q = hierUtility height q p :=
  hierUtility_symm height p q

/-- … and lie in `[1, height]` for two different leaves at the common level `height` -/
theorem hier_utility_range (height : ℕ) (p q : List ℕ) (hp : p.length = height) (hq : q.length = height) (hne : p ≠ q) :
    1 ≤ hierUtility height p q ∧ hierUtility height p q ≤ height :=
  hierUtility_range height p q hp hq hne

example : hierUtility 2 [0, 1] [1, 0] = 2 ∧ hierUtility 2 [0, 1] [0, 0] = 1 := by decide

end DPL.C01
