/-
C01 — discrete mechanisms: the sampler that actually runs is ε-DP.

Every statement is about the executable model `DPL/Model/Discrete.lean` (the very definitions the driver runs on doubles
against the Python code), instantiated at ℝ.  A sampler is a function of its uniform(s); for single-uniform samplers
"the probability of output o" is the Lebesgue measure of `{u ∈ [0,1) | sampler u = o}`, equivalently
`unif01 (sampler ⁻¹' {o})` with `unif01 = volume.restrict [0,1)` the law of one `random()` draw (§ "push-forward form":
every set of outputs).  For the multi-uniform samplers (`bernoulli_neg_exp`, permute-and-flip) the law is PROVED as the
push-forward of the i.i.d. uniform stream measure `streamμ = Measure.infinitePi (fun _ => unif01)` under the model's own
list functions (`bernNegExp`, `pafRun`) — `bernoulli_neg_exp_stream_law`, `paf_stream_law`, `paf_sampler_dp` — via a
general composition theorem for stream samplers (`stream_bind_law`, resting on `stream_prefix_independent`, a fact about
`Measure.infinitePi`).  The older recursion-mirroring statements (`pafLaw`, `stopAt`, `bernOuterLaw`: each comparison
`u ≤ t` READ as a Bernoulli(t) branch) are kept; the stream laws show that this reading is a theorem, not an assumption.
Still assumed (trusted base): that `rng.random()` IS an i.i.d. uniform stream, and the real-number carrier.
The degenerate `sensitivity = 0` branch of permute-and-flip (`bernInf`, infinite γ) carries a coin fuel in the model that
is exhausted with probability `e^{-fuel}` (the Python loop is unbounded): its stream law holds up to that slack
(`paf_stream_law_degenerate`).  The fuels of the outer loop of `bernoulli_neg_exp` and of the rounds of permute-and-flip
are deterministic bounds (`fuel > γ`, `rounds ≥ #candidates`) and cost nothing.
Proofs of the helper lemmas are in `DPL/Proofs/Discrete*.lean`.
-/
import DPL.Proofs.DiscreteExp
import DPL.Proofs.DiscreteSelect
import DPL.Proofs.DiscreteCat
import DPL.Proofs.DiscreteBern
import DPL.Proofs.DiscreteGeomDP
import DPL.Proofs.DiscretePAF
import DPL.Proofs.DiscreteUnif
import DPL.Proofs.DiscreteStreamPAF
import DPL.Proofs.DiscreteStreamPAFDeg

namespace DPL.C01
open DPL DPL.Discrete MeasureTheory Set
open scoped ENNReal

/-! ### Binary -/

/-- `Binary.randomise` flips its input for a set of uniforms of measure `1/(e^ε+1)` and keeps it with `e^ε/(e^ε+1)` -/
theorem binary_law (eps : ℝ) (ind : Bool) :
    volume {u : ℝ | u ∈ Ico (0:ℝ) 1 ∧ binaryRandomise eps 0 ind u = !ind} = ENNReal.ofReal (1 / (Real.exp eps + 1)) ∧
    volume {u : ℝ | u ∈ Ico (0:ℝ) 1 ∧ binaryRandomise eps 0 ind u = ind}
      = ENNReal.ofReal (Real.exp eps / (Real.exp eps + 1)) := by
  refine ⟨by rw [binary_flip_volume]; simp [binaryFlipProb], ?_⟩
  rw [binary_keep_volume]; congr 1; simp [binaryFlipProb]; ring

/-- for both inputs and both outputs `P[M(x)=o] ≤ e^ε · P[M(x')=o]` -/
theorem binary_dp (eps : ℝ) (heps : 0 ≤ eps) (x x' o : Bool) :
    volume {u : ℝ | u ∈ Ico (0:ℝ) 1 ∧ binaryRandomise eps 0 x u = o}
      ≤ ENNReal.ofReal (Real.exp eps) * volume {u : ℝ | u ∈ Ico (0:ℝ) 1 ∧ binaryRandomise eps 0 x' u = o} :=
  binary_ratio eps heps x x' o

/-! ### Geometric, GeometricTruncated, GeometricFolded -/

/-- the noise of `Geometric.randomise`: the uniforms giving noise `k` form a set of measure `(1-r)/(1+r)·r^|k|`,
`r = e^s` (`s = -ε/sensitivity < 0`) -/
theorem geom_law (s : ℝ) (hs : s < 0) (k : ℤ) :
    volume {u : ℝ | u ∈ Ico (0:ℝ) 1 ∧ geomNoise s u = k}
      = ENNReal.ofReal ((1 - Real.exp s) / (1 + Real.exp s) * Real.exp s ^ k.natAbs) := by
  rw [Discrete.geom_law s hs k, geomPmf_eq_pow]

example : volume {u : ℝ | u ∈ Ico (0:ℝ) 1 ∧ geomNoise (-1) u = 3}
    = ENNReal.ofReal ((1 - Real.exp (-1)) / (1 + Real.exp (-1)) * Real.exp (-1) ^ 3) :=
  geom_law (-1) (by norm_num) 3

/-- atom-wise ε-DP of `Geometric.randomise` for integer inputs at most `sensitivity` apart (sensitivity 0 included) -/
theorem geom_dp (eps : ℝ) (heps : 0 < eps) (sens : ℕ) (x x' : ℤ) (hnb : |x - x'| ≤ (sens : ℤ)) (o : ℤ) :
    volume {u : ℝ | u ∈ Ico (0:ℝ) 1 ∧ geomRandomise eps sens x u = o}
      ≤ ENNReal.ofReal (Real.exp eps) * volume {u : ℝ | u ∈ Ico (0:ℝ) 1 ∧ geomRandomise eps sens x' u = o} :=
  Discrete.geom_dp eps heps sens x x' hnb o

example : |(5:ℤ) - 7| ≤ ((2:ℕ) : ℤ) := by norm_num

/-- an atom-wise bound lifts to every set of outputs (countable output space; no summability side conditions) -/
theorem dp_sets_of_atoms {Ω ι : Type*} [MeasurableSpace Ω] [Countable ι] (μ : Measure Ω) (A : Set Ω) (f f' : Ω → ι)
    (hm' : ∀ o, NullMeasurableSet (A ∩ f' ⁻¹' {o}) μ) (K : ℝ≥0∞)
    (hat : ∀ o, μ (A ∩ f ⁻¹' {o}) ≤ K * μ (A ∩ f' ⁻¹' {o})) (S : Set ι) :
    μ (A ∩ f ⁻¹' S) ≤ K * μ (A ∩ f' ⁻¹' S) :=
  Discrete.dp_sets_of_atoms μ A f f' hm' K hat S

/-- … and survives any post-processing `g` that does not depend on the input -/
theorem dp_postprocess {Ω ι β : Type*} [MeasurableSpace Ω] [Countable ι] (μ : Measure Ω) (A : Set Ω) (f f' : Ω → ι)
    (hm' : ∀ o, NullMeasurableSet (A ∩ f' ⁻¹' {o}) μ) (K : ℝ≥0∞)
    (hat : ∀ o, μ (A ∩ f ⁻¹' {o}) ≤ K * μ (A ∩ f' ⁻¹' {o})) (g : ι → β) (T : Set β) :
    μ (A ∩ (g ∘ f) ⁻¹' T) ≤ K * μ (A ∩ (g ∘ f') ⁻¹' T) :=
  Discrete.dp_postprocess μ A f f' hm' K hat g T

/-- `GeometricTruncated.randomise`, every pair of bounds (integer or infinite), every set of outputs -/
theorem geom_trunc_dp (eps : ℝ) (heps : 0 < eps) (sens : ℕ) (x x' : ℤ) (hnb : |x - x'| ≤ (sens : ℤ))
    (lo hi : Bnd) (T : Set (Option ℤ)) :
    volume {u : ℝ | u ∈ Ico (0:ℝ) 1 ∧ geomTruncRandomise eps sens lo hi x u ∈ T}
      ≤ ENNReal.ofReal (Real.exp eps) * volume {u : ℝ | u ∈ Ico (0:ℝ) 1 ∧ geomTruncRandomise eps sens lo hi x' u ∈ T} :=
  Discrete.geom_trunc_dp eps heps sens x x' hnb lo hi T

/-- `GeometricFolded.randomise`, every pair of bounds (integer, half-integer or infinite), every set of outputs -/
theorem geom_fold_dp (eps : ℝ) (heps : 0 < eps) (sens : ℕ) (x x' : ℤ) (hnb : |x - x'| ≤ (sens : ℤ))
    (lo hi : Bnd) (fuel : ℕ) (T : Set (Option ℤ)) :
    volume {u : ℝ | u ∈ Ico (0:ℝ) 1 ∧ geomFoldRandomise eps sens lo hi fuel x u ∈ T}
      ≤ ENNReal.ofReal (Real.exp eps) *
        volume {u : ℝ | u ∈ Ico (0:ℝ) 1 ∧ geomFoldRandomise eps sens lo hi fuel x' u ∈ T} :=
  Discrete.geom_fold_dp eps heps sens x x' hnb lo hi fuel T

/-! ### Exponential -/

/-- `Exponential.randomise` on cumulative probabilities (first index with `u < cum_i`): candidate `i` is returned
exactly for `u ∈ [cum_{i-1}, cum_i)`, a set of uniforms of measure `p_i` (the `isclose` fallback and the RuntimeError are unreachable when the probabilities sum to one) -/
theorem exp_select_law (rtol atol : ℝ) (ps : List ℝ) (hnn : ∀ p ∈ ps, 0 ≤ p) (hsum : ps.sum = 1) (i : ℕ)
    (hi : i < ps.length) :
    volume {u : ℝ | u ∈ Ico (0:ℝ) 1 ∧ expSelect rtol atol (cumFrom 0 ps) u = .ok i} = ENNReal.ofReal ps[i] :=
  expSelect_law rtol atol ps hnn hsum i hi

example : volume {u : ℝ | u ∈ Ico (0:ℝ) 1 ∧ expSelect 0 0 (cumFrom 0 [1/4, 3/4]) u = .ok 1}
    = ENNReal.ofReal ([1/4, 3/4] : List ℝ)[1] :=
  exp_select_law 0 0 [1/4, 3/4] (by intro p hp; simp at hp; rcases hp with rfl | rfl <;> norm_num) (by norm_num) 1
    (by simp)

/-- the exponential mechanism as coded (shift by `max(utility)`, `exp`, base measure, normalisation): utility vectors
within `sensitivity` in sup-norm, scale `ε/(2·sensitivity)`, non-negative measure with a positive entry (or none) -/
theorem exp_dp (eps sens tol : ℝ) (heps : 0 < eps) (hsens : 0 < sens) (us us' ms : List ℝ)
    (hlen : us.length = us'.length) (hne : us ≠ []) (hms : ms = [] ∨ ms.length = us.length)
    (hm0 : ∀ m ∈ ms, 0 ≤ m) (hpos : ms = [] ∨ ∃ m ∈ ms, 0 < m)
    (hnb : ∀ i (h1 : i < us.length) (h2 : i < us'.length), |us[i] - us'[i]| ≤ sens) (i : ℕ) :
    (expPmf eps sens false tol us ms).getD i 0 ≤ Real.exp eps * (expPmf eps sens false tol us' ms).getD i 0 := by
  have hne' := length_ne_nil hlen hne
  have hms' : ms = [] ∨ ms.length = us'.length := by rw [← hlen]; exact hms
  unfold expPmf
  have hsc : expScale eps sens false = some (eps / sens / 2) := by simp [expScale, div_pos hsens heps]
  rw [hsc]
  refine exp_dp_core (eps / sens / 2) (-sens) sens eps tol (by positivity) (by field_simp; ring_nf; rfl) us' us ms
    hlen.symm hne' hms' hm0 (fun j h1 h2 => ?_)
    (expWeights_sum_pos _ tol us' ms hne' hms' hm0 hpos) (expWeights_sum_pos _ tol us ms hne hms hm0 hpos) i
  have := abs_le.mp (hnb j h2 h1)
  constructor <;> linarith [this.1, this.2]

example : ∀ i (h1 : i < ([0, 1] : List ℝ).length) (h2 : i < ([1, 1] : List ℝ).length),
    |([0, 1] : List ℝ)[i] - ([1, 1] : List ℝ)[i]| ≤ 1 := by
  intro i h1 h2
  have : i = 0 ∨ i = 1 := by simp at h1; omega
  rcases this with rfl | rfl <;> norm_num

/-- the shift by `max(utility)` coded in `_find_probabilities` (against overflow) cancels in the normalisation: the law
without measure is that of the textbook exponential mechanism `exp(s·u_i) / Σ_j exp(s·u_j)` -/
theorem exp_shift_cancels (eps sens tol : ℝ) (heps : 0 < eps) (hsens : 0 < sens) (mono : Bool) (us : List ℝ) :
    expPmf eps sens mono tol us [] =
      normalise (us.map (fun x => Real.exp (eps / sens / (if mono then 1 else 2) * x))) := by
  unfold expPmf expWeights
  simp only [expScale, div_pos hsens heps, if_true, List.isEmpty_nil, transc_exp]
  exact Discrete.exp_shift_cancels _ (pyMax us) us

/-- monotonic utilities (`u ≤ u' ≤ u + sensitivity` pointwise): scale `ε/sensitivity`, both directions -/
theorem exp_dp_monotonic (eps sens tol : ℝ) (heps : 0 < eps) (hsens : 0 < sens) (us us' ms : List ℝ)
    (hlen : us.length = us'.length) (hne : us ≠ []) (hms : ms = [] ∨ ms.length = us.length)
    (hm0 : ∀ m ∈ ms, 0 ≤ m) (hpos : ms = [] ∨ ∃ m ∈ ms, 0 < m)
    (hnb : ∀ i (h1 : i < us.length) (h2 : i < us'.length), us[i] ≤ us'[i] ∧ us'[i] ≤ us[i] + sens) (i : ℕ) :
    (expPmf eps sens true tol us ms).getD i 0 ≤ Real.exp eps * (expPmf eps sens true tol us' ms).getD i 0 ∧
    (expPmf eps sens true tol us' ms).getD i 0 ≤ Real.exp eps * (expPmf eps sens true tol us ms).getD i 0 := by
  have hne' := length_ne_nil hlen hne
  have hms' : ms = [] ∨ ms.length = us'.length := by rw [← hlen]; exact hms
  unfold expPmf
  have hsc : expScale eps sens true = some (eps / sens / 1) := by simp [expScale, div_pos hsens heps]
  rw [hsc]
  have hZ := expWeights_sum_pos (eps / sens / 1) tol us ms hne hms hm0 hpos
  have hZ' := expWeights_sum_pos (eps / sens / 1) tol us' ms hne' hms' hm0 hpos
  constructor
  · refine exp_dp_core (eps / sens / 1) (-sens) 0 eps tol (by positivity) (by field_simp; ring_nf; rfl) us' us ms
      hlen.symm hne' hms' hm0 (fun j h1 h2 => ?_) hZ' hZ i
    have := hnb j h2 h1
    constructor <;> linarith [this.1, this.2]
  · refine exp_dp_core (eps / sens / 1) 0 sens eps tol (by positivity) (by field_simp; ring_nf; rfl) us us' ms
      hlen hne hms hm0 (fun j h1 h2 => ?_) hZ hZ' i
    have := hnb j h1 h2
    constructor <;> linarith [this.1, this.2]

/-- degenerate branch (`sensitivity = 0`, infinite scale): neighbours within sup-norm 0 are equal, so the laws are -/
theorem exp_dp_degenerate (eps tol : ℝ) (heps : 0 ≤ eps) (mono : Bool) (us us' ms : List ℝ)
    (hlen : us.length = us'.length)
    (hnb : ∀ i (h1 : i < us.length) (h2 : i < us'.length), |us[i] - us'[i]| ≤ 0) (i : ℕ)
    (hnn : 0 ≤ (expPmf eps 0 mono tol us' ms).getD i 0) :
    (expPmf eps 0 mono tol us ms).getD i 0 ≤ Real.exp eps * (expPmf eps 0 mono tol us' ms).getD i 0 := by
  have : us = us' := by
    apply List.ext_getElem hlen
    intro j h1 h2
    have := abs_nonpos_iff.mp (hnb j h1 h2)
    linarith
  subst this
  have he : 1 ≤ Real.exp eps := Real.one_le_exp heps
  nlinarith

/-! ### bernoulli_neg_exp -/

/-- the inner loop of `bernoulli_neg_exp` stops with `counter = n+1` exactly when the first `n` uniforms pass their
tests `u_j ≤ γ/j` and the next one fails; it then returns `(n+1) % 2`.  For `0 ≤ γ ≤ 1` each test is a Bernoulli(γ/j)
branch (`branch_prob_range`), so the event has probability `stopAt γ n = Π_{j≤n} γ/j · (1 − γ/(n+1))`; the coin is 1
iff `n` is even, and those probabilities sum to `exp(−γ)`. -/
theorem bernoulli_neg_exp_law (γ : ℝ) :
    (∀ (pre : List ℝ) (u : ℝ) (rest : List ℝ),
        (∀ j (h : j < pre.length), pre[j] ≤ γ / ((1 + j : ℕ) : ℝ)) → ¬ u ≤ γ / ((1 + pre.length : ℕ) : ℝ) →
        bernLoop γ (pre ++ u :: rest) 1 = .ok ((1 + pre.length) % 2 == 1, rest)) ∧
    (∀ n : ℕ, stopAt γ n = (∏ j ∈ Finset.range n, γ / ((j : ℝ) + 1)) * (1 - γ / ((n : ℝ) + 1))) ∧
    HasSum (fun m : ℕ => stopAt γ (2 * m)) (bernLaw γ) :=
  ⟨fun pre u rest h1 h2 => bernLoop_stop γ pre u rest 1 h1 h2, stopAt_eq_prod γ, by
    simpa [bernLaw] using bern_even_sum γ⟩

/-- for `γ > 1` the outer loop multiplies unit coins: the mirrored recursion is again `exp(−γ)` -/
theorem bernoulli_neg_exp_outer_law (fuel : ℕ) (γ : ℝ) (h0 : 0 ≤ γ) (h : γ < fuel) :
    bernOuterLaw fuel γ = bernLaw γ := by
  simpa [bernLaw] using bernOuterLaw_eq fuel γ h0 h

/-! ### PermuteAndFlip -/

/-- `int(u·n)` picks every index with probability `1/n` -/
theorem index_law (n : ℕ) (hn : 0 < n) (j : ℕ) (hj : j < n) :
    volume {u : ℝ | u ∈ Ico (0:ℝ) 1 ∧ (⌊u * (n : ℝ)⌋).toNat = j} = ENNReal.ofReal (1 / (n : ℝ)) :=
  Discrete.index_law n hn j hj

/-- the sampler's own branching recursion (`pafLaw`, executable, printed by the driver and compared with the law
extracted from the running code) equals the closed recursion `L p S r = p_r · I p (S∖r)` of the proof -/
theorem paf_law_closed (p : ℕ → ℝ) (ids : List ℕ) (hnd : ids.Nodup) (fuel : ℕ) (hf : ids.length ≤ fuel) (r : ℕ) :
    pafLaw p fuel ids r = if r ∈ ids then PAF.L p ids.toFinset r else 0 :=
  pafLaw_eq_L p ids hnd fuel hf r

/-- permute-and-flip as coded (`p_i = exp(scale·(u_i − max u))`, scale `ε/(2·sensitivity)`), any number of candidates -/
theorem paf_dp (eps sens : ℝ) (heps : 0 < eps) (hsens : 0 < sens) (us us' : List ℝ)
    (hlen : us.length = us'.length) (hne : us ≠ [])
    (hnb : ∀ i (h1 : i < us.length) (h2 : i < us'.length), |us[i] - us'[i]| ≤ sens) (r : ℕ) :
    (pafPmf (pafHeads (pafLogProbs (expScale eps sens false) us))).getD r 0
      ≤ Real.exp eps * (pafPmf (pafHeads (pafLogProbs (expScale eps sens false) us'))).getD r 0 :=
  Discrete.paf_dp eps sens heps hsens us us' hlen hne hnb r

/-- monotonic utilities: scale `ε/sensitivity`, both directions -/
theorem paf_dp_monotonic (eps sens : ℝ) (heps : 0 < eps) (hsens : 0 < sens) (us us' : List ℝ)
    (hlen : us.length = us'.length) (hne : us ≠ [])
    (hnb : ∀ i (h1 : i < us.length) (h2 : i < us'.length), us[i] ≤ us'[i] ∧ us'[i] ≤ us[i] + sens) (r : ℕ) :
    (pafPmf (pafHeads (pafLogProbs (expScale eps sens true) us))).getD r 0
        ≤ Real.exp eps * (pafPmf (pafHeads (pafLogProbs (expScale eps sens true) us'))).getD r 0
      ∧ (pafPmf (pafHeads (pafLogProbs (expScale eps sens true) us'))).getD r 0
        ≤ Real.exp eps * (pafPmf (pafHeads (pafLogProbs (expScale eps sens true) us))).getD r 0 :=
  Discrete.paf_dp_monotonic eps sens heps hsens us us' hlen hne hnb r

/-- degenerate branch (`sensitivity = 0`): neighbours within sup-norm 0 are equal, so the laws are -/
theorem paf_dp_degenerate (eps : ℝ) (heps : 0 ≤ eps) (mono : Bool) (us us' : List ℝ) (hlen : us.length = us'.length)
    (hnb : ∀ i (h1 : i < us.length) (h2 : i < us'.length), |us[i] - us'[i]| ≤ 0) (r : ℕ)
    (hnn : 0 ≤ (pafPmf (pafHeads (pafLogProbs (expScale eps 0 mono) us'))).getD r 0) :
    (pafPmf (pafHeads (pafLogProbs (expScale eps 0 mono) us))).getD r 0
      ≤ Real.exp eps * (pafPmf (pafHeads (pafLogProbs (expScale eps 0 mono) us'))).getD r 0 := by
  have : us = us' := by
    apply List.ext_getElem hlen
    intro j h1 h2
    have := abs_nonpos_iff.mp (hnb j h1 h2)
    linarith
  subst this
  have he : 1 ≤ Real.exp eps := Real.one_le_exp heps
  nlinarith

/-- the selection probabilities of permute-and-flip sum to `1 − Π(1 − p_i)` (to 1 as soon as one head probability is 1,
which the shift by the maximum guarantees) -/
theorem paf_total_mass (heads : List ℝ) :
    lsum (pafPmf heads) = 1 - ∏ i ∈ Finset.range heads.length, (1 - heads.getD i 0) :=
  pafPmf_sum heads

/-! ### ExponentialCategorical / ExponentialHierarchical -/

/-- the constructor keeps every utility in `[0, sensitivity]` (sensitivity = the largest listed value) -/
theorem cat_utility_range (rtol atol eps : ℝ) (ul : List (ℕ × ℕ × ℝ)) (c : Cat ℝ)
    (h : catBuild rtol atol eps ul = .ok c) (a b : ℕ) :
    0 ≤ catUtility c.util a b ∧ catUtility c.util a b ≤ c.sens :=
  catBuild_utility_range rtol atol eps ul c h a b

/-- unbalanced case (factor 2 kept): any two labels, any output -/
theorem cat_dp_unbalanced (rtol atol eps : ℝ) (heps : 0 ≤ eps) (ul : List (ℕ × ℕ × ℝ)) (c : Cat ℝ)
    (hb : catBuild rtol atol eps ul = .ok c) (hs : 0 < c.sens) (hbal : c.balanced = false)
    (x x' : ℕ) (hx : x ∈ c.domain) (hx' : x' ∈ c.domain) (j : ℕ) :
    (catPmf eps c x).getD j 0 ≤ Real.exp eps * (catPmf eps c x').getD j 0 :=
  cat_dp_unbalanced_aux eps heps c (catBuild_wf rtol atol eps ul c hb) hbal hs
    (catBuild_utility_range rtol atol eps ul c hb) x x' hx hx' j

/-- balanced case (factor 2 dropped): correct when the two normalisers are EQUAL -/
theorem cat_dp_balanced (rtol atol eps : ℝ) (heps : 0 ≤ eps) (ul : List (ℕ × ℕ × ℝ)) (c : Cat ℝ)
    (hb : catBuild rtol atol eps ul = .ok c) (hs : 0 < c.sens) (hbal : c.balanced = true)
    (x x' : ℕ) (hx : x ∈ c.domain) (hx' : x' ∈ c.domain)
    (hZ : (catWeights eps c x).sum = (catWeights eps c x').sum) (j : ℕ) :
    (catPmf eps c x).getD j 0 ≤ Real.exp eps * (catPmf eps c x').getD j 0 :=
  cat_dp_balanced_aux eps heps c (catBuild_wf rtol atol eps ul c hb) hbal hs
    (catBuild_utility_range rtol atol eps ul c hb) x x' hx hx' hZ j

/-- end-to-end for whatever the constructor decides, under the hypothesis the code's decision needs: when the
(`np.isclose`-based) balanced flag is set, the normalisers are equal.  The faithful model sets the flag when they are
within `rtol` relative (1e-12 since 252dfe7, 1e-5 before — which was a genuine excess of up to 2e-5 over `e^ε`). -/
theorem cat_dp_partial (rtol atol eps : ℝ) (heps : 0 ≤ eps) (ul : List (ℕ × ℕ × ℝ)) (c : Cat ℝ)
    (hb : catBuild rtol atol eps ul = .ok c) (hs : 0 < c.sens)
    (hflag : c.balanced = true → ∀ x ∈ c.domain, ∀ x' ∈ c.domain, (catWeights eps c x).sum = (catWeights eps c x').sum)
    (x x' : ℕ) (hx : x ∈ c.domain) (hx' : x' ∈ c.domain) (j : ℕ) :
    (catPmf eps c x).getD j 0 ≤ Real.exp eps * (catPmf eps c x').getD j 0 := by
  cases hbal : c.balanced with
  | false => exact cat_dp_unbalanced rtol atol eps heps ul c hb hs hbal x x' hx hx' j
  | true => exact cat_dp_balanced rtol atol eps heps ul c hb hs hbal x x' hx hx' (hflag hbal x hx x' hx') j

/-- the full claim (no hypothesis on the flag).  NOT proved and false in exact arithmetic for `rtol > 0`: normalisers
within the tolerance but unequal give a ratio `e^ε·Z_{x'}/Z_x > e^ε`; with the code's `rtol = 1e-12` the excess is
at most 1e-12 relative, far inside the property's 1e-6 slack (checked on the running code by the harness). -/
def cat_dp_full : Prop :=
  ∀ (rtol atol eps : ℝ), 0 ≤ eps → ∀ (ul : List (ℕ × ℕ × ℝ)) (c : Cat ℝ), catBuild rtol atol eps ul = .ok c →
    0 < c.sens → ∀ x ∈ c.domain, ∀ x' ∈ c.domain, ∀ j : ℕ,
      (catPmf eps c x).getD j 0 ≤ Real.exp eps * (catPmf eps c x').getD j 0

/-- the utilities `ExponentialHierarchical` derives from a hierarchy (`height − common prefix`) are symmetric … -/
theorem hier_utility_symm (height : ℕ) (p q : List ℕ) : hierUtility height p q = hierUtility height q p :=
  hierUtility_symm height p q

/-- … and lie in `[1, height]` for two different leaves at the common level `height` -/
theorem hier_utility_range (height : ℕ) (p q : List ℕ) (hp : p.length = height) (hq : q.length = height) (hne : p ≠ q) :
    1 ≤ hierUtility height p q ∧ hierUtility height p q ≤ height :=
  hierUtility_range height p q hp hq hne

example : hierUtility 2 [0, 1] [1, 0] = 2 ∧ hierUtility 2 [0, 1] [0, 0] = 1 := by decide

/-! ### push-forward form: the single-uniform samplers under `unif01`, every set of outputs

`unif01 (f ⁻¹' T)` is the mass that the push-forward of the law of one `random()` draw under the model sampler `f` gives
to the output set `T` (no measurability side condition: `unif01_preimage`). -/

/-- what the measure-level statements mean: `unif01` is Lebesgue measure on [0,1); `streamμ` the i.i.d. product of it;
`Ret f b` the event that `f`, run on a long enough prefix of the stream, returns `b` (and the unread rest) -/
theorem stream_semantics :
    unif01 = volume.restrict (Ico (0:ℝ) 1) ∧ streamμ = Measure.infinitePi (fun _ : ℕ => unif01) ∧
    (∀ (A : Set ℝ), unif01 A = volume {u : ℝ | u ∈ Ico (0:ℝ) 1 ∧ u ∈ A}) ∧
    (∀ {β : Type} (f : List ℝ → Except DErr (β × List ℝ)) (b : β) (ω : ℕ → ℝ),
      ω ∈ Ret f b ↔ ∃ N rest, f ((List.range N).map ω) = .ok (b, rest)) :=
  ⟨rfl, rfl, unif01_apply, fun _ _ _ => Iff.rfl⟩

/-- `int(u·n)` as a push-forward: `unif01.map (u ↦ int(u·n))` is uniform on the `n` positions -/
theorem index_law_unif01 (n : ℕ) (hn : 0 < n) (j : ℕ) (hj : j < n) :
    (unif01.map (fun u : ℝ => (⌊u * (n : ℝ)⌋).toNat)) {j} = ENNReal.ofReal (1 / (n : ℝ)) :=
  index_map_unif n hn j hj

/-- `Exponential.randomise`'s selection under `unif01`: result `.ok i` has mass `p_i` -/
theorem exp_select_law_unif01 (rtol atol : ℝ) (ps : List ℝ) (hnn : ∀ p ∈ ps, 0 ≤ p) (hsum : ps.sum = 1) (i : ℕ)
    (hi : i < ps.length) :
    unif01 ((expSelect rtol atol (cumFrom 0 ps)) ⁻¹' {.ok i}) = ENNReal.ofReal ps[i] :=
  expSelect_law_unif rtol atol ps hnn hsum i hi

/-- `Binary.randomise`: ε-DP on every set of outputs -/
theorem binary_sampler_dp (eps : ℝ) (heps : 0 ≤ eps) (x x' : Bool) (T : Set Bool) :
    unif01 ((binaryRandomise eps 0 x) ⁻¹' T)
      ≤ ENNReal.ofReal (Real.exp eps) * unif01 ((binaryRandomise eps 0 x') ⁻¹' T) :=
  Discrete.binary_sampler_dp eps heps x x' T

/-- `Geometric` / `GeometricTruncated` / `GeometricFolded`: ε-DP on every set of outputs -/
theorem geom_sampler_dp (eps : ℝ) (heps : 0 < eps) (sens : ℕ) (x x' : ℤ) (hnb : |x - x'| ≤ (sens : ℤ)) :
    (∀ T : Set ℤ, unif01 ((geomRandomise eps sens x) ⁻¹' T)
      ≤ ENNReal.ofReal (Real.exp eps) * unif01 ((geomRandomise eps sens x') ⁻¹' T)) ∧
    (∀ (lo hi : Bnd) (T : Set (Option ℤ)), unif01 ((geomTruncRandomise eps sens lo hi x) ⁻¹' T)
      ≤ ENNReal.ofReal (Real.exp eps) * unif01 ((geomTruncRandomise eps sens lo hi x') ⁻¹' T)) ∧
    (∀ (lo hi : Bnd) (fuel : ℕ) (T : Set (Option ℤ)), unif01 ((geomFoldRandomise eps sens lo hi fuel x) ⁻¹' T)
      ≤ ENNReal.ofReal (Real.exp eps) * unif01 ((geomFoldRandomise eps sens lo hi fuel x') ⁻¹' T)) :=
  ⟨fun T => Discrete.geom_sampler_dp eps heps sens x x' hnb T,
   fun lo hi T => geom_trunc_sampler_dp eps heps sens x x' hnb lo hi T,
   fun lo hi fuel T => geom_fold_sampler_dp eps heps sens x x' hnb lo hi fuel T⟩

/-- **`Exponential.randomise` as sampled** (weights, normalisation, cumulative sums, first index with `u < cum_i`, the
`isclose` fallback and the RuntimeError): for neighbouring utility vectors the law of the RESULT (index or error) under
`unif01` satisfies the ε-DP inequality on every set of results -/
theorem exp_sampler_dp (eps sens tol rtol atol : ℝ) (heps : 0 < eps) (hsens : 0 < sens) (us us' ms : List ℝ)
    (hlen : us.length = us'.length) (hne : us ≠ []) (hms : ms = [] ∨ ms.length = us.length)
    (hm0 : ∀ m ∈ ms, 0 ≤ m) (hpos : ms = [] ∨ ∃ m ∈ ms, 0 < m)
    (hnb : ∀ i (h1 : i < us.length) (h2 : i < us'.length), |us[i] - us'[i]| ≤ sens) (T : Set (Except DErr ℕ)) :
    unif01 ((expSelect rtol atol (expCum eps sens false tol us ms)) ⁻¹' T)
      ≤ ENNReal.ofReal (Real.exp eps) * unif01 ((expSelect rtol atol (expCum eps sens false tol us' ms)) ⁻¹' T) := by
  have hne' := length_ne_nil hlen hne
  have hms' : ms = [] ∨ ms.length = us'.length := by rw [← hlen]; exact hms
  have hsc : expScale eps sens false = some (eps / sens / 2) := by simp [expScale, div_pos hsens heps]
  have hat := fun i => exp_dp eps sens tol heps hsens us us' ms hlen hne hms hm0 hpos hnb i
  unfold expCum
  unfold expPmf at hat ⊢
  rw [hsc] at hat ⊢
  have h1 := expPmf_prob (eps / sens / 2) tol us ms hne hms hm0 hpos
  have h2 := expPmf_prob (eps / sens / 2) tol us' ms hne' hms' hm0 hpos
  refine select_sampler_dp rtol atol _ _ ?_ h1.1 h1.2 h2.1 h2.2 (Real.exp eps) (Real.exp_pos _).le hat T
  simp only [normalise, List.length_map, expWeights_length _ tol us ms hms, expWeights_length _ tol us' ms hms', hlen]

example : |([0, 1] : List ℝ)[0] - ([1, 1] : List ℝ)[0]| ≤ 1 ∧ ([0, 1] : List ℝ) ≠ [] :=
  ⟨by norm_num, List.cons_ne_nil _ _⟩

/-! ### the multi-uniform samplers under the uniform stream measure -/

/-- **a consumed prefix is independent of the rest of the stream**: under an i.i.d. product measure a box on the first
`k` coordinates and any event of the stream shifted by `k` are independent, and the shifted stream has the same law -/
theorem stream_prefix_independent {X : Type} [MeasurableSpace X] (P : Measure X) [IsProbabilityMeasure P] (k : ℕ)
    (a : ℕ → Set X) (ha : ∀ i, MeasurableSet (a i)) (E : Set (ℕ → X)) (hE : MeasurableSet E) :
    Measure.infinitePi (fun _ : ℕ => P) (Set.pi (Finset.range k : Set ℕ) a ∩ (fun ω n => ω (n + k)) ⁻¹' E)
      = Measure.infinitePi (fun _ : ℕ => P) (Set.pi (Finset.range k : Set ℕ) a)
        * Measure.infinitePi (fun _ : ℕ => P) E :=
  box_inter_shift P k a ha E hE

/-- **sequential composition of stream samplers**: if the returning runs of `f` are countably many disjoint boxes
(`BoxSpec`: path `π` reads `len π` uniforms, the `i`-th of which must lie in `box π i`, and returns `out π` with the
rest unread), then `f` followed by any continuation `K` on the unread rest returns `c` with probability
`Σ_π (Π_{i<len π} unif01 (box π i)) · P[K (out π) returns c]` -/
theorem stream_bind_law {β γ ι : Type} [Countable ι] (f : List ℝ → Except DErr (β × List ℝ))
    (K : β → List ℝ → Except DErr (γ × List ℝ)) (len : ι → ℕ) (out : ι → β) (box : ι → ℕ → Set ℝ)
    (spec : BoxSpec f len out box) (hbox : ∀ π i, MeasurableSet (box π i))
    (hdisj : Pairwise (Function.onFun Disjoint (fun π => Set.pi (Finset.range (len π) : Set ℕ) (box π))))
    (c : γ) (hK : ∀ π, MeasurableSet (Ret (K (out π)) c)) :
    MeasurableSet (Ret (bindS f K) c) ∧
    streamμ (Ret (bindS f K) c)
      = ∑' π, (∏ i ∈ Finset.range (len π), unif01 (box π i)) * streamμ (Ret (K (out π)) c) :=
  bind_law f K len out box spec hbox hdisj c hK

/-- the inner loop of `bernoulli_neg_exp` has box paths: `u_0 ≤ γ/1, …, u_{n-1} ≤ γ/n, u_n > γ/(n+1)`, result
`(n+1) % 2`; under the stream measure path `n` has probability `stopAt γ n` (the product of the `unif01` masses of the
thresholds — this is where "`u ≤ t` is a Bernoulli(t) branch" is proved) -/
theorem bernoulli_loop_paths (γ : ℝ) :
    BoxSpec (fun l => bernLoop γ l 1) (fun n : ℕ => n + 1) (fun n => (1 + n) % 2 == 1) (bernBox γ) ∧
    (0 ≤ γ → γ ≤ 1 → ∀ n, ∏ i ∈ Finset.range (n + 1), unif01 (bernBox γ n i) = ENNReal.ofReal (stopAt γ n)) :=
  ⟨bernLoop_spec γ, fun h0 h1 n => bernBox_prob γ h0 h1 n⟩

/-- **`bernoulli_neg_exp(γ)` over the i.i.d. uniform stream**: the model function `bernNegExp` (inner loop, and for
`γ > 1` the outer loop of unit decrements) returns 1 with probability `exp(−γ)`, 0 with probability `1 − exp(−γ)`, and
therefore returns with probability one.  `fuel` bounds the outer loop of the model deterministically (`⌈γ⌉` rounds):
it is never exhausted when it exceeds `γ`. -/
theorem bernoulli_neg_exp_stream_law (fuel : ℕ) (γ : ℝ) (h0 : 0 ≤ γ) (hf : γ < fuel) :
    streamμ (Ret (bernNegExp fuel γ) true) = ENNReal.ofReal (Real.exp (-γ)) ∧
    streamμ (Ret (bernNegExp fuel γ) false) = ENNReal.ofReal (1 - Real.exp (-γ)) ∧
    streamμ (Ret (bernNegExp fuel γ) true ∪ Ret (bernNegExp fuel γ) false)ᶜ = 0 :=
  ⟨(bernNegExp_stream_law fuel γ h0 hf).2.2.1, (bernNegExp_stream_law fuel γ h0 hf).2.2.2,
    bernNegExp_returns_ae fuel γ h0 hf⟩

example : (0:ℝ) ≤ 3 / 2 ∧ (3 / 2 : ℝ) < ((2 : ℕ) : ℝ) := by norm_num

/-- … and whatever runs next on the unread rest of the stream sees a fresh stream, independent of the coin -/
theorem bernoulli_neg_exp_then (fuel : ℕ) (γ : ℝ) (h0 : 0 ≤ γ) (hf : γ < fuel) {β : Type}
    (K : Bool → List ℝ → Except DErr (β × List ℝ)) (c : β) (hK : ∀ b, MeasurableSet (Ret (K b) c)) :
    streamμ (Ret (bindS (bernNegExp fuel γ) K) c)
      = ENNReal.ofReal (Real.exp (-γ)) * streamμ (Ret (K true) c)
        + ENNReal.ofReal (1 - Real.exp (-γ)) * streamμ (Ret (K false) c) :=
  (bernNegExp_bind_law fuel γ h0 hf K c hK).2

/-- one round of permute-and-flip: `pafRun` is the index draw, then the coin of the drawn candidate, then either the
return of that candidate or the next round on the unread rest -/
theorem paf_round_structure (logp : List (Option ℝ)) (coinFuel fuel : ℕ) (ids : List ℕ) (hne : ids ≠ []) :
    pafRun logp coinFuel (fuel + 1) ids
      = bindS (idxDraw ids) (fun idx => bindS (pafCoin logp coinFuel idx)
          (fun b => if b then retS idx else pafRun logp coinFuel fuel (ids.erase idx))) :=
  pafRun_succ logp coinFuel fuel ids hne

/-- **the law of the model's `pafRun` over the uniform stream is its `pafLaw`** for finite log-probabilities `≤ 0`
(coin fuel above every `−logp`), any round fuel and any list of remaining candidates -/
theorem paf_run_stream_law (logp : List (Option ℝ)) (coinFuel : ℕ)
    (hlog : ∀ o ∈ logp, ∃ lp : ℝ, o = some lp ∧ lp ≤ 0 ∧ -lp < coinFuel) (fuel : ℕ) (ids : List ℕ)
    (hids : ∀ i ∈ ids, i < logp.length) (r : ℕ) :
    streamμ (Ret (pafRun logp coinFuel fuel ids) r)
      = ENNReal.ofReal (pafLaw (fun i => (pafHeads logp).getD i 0) fuel ids r) :=
  (pafRun_stream_law logp coinFuel hlog fuel ids hids r).2

/-- **`PermuteAndFlip.randomise` over the uniform stream** (finite scale `s ≥ 0`, i.e. `sensitivity > 0`): the model
sampler returns candidate `r` with probability `pafPmf(heads)[r]`, the closed-form law of `paf_dp` -/
theorem paf_stream_law (s : ℝ) (hs : 0 ≤ s) (us : List ℝ) (coinFuel : ℕ)
    (hcf : ∀ x ∈ us, s * (pyMax us - x) < coinFuel) (r : ℕ) :
    streamμ (Ret (pafRun (pafLogProbs (some s) us) coinFuel us.length (List.range us.length)) r)
      = ENNReal.ofReal ((pafPmf (pafHeads (pafLogProbs (some s) us))).getD r 0) :=
  (Discrete.paf_stream_law s hs us coinFuel hcf r).2

/-- **permute-and-flip returns a candidate with probability one** (finite scale): the shift by the maximum gives one
coin head probability 1, so the `n` rounds of the model's fuel suffice and neither fuel is exhausted, except on a null
set of streams -/
theorem paf_returns_ae (s : ℝ) (hs : 0 ≤ s) (us : List ℝ) (hne : us ≠ []) (coinFuel : ℕ)
    (hcf : ∀ x ∈ us, s * (pyMax us - x) < coinFuel) :
    streamμ (⋃ r, Ret (pafRun (pafLogProbs (some s) us) coinFuel us.length (List.range us.length)) r)ᶜ = 0 :=
  Discrete.paf_returns_ae s hs us hne coinFuel hcf

/-- **permute-and-flip is ε-DP as a sampler**: for neighbouring utility vectors and every set `S` of candidates, the
probability over the uniform stream that the model's `pafRun` returns a candidate in `S` satisfies the ε-DP inequality -/
theorem paf_sampler_dp (eps sens : ℝ) (heps : 0 < eps) (hsens : 0 < sens) (us us' : List ℝ)
    (hlen : us.length = us'.length) (hne : us ≠ [])
    (hnb : ∀ i (h1 : i < us.length) (h2 : i < us'.length), |us[i] - us'[i]| ≤ sens) (coinFuel : ℕ)
    (hcf : ∀ x ∈ us, eps / sens / 2 * (pyMax us - x) < coinFuel)
    (hcf' : ∀ x ∈ us', eps / sens / 2 * (pyMax us' - x) < coinFuel) (S : Set ℕ) :
    streamμ (⋃ r ∈ S, Ret (pafRun (pafLogProbs (expScale eps sens false) us) coinFuel us.length
        (List.range us.length)) r)
      ≤ ENNReal.ofReal (Real.exp eps) *
        streamμ (⋃ r ∈ S, Ret (pafRun (pafLogProbs (expScale eps sens false) us') coinFuel us'.length
          (List.range us'.length)) r) :=
  Discrete.paf_sampler_dp eps sens heps hsens us us' hlen hne hnb coinFuel hcf hcf' S

/-- non-vacuity of the hypotheses of `paf_sampler_dp` (ε = 1, sensitivity 1, utilities [0,1] vs [1,1], coin fuel 1) -/
example : (∀ x ∈ ([0, 1] : List ℝ), (1:ℝ) / 1 / 2 * (pyMax ([0, 1] : List ℝ) - x) < ((1 : ℕ) : ℝ)) ∧
    (∀ x ∈ ([1, 1] : List ℝ), (1:ℝ) / 1 / 2 * (pyMax ([1, 1] : List ℝ) - x) < ((1 : ℕ) : ℝ)) := by
  constructor <;> intro x hx <;> simp at hx <;> rcases hx with rfl | rfl <;> norm_num [pyMax, pyMaxFrom]

/-- monotonic utilities: scale `ε/sensitivity`, both directions -/
theorem paf_sampler_dp_monotonic (eps sens : ℝ) (heps : 0 < eps) (hsens : 0 < sens) (us us' : List ℝ)
    (hlen : us.length = us'.length) (hne : us ≠ [])
    (hnb : ∀ i (h1 : i < us.length) (h2 : i < us'.length), us[i] ≤ us'[i] ∧ us'[i] ≤ us[i] + sens) (coinFuel : ℕ)
    (hcf : ∀ x ∈ us, eps / sens * (pyMax us - x) < coinFuel)
    (hcf' : ∀ x ∈ us', eps / sens * (pyMax us' - x) < coinFuel) (S : Set ℕ) :
    streamμ (⋃ r ∈ S, Ret (pafRun (pafLogProbs (expScale eps sens true) us) coinFuel us.length
        (List.range us.length)) r)
      ≤ ENNReal.ofReal (Real.exp eps) *
        streamμ (⋃ r ∈ S, Ret (pafRun (pafLogProbs (expScale eps sens true) us') coinFuel us'.length
          (List.range us'.length)) r) ∧
    streamμ (⋃ r ∈ S, Ret (pafRun (pafLogProbs (expScale eps sens true) us') coinFuel us'.length
        (List.range us'.length)) r)
      ≤ ENNReal.ofReal (Real.exp eps) *
        streamμ (⋃ r ∈ S, Ret (pafRun (pafLogProbs (expScale eps sens true) us) coinFuel us.length
          (List.range us.length)) r) :=
  Discrete.paf_sampler_dp_monotonic eps sens heps hsens us us' hlen hne hnb coinFuel hcf hcf' S

/-- `bernoulli_neg_exp(+∞)` (the coin of a `−∞` candidate in the degenerate branch; the model's `bernInf`): it never
returns 1, returns 0 with probability `1 − exp(−fuel)` and exhausts the MODEL's fuel with probability `exp(−fuel)` (the
Python loop is unbounded and returns 0 with probability one) -/
theorem bernoulli_inf_then (fuel : ℕ) {β : Type} (K : Bool → List ℝ → Except DErr (β × List ℝ)) (c : β)
    (hK : ∀ b, MeasurableSet (Ret (K b) c)) :
    streamμ (Ret (bindS (bernInf fuel) K) c)
      = ENNReal.ofReal (1 - Real.exp (-(fuel : ℝ))) * streamμ (Ret (K false) c) :=
  (bernInf_bind_law fuel K c hK).2

/-- **`pafRun` over the uniform stream with `−∞` log-probabilities allowed**: the probability of returning `r` is the
model's `pafLaw` up to the probability that a `bernInf` coin exhausts the model's coin fuel:
`run ≤ pafLaw ≤ run + rounds · exp(−coinFuel)` -/
theorem paf_run_stream_law_slack (logp : List (Option ℝ)) (coinFuel : ℕ)
    (hlog : ∀ o ∈ logp, o = none ∨ ∃ lp : ℝ, o = some lp ∧ lp ≤ 0 ∧ -lp < coinFuel) (fuel : ℕ) (ids : List ℕ)
    (hids : ∀ i ∈ ids, i < logp.length) (r : ℕ) :
    streamμ (Ret (pafRun logp coinFuel fuel ids) r)
      ≤ ENNReal.ofReal (pafLaw (fun i => (pafHeads logp).getD i 0) fuel ids r) ∧
    ENNReal.ofReal (pafLaw (fun i => (pafHeads logp).getD i 0) fuel ids r)
      ≤ streamμ (Ret (pafRun logp coinFuel fuel ids) r)
        + ENNReal.ofReal ((fuel : ℝ) * Real.exp (-(coinFuel : ℝ))) :=
  (pafRun_stream_law_slack logp coinFuel hlog fuel ids hids r).2

/-- **degenerate branch of `PermuteAndFlip.randomise` over the uniform stream** (`sensitivity = 0`, infinite scale,
log-probabilities `0` / `−∞`): the law of the model sampler is `pafPmf(heads)` up to `n · exp(−coinFuel)` (the model's
fuel artefact; with the driver's coin fuel the slack is far below the double grid).  The DP claim of that branch is
`paf_dp_degenerate` (neighbours within sup-norm 0 are equal). -/
theorem paf_stream_law_degenerate (us : List ℝ) (coinFuel : ℕ) (hcf : 0 < coinFuel) (r : ℕ) :
    streamμ (Ret (pafRun (pafLogProbs (none : Option ℝ) us) coinFuel us.length (List.range us.length)) r)
      ≤ ENNReal.ofReal ((pafPmf (pafHeads (pafLogProbs (none : Option ℝ) us))).getD r 0) ∧
    ENNReal.ofReal ((pafPmf (pafHeads (pafLogProbs (none : Option ℝ) us))).getD r 0)
      ≤ streamμ (Ret (pafRun (pafLogProbs (none : Option ℝ) us) coinFuel us.length (List.range us.length)) r)
        + ENNReal.ofReal ((us.length : ℝ) * Real.exp (-(coinFuel : ℝ))) :=
  Discrete.paf_stream_law_degenerate us coinFuel hcf r

end DPL.C01
