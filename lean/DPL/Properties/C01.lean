import DPL.Model.Discrete
namespace DPL.C01
end DPL.C01
