/-
C16 — default-accountant scoping is well nested.

`runI` is the faithful machine of `accountant.py` (`_default`, per-instance `old_default`, lazily created default,
`AttributeError` from an unmatched `__exit__`); `runS` is the stack specification (DPL/Model/Scope.lean).
Everything here is core Lean (no Mathlib), carrier-free, and holds for EVERY program: any nesting depth, any number of
accountants, any interleaving of set_default / pop_default / load_default / calls / raised-and-caught exceptions.
-/
import DPL.Model.Scope
import DPL.Proofs.Scope
import DPL.Proofs.ScopeIR

namespace DPL.C16
open DPL

/-- **C16, the refinement.**  For every program whose simultaneously open blocks use distinct accountants (`WF`), and
every pair of related states, the implementation machine and the stack produce the SAME event trace (the accountant
charged by every call, every `load_default` / `pop_default` result, the default in force after every enter, exit —
normal or exceptional — and peek), the same propagating exception, and related final states. -/
theorem scope_refines_stack (p : Prog) : ∀ (σ : St) (s : Sp) (opened : List AccId),
    WF p opened → Rel σ s opened →
    (runI p σ).2 = (runS p s).2 ∧ Rel (runI p σ).1 (runS p s).1 opened := by
  induction p with
  | nil => intro σ s opened _ h; exact ⟨rfl, h⟩
  | raise => intro σ s opened _ h; exact ⟨rfl, h⟩
  | op o rest ih =>
    intro σ s opened hwf h
    have hs := stepRel σ s opened o h
    have hr := ih (stepI σ o).1 (stepS s o).1 opened hwf hs.2
    simp only [runI, runS]
    refine ⟨?_, hr.2⟩
    rw [hs.1, hr.1]
  | block a body rest ihb ihr =>
    intro σ s opened hwf h
    obtain ⟨hna, hwb, hwr⟩ := hwf
    obtain ⟨h1, h2, h3⟩ := h
    -- entering
    have hent : Rel (enterI σ a) (pushS s a) (a :: opened) := by
      refine ⟨rfl, h2, ?_⟩
      show (s.top :: s.below).map some = (a :: opened).map (upd σ.old a (some σ.default))
      rw [List.map_cons, List.map_cons, h3, h1]
      congr 1
      · simp [upd]
      · apply List.map_congr_left
        intro b hb
        have : b ≠ a := fun e => hna (e ▸ hb)
        simp [upd, this]
    obtain ⟨hb1, ht, hf, hbl⟩ := ihb (enterI σ a) (pushS s a) (a :: opened) hwb hent
    have hpop := popS_runS_push body s a
    have hbelow := runS_below body (pushS s a)
    -- leaving: the saved value of `a` is still the default from before the block
    rw [hbelow] at hbl
    simp only [pushS, List.map_cons] at hbl
    have hold : (runI body (enterI σ a)).1.old a = some s.top := (List.cons.inj hbl).1.symm
    have hrest : s.below.map some = opened.map (runI body (enterI σ a)).1.old := (List.cons.inj hbl).2
    have hx : exitI (runI body (enterI σ a)).1 a =
        ({ (runI body (enterI σ a)).1 with default := s.top, old := upd (runI body (enterI σ a)).1.old a none }, false) := by
      simp only [exitI, hold]
    have hexit : Rel (exitI (runI body (enterI σ a)).1 a).1 (popS (runS body (pushS s a)).1) opened := by
      rw [hx, hpop]
      refine ⟨rfl, hf, ?_⟩
      show s.below.map some = opened.map (upd (runI body (enterI σ a)).1.old a none)
      rw [hrest]
      apply List.map_congr_left
      intro b hb
      have : b ≠ a := fun e => hna (e ▸ hb)
      simp [upd, this]
    have hflag : (runI body (enterI σ a)).2.2 = (runS body (pushS s a)).2.2 := by rw [hb1]
    have hcs : (runI body (enterI σ a)).2.1 = (runS body (pushS s a)).2.1 := by rw [hb1]
    have hxd : (exitI (runI body (enterI σ a)).1 a).1.default = (popS (runS body (pushS s a)).1).top := hexit.1.symm
    have hx2 : (exitI (runI body (enterI σ a)).1 a).2 = false := by rw [hx]
    have hed : (enterI σ a).default = some a := rfl
    simp only [runI, runS, hx2, hflag, hcs, hxd, hed, Bool.false_eq_true, ↓reduceIte]
    split
    · exact ⟨rfl, hexit⟩
    · have hr := ihr _ _ opened hwr hexit
      refine ⟨?_, hr.2⟩
      rw [hr.1]
  | «catch» body rest ihb ihr =>
    intro σ s opened hwf h
    have hb := ihb σ s opened hwf.1 h
    have hr := ihr _ _ opened hwf.2 hb.2
    simp only [runI, runS]
    refine ⟨?_, hr.2⟩
    rw [hb.1, hr.1]

/-- the refinement from the initial state (no default, no block open): the whole observable trace of a well-bracketed
program is the stack's -/
theorem scope_refines_stack_init (p : Prog) (hwf : WF p []) :
    (runI p St.init).2 = (runS p Sp.init).2 ∧ (runI p St.init).1.default = (runS p Sp.init).1.top := by
  have h := scope_refines_stack p St.init Sp.init [] hwf ⟨rfl, rfl, rfl⟩
  exact ⟨h.1, h.2.1.symm⟩

/-- under the property's hypothesis `__exit__` never raises `AttributeError` -/
theorem no_attribute_error (p : Prog) (σ : St) (s : Sp) (opened : List AccId) (hwf : WF p opened)
    (h : Rel σ s opened) : (runI p σ).2.2 ≠ some .attributeError := by
  rw [(scope_refines_stack p σ s opened hwf h).1]
  exact runS_exc p s

/-- **exit restores** (state form, ANY starting state — no well-formedness of the surroundings needed, and the body
may be arbitrarily ill-bracketed as long as it does not enter `a` itself): after `__enter__`, any body, `__exit__`, the
default that was in force before the block is in force again, and `__exit__` does not raise.  The body may end
normally or by exception: `__exit__` runs in both cases on the state the body left. -/
theorem exit_restores (a : AccId) (body : Prog) (σ : St) (h : a ∉ enteredIn body) :
    (exitI (runI body (enterI σ a)).1 a).1.default = σ.default ∧ (exitI (runI body (enterI σ a)).1 a).2 = false := by
  have hold : (runI body (enterI σ a)).1.old a = some σ.default := by
    rw [runI_old_untouched body a _ h]
    simp [enterI, upd]
  simp only [exitI, hold, and_self]

/-- exit restores, normal exit: the code after the block starts from the old default -/
theorem exit_restores_normal (a : AccId) (body rest : Prog) (σ : St) (h : a ∉ enteredIn body)
    (hn : (runI body (enterI σ a)).2.2 = none) :
    ∃ σ', σ'.default = σ.default ∧
      runI (.block a body rest) σ =
        ((runI rest σ').1,
         (Ev.entered (some a) :: ((runI body (enterI σ a)).2.1 ++ [Ev.exited σ.default])) ++ (runI rest σ').2.1,
         (runI rest σ').2.2) := by
  obtain ⟨hd, hb⟩ := exit_restores a body σ h
  refine ⟨(exitI (runI body (enterI σ a)).1 a).1, hd, ?_⟩
  simp only [runI, hb, hn, hd, Bool.false_eq_true, ↓reduceIte]
  rfl

/-- exit restores, exit by exception: the rest of the block's continuation is skipped, the exception keeps
propagating, and the state it propagates into has the old default; the last event is `exited old-default` -/
theorem exit_restores_exceptional (a : AccId) (body rest : Prog) (σ : St) (h : a ∉ enteredIn body) (e : Exc)
    (he : (runI body (enterI σ a)).2.2 = some e) :
    (runI (.block a body rest) σ).1.default = σ.default ∧
    (runI (.block a body rest) σ).2.2 = some e ∧
    (runI (.block a body rest) σ).2.1 =
      Ev.entered (some a) :: ((runI body (enterI σ a)).2.1 ++ [Ev.exited σ.default]) := by
  obtain ⟨hd, hb⟩ := exit_restores a body σ h
  simp only [runI, hb, he, hd, Bool.false_eq_true, ↓reduceIte]
  exact ⟨trivial, trivial, rfl⟩

/-- exit restores for a block of a well-bracketed program (the form in the property statement) -/
theorem exit_restores_wf (a : AccId) (body : Prog) (σ : St) (opened : List AccId) (hwf : WF body (a :: opened)) :
    (runI (.block a body .nil) σ).1.default = σ.default := by
  have h : a ∉ enteredIn body := WF_not_entered body (a :: opened) a hwf (List.mem_cons_self)
  obtain ⟨hd, hb⟩ := exit_restores a body σ h
  simp only [runI, hb, Bool.false_eq_true, ↓reduceIte]
  split <;> exact hd

/-- **explicit wins**: a call (or `load_default`) given an accountant uses it, whatever the default and whatever
blocks are open, and leaves the state untouched -/
theorem explicit_wins (σ : St) (e : AccId) :
    stepI σ (.call (some e)) = (σ, [.charge e]) ∧ stepI σ (.load (some e)) = (σ, [.loaded e]) := ⟨rfl, rfl⟩

theorem explicit_wins_run (σ : St) (e : AccId) (rest : Prog) :
    runI (.op (.call (some e)) rest) σ = ((runI rest σ).1, Ev.charge e :: (runI rest σ).2.1, (runI rest σ).2.2) := rfl

/-- operations that do not rewrite the default -/
def Quiet : SOp → Bool
  | .setDefault _ => false
  | .popDefault => false
  | _ => true

/-- what a quiet operation is expected to emit inside a block of `a` -/
def expectIn (a : AccId) : SOp → List Ev
  | .call (some e) => [.charge e]
  | .call none => [.charge a]
  | .load (some e) => [.loaded e]
  | .load none => [.loaded a]
  | .peek => [.peek (some a)]
  | _ => []

def prependOps : List SOp → Prog → Prog
  | [], p => p
  | o :: os, p => .op o (prependOps os p)

theorem quiet_prefix (a : AccId) (qs : List SOp) (hq : ∀ o ∈ qs, Quiet o = true) (p : Prog) :
    ∀ σ : St, σ.default = some a →
      ∃ σ', σ'.default = some a ∧ σ'.old = σ.old ∧
        runI (prependOps qs p) σ = ((runI p σ').1, qs.flatMap (expectIn a) ++ (runI p σ').2.1, (runI p σ').2.2) := by
  induction qs with
  | nil => intro σ h; exact ⟨σ, h, rfl, by simp [prependOps]⟩
  | cons o os ih =>
    intro σ h
    have hq' : ∀ o ∈ os, Quiet o = true := fun o ho => hq o (List.mem_cons_of_mem _ ho)
    have ho : Quiet o = true := hq o List.mem_cons_self
    have key : (stepI σ o).1.default = some a ∧ (stepI σ o).1.old = σ.old ∧ (stepI σ o).2 = expectIn a o := by
      cases o with
      | setDefault b => simp [Quiet] at ho
      | popDefault => simp [Quiet] at ho
      | call e => cases e <;> simp [stepI, expectIn, resolveTop, h]
      | load e => cases e <;> simp [stepI, expectIn, resolveTop, h]
      | peek => simp [stepI, expectIn, h]
    obtain ⟨σ', h1, h2, h3⟩ := ih hq' (stepI σ o).1 key.1
    refine ⟨σ', h1, h2.trans key.2.1, ?_⟩
    simp only [prependOps, runI, h3, key.2.2, List.flatMap_cons, List.append_assoc]

/-- **inside a block, calls without an accountant charge the block's accountant** — every one of them, until the
body itself rewrites the default (set_default / pop_default) or opens another block; explicit accountants still win -/
theorem inside_block_charges_a (a : AccId) (qs : List SOp) (hq : ∀ o ∈ qs, Quiet o = true) (body rest : Prog) (σ : St) :
    ∃ tail, (runI (.block a (prependOps qs body) rest) σ).2.1 =
      Ev.entered (some a) :: (qs.flatMap (expectIn a) ++ tail) := by
  obtain ⟨σ', _, _, h3⟩ := quiet_prefix a qs hq body (enterI σ a) rfl
  simp only [runI, h3]
  split
  · exact ⟨_, by simp [enterI]; rfl⟩
  · split
    · exact ⟨_, by simp [enterI]; rfl⟩
    · exact ⟨_, by simp [enterI, List.append_assoc]; rfl⟩

/-- the simplest instance: the first call in `with a:` charges `a` -/
theorem first_call_in_block_charges_a (a : AccId) (body rest : Prog) (σ : St) :
    ∃ tail, (runI (.block a (.op (.call none) body) rest) σ).2.1 = Ev.entered (some a) :: Ev.charge a :: tail := by
  obtain ⟨tail, h⟩ := inside_block_charges_a a [.call none] (by simp [Quiet]) body rest σ
  exact ⟨tail, by simpa [prependOps, expectIn] using h⟩

/-- programs whose TOP LEVEL does not rewrite the default: quiet operations, `try` blocks of such programs, and
complete nested `with` blocks with ARBITRARY bodies (which may set/pop/raise as they like) -/
def TopQuiet : Prog → Bool
  | .nil => true
  | .raise => true
  | .op o rest => Quiet o && TopQuiet rest
  | .block _ _ rest => TopQuiet rest
  | .catch body rest => TopQuiet body && TopQuiet rest

theorem top_stable_spec (a : AccId) (p : Prog) : ∀ s : Sp, TopQuiet p = true → s.top = some a →
    (runS p s).1.top = some a := by
  induction p with
  | nil => intro s _ h; exact h
  | raise => intro s _ h; exact h
  | op o rest ih =>
    intro s hq h
    simp only [TopQuiet, Bool.and_eq_true] at hq
    simp only [runS]
    apply ih _ hq.2
    cases o with
    | setDefault b => simp [Quiet] at hq
    | popDefault => simp [Quiet] at hq
    | call e => cases e <;> simp [stepS, resolveTop, h]
    | load e => cases e <;> simp [stepS, resolveTop, h]
    | peek => simpa [stepS] using h
  | block b body rest ihb ihr =>
    intro s hq h
    simp only [TopQuiet] at hq
    have hpop := popS_runS_push body s b
    simp only [runS]
    split
    · rw [hpop]; exact h
    · apply ihr _ hq
      rw [hpop]; exact h
  | «catch» body rest ihb ihr =>
    intro s hq h
    simp only [TopQuiet, Bool.and_eq_true] at hq
    simp only [runS]
    exact ihr _ hq.2 (ihb s hq.1 h)

/-- **inside a block the default stays the block's accountant across nested blocks**: in a well-bracketed program,
after any stretch of code whose top level does not call set_default / pop_default — including complete nested `with`
blocks whose bodies do anything at all and leave normally or by a caught exception — the default is still `a`;
so the next call without an accountant charges `a` (`explicit_wins`, `first_call_in_block_charges_a`) -/
theorem default_stable_through_nested_blocks (a : AccId) (p : Prog) (σ : St) (s : Sp) (opened : List AccId)
    (hwf : WF p opened) (hrel : Rel σ s opened) (hq : TopQuiet p = true) (hd : σ.default = some a) :
    (runI p σ).1.default = some a := by
  have h := (scope_refines_stack p σ s opened hwf hrel).2.1
  rw [← h]
  exact top_stable_spec a p s hq (hrel.1.trans hd)

/-! ### why distinctness is a hypothesis: the re-entrant counter-example -/

/-- `with a: with a: pass` starting from default `d`: the inner `__exit__` deletes `a.old_default`, so the outer
`__exit__` clears the default, raises `AttributeError`, and the old default `d` is NOT restored; the stack
specification restores it.  (Replayed on the real code on every run as a reported-only probe.) -/
theorem reentrant_cex :
    let a := AccId.named 0
    let d := AccId.named 1
    let p := Prog.block a (.block a .nil .nil) .nil
    let σ : St := ⟨some d, fun _ => none, 0⟩
    let s : Sp := ⟨some d, [], 0⟩
    Rel σ s [] ∧ ¬ WF p [] ∧
    (runI p σ).1.default = none ∧ (runI p σ).1.default ≠ σ.default ∧ (runI p σ).2.2 = some .attributeError ∧
    (runS p s).1.top = some d ∧ (runS p s).2.2 = none ∧ (runI p σ).2.1 ≠ (runS p s).2.1 := by
  refine ⟨⟨rfl, rfl, rfl⟩, by decide, by decide, by decide, by decide, by decide, by decide, by decide⟩

/-! ### non-vacuity -/

/-- a depth-3 program with set/pop, explicit and implicit calls, a lazily created default and an exception that
propagates through two blocks before it is caught -/
def demo : Prog :=
  .op (.call none) <|                                   -- creates fresh 0
  .block (.named 0)
    (.op (.call none) <|                                -- charges named 0
     .catch
       (.block (.named 1)
          (.op .popDefault <|
           .op (.call none) <|                          -- creates fresh 1
           .block (.named 2) (.op (.call (some (.named 1))) .raise) .nil)
          (.op (.call none) .nil))                      -- skipped by the exception
       (.op (.call none) .nil))                         -- after the catch: named 0 again
    (.op (.call none) .nil)                             -- after the outer block: fresh 0 again

example : WF demo [] := by decide

example : (runI demo St.init).2.1 =
    [.charge (.fresh 0), .entered (some (.named 0)), .charge (.named 0), .entered (some (.named 1)),
     .popped (some (.named 1)), .charge (.fresh 1), .entered (some (.named 2)), .charge (.named 1),
     .exited (some (.fresh 1)), .exited (some (.named 0)), .caught (some .boom), .charge (.named 0),
     .exited (some (.fresh 0)), .charge (.fresh 0)] := by decide

example : (runI demo St.init).2 = (runS demo Sp.init).2 := (scope_refines_stack_init demo (by decide)).1

example : (runI (.block (.named 0) (.op (.setDefault (.named 1)) .raise) .nil) ⟨some (.named 5), fun _ => none, 0⟩).1.default
    = some (.named 5) := by decide


/-! ## Static tie: the five scoping methods as coded (IR of `DPL/Model/ScopeIR.lean`)

`DPL/Generated/C16Scope.lean` re-derives the bodies of `__enter__`, `__exit__`, `set_default`, `pop_default` and
`load_default` from the current source on every run and proves the five contracts below for them; the theorems here
say what the contracts buy and that they discriminate. -/

open ScopeIR in
/-- the bodies at the revision the model was written against meet their contracts: the interpreter run on them IS the
machine (`enterI`, `exitI`, `stepI`) of `scope_refines_stack` -/
theorem scoping_methods_as_coded :
    PopOk handPop ∧ SetOk handSet ∧ EnterOk handEnter ∧ ExitOk handExit ∧ LoadOk handLoad :=
  ⟨handPop_ok, handSet_ok, handEnter_ok, handExit_ok, handLoad_ok⟩

open ScopeIR in
/-- whatever bodies meet the `__enter__`/`__exit__` contracts, a `with a:` statement executed through them (enter, any
state transformer `f` for the block's body, exit) ends in exactly the state `runI` computes for a block, and raises
AttributeError exactly when `runI` says so -/
theorem with_block_via_ir (en ex : Stmt) (hen : EnterOk en) (hex : ExitOk ex) (f : St → St) (σ : St) (a : AccId) :
    (run ex (some a) none (f (run en (some a) none σ).1)).1 = (exitI (f (enterI σ a)) a).1 ∧
    ((run ex (some a) none (f (run en (some a) none σ).1)).2 = .raised .attributeError ↔
      (exitI (f (enterI σ a)) a).2 = true) := by
  rw [hen σ a, hex]
  refine ⟨rfl, ?_⟩
  cases (exitI (f (enterI σ a)) a).2 <;> simp

open ScopeIR in
/-- an `__exit__` that meets its contract never returns a truthy value: the body's exception keeps propagating -/
theorem exit_never_swallows (ex : Stmt) (hex : ExitOk ex) (σ : St) (a v : AccId) :
    (run ex (some a) none σ).2 ≠ .returned (some v) := by
  rw [hex]
  cases (exitI σ a).2 <;> simp

open ScopeIR in
/-- the contracts discriminate (1): `__exit__` without `del self.old_default` is not `exitI` -/
theorem exit_without_del_cex :
    ¬ ExitOk (.seq (.eval .callPop) (.ifNotNone .selfOld (.eval (.callSet .selfOld)))) := by
  intro h
  have := congrArg (fun r => r.1.old (.named 0))
    (h ⟨none, fun _ => some (some (.named 1)), 0⟩ (.named 0))
  simp [run, exec, evalE, exitI, upd] at this

open ScopeIR in
/-- the contracts discriminate (2): `__enter__` that installs itself BEFORE saving the old default saves itself -/
theorem enter_swapped_cex :
    ¬ EnterOk (.seq (.eval (.callSet .self)) (.seq (.setOld .callPop) (.ret .self))) := by
  intro h
  have := congrArg (fun r => r.1.default) (h ⟨some (.named 1), fun _ => none, 0⟩ (.named 0))
  simp [run, exec, evalE, enterI] at this

open ScopeIR in
/-- the contracts discriminate (3): a `load_default` that does not STORE the lazily created default returns a new
accountant on every call (the default would never be shared between calls) -/
theorem load_without_store_cex :
    ¬ LoadOk (.seq (.ifIsNone .arg (.seq (.ifIsNone .clsDefault (.ret .newAcc)) (.ret .clsDefault))) (.ret .arg)) := by
  intro h
  have := congrArg (fun r => r.1.default) (h ⟨none, fun _ => none, 0⟩ none)
  simp [run, exec, evalE, stepI, resolveTop] at this

end DPL.C16
