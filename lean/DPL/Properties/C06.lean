/-
C06 — releases depend on the data only through the noise mechanisms.

Every tool and estimator is a `Plan` (DPL/Model/Plan.lean): data can reach a mechanism's configuration, the control
flow or the release ONLY through a mechanism's input (and, for the three estimators with data-dependent structure,
through an explicit occupancy `probe`).  The theorems below are therefore instances of `Plan.noninterference` /
`Plan.noninterference_probeFree` — TRUE BY CONSTRUCTION OF THE DSL.  What makes them say something about diffprivlib is
the correspondence (harness/props/c06.py, c08.py): the real entry points, with every `randomise` interposed and forced,
produce the same call traces as these plans and bit-identical releases on two arbitrarily different same-shape datasets.

Probes per entry point:
  tools (mean, var, std, sum, count_nonzero, nan-variants, any axis/keepdims, histogram/2d/dd incl. density)   none
  StandardScaler, LinearRegression, PCA/covariance_eig, LogisticRegression's split                              none
  GaussianNB        which labels are present in y
  KMeans            per iteration: which clusters are non-empty under the current noisy centres
  DecisionTree / RandomForest   per tree: which leaves are occupied by the tree's rows
-/
import DPL.Proofs.ModelsFree
import DPL.Proofs.ModelsFreeTools
import DPL.Proofs.TaintIR
import DPL.Proofs.PlanLawNI
import DPL.Proofs.PlanLawNI2
import DPL.Proofs.KernelsFolded

namespace DPL.C06
open DPL DPL.PM

variable {α : Type} [OfNat α 0] [OfNat α 1] [Add α] [Sub α] [Mul α] [Div α] [Neg α]
  [LT α] [LE α] [DecidableLT α] [DecidableLE α] [NatCast α]

/-- the generic statement every instance below specialises -/
theorem plan_noninterference {δ ρ : Type} (p : Plan δ α ρ) (D₁ D₂ : δ) (outs : List α)
    (hp : (p.run D₁ outs).probes = (p.run D₂ outs).probes) :
    (p.run D₁ outs).calls = (p.run D₂ outs).calls ∧ (p.run D₁ outs).release = (p.run D₂ outs).release :=
  p.noninterference D₁ D₂ outs hp

/-! ### estimators without probes: no hypothesis at all (ANY two datasets, any forced outputs) -/

theorem scaler_noninterference (p : ScalerParams α) (D₁ D₂ : DS α) (outs : List α) :
    ((scalerPlan p).run D₁ outs).calls = ((scalerPlan p).run D₂ outs).calls ∧
    ((scalerPlan p).run D₁ outs).release = ((scalerPlan p).run D₂ outs).release :=
  (scalerPlan p).noninterference_probeFree (scalerPlan_probeFree p) D₁ D₂ outs

theorem linreg_noninterference (p : LinParams α) (D₁ D₂ : DS α) (outs : List α) :
    ((linPlan p).run D₁ outs).calls = ((linPlan p).run D₂ outs).calls ∧
    ((linPlan p).run D₁ outs).release = ((linPlan p).run D₂ outs).release :=
  (linPlan p).noninterference_probeFree (linPlan_probeFree p) D₁ D₂ outs

theorem pca_noninterference (p : PcaParams α) (eig bing : DS α → List α → Nat → α) (D₁ D₂ : DS α) (outs : List α) :
    ((pcaPlan p eig bing).run D₁ outs).calls = ((pcaPlan p eig bing).run D₂ outs).calls ∧
    ((pcaPlan p eig bing).run D₁ outs).release = ((pcaPlan p eig bing).run D₂ outs).release :=
  (pcaPlan p eig bing).noninterference_probeFree (pcaPlan_probeFree p eig bing) D₁ D₂ outs

theorem logreg_split_noninterference (eps ds : α) (k : Nat) (D₁ D₂ : DS α) (outs : List α) :
    ((logregPlan eps ds k).run D₁ outs).calls = ((logregPlan eps ds k).run D₂ outs).calls ∧
    ((logregPlan eps ds k).run D₁ outs).release = ((logregPlan eps ds k).run D₂ outs).release :=
  (logregPlan eps ds k).noninterference_probeFree (logregPlan_probeFree eps ds k) D₁ D₂ outs

/-! ### estimators with data-dependent structure: same occupancy pattern (the probes) is the only hypothesis -/

theorem gnb_noninterference (p : GnbParams α) (D₁ D₂ : DS α) (outs : List α)
    (hp : ((gnbPlan p).run D₁ outs).probes = ((gnbPlan p).run D₂ outs).probes) :
    ((gnbPlan p).run D₁ outs).calls = ((gnbPlan p).run D₂ outs).calls ∧
    ((gnbPlan p).run D₁ outs).release = ((gnbPlan p).run D₂ outs).release :=
  (gnbPlan p).noninterference D₁ D₂ outs hp

theorem kmeans_noninterference (p : KmParams α) (iters : Nat) (e0 ei : α) (D₁ D₂ : DS α) (outs : List α)
    (hp : ((kmPlanWith p iters e0 ei).run D₁ outs).probes = ((kmPlanWith p iters e0 ei).run D₂ outs).probes) :
    ((kmPlanWith p iters e0 ei).run D₁ outs).calls = ((kmPlanWith p iters e0 ei).run D₂ outs).calls ∧
    ((kmPlanWith p iters e0 ei).run D₁ outs).release = ((kmPlanWith p iters e0 ei).run D₂ outs).release :=
  (kmPlanWith p iters e0 ei).noninterference D₁ D₂ outs hp

theorem forest_noninterference (p : ForestParams α) (D₁ D₂ : DS α) (outs : List α)
    (hp : ((forestPlan p).run D₁ outs).probes = ((forestPlan p).run D₂ outs).probes) :
    ((forestPlan p).run D₁ outs).calls = ((forestPlan p).run D₂ outs).calls ∧
    ((forestPlan p).run D₁ outs).release = ((forestPlan p).run D₂ outs).release :=
  (forestPlan p).noninterference D₁ D₂ outs hp

/-- the GaussianNB probe really is "which labels are present": two datasets with the same set of labels agree on it -/
theorem gnb_probe_is_labels (p : GnbParams α) (D₁ D₂ : DS α) (outs : List α)
    (h : ∀ c, D₁.any (fun r => r.y == c) = D₂.any (fun r => r.y == c)) :
    ((gnbPlan p).run D₁ outs).probes = ((gnbPlan p).run D₂ outs).probes := by
  have hocc : ((List.range p.K).map fun c => D₁.any (fun r => r.y == c)) =
      ((List.range p.K).map fun c => D₂.any (fun r => r.y == c)) := by
    apply List.map_congr_left; intro c _; exact h c
  have hcr := fun (q : Plan (DS α) α (GnbRelease α)) (hq : q.probeFree) =>
    (Plan.probeFree_probes q hq D₁ outs).trans (Plan.probeFree_probes q hq D₂ outs).symm
  unfold gnbPlan
  simp only [Plan.run]
  rw [hocc]
  congr 1
  refine hcr _ ?_
  refine Plan.probeFree_bind _ _ (probeFree_forList _ _ fun _ _ => probeFree_one _ _) fun raw => ?_
  refine Plan.probeFree_bind _ _ (probeFree_forList _ _ fun ci _ => ?_) fun _ => trivial
  unfold gnbClass
  split
  · trivial
  · exact probeFree_forList _ _ fun j _ => fun _ => fun _ => trivial

/-! ### tools (plans of DPL/Model/PlanTools.lean): no probes -/

section tools
open DPL.Tools
variable {β ρ : Type} [OfNat α 2] [OfNat α 4] [IntCast α] [Transc α]

/-- "the configured calls and the release are the same on both datasets" -/
def NI {δ : Type} (p : Plan δ α ρ) (D₁ D₂ : δ) (outs : List α) : Prop :=
  (p.run D₁ outs).calls = (p.run D₂ outs).calls ∧ (p.run D₁ outs).release = (p.run D₂ outs).release

theorem tool_noninterference {δ : Type} (p : Plan δ α ρ) (h : p.probeFree) (D₁ D₂ : δ) (outs : List α) :
    NI p D₁ D₂ outs :=
  p.noninterference_probeFree h D₁ D₂ outs

theorem mean_noninterference (n : Nat) (ε l u : α) (D₁ D₂ : List α) (outs : List α) :
    NI (meanPlan n ε l u) D₁ D₂ outs :=
  tool_noninterference (meanPlan n ε l u) (meanPlan_probeFree n ε l u) D₁ D₂ outs
theorem nanmean_noninterference (n : Nat) (ε l u : α) (D₁ D₂ : List (Option α)) (outs : List α) :
    NI (nanmeanPlan n ε l u) D₁ D₂ outs :=
  tool_noninterference (nanmeanPlan n ε l u) (nanmeanPlan_probeFree n ε l u) D₁ D₂ outs
theorem var_noninterference (n : Nat) (ε l u : α) (D₁ D₂ : List α) (outs : List α) :
    NI (varPlan n ε l u) D₁ D₂ outs :=
  tool_noninterference (varPlan n ε l u) (varPlan_probeFree n ε l u) D₁ D₂ outs
theorem nanvar_noninterference (n : Nat) (ε l u : α) (D₁ D₂ : List (Option α)) (outs : List α) :
    NI (nanvarPlan n ε l u) D₁ D₂ outs :=
  tool_noninterference (nanvarPlan n ε l u) (nanvarPlan_probeFree n ε l u) D₁ D₂ outs
theorem std_noninterference (n : Nat) (ε l u : α) (D₁ D₂ : List α) (outs : List α) :
    NI (stdPlan n ε l u) D₁ D₂ outs :=
  tool_noninterference (stdPlan n ε l u) (stdPlan_probeFree n ε l u) D₁ D₂ outs
theorem nanstd_noninterference (n : Nat) (ε l u : α) (D₁ D₂ : List (Option α)) (outs : List α) :
    NI (nanstdPlan n ε l u) D₁ D₂ outs :=
  tool_noninterference (nanstdPlan n ε l u) (nanstdPlan_probeFree n ε l u) D₁ D₂ outs
theorem sum_noninterference (n : Nat) (ε l u : α) (D₁ D₂ : List α) (outs : List α) :
    NI (sumPlan n ε l u) D₁ D₂ outs :=
  tool_noninterference (sumPlan n ε l u) (sumPlan_probeFree n ε l u) D₁ D₂ outs
theorem nansum_noninterference (n : Nat) (ε l u : α) (D₁ D₂ : List (Option α)) (outs : List α) :
    NI (nansumPlan n ε l u) D₁ D₂ outs :=
  tool_noninterference (nansumPlan n ε l u) (nansumPlan_probeFree n ε l u) D₁ D₂ outs
theorem intsum_noninterference (n : Nat) (ε l u li ui : α) (D₁ D₂ : List α) (outs : List α) :
    NI (intSumPlan n ε l u li ui) D₁ D₂ outs :=
  tool_noninterference (intSumPlan n ε l u li ui) (intSumPlan_probeFree n ε l u li ui) D₁ D₂ outs
theorem count_nonzero_noninterference (n : Nat) (ε : α) (D₁ D₂ : List α) (outs : List α) :
    NI (countNonzeroPlan n ε) D₁ D₂ outs :=
  tool_noninterference (countNonzeroPlan n ε) (countNonzeroPlan_probeFree n ε) D₁ D₂ outs
/-- any tool through `_wrap_axis` (axis / keepdims): one sub-plan per output cell -/
theorem wrap_axis_noninterference (dflt : β) (size : Nat) (ε : α) (bounds : Nat → α × α)
    (cell : (ε l u : α) → Plan (List β) α ρ) (h : ∀ e l u, (cell e l u).probeFree)
    (D₁ D₂ : List (List β)) (outs : List α) : NI (wrapAxis dflt size ε bounds cell) D₁ D₂ outs :=
  tool_noninterference (wrapAxis dflt size ε bounds cell) (wrapAxis_probeFree dflt size ε bounds cell h) D₁ D₂ outs
theorem histogram_noninterference (edges : List α) (weighted density : Bool) (ε maxsize : α)
    (D₁ D₂ : List (WRow α)) (outs : List α) : NI (histogramPlan edges weighted density ε maxsize) D₁ D₂ outs :=
  tool_noninterference (histogramPlan edges weighted density ε maxsize)
    (histogramPlan_probeFree edges weighted density ε maxsize) D₁ D₂ outs
/-- histogramdd (histogram2d is histogramdd on two columns), density included -/
theorem histogramdd_noninterference (edges : List (List α)) (weighted density : Bool) (ε maxsize : α)
    (D₁ D₂ : List (WRow α)) (outs : List α) : NI (histogramddPlan edges weighted density ε maxsize) D₁ D₂ outs :=
  tool_noninterference (histogramddPlan edges weighted density ε maxsize)
    (histogramddPlan_probeFree edges weighted density ε maxsize) D₁ D₂ outs

end tools

/-! ### the STATIC tie (harness/translate/taint.py → DPL/Generated/C06Flows.lean): what `flowsOk fn = true` means.

The bodies of the tools and estimator methods are re-extracted from /repo's current AST on every run as functions of the
IR of DPL/Model/TaintIR.lean (`assign` / `declass` = a forced mechanism output / `probe` / `branch` / `loop` / `ret` /
`halt`), the data parameters' CONTENTS being the sources (their shapes are separate, clean variables).  If the checker
accepts such a function then — whatever the pure operations and the branch decisions compute — two runs that agree on
everything but the data and receive the same forced mechanism outputs configure the same mechanism calls and return the
same values, whenever both return (a refusal or a PrivacyLeakWarning path ends a run without a release). -/

open DPL.TaintIR in
theorem static_taint_sound {V : Type} (f : Fn) (hf : flowsOk f = true) (I : Interp V) (e₁ e₂ : Var → V)
    (hag : ∀ x, x ∉ f.sources → e₁ x = e₂ x) (outs : List V) (fuel : Nat) (t₁ t₂ : List (List V)) (v₁ v₂ : List V)
    (h₁ : f.run I fuel e₁ outs = .ret t₁ v₁) (h₂ : f.run I fuel e₂ outs = .ret t₂ v₂) : t₁ = t₂ ∧ v₁ = v₂ :=
  TaintIR.noninterference f hf I e₁ e₂ hag outs fuel t₁ t₂ v₁ v₂ h₁ h₂

section static_nonvacuity
open DPL.TaintIR

/-- `m := mean(array); out := Laplace(eps).randomise(m); return out` (0 = array, 1 = eps, 2 = m, 3 = out) -/
def tinyGood : Fn := ⟨[0], Stmt.block [.assign 2 0 [0], .declass 3 [1] [2], .ret [3]]⟩
/-- the same with the shortcut `if upper == lower: return m` taken on DATA-independent bounds (4 = bounds): m escapes -/
def tinyShortcut : Fn := ⟨[0], Stmt.block [.assign 2 0 [0], .branch 1 [4] (.ret [2]) .skip, .declass 3 [1] [2], .ret [3]]⟩
/-- a mechanism whose scale is computed from the data -/
def tinyCfg : Fn := ⟨[0], Stmt.block [.assign 2 0 [0], .declass 3 [2] [2], .ret [3]]⟩
/-- a mechanism call that happens only on some datasets (implicit flow through the number of calls) -/
def tinyImplicit : Fn := ⟨[0], Stmt.block [.branch 1 [0] (.declass 3 [1] [0]) .skip, .ret [3]]⟩
/-- a loop whose body launders the data through two copies: found by the invariant iteration -/
def tinyLoop : Fn := ⟨[0], Stmt.block [.loop 4 1 [5] (Stmt.block [.assign 3 0 [2], .assign 2 0 [0]]), .ret [3]]⟩

example : flowsOk tinyGood = true := by decide
example : flowsOk tinyShortcut = false := by decide
example : flowsOk tinyCfg = false := by decide
example : flowsOk tinyImplicit = false := by decide
example : flowsOk tinyLoop = false := by decide

/-- the rejected shortcut really leaks: on `Nat` with `op = head`, two datasets give two different returns -/
example : ∃ (I : Interp Nat) (e₁ e₂ : Var → Nat), (∀ x, x ∉ tinyShortcut.sources → e₁ x = e₂ x) ∧
    tinyShortcut.run I 9 e₁ [7] = .ret [] [1] ∧ tinyShortcut.run I 9 e₂ [7] = .ret [] [2] :=
  ⟨⟨fun _ a => a.headD 0, fun _ _ => true⟩, fun x => if x = 0 then 1 else 0, fun x => if x = 0 then 2 else 0,
    by intro x hx; have : x ≠ 0 := by simpa [tinyShortcut] using hx
       simp [this], rfl, rfl⟩

/-- and the accepted one returns the forced output on both -/
example : tinyGood.run ⟨fun _ a => a.headD 0, fun _ _ => true⟩ 9 (fun x => if x = 0 then 1 else 0) [7] = .ret [[0]] [7] ∧
    tinyGood.run ⟨fun _ a => a.headD 0, fun _ _ => true⟩ 9 (fun x => if x = 0 then 2 else 0) [7] = .ret [[0]] [7] := by
  constructor <;> rfl

end static_nonvacuity

/-! ### non-vacuity: a plan that DOES read the data around the mechanism cannot be written; the closest thing, a probe
on the data, makes the hypothesis of `plan_noninterference` fail for datasets that differ on it -/

example : ∃ (p : Plan Nat Nat Nat) (D₁ D₂ : Nat), (p.run D₁ []).release ≠ (p.run D₂ []).release ∧
    (p.run D₁ []).probes ≠ (p.run D₂ []).probes :=
  ⟨.probe (fun D => [D == 0]) (fun b => .release (if b == [true] then 1 else 0)), 0, 1, by simp [Plan.run], by simp [Plan.run]⟩

end DPL.C06

/-! ## C06 at the level of output LAWS (no forced outputs any more)

`Plan.law M p D` is the law of the release when every invocation `c` with input `a` draws from `M c a`
(DPL/Proofs/ModelsCompose2.lean).  For ANY kernel family `M` — no DP assumption — the law on `D` equals the law on `D'`
as soon as every invocation receives the same input on both (`Plan.inputsAgree`, along every path of outputs) and every
probe has the same answer (`Plan.probesAgree`): the data reach the release only through the mechanism inputs. -/

namespace DPL.C06
open DPL DPL.PM MeasureTheory

/-- **C06 for laws**: equality of the output measures, any kernel family, any plan -/
theorem plan_law_noninterference {δ ρ : Type} [MeasurableSpace ρ] (M : MechCall ℝ → ℝ → Measure ℝ)
    (p : Plan δ ℝ ρ) (D D' : δ) (hi : p.inputsAgree D D') (hp : p.probesAgree D D') : p.law M D = p.law M D' :=
  law_noninterference M p D D' hi hp

/-- the set-function form: every set, no σ-algebra on the releases needed -/
theorem plan_lawOn_noninterference {δ ρ : Type} (M : MechCall ℝ → ℝ → Measure ℝ) (p : Plan δ ℝ ρ) (D D' : δ)
    (hi : p.inputsAgree D D') (hp : p.probesAgree D D') (S : Set ρ) : p.lawOn M D S = p.lawOn M D' S :=
  lawOn_noninterference M p D D' hi hp S

/-- the hypothesis in the vocabulary of `plan_noninterference` (traces of forced runs): if every forced run hands the
mechanisms the same inputs and sees the same probes on both datasets, the output laws are equal -/
theorem plan_law_noninterference_of_runs {δ ρ : Type} [MeasurableSpace ρ] (M : MechCall ℝ → ℝ → Measure ℝ)
    (p : Plan δ ℝ ρ) (D D' : δ)
    (h : ∀ outs, (p.run D outs).inputs = (p.run D' outs).inputs ∧ (p.run D outs).probes = (p.run D' outs).probes) :
    p.law M D = p.law M D' :=
  law_noninterference_of_runs M p D D' h

/-- **the law is a function of the mechanism inputs (and probes) only**: every post-processing of the release has the
same law on both datasets -/
theorem plan_law_determined_by_inputs {δ ρ σ : Type} [MeasurableSpace ρ] [MeasurableSpace σ]
    (M : MechCall ℝ → ℝ → Measure ℝ) (p : Plan δ ℝ ρ) (D D' : δ) (hi : p.inputsAgree D D')
    (hp : p.probesAgree D D') (f : ρ → σ) : (p.law M D).map f = (p.law M D').map f :=
  law_map_noninterference M p D D' hi hp f

/-- the hypothesis `inputsAgree` is needed: one Laplace invocation on the datasets `0` and `1` (no probes at all) has
two different output laws — they differ on `(-∞, 0]` -/
theorem plan_law_noninterference_cex (c : MechCall ℝ) (hc : 0 < c.eps ∧ 0 < c.sens) :
    (one c (fun D : ℝ => D)).probesAgree 0 1 ∧ ¬ (one c (fun D : ℝ => D)).inputsAgree 0 1 ∧
    (one c (fun D : ℝ => D)).law lapKernel 0 ≠ (one c (fun D : ℝ => D)).law lapKernel 1 :=
  law_noninterference_cex c hc

/-- non-vacuity of the hypotheses: a dataset agrees with itself, on every plan -/
example {δ ρ : Type} (p : Plan δ ℝ ρ) (D : δ) : p.inputsAgree D D := inputsAgree_refl D p

/-! ### instances: two DIFFERENT datasets with the same clipped statistics have EQUAL output laws -/

section law_instances
open DPL.Tools

theorem mean_law_noninterference (M : MechCall ℝ → ℝ → Measure ℝ) (n : Nat) (ε l u : ℝ) (D D' : List ℝ)
    (h : mean (D.map (Tools.clip l u)) = mean (D'.map (Tools.clip l u))) :
    (meanPlan n ε l u).law M D = (meanPlan n ε l u).law M D' :=
  meanPlan_law_eq M n ε l u D D' h

/-- `[0, 2]` and `[1, 1]` are different arrays with the same clipped mean -/
example : ([0, 2] : List ℝ) ≠ [1, 1] ∧
    mean (([0, 2] : List ℝ).map (Tools.clip 0 2)) = mean (([1, 1] : List ℝ).map (Tools.clip 0 2)) := by
  refine ⟨by simp, ?_⟩
  norm_num [mean, Tools.sum, Tools.clip]

theorem histogram_law_noninterference (M : MechCall ℝ → ℝ → Measure ℝ) (edges : List ℝ) (weighted density : Bool)
    (ε maxsize : ℝ) (D D' : List (WRow ℝ))
    (h : ∀ cell ∈ cellsOf ([edges].map (fun e => e.length - 1)),
      cellCount [edges] weighted cell D = cellCount [edges] weighted cell D') :
    (histogramPlan edges weighted density ε maxsize).law M D =
      (histogramPlan edges weighted density ε maxsize).law M D' :=
  histogramPlan_law_eq M edges weighted density ε maxsize D D' h

theorem histogramdd_law_noninterference (M : MechCall ℝ → ℝ → Measure ℝ) (edges : List (List ℝ))
    (weighted density : Bool) (ε maxsize : ℝ) (D D' : List (WRow ℝ))
    (h : ∀ cell ∈ cellsOf (edges.map (fun e => e.length - 1)),
      cellCount edges weighted cell D = cellCount edges weighted cell D') :
    (histogramddPlan edges weighted density ε maxsize).law M D =
      (histogramddPlan edges weighted density ε maxsize).law M D' :=
  histogramddPlan_law_eq M edges weighted density ε maxsize D D' h

/-- the empty array and an array whose only record lies outside the range have the same bin counts (sizes differ!) -/
example : ∀ cell ∈ cellsOf ([([0, 1] : List ℝ)].map (fun e => e.length - 1)),
    cellCount [([0, 1] : List ℝ)] false cell [] = cellCount [([0, 1] : List ℝ)] false cell [⟨[5], 1⟩] := by
  intro cell _
  have h5 : ¬ ((5 : ℝ) ≤ 1) := by norm_num
  simp [cellCount, binOf, binIdx, h5]

theorem scaler_law_noninterference [MeasurableSpace (List ℝ × List ℝ)] (M : MechCall ℝ → ℝ → Measure ℝ)
    (p : ScalerParams ℝ) (D D' : DS ℝ)
    (hm : ∀ j, j < p.d → meanL (D.map (feat p.lo p.hi j)) = meanL (D'.map (feat p.lo p.hi j)))
    (hv : ∀ j, j < p.d → varL (D.map (feat p.lo p.hi j)) = varL (D'.map (feat p.lo p.hi j))) :
    (scalerPlan p).law M D = (scalerPlan p).law M D' :=
  scalerPlan_law_eq M p D D' hm hv

/-- one feature clipped to `[0, 1]`: the records `5` and `7` are both clipped to `1` -/
example : ∀ j, j < 1 → meanL (([⟨[5], 0, []⟩] : DS ℝ).map (feat [0] [1] j)) =
    meanL (([⟨[7], 0, []⟩] : DS ℝ).map (feat [0] [1] j)) := by
  intro j hj
  obtain rfl : j = 0 := by omega
  have h1 : ¬ ((5 : ℝ) < 0) := by norm_num
  have h2 : ¬ ((7 : ℝ) < 0) := by norm_num
  have h3 : (1 : ℝ) < 5 := by norm_num
  have h4 : (1 : ℝ) < 7 := by norm_num
  simp [meanL, sumL, feat, PM.clip, nth, h1, h2, h3, h4]

end law_instances

end DPL.C06

/-! ### the static tie at the level of laws (loop-free functions of the IR)

`TaintIR.lawExec` mirrors `exec` with the forced-output list replaced by a kernel family `K cfg input` (and the probes
answered by a function `pr` of their arguments).  For a LOOP-FREE function accepted by the checker: two environments
that agree outside the data sources and on which the runs take the same decisions, hand the mechanisms the same input
values and get the same probe answers along every path (`Fn.agree`) have EQUAL laws of (configured calls, returned
values / halt) — for every kernel family and every meaning of the pure operations.  With loops the statement is
`TaintIR.taint_law_noninterference_full` (stated in DPL/Proofs/PlanLawNI2.lean, not proved). -/

namespace DPL.C06
open DPL DPL.TaintIR MeasureTheory

theorem static_taint_law_sound [MeasurableSpace (TaintIR.Res ℝ)] (f : Fn) (hf : flowsOk f = true) (hlf : loopFree f.body)
    (I : Interp ℝ) (K : List ℝ → List ℝ → Measure ℝ) (pr : List ℝ → ℝ) (e₁ e₂ : Var → ℝ)
    (hag : ∀ x, x ∉ f.sources → e₁ x = e₂ x) (fuel : Nat) (ha : f.agree I pr fuel e₁ e₂) :
    f.law I K pr fuel e₁ = f.law I K pr fuel e₂ :=
  taint_law_noninterference f hf hlf I K pr e₁ e₂ hag fuel ha

/-- non-vacuity: `tinyGood` is loop-free and accepted; with `op` = "clip the first argument to `[0, 1]`" the arrays
`5` and `7` (variable 0, the source) satisfy `Fn.agree` although they differ -/
example : loopFree tinyGood.body ∧ flowsOk tinyGood = true ∧
    tinyGood.agree ⟨fun _ a => max 0 (min 1 (a.headD 0)), fun _ _ => true⟩ (fun _ => 0) 9
      (fun x => if x = 0 then 5 else 0) (fun x => if x = 0 then 7 else 0) := by
  refine ⟨by simp [tinyGood, Stmt.block, loopFree], by decide, ?_⟩
  norm_num [Fn.agree, agreeExec, tinyGood, Stmt.block, upd]

end DPL.C06
