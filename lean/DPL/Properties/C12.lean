/-
C12 — mechanism outputs stay in their declared domain, and `randomise` always returns.

The theorems are about the executable model `DPL/Model/Range.lean`, which transcribes the code as it is at HEAD
(iterative fold with the modulo step, redraw of a centred uniform equal to 0, single-point shortcuts, the final
truncation of Snapping).  ★ = holds for an arbitrary linear order (hence for non-NaN doubles as it stands).
-/
import DPL.Model.Range
import DPL.Proofs.RangeLemmas

namespace DPL.C12
open DPL DPL.RangeL DPL.ClipL

/-! ### ★ truncate, the rejection test, index selection: any linear order -/
section order
variable {α : Type} [LinearOrder α]

/-- ★ `_truncate` lands in `[lower, upper]` -/
theorem truncate_in_bounds (lo hi v : α) (h : lo ≤ hi) : lo ≤ truncate lo hi v ∧ truncate lo hi v ≤ hi :=
  truncate_in lo hi v h

/-- ★ and is the identity on the domain -/
theorem truncate_id_on_domain (lo hi v : α) (h1 : lo ≤ v) (h2 : v ≤ hi) : truncate lo hi v = v :=
  truncate_id lo hi v h1 h2

example : truncate (0 : Int) 10 15 = 10 ∧ truncate (0 : Int) 10 (-2) = 0 ∧ truncate (0 : Int) 0 7 = 0 := by decide

/-- ★ the value the rejection step returns is the FIRST draw of the batch that lies in `[lower, upper]` -/
theorem rejection_first_accepted (lo hi : α) (xs : List α) (r : α) (h : firstAccepted lo hi xs = some r) :
    ∃ pre post, xs = pre ++ r :: post ∧ (∀ x ∈ pre, ¬ (lo ≤ x ∧ x ≤ hi)) ∧ lo ≤ r ∧ r ≤ hi :=
  firstAccepted_spec lo hi xs r h

/-- ★ and a batch that contains an in-range draw is never rejected -/
theorem rejection_accepts_if_any (lo hi : α) (xs : List α) (h : ∃ x ∈ xs, lo ≤ x ∧ x ≤ hi) :
    ∃ r, firstAccepted lo hi xs = some r :=
  firstAccepted_some lo hi xs h

/-- ★ `Exponential.randomise` returns an index of the candidate list (or raises) -/
theorem select_in_candidates (cum : List α) (u : α) (close : Bool) (i : Nat)
    (h : expSelect cum u close = .ok i) : i < cum.length := by
  unfold expSelect at h
  split at h
  · rename_i j hj
    cases h
    have := firstLe_lt u cum 0 i hj
    omega
  · split at h
    · split at h
      · rename_i l hl
        have hne : cum ≠ [] := by
          intro e; subst e; simp at hl
        have hpos : 0 < cum.length := List.length_pos_iff.mpr hne
        split at h
        · rename_i j hj
          cases h
          have := firstEq_lt l cum 0 i hj
          omega
        · cases h; exact hpos
      · cases h
    · cases h

example : expSelect [(1 : Int), 3, 6] 2 false = .ok 1 := by decide

/-- the fallback never returns a trailing candidate of probability 0: cumulative [1, 3, 6, 6], uniform 6 ↦ index 2 -/
example : expSelect [(1 : Int), 3, 6, 6] 6 true = .ok 2 := by decide

end order

/-- ★ `ExponentialCategorical.randomise` returns (the index of) one of the domain values -/
theorem categorical_in_domain {β : Type} [OfNat β 0] [Add β] [LT β] [DecidableLT β] (probs : List β) (t : β)
    (h : probs ≠ []) : catSelect probs t < probs.length := by
  unfold catSelect
  cases probs with
  | nil => exact absurd rfl h
  | cons p ps =>
    unfold catLoop
    simp only
    split
    · simp
    · have := catLoop_lt t ps (0 + p) (0 + 1) 0 (by omega)
      simp only [List.length_cons]
      omega

/-- `PermuteAndFlip.randomise` returns one of the candidate ids, whatever positions are drawn and flips come up -/
theorem permute_and_flip_in_candidates : ∀ (ds : List (Nat × Bool)) (ids : List Nat) (i : Nat),
    pfLoop ids ds = some i → i ∈ ids
  | [], _, _, h => by simp [pfLoop] at h
  | (pos, flip) :: rest, [], _, h => by simp [pfLoop] at h
  | (pos, flip) :: rest, id :: ids, i, h => by
    unfold pfLoop at h
    have hmem : (id :: ids).getD pos id ∈ id :: ids := by
      rw [List.getD_eq_getElem?_getD]
      cases hq : (id :: ids)[pos]? with
      | none => simp
      | some x => simpa using List.mem_of_getElem? hq
    simp only at h
    split at h
    · cases h; exact hmem
    · exact List.mem_of_mem_erase (permute_and_flip_in_candidates rest _ i h)

example : pfLoop [0, 1, 2] [(1, false), (5, false), (0, true)] = some 2 := by decide

/-- `Binary.randomise` returns one of its two labels -/
theorem binary_in_labels {L : Type} (v0 v1 : L) (eps delta u : ℝ) (ind : Bool) :
    (if binaryFlip eps delta u ind then v1 else v0) = v0 ∨ (if binaryFlip eps delta u ind then v1 else v0) = v1 := by
  split
  · right; rfl
  · left; rfl

/-! ### fold as coded (ℝ) -/

/-- `_fold` terminates with a value of the domain, after at most 2 reflections: the single-point shortcut when
`lower = upper`; otherwise the modulo step leaves the value within two widths of the domain and every reflection
brings it one width closer. -/
theorem fold_in_bounds (lo hi v : ℝ) (h : lo ≤ hi) (fuel : ℕ) (hf : 3 ≤ fuel) :
    ∃ r k, fold lo hi v fuel = some (r, k) ∧ k ≤ 2 ∧ lo ≤ r ∧ r ≤ hi := by
  unfold fold
  rcases h.lt_or_eq with hlt | heq
  · rw [feq_false_of_lt hlt]
    simp only [Bool.false_eq_true, if_false]
    exact foldLoop_terminates lo hi hlt 2 _ (foldPre_dist lo hi v hlt) fuel hf
  · subst heq
    refine ⟨lo, 0, ?_, by omega, le_refl _, le_refl _⟩
    simp [feq]

/-- `randomise` of the folded mechanisms always returns (no unbounded recursion or loop) -/
theorem fold_terminates (lo hi v : ℝ) (h : lo ≤ hi) : (fold lo hi v).isSome = true := by
  obtain ⟨r, k, hr, _⟩ := fold_in_bounds lo hi v h 64 (by omega)
  rw [hr]; rfl

/-- a zero-width domain: the point itself, without entering the loop (regression: the recursive form diverged) -/
theorem fold_zero_width (lo v : ℝ) (fuel : ℕ) : fold lo lo v fuel = some (lo, 0) := by
  simp [fold, feq]

/-- in-domain values are not moved -/
theorem fold_id_on_domain (lo hi v : ℝ) (hw : lo < hi) (h1 : lo ≤ v) (h2 : v ≤ hi) (fuel : ℕ) (hf : 1 ≤ fuel) :
    fold lo hi v fuel = some (v, 0) := by
  unfold fold
  rw [feq_false_of_lt hw]
  simp only [Bool.false_eq_true, if_false]
  have hp : foldPre lo hi v = v := by
    unfold foldPre
    have a1 : ¬ v < lo - 2 * (hi - lo) := by linarith
    have a2 : ¬ hi + 2 * (hi - lo) < v := by linarith
    simp [a1, a2]
  rw [hp]
  obtain ⟨f, rfl⟩ : ∃ f, fuel = f + 1 := ⟨fuel - 1, by omega⟩
  unfold foldLoop
  simp [not_lt.mpr h1, not_lt.mpr h2]

/-- non-vacuity: 7.5 folded into [0, 2] is 0.5 (more than two widths above: 0 + 7.5 % 4 = 3.5, reflected at 2) -/
example : fold (0 : ℝ) 2 (15 / 2) 64 = some (1 / 2, 1) := by
  have hm : RangeOps.fmod ((15 : ℝ) / 2) 4 = 7 / 2 := by
    rw [fmod_real]
    have : ⌊((15 : ℝ) / 2) / 4⌋ = 1 := by
      rw [Int.floor_eq_iff]; norm_num
    rw [this]; norm_num
  have hp : foldPre (0 : ℝ) 2 (15 / 2) = 7 / 2 := by
    unfold foldPre
    norm_num [hm]
  unfold fold
  rw [feq_false_of_lt (by norm_num), hp]
  norm_num [foldLoop]

/-! ### Laplace family (ℝ) -/

theorem laplaceTruncated_in_bounds (lo hi v sc u1 u2 u3 u4 : ℝ) (h : lo ≤ hi) :
    lo ≤ laplaceTruncated lo hi v sc u1 u2 u3 u4 ∧ laplaceTruncated lo hi v sc u1 u2 u3 u4 ≤ hi :=
  truncate_in lo hi _ h

theorem laplaceFolded_in_bounds (lo hi v sc u1 u2 u3 u4 : ℝ) (h : lo ≤ hi) :
    ∃ r k, laplaceFolded lo hi v sc u1 u2 u3 u4 = some (r, k) ∧ k ≤ 2 ∧ lo ≤ r ∧ r ≤ hi :=
  fold_in_bounds lo hi _ h 64 (by omega)

/-- whatever the rejection loop returns lies in `[lower, upper]` -/
theorem rejection_returns_in_range (lo hi v sc : ℝ) : ∀ (fuel s : ℕ) (us : List ℝ) (used : ℕ) (r : ℝ) (n : ℕ),
    rejectLoop lo hi v sc fuel s us used = some (r, n) → lo ≤ r ∧ r ≤ hi
  | 0, _, _, _, _, _, h => by simp [rejectLoop] at h
  | fuel + 1, s, us, used, r, n, h => by
    unfold rejectLoop at h
    split at h
    · cases h
    · split at h
      · rename_i r' hr'
        simp only [Option.some.injEq, Prod.mk.injEq] at h
        obtain ⟨rfl, _⟩ := h
        obtain ⟨_, _, _, _, hb⟩ := firstAccepted_spec lo hi _ _ hr'
        exact hb
      · exact rejection_returns_in_range lo hi v sc fuel _ _ _ r n h

/-- and the loop does return as soon as a batch contains an in-range draw (here: the first batch) -/
theorem rejection_returns_if_first_batch_hits (lo hi v sc : ℝ) (fuel s : ℕ) (us : List ℝ) (used : ℕ)
    (hlen : 4 * s ≤ us.length)
    (hit : ∃ x ∈ batchNoisy v sc (us.take (4 * s)) s, lo ≤ x ∧ x ≤ hi) :
    ∃ r, rejectLoop lo hi v sc (fuel + 1) s us used = some (r, used + 4 * s) := by
  obtain ⟨r, hr⟩ := firstAccepted_some lo hi _ hit
  refine ⟨r, ?_⟩
  unfold rejectLoop
  rw [if_neg (by omega), hr]

/-- `LaplaceBoundedDomain.randomise`: every returned value is in the domain (single-point shortcut included) -/
theorem boundedDomain_in_bounds (lo hi v sc : ℝ) (us : List ℝ) (fuel : ℕ) (r : ℝ) (n : ℕ) (h : lo ≤ hi)
    (hr : laplaceBoundedDomain lo hi v sc us fuel = some (r, n)) : lo ≤ r ∧ r ≤ hi := by
  unfold laplaceBoundedDomain at hr
  simp only [le_refl, decide_true, Bool.not_true, Bool.false_eq_true, if_false] at hr
  split at hr
  · simp only [Option.some.injEq, Prod.mk.injEq] at hr
    obtain ⟨rfl, _⟩ := hr
    exact bdClamp_in lo hi v h
  · exact rejection_returns_in_range lo hi _ sc fuel 1 us 0 r n hr

/-- single-point domain: the point is returned without drawing (regression: the loop never accepted) -/
theorem boundedDomain_zero_width (lo v sc : ℝ) (us : List ℝ) (fuel : ℕ) :
    laplaceBoundedDomain lo lo v sc us fuel = some (lo, 0) := by
  have hc := bdClamp_in lo lo v (le_refl _)
  have : bdClamp lo lo v = lo := le_antisymm hc.2 hc.1
  unfold laplaceBoundedDomain
  simp [this, feq]

/-! ### degenerate parameters: the output is the input mapped into the domain -/

/-- sensitivity 0 gives scale 0 (so does ε = ∞ in IEEE arithmetic: `sens / inf = 0`; checked on the code) -/
theorem laplaceScale_sens0 (eps delta : ℝ) : laplaceScale eps delta 0 = 0 := by simp [laplaceScale]

theorem laplaceNoisy_scale0 (v u1 u2 u3 u4 : ℝ) : laplaceNoisy v 0 u1 u2 u3 u4 = v := by simp [laplaceNoisy]

theorem degenerate_identity_truncated (lo hi v u1 u2 u3 u4 : ℝ) :
    laplaceTruncated lo hi v 0 u1 u2 u3 u4 = truncate lo hi v := by
  simp [laplaceTruncated, laplaceNoisy_scale0]

theorem degenerate_identity_folded (lo hi v u1 u2 u3 u4 : ℝ) :
    laplaceFolded lo hi v 0 u1 u2 u3 u4 = fold lo hi v := by
  simp [laplaceFolded, laplaceNoisy_scale0]

theorem degenerate_identity_boundedDomain (lo hi v : ℝ) (hw : lo < hi) (us : List ℝ) (hlen : 4 ≤ us.length)
    (fuel : ℕ) : laplaceBoundedDomain lo hi v 0 us (fuel + 1) = some (bdClamp lo hi v, 4) := by
  have hc := bdClamp_in lo hi v hw.le
  unfold laplaceBoundedDomain
  simp only [le_refl, decide_true, Bool.not_true, Bool.false_eq_true, if_false, feq_false_of_lt hw]
  unfold rejectLoop
  rw [if_neg (by omega)]
  have hb : batchNoisy (bdClamp lo hi v) 0 (List.take (4 * 1) us) 1 = [bdClamp lo hi v] := by
    simp [batchNoisy, List.range_succ]
  rw [hb]
  simp [firstAccepted, hc.1, hc.2]

/-- geometric family: scale `-inf` (sensitivity 0 or ε = ∞) adds no noise -/
theorem geomScale_sens0 (eps : ℝ) : geomScale eps 0 = none := by simp [geomScale]

theorem degenerate_identity_geometric (v : ℤ) (us : List ℝ) (c : ℝ) (rest : List ℝ)
    (h : geomDraw us = some (c, rest)) : geometric none v us = some v := by
  simp [geometric, h, geomNoise]

/-- Snapping with sensitivity 0 truncates the value to `[lower, upper]` (regression: it used the centred frame) -/
theorem degenerate_identity_snapping (eps lo hi v : ℝ) (bit : Bool) (u : ℝ) :
    snapping eps 0 lo hi v bit u = truncate lo hi v := by
  simp [snapping, feq]

/-! ### geometric family: integer outputs in range -/

/-- `GeometricTruncated.randomise` returns a Python int inside the bounds -/
theorem geom_int (lo hi : ℤ) (h : lo ≤ hi) (scale : Option ℝ) (v : ℤ) (us : List ℝ) (res : Except RErr Int)
    (hr : geometricTruncated (lo : ℝ) (hi : ℝ) scale v us = some res) :
    ∃ m : ℤ, res = .ok m ∧ lo ≤ m ∧ m ≤ hi := by
  unfold geometricTruncated at hr
  split at hr
  · cases hr
  · rename_i n _
    simp only [Option.some.injEq] at hr
    subst hr
    refine ⟨truncate lo hi n, ?_, truncate_in lo hi n h⟩
    show intRound (truncate (lo : ℝ) (hi : ℝ) ((n : ℤ) : ℝ)) = _
    rw [truncate_intCast, intRound_int]

/-- `GeometricFolded.randomise` with integer or half-integer bounds (`lower < upper`): the folded value is an
integer, rounding does not move it, and it lies inside the bounds -/
theorem geomFolded_int_in_range (lo hi : ℝ) (hw : lo < hi) (hl : IsInt (2 * lo)) (hh : IsInt (2 * hi))
    (scale : Option ℝ) (v : ℤ) (us : List ℝ) (res : Except RErr Int)
    (hr : geometricFolded lo hi scale v us = some res) :
    ∃ m : ℤ, res = .ok m ∧ lo ≤ m ∧ (m : ℝ) ≤ hi := by
  unfold geometricFolded at hr
  split at hr
  · cases hr
  · rename_i n _
    obtain ⟨r, k, hf, _, hb1, hb2⟩ := fold_in_bounds lo hi ((n : ℤ) : ℝ) hw.le 64 (by omega)
    have hf' : fold lo hi (IntCast.intCast n) 64 = some (r, k) := hf
    rw [hf'] at hr
    simp only [Option.some.injEq] at hr
    subst hr
    have hint : IsInt r := by
      unfold fold at hf
      rw [feq_false_of_lt hw] at hf
      simp only [Bool.false_eq_true, if_false] at hf
      exact foldLoop_int lo hi hl hh 64 _ r k (foldPre_int lo hi _ hl hh ⟨n, rfl⟩) hf
    obtain ⟨m, rfl⟩ := hint
    exact ⟨m, intRound_int m, hb1, hb2⟩

/-! ### Snapping -/

/-- the value returned by `Snapping.randomise` lies in `[lower, upper]` (final truncation in the caller's frame) -/
theorem snapping_in_bounds (eps sens lo hi v : ℝ) (bit : Bool) (u : ℝ) (h : lo ≤ hi) :
    lo ≤ snapping eps sens lo hi v bit u ∧ snapping eps sens lo hi v bit u ≤ hi := by
  unfold snapping
  split
  · exact truncate_in lo hi v h
  · exact truncate_in lo hi _ h

/-- over ℝ that final truncation is the identity: scaling a value of `[-B, B]` back lands in `[lower, upper]`
(after double rounding it need not — regression witness `C12:snapping:above-upper`) -/
theorem snapping_reverse_in_bounds (sens lo hi x : ℝ) (hs : 0 < sens) (h : lo ≤ hi) :
    lo ≤ snapReverse (snapTrunc (snapBound lo hi sens) x) (snapBound lo hi sens) sens lo ∧
    snapReverse (snapTrunc (snapBound lo hi sens) x) (snapBound lo hi sens) sens lo ≤ hi := by
  have hb : snapBound lo hi sens = (hi - lo) / 2 / sens := by
    unfold snapBound feq
    simp [not_le.mpr hs]
  rw [hb]
  set b := (hi - lo) / 2 / sens with hbdef
  have hb0 : 0 ≤ b := by rw [hbdef]; positivity
  have hbs : b * sens = (hi - lo) / 2 := by rw [hbdef]; field_simp
  have ht : -b ≤ snapTrunc b x ∧ snapTrunc b x ≤ b := by
    unfold snapTrunc
    by_cases h1 : b < x
    · simp only [h1, if_true]; constructor <;> linarith
    · by_cases h2 : x < -b
      · simp only [h1, h2, if_true, if_false]; constructor <;> linarith
      · simp only [h1, h2, if_false]; exact ⟨not_lt.mp h2, not_lt.mp h1⟩
  unfold snapReverse
  constructor
  · have : 0 ≤ (snapTrunc b x + b) * sens := mul_nonneg (by linarith [ht.1]) hs.le
    linarith
  · have : (snapTrunc b x + b) * sens ≤ (b + b) * sens := mul_le_mul_of_nonneg_right (by linarith [ht.2]) hs.le
    nlinarith

/-! ### Bingham: the returned vector is `v / ‖v‖` -/

theorem bingham_unit_norm (v : List ℝ) (h : rowNorm v ≠ 0) : rowNorm (v.map (fun x => x / rowNorm v)) = 1 := by
  have hpos : 0 < rowNorm v := lt_of_le_of_ne (rowNorm_nonneg v) (Ne.symm h)
  rw [rowNorm_map_div v _ hpos, div_self h]

/-! ### further: the redraw loop returns; composed degenerate identity; strict selection -/

/-- the redraw loop of `Geometric.randomise` stops at the first uniform that is not exactly ½ -/
theorem geomDraw_returns : ∀ (us : List ℝ), (∃ u ∈ us, u - 1 / 2 ≠ 0) → ∃ c rest, geomDraw us = some (c, rest) ∧ c ≠ 0
  | [], h => by obtain ⟨u, hu, _⟩ := h; cases hu
  | u :: us, h => by
    unfold geomDraw
    by_cases hc : u - 1 / 2 = 0
    · have : feq (u - 1 / 2) 0 = true := (feq_iff _ _).mpr hc
      simp only [this, if_true]
      apply geomDraw_returns us
      obtain ⟨x, hx, hne⟩ := h
      rcases List.mem_cons.mp hx with rfl | hx'
      · exact absurd hc hne
      · exact ⟨x, hx', hne⟩
    · have : feq (u - 1 / 2) 0 = false := by
        rw [Bool.eq_false_iff]
        intro hf
        exact hc ((feq_iff _ _).mp hf)
      simp only [this]
      exact ⟨_, _, rfl, hc⟩

theorem degenerate_identity_geomTruncated (lo hi v : ℤ) (us : List ℝ) (c : ℝ) (rest : List ℝ)
    (h : geomDraw us = some (c, rest)) :
    geometricTruncated (lo : ℝ) (hi : ℝ) none v us = some (.ok (truncate lo hi v)) := by
  unfold geometricTruncated
  rw [degenerate_identity_geometric v us c rest h]
  show some (intRound (truncate (lo : ℝ) (hi : ℝ) ((v : ℤ) : ℝ))) = _
  rw [truncate_intCast, intRound_int]

/-- the candidate `Exponential.randomise` selects has cumulative probability strictly above the uniform: a candidate
of probability 0 is never returned, not even for the uniform 0.0 (regression: `<=` selected it) -/
theorem select_strict {α : Type} [LinearOrder α] (cum : List α) (u : α) (i : Nat)
    (h : expSelect cum u false = .ok i) : ∃ p, cum[i]? = some p ∧ u < p := by
  unfold expSelect at h
  split at h
  · rename_i j hj
    cases h
    simpa using firstLe_strict u cum 0 i hj
  · simp at h

/-! ### the Bernoulli(exp(-γ)) coin of PermuteAndFlip: an OPEN finding of the code, as a theorem about the faithful model

`bernoulli_neg_exp` tests `rng.random() <= gamma / counter`.  For `γ = 0` the coin is certain (`exp(-0) = 1`), and it does
come up 1 for every stream whose first uniform is positive — but the uniform 0.0 passes `0 <= 0 / 1`, the counter becomes
2 and the coin comes up 0.  In `PermuteAndFlip` the certain (top-utility) candidate is then discarded; with a single
candidate nothing is left and `randomise` raises RuntimeError (known finding
`C12:bernoulli_neg_exp:zero-uniform-at-certain-coin`). -/

/-- the full statement (false for the code as it is): the certain coin comes up 1 on every non-empty stream -/
def certain_coin_full : Prop := ∀ (u : ℝ) (us : List ℝ), 0 ≤ u → bernoulliNegExp 0 (u :: us) = some (true, us)

/-- proved part: for a POSITIVE first uniform the certain coin comes up 1 (and consumes exactly one draw) -/
theorem certain_coin_partial (u : ℝ) (us : List ℝ) (h : 0 < u) : bernoulliNegExp 0 (u :: us) = some (true, us) := by
  rw [bern_le_one 0 _ (by norm_num)]
  simp [coinLoop, not_le.mpr h]

/-- the counter-example: on the stream `[0, 7/10]` the certain coin comes up 0 -/
theorem certain_coin_zero_uniform_cex : bernoulliNegExp (0 : ℝ) [0, 7 / 10] = some (false, []) := by
  rw [bern_le_one 0 _ (by norm_num)]
  norm_num [coinLoop]

theorem certain_coin_full_false : ¬ certain_coin_full := by
  intro h
  have := h 0 [7 / 10] (le_refl _)
  rw [certain_coin_zero_uniform_cex] at this
  simp at this

/-- and PermuteAndFlip with one candidate whose coin came up 0 has nothing to return (`RuntimeError`) -/
theorem paf_zero_uniform_cex : pfLoop [0] [(0, false)] = none := by decide

end DPL.C12
