/-
C10 — out-of-domain records have no more influence than their clipped image.

Part 1 (★ carrier-independent: any linear order, hence also the non-NaN doubles): `clip_to_bounds` as coded
— exact-equality fast path + per-feature loop — stays in the bounds, is the identity on the domain, is idempotent,
and the fast path computes exactly what the per-feature loop would.
Part 2 (ℝ): `clip_to_norm` brings every row to norm ≤ c, is the identity on rows of norm ≤ c, is idempotent.
Part 3: every computation that starts with the clip cannot distinguish a dataset from its clipped image.
-/
import DPL.Model.Clip
import DPL.Proofs.ClipLemmas
import DPL.Proofs.ClipIR

namespace DPL.C10
open DPL DPL.ClipL

section order
variable {α : Type} [LinearOrder α]

/-! ### one entry (`np.clip`) -/

/-- ★ `lower ≤ np.clip(x, lower, upper) ≤ upper` -/
theorem clip_in_bounds (lo hi x : α) (h : lo ≤ hi) : lo ≤ clip1 lo hi x ∧ clip1 lo hi x ≤ hi :=
  clip1_in_bounds lo hi x h

/-- ★ identity on the domain -/
theorem clip_id_on_domain (lo hi x : α) (h1 : lo ≤ x) (h2 : x ≤ hi) : clip1 lo hi x = x :=
  clip1_id lo hi x h1 h2

/-- ★ idempotent -/
theorem clip_idem (lo hi x : α) (h : lo ≤ hi) : clip1 lo hi (clip1 lo hi x) = clip1 lo hi x :=
  clip1_idem lo hi x h

example : clip1 (0 : Int) 10 15 = 10 ∧ clip1 (0 : Int) 10 (-3) = 0 ∧ clip1 (0 : Int) 10 7 = 7 := by decide

/-! ### the whole function as coded (fast path + per-feature path) -/

/-- ★ the exact-equality fast path is sound: whenever it is taken, the per-feature loop would have produced the
same row (all lower bounds ARE `lo`, all upper bounds ARE `hi`). -/
theorem fastpath_eq_perfeature (lower upper row : List α) (lo hi : α)
    (hfp : fastPath lower upper = some (lo, hi)) (hlen : lower.length = upper.length)
    (hrow : row.length = lower.length) :
    clipRow lower upper row = .ok (row.map (clip1 lo hi)) :=
  clipRow_const lower upper row lo hi (fastPath_some hfp).1 (fastPath_some hfp).2 hrow hlen

/-- ★ `clip_to_bounds` keeps the shape and every output row lies in the domain the bounds describe
(`InDomain`: per-feature bounds when they differ, the common scalar pair when they are all equal). -/
theorem clipToBounds_in_bounds (rows out : List (List α)) (lower upper : List α)
    (h : clipToBounds rows lower upper = .ok out) :
    List.Forall₂ (fun r o => InDomain lower upper o ∧ o.length = r.length) rows out := by
  unfold clipToBounds at h
  split at h
  · cases h
  · rename_i hc
    split at h
    · rename_i lo hi hfp
      cases h
      have hle := fastPath_le hfp hc
      rw [List.forall₂_map_right_iff]
      refine List.forall₂_same.mpr ?_
      intro r _
      refine ⟨?_, by simp⟩
      unfold InDomain
      rw [hfp]
      intro x hx
      obtain ⟨y, _, rfl⟩ := List.mem_map.mp hx
      exact clip1_in_bounds lo hi y hle
    · rename_i hfp
      have hf := ((checkBounds_ok _ _).mp hc).2
      have := clipRows_in lower upper hf rows out h
      refine this.imp ?_
      intro r o ho
      refine ⟨?_, ho.2⟩
      unfold InDomain
      rw [hfp]
      exact ho.1

/-- ★ in-domain data is returned unchanged -/
theorem clipToBounds_id_on_domain (rows : List (List α)) (lower upper : List α)
    (hc : checkBounds lower upper = .ok ()) (hin : ∀ r ∈ rows, InDomain lower upper r) :
    clipToBounds rows lower upper = .ok rows := by
  unfold clipToBounds
  rw [hc]
  simp only
  split
  · rename_i lo hi hfp
    congr 1
    apply map_eq_self
    intro r hr
    have := hin r hr
    unfold InDomain at this
    rw [hfp] at this
    simp only at this
    apply map_eq_self
    intro x hx
    exact clip1_id lo hi x (this x hx).1 (this x hx).2
  · rename_i hfp
    apply clipRows_id
    intro r hr
    have := hin r hr
    unfold InDomain at this
    rw [hfp] at this
    exact this

/-- ★ `clip_to_bounds` is idempotent -/
theorem clipToBounds_idem (rows out : List (List α)) (lower upper : List α)
    (h : clipToBounds rows lower upper = .ok out) : clipToBounds out lower upper = .ok out := by
  have hc : checkBounds lower upper = .ok () := by
    unfold clipToBounds at h
    split at h
    · cases h
    · assumption
  apply clipToBounds_id_on_domain out lower upper hc
  intro o ho
  have hf := clipToBounds_in_bounds rows out lower upper h
  obtain ⟨r, _, hro⟩ := forall₂_exists_left hf o ho  -- some input row corresponds to `o`
  exact hro.1

/-- non-vacuity, and the regression witness of the repaired `np.allclose` fast path: with the NEARLY equal lower
bounds `[0, 10⁻⁹]` the fast path is not taken and the second column is clipped to its own bound. -/
example : clipToBounds [[(0 : Rat), 0]] [0, 1 / 1000000000] [1, 1] = .ok [[0, 1 / 1000000000]] := by decide +kernel

example : clipToBounds [[(5 : Int), -7, 3]] [0] [1] = .ok [[1, 0, 1]] := by decide

/-- the 1-dimensional entry point used by every tool (scalar bounds only) has the same three properties -/
theorem clipToBounds1_in_bounds (xs out lower upper : List α) (h : clipToBounds1 xs lower upper = .ok out) :
    ∃ lo hi, fastPath lower upper = some (lo, hi) ∧ out.length = xs.length ∧ ∀ x ∈ out, lo ≤ x ∧ x ≤ hi := by
  unfold clipToBounds1 at h
  split at h
  · cases h
  · rename_i hc
    split at h
    · rename_i lo hi hfp
      cases h
      refine ⟨lo, hi, hfp, by simp, ?_⟩
      intro x hx
      obtain ⟨y, _, rfl⟩ := List.mem_map.mp hx
      exact clip1_in_bounds lo hi y (fastPath_le hfp hc)
    · cases h

theorem clipToBounds1_idem (xs out lower upper : List α) (h : clipToBounds1 xs lower upper = .ok out) :
    clipToBounds1 out lower upper = .ok out := by
  obtain ⟨lo, hi, hfp, _, hin⟩ := clipToBounds1_in_bounds xs out lower upper h
  unfold clipToBounds1 at h ⊢
  split at h
  · cases h
  · rename_i hc
    simp only [hfp]
    congr 1
    apply map_eq_self
    intro x hx
    exact clip1_id lo hi x (hin x hx).1 (hin x hx).2

end order

/-! ### norm clipping (ℝ) -/

/-- `‖clip_to_norm(x, c)‖ ≤ c` for every row -/
theorem clip_norm_le (rows out : List (List ℝ)) (c : ℝ) (h : clipToNorm rows c = .ok out) :
    ∀ o ∈ out, rowNorm o ≤ c := by
  unfold clipToNorm at h
  split at h
  · cases h
  · rename_i hc
    cases h
    intro o ho
    obtain ⟨r, _, rfl⟩ := List.mem_map.mp ho
    exact clipRowNorm_le c (not_le.mp hc) r

/-- rows of norm at most `c` are returned unchanged -/
theorem clip_norm_id (rows : List (List ℝ)) (c : ℝ) (hc : 0 < c) (h : ∀ r ∈ rows, rowNorm r ≤ c) :
    clipToNorm rows c = .ok rows := by
  unfold clipToNorm
  rw [if_neg (not_le.mpr hc)]
  congr 1
  apply map_eq_self
  intro r hr
  exact clipRowNorm_id c hc r (h r hr)

/-- `clip_to_norm` is idempotent -/
theorem clip_norm_idem (rows out : List (List ℝ)) (c : ℝ) (h : clipToNorm rows c = .ok out) :
    clipToNorm out c = .ok out := by
  have hc : 0 < c := by
    unfold clipToNorm at h
    split at h
    · cases h
    · rename_i hc; exact not_le.mp hc
  exact clip_norm_id out c hc (clip_norm_le rows out c h)

/-- non-vacuity: the row (3, 4) has norm 5 and is rescaled to norm 1 -/
example : rowNorm (clipRowNorm 1 [(3 : ℝ), 4]) ≤ 1 := clipRowNorm_le 1 one_pos _

/-! ### plan level: a computation that starts with the clip sees only the clipped image -/

/-- Every tool / estimator whose first step on the data is the clip has the form `g ∘ clip`
(the correspondence check compares exactly this on the implementation).  For such a computation the dataset and its
clipped image give the same result — out-of-domain records influence the release exactly as their clipped images. -/
theorem plan_clip_invariant {α β : Type} [LinearOrder α] (g : List (List α) → β)
    (D D' : List (List α)) (lower upper : List α) (h : clipToBounds D lower upper = .ok D') :
    (clipToBounds D lower upper).map g = (clipToBounds D' lower upper).map g := by
  rw [clipToBounds_idem D D' lower upper h, h]

theorem plan_clip_invariant_norm {β : Type} (g : List (List ℝ) → β)
    (D D' : List (List ℝ)) (c : ℝ) (h : clipToNorm D c = .ok D') :
    (clipToNorm D c).map g = (clipToNorm D' c).map g := by
  rw [clip_norm_idem D D' c h, h]

/-! ### static tie: "clipped before use" skeletons generated from the sources (`DPL/Generated/C10Clips.lean`) -/

section static
open DPL.ClipIR

/-- What a decided obligation `clippedBeforeUse n data sk = true` of `DPL/Generated/C10Clips.lean` means.  For EVERY
interpretation `S` of the operations of the skeleton in which the clip with the declared bounds is idempotent
(`clipToBounds_idem`, `clip_norm_idem` above), re-arrangements commute with it, and the clip-invariant views (shape,
dtype, NaN pattern) and the obligated callees do not distinguish an array from its clipped image: running the skeleton
with the data variables bound to D and to clip(D) gives the same observations — the same inputs to every mechanism, the
same released attributes, the same returned value, in the same order — takes the same branches and leaves the function
at the same point. -/
theorem static_clip_sound {V : Type} (S : Sem V) (hS : Lawful S) (n : Nat) (data : List Nat) (sk : Sk)
    (h : clippedBeforeUse n data sk = true) (fuel : Nat) (env : Nat → V) :
    (run S fuel sk ⟨env, [], false⟩).obs = (run S fuel sk ⟨clipData S data env, [], false⟩).obs ∧
    (run S fuel sk ⟨env, [], false⟩).done = (run S fuel sk ⟨clipData S data env, [], false⟩).done := by
  unfold clippedBeforeUse at h
  obtain ⟨r, hr⟩ := Option.isSome_iff_exists.mp h
  have := exec_sound S hS fuel sk (initAS n data) r ⟨env, [], false⟩ ⟨clipData S data env, [], false⟩ hr
    ⟨rfl, rfl, rfl, R_init S n data env⟩
  exact ⟨this.1, this.2.1⟩

/-- the hypotheses on the interpretation are satisfiable by the model of `clip_to_bounds` itself: values = 1-d arrays,
clip = `clip1 0 10` entrywise (idempotent by `clip_idem`), re-arrangement = reversal, view = the length -/
example : Lawful (V := List Int)
    { clipB := fun b v => if b = 0 then v.map (clip1 0 10) else v, sh := fun _ _ v => v.reverse,
      view := fun _ v => [(v.length : Int)], op := fun _ vs => vs.flatten, cond := fun _ vs => vs.flatten.sum > 0 } where
  idem v := by simp [clip_idem (0 : Int) 10 _ (by decide)]
  sh_clip _ _ v := by simp [List.map_reverse]
  view_clip _ v _ := by simp

/-- non-vacuity (accepted): `a = clip(ravel(a), bounds); m = mean(a); use mech m; return` — the shape of `_mean` -/
example : clippedBeforeUse 3 [0] (Sk.block [.atom (.reshape 1 0 0 []), .atom (.clip 0 1 0), .atom (.assign 2 0 [(0, .val)]),
    .atom (.use .mech 0 [(2, .val), (0, .inv 0)]), .atom (.ret [(2, .val)])]) = true := by decide +kernel

/-- non-vacuity (refused): the statistic is computed BEFORE the clip line -/
example : clippedBeforeUse 3 [0] (Sk.block [.atom (.assign 2 0 [(0, .val)]), .atom (.clip 0 0 0),
    .atom (.use .mech 0 [(2, .val)]), .atom (.ret [(2, .val)])]) = false := by decide +kernel

/-- refused: clipped with other bounds than the declared ones; refused: the clip sits in one arm of a branch only
(`fit_intercept=False` skips it); accepted: raw data handed to a callee with its own obligation -/
example : clippedBeforeUse 2 [0] (Sk.block [.atom (.clip 0 0 7), .atom (.ret [(0, .val)])]) = false := by decide +kernel
example : clippedBeforeUse 2 [0] (Sk.block [.branch 0 [(1, .val)] (.atom (.clip 0 0 0)) .skip,
    .atom (.ret [(0, .val)])]) = false := by decide +kernel
example : clippedBeforeUse 2 [0] (Sk.block [.atom (.assign 1 0 [(0, .deleg 3)]), .atom (.ret [(1, .val)])]) = true := by
  decide +kernel

end static

end DPL.C10
