/-
C08 — models: summed per-record privacy loss stays within the declared epsilon.

The plans are the executable definitions of `DPL/Model/PlanModels.lean` (tied to /repo by the trace correspondence of
`harness/props/c08.py`); the theorems are over ℝ.  `model_privloss` per estimator: for EVERY dataset, EVERY
single-record replacement (features and/or label/targets), EVERY sequence of forced mechanism outputs (complete run,
probes — the occupancy pattern — agreeing): the configured calls coincide, every input moves by at most its configured
sensitivity (`dispOk`), and `privLoss = Σ εᵢ·dᵢ/sensᵢ ≤ ε` (≤ 2ε when the record changes label/cluster/leaf group).
Proved outright (no hypothesis beyond the shape): GaussianNB, KMeans, LinearRegression, StandardScaler (the list-level
variance sensitivity is C07's `var_sens`, transported by `column_var_sens`), RandomForest/DecisionTree (PermuteAndFlip
has a VECTOR input — the class counts of a leaf; `forest_model_privloss` is stated in the vector-input extension of
the calculus, `DPL/Model/PrivLossVec.lean`: the packed input is decoded and measured with the mechanism's own
convention, (max increase + max decrease)/sensitivity), LogisticRegression's split.
Cited, as explicit hypotheses (never axioms): the eigenvalue perturbation bound and the Bingham input bound (PCA).
Adaptive composition (turning the bounded loss into ε-DP of `fit`): last section, `plan_dp_of_lossLe`, `scaler_fit_dp`.
-/
import DPL.Proofs.ModelsLoss2
import DPL.Proofs.ModelsFree
import DPL.Proofs.ModelsScaler
import DPL.Proofs.ModelsForest
import DPL.Proofs.ModelsCompose3
import DPL.Proofs.ModelsCompose4
import DPL.Proofs.ModelsCompose7
import DPL.Proofs.ModelsCompose8

namespace DPL.C08
open DPL DPL.PM

/-- the calculus is sound for `Plan.run`: a plan with `lossLe … B` has, on every complete forced run with agreeing
probes, equal call configurations, all relative displacements ≤ 1 and privacy-loss sum ≤ B -/
theorem privloss_of_lossLe {δ ρ : Type} (p : Plan δ ℝ ρ) (D D' : δ) (B : ℝ) (h : lossLe D D' p B) (outs : List ℝ)
    (hprobe : (p.run D outs).probes = (p.run D' outs).probes) (hfull : (p.run D outs).release ≠ none) :
    (p.run D outs).calls = (p.run D' outs).calls ∧
    dispOk (p.run D outs).calls (p.run D outs).inputs (p.run D' outs).inputs = true ∧
    privLoss (p.run D outs).calls (p.run D outs).inputs (p.run D' outs).inputs ≤ B :=
  lossLe_run D D' p B h outs hprobe hfull

/-! ### model_privloss per estimator -/

/-- GaussianNB (ε/3 counts; per feature ε/(3d) class sum with sensitivity max(|l|,|u|,u-l) and ε/(3d) squared
deviations with sensitivity max(μ̃-l,u-μ̃)²): ≤ ε, ≤ 2ε when the label changes -/
theorem gnb_model_privloss (p : GnbParams ℝ) (hε : 0 ≤ p.eps) (hd : 0 < p.d) (hb : ∀ j, nth p.lo j ≤ nth p.hi j)
    (pre post : DS ℝ) (r r' : Rec ℝ) (outs : List ℝ)
    (hprobe : ((gnbPlan p).run (pre ++ r :: post) outs).probes = ((gnbPlan p).run (pre ++ r' :: post) outs).probes)
    (hfull : ((gnbPlan p).run (pre ++ r :: post) outs).release ≠ none) :
    let t := (gnbPlan p).run (pre ++ r :: post) outs
    let t' := (gnbPlan p).run (pre ++ r' :: post) outs
    t.calls = t'.calls ∧ dispOk t.calls t.inputs t'.inputs = true ∧
      privLoss t.calls t.inputs t'.inputs ≤ (if r.y = r'.y then 1 else 2) * p.eps :=
  lossLe_run _ _ _ _ (gnb_privloss p hε hd hb pre post r r') outs hprobe hfull

/-- KMeans with `_calc_iters` and `_split_epsilon` as coded: ≤ 2ε (a record touches ≤ 2 clusters per iteration) -/
theorem kmeans_model_privloss (p : KmParams ℝ) (hε : 0 ≤ p.eps) (hd : 0 < p.d) (hb : ∀ j, nth p.lo j ≤ nth p.hi j)
    (pre post : DS ℝ) (r r' : Rec ℝ) (outs : List ℝ)
    (hprobe : ((kmPlan p).run (pre ++ r :: post) outs).probes = ((kmPlan p).run (pre ++ r' :: post) outs).probes)
    (hfull : ((kmPlan p).run (pre ++ r :: post) outs).release ≠ none) :
    let t := (kmPlan p).run (pre ++ r :: post) outs
    let t' := (kmPlan p).run (pre ++ r' :: post) outs
    t.calls = t'.calls ∧ dispOk t.calls t.inputs t'.inputs = true ∧ privLoss t.calls t.inputs t'.inputs ≤ 2 * p.eps :=
  lossLe_run _ _ _ _ (kmeans_privloss p hε hd hb pre post r r') outs hprobe hfull

/-- … and ≤ ε when the replaced record stays in its cluster whatever the noisy centres are -/
theorem kmeans_model_privloss_stay (p : KmParams ℝ) (hε : 0 ≤ p.eps) (hd : 0 < p.d)
    (hb : ∀ j, nth p.lo j ≤ nth p.hi j) (pre post : DS ℝ) (r r' : Rec ℝ)
    (hsame : ∀ cs, assign p.lo p.hi cs r = assign p.lo p.hi cs r') (outs : List ℝ)
    (hprobe : ((kmPlan p).run (pre ++ r :: post) outs).probes = ((kmPlan p).run (pre ++ r' :: post) outs).probes)
    (hfull : ((kmPlan p).run (pre ++ r :: post) outs).release ≠ none) :
    let t := (kmPlan p).run (pre ++ r :: post) outs
    let t' := (kmPlan p).run (pre ++ r' :: post) outs
    t.calls = t'.calls ∧ dispOk t.calls t.inputs t'.inputs = true ∧ privLoss t.calls t.inputs t'.inputs ≤ p.eps :=
  lossLe_run _ _ _ _ (kmeans_privloss_stay p hε hd hb pre post r r' hsame) outs hprobe hfull

/-- LinearRegression (intercept share ε/(d+1) halved between mean(X) and mean(y); remainder over
t + t·d + d(d+1)/2 coefficients with squared-bound / corner-product sensitivities on the shifted bounds), with and
without intercept, single- and multi-target: ≤ ε -/
theorem linreg_model_privloss (p : LinParams ℝ) (hε : 0 ≤ p.eps) (hd : 0 < p.d) (ht : 0 < p.t)
    (hb : ∀ j, nth p.lo j ≤ nth p.hi j) (hby : ∀ i, nth p.ylo i ≤ nth p.yhi i) (h1d : p.y1d = true → p.t = 1)
    (pre post : DS ℝ) (r r' : Rec ℝ) (hn : p.n = pre.length + 1 + post.length) (outs : List ℝ)
    (hfull : ((linPlan p).run (pre ++ r :: post) outs).release ≠ none) :
    let t := (linPlan p).run (pre ++ r :: post) outs
    let t' := (linPlan p).run (pre ++ r' :: post) outs
    t.calls = t'.calls ∧ dispOk t.calls t.inputs t'.inputs = true ∧ privLoss t.calls t.inputs t'.inputs ≤ p.eps := by
  have hl := linreg_privloss p hε hd ht hb hby h1d pre post r r' hn
  -- the plan has no probe (see C06): both probe lists are empty
  have hp : ((linPlan p).run (pre ++ r :: post) outs).probes = ((linPlan p).run (pre ++ r' :: post) outs).probes := by
    have h := linPlan_probeFree p
    rw [Plan.probeFree_probes _ h, Plan.probeFree_probes _ h]
  exact lossLe_run _ _ _ _ hl outs hp hfull

/-- StandardScaler (ε/2 over d column means + ε/2 over d column variances): ≤ ε.  No hypothesis beyond the shape:
the list-level variance sensitivity is `column_var_sens` below (C07's `var_sens` on the clipped column) -/
theorem scaler_model_privloss (p : ScalerParams ℝ) (hε : 0 ≤ p.eps) (hd : 0 < p.d)
    (hb : ∀ j, nth p.lo j ≤ nth p.hi j) (pre post : DS ℝ) (r r' : Rec ℝ) (hn : p.n = pre.length + 1 + post.length)
    (outs : List ℝ) (hfull : ((scalerPlan p).run (pre ++ r :: post) outs).release ≠ none) :
    let t := (scalerPlan p).run (pre ++ r :: post) outs
    let t' := (scalerPlan p).run (pre ++ r' :: post) outs
    t.calls = t'.calls ∧ dispOk t.calls t.inputs t'.inputs = true ∧ privLoss t.calls t.inputs t'.inputs ≤ p.eps := by
  have hp : ((scalerPlan p).run (pre ++ r :: post) outs).probes = ((scalerPlan p).run (pre ++ r' :: post) outs).probes := by
    have h := scalerPlan_probeFree p
    rw [Plan.probeFree_probes _ h, Plan.probeFree_probes _ h]
  exact lossLe_run _ _ _ _ (scaler_privloss_free p hε hd hb pre post r r' hn) outs hp hfull

/-- the variance input of the StandardScaler plan is the tools' `var` of the clipped column (the two transcriptions
of `np.var` and `np.clip` coincide), so C07's `var_sens` gives: one replaced record (arbitrary features, clipped
first) moves the variance of column `j` by at most the configured `((u−l)/n)²(n−1)`, for every `n ≥ 1` -/
theorem column_var_sens (lo hi : List ℝ) (j n : Nat) (hb : nth lo j ≤ nth hi j) (pre post : DS ℝ) (r r' : Rec ℝ)
    (hn : n = pre.length + 1 + post.length) :
    (∀ D : DS ℝ, varL (D.map (feat lo hi j)) =
        Tools.var ((D.map fun q => nth q.x j).map (Tools.clip (nth lo j) (nth hi j)))) ∧
    |varL ((pre ++ r :: post).map (feat lo hi j)) - varL ((pre ++ r' :: post).map (feat lo hi j))|
      ≤ ((nth hi j - nth lo j) / n) * ((nth hi j - nth lo j) / n) * ((n : ℝ) - 1) :=
  ⟨fun D => by rw [PM.feat_column, PM.varL_eq_var],
   by simpa using PM.column_var_sens lo hi j n hb pre post r r' hn⟩

/-- PCA / covariance_eig relative to the cited facts (`hEig1`, `hEigSum`: eigenvalue perturbation; `hBing`: the Bingham
input moves by at most its sensitivity): ε/2 mean (uncentred) + ε₀ = ε_c/(k+[k≠d]) eigenvalues + min(k,d−1) Bingham calls -/
theorem pca_model_privloss (p : PcaParams ℝ) (eig bing : DS ℝ → List ℝ → Nat → ℝ) (hε : 0 ≤ p.eps) (hd : 0 < p.d)
    (hk : p.k ≤ p.d) (hb : ∀ j, nth p.lo j ≤ nth p.hi j) (pre post : DS ℝ) (r r' : Rec ℝ)
    (hn : p.n = pre.length + 1 + post.length)
    (hEig1 : ∀ mean i, |eig (pre ++ r :: post) mean i - eig (pre ++ r' :: post) mean i| ≤ 2)
    (hEigSum : ∀ mean, ((List.range p.d).map fun i =>
        |eig (pre ++ r :: post) mean i - eig (pre ++ r' :: post) mean i|).sum ≤ 2)
    (hBing : ∀ mean i, |bing (pre ++ r :: post) mean i - bing (pre ++ r' :: post) mean i| ≤ 1) :
    lossLe (pre ++ r :: post) (pre ++ r' :: post) (pcaPlan p eig bing) p.eps :=
  pca_privloss p eig bing hε hd hk hb pre post r r' hn hEig1 hEigSum hBing

/-! ### RandomForest / DecisionTree: vector-valued mechanism inputs -/

/-- the vector-input calculus is sound for `Plan.run`, for any per-invocation convention (`rel` for the max-check, `wt`
for the weighted sum) -/
theorem privloss_of_lossLeW {δ ρ : Type} (rel wt : Conv) (p : Plan δ ℝ ρ) (D D' : δ) (B : ℝ)
    (h : lossLeW rel wt D D' p B) (outs : List ℝ)
    (hprobe : (p.run D outs).probes = (p.run D' outs).probes) (hfull : (p.run D outs).release ≠ none) :
    (p.run D outs).calls = (p.run D' outs).calls ∧
    dispOkW rel (p.run D outs).calls (p.run D outs).inputs (p.run D' outs).inputs = true ∧
    privLossW wt (p.run D outs).calls (p.run D outs).inputs (p.run D' outs).inputs ≤ B :=
  lossLeW_run rel wt D D' p B h outs hprobe hfull

/-- … and it is a conservative extension: with the scalar convention it IS `dispOk` / `privLoss` / `lossLe`, and the
vector convention `relDispV`/`wtDispV` differs from the scalar one only on PermuteAndFlip invocations -/
theorem vector_calculus_conservative {δ ρ : Type} :
    (∀ (cs : List (MechCall ℝ)) as bs, dispOkW relDisp cs as bs = dispOk cs as bs) ∧
    (∀ (cs : List (MechCall ℝ)) as bs, privLossW relDisp cs as bs = privLoss cs as bs) ∧
    (∀ (D D' : δ) (p : Plan δ ℝ ρ) B, lossLeW relDisp relDisp D D' p B ↔ lossLe D D' p B) ∧
    (∀ n K (c : MechCall ℝ) a b, isVec c = false →
      relDispV n K c a b = relDisp c a b ∧ wtDispV n K c a b = relDisp c a b) :=
  ⟨dispOkW_scalar, privLossW_scalar, lossLeW_scalar, relDispV_scalar⟩

/-- decoding the number the forest plan hands to PermuteAndFlip gives back the utility vector of the code,
`[np.sum(leaf_y == cls) for cls in classes]` (the packing is base `n + 1` and no count exceeds `n`) -/
theorem forest_input_decodes (n K : ℕ) (ys : List ℕ) (h : ys.length ≤ n) :
    decodeVec n K (packCounts n K ys : ℝ) = (List.range K).map fun c => (ys.filter (· == c)).length :=
  decode_pack n K ys h

/-- RandomForest / DecisionTree (one PermuteAndFlip(ε, sensitivity 1, monotonic) per leaf on the leaf's class counts,
trees on disjoint row subsets): for every dataset, replacement and forced outputs every utility vector moves by at
most the sensitivity (max_j |u_j − u′_j| ≤ 1) and Σ εᵢ·wᵢ ≤ 2ε with wᵢ = (max increase + max decrease)/sensitivity —
the replaced record changes the inputs of one tree only, there the counts of the cell it leaves and of the cell it
joins: two pure moves in two leaves (ε each) or one label swap inside one leaf (2ε) -/
theorem forest_model_privloss (p : ForestParams ℝ) (hε : 0 ≤ p.eps) (pre post : DS ℝ) (r r' : Rec ℝ)
    (hn : pre.length + 1 + post.length ≤ p.n) (outs : List ℝ)
    (hprobe : ((forestPlan p).run (pre ++ r :: post) outs).probes = ((forestPlan p).run (pre ++ r' :: post) outs).probes)
    (hfull : ((forestPlan p).run (pre ++ r :: post) outs).release ≠ none) :
    let t := (forestPlan p).run (pre ++ r :: post) outs
    let t' := (forestPlan p).run (pre ++ r' :: post) outs
    t.calls = t'.calls ∧ dispOkV p.n p.K t.calls t.inputs t'.inputs = true ∧
      privLossV p.n p.K t.calls t.inputs t'.inputs ≤ 2 * p.eps :=
  lossLeW_run _ _ _ _ _ _ (forest_privloss p hε pre post r r' hn) outs hprobe hfull

/-- … and the loss is 0 (in particular ≤ ε) when the replaced record keeps its leaf and its class in every tree
(only its features move inside the leaf's box) -/
theorem forest_model_privloss_stay (p : ForestParams ℝ) (hε : 0 ≤ p.eps) (pre post : DS ℝ) (r r' : Rec ℝ)
    (hn : pre.length + 1 + post.length ≤ p.n)
    (hsame : ∀ tr ∈ p.trees, tr.leafOf (clipRow p.lo p.hi r) = tr.leafOf (clipRow p.lo p.hi r') ∧ r.y = r'.y)
    (outs : List ℝ)
    (hprobe : ((forestPlan p).run (pre ++ r :: post) outs).probes = ((forestPlan p).run (pre ++ r' :: post) outs).probes)
    (hfull : ((forestPlan p).run (pre ++ r :: post) outs).release ≠ none) :
    let t := (forestPlan p).run (pre ++ r :: post) outs
    let t' := (forestPlan p).run (pre ++ r' :: post) outs
    t.calls = t'.calls ∧ dispOkV p.n p.K t.calls t.inputs t'.inputs = true ∧
      privLossV p.n p.K t.calls t.inputs t'.inputs ≤ 0 :=
  lossLeW_run _ _ _ _ _ _ (forest_privloss_stay p hε pre post r r' hn hsame) outs hprobe hfull

/-- per tree and per leaf, as `lossLeW` statements: a tree that does not hold the replaced row costs 0; the one that
does costs ≤ 2ε, 0 when the record keeps its (leaf, class) cell; the invocation of leaf `l` costs at most
ε·([record joins l] + [record leaves l]) — a pure addition or removal costs ε -/
theorem forest_tree_privloss (p : ForestParams ℝ) (hε : 0 ≤ p.eps) (pre post : DS ℝ) (r r' : Rec ℝ)
    (hn : pre.length + 1 + post.length ≤ p.n) (ti : Nat) (t : PM.Tree ℝ) :
    lossLeW (relDispV p.n p.K) (wtDispV p.n p.K) (pre ++ r :: post) (pre ++ r' :: post) (treePlan p ti t)
      (if p.treeOf.getD pre.length 0 = ti then (if sameCell p t r r' then 0 else 2) * p.eps else 0) :=
  tree_loss p hε pre post r r' hn ti t

/-! ### split identities (Σ of the epsilons of all invocations one record can touch = ε) -/

theorem gnb_split (ε : ℝ) (d : ℕ) (hd : 0 < d) : ε / 3 + d * (ε / 3 / d) + d * (ε / 3 / d) = ε := PM.gnb_split ε d hd
theorem scaler_split (ε : ℝ) (d : ℕ) (hd : 0 < d) : d * (ε / 2 / d) + d * (ε / 2 / d) = ε := PM.scaler_split ε d hd
theorem kmeans_split (ε c : ℝ) (d iters : ℕ) (hd : 0 < d) (hi : 0 < iters) (hc : 0 ≤ c) :
    (iters : ℝ) * (c * (ε / iters / (d + c)) + d * (1 * (ε / iters / (d + c)))) = ε :=
  PM.kmeans_split ε c d iters hd hi hc
theorem linreg_split (ε : ℝ) (d t : ℕ) (hd : 0 < d) (ht : 0 < t) :
    let s : ℝ := 1 / ((d + 1 : ℕ) : ℝ)
    let cnt : ℝ := ((t + t * d : ℕ) : ℝ) + ((d * (d + 1) : ℕ) : ℝ) / 2
    (d : ℝ) * (ε * s / 2 / d) + ε * s / 2 + cnt * (ε * (1 - s) / cnt) = ε ∧
    ε * (1 - s) / cnt * cnt = ε * (1 - 1 / ((d : ℝ) + 1)) := PM.linreg_split ε d t hd ht
theorem linreg_coefficient_count (p : LinParams ℝ) :
    (((List.range p.t).length : ℝ) +
      (((List.range p.t).flatMap fun i => (List.range p.d).map fun j => (i, j)).length : ℝ) +
      (((List.range p.d).flatMap fun i => ((List.range p.d).filter (fun j => i ≤ j)).map fun j => (i, j)).length : ℝ))
      = linCount p := PM.lin_lengths p
theorem pca_split (εc : ℝ) (k d : ℕ) (hd : 0 < d) (hk : k ≤ d) :
    let share := εc / ((k + (if k = d then 0 else 1) : ℕ) : ℝ)
    share + (min k (d - 1) : ℕ) * share = εc := PM.pca_split εc k d hd hk
theorem pca_uncentred_split (ε : ℝ) (d : ℕ) (hd : 0 < d) : (d : ℝ) * (ε / 2 / d) + ε / 2 = ε :=
  PM.pca_uncentred_split ε d hd
theorem logreg_split (ε : ℝ) (m : ℕ) (hm : 0 < m) : (m : ℝ) * (ε / m) = ε := PM.logreg_split ε m hm

/-! ### sensitivity lemmas -/

theorem corner_product_sens (a b c d x y x' y' : ℝ) (hx : a ≤ x ∧ x ≤ b) (hy : c ≤ y ∧ y ≤ d)
    (hx' : a ≤ x' ∧ x' ≤ b) (hy' : c ≤ y' ∧ y' ≤ d) : |x * y - x' * y'| ≤ cornerSens c d a b :=
  PM.corner_product_sens a b c d x y x' y' hx hy hx' hy'
theorem sq_sens (l u x x' : ℝ) (hx : l ≤ x ∧ x ≤ u) (hx' : l ≤ x' ∧ x' ≤ u) : |x * x - x' * x'| ≤ sqSens l u :=
  PM.sq_sens l u x x' hx hx'
/-- the shifted-bounds version used after centring on the noisy offset `o` -/
theorem sq_sens_shifted (l u o x x' : ℝ) (hx : l ≤ x ∧ x ≤ u) (hx' : l ≤ x' ∧ x' ≤ u) :
    |(x - o) * (x - o) - (x' - o) * (x' - o)| ≤ sqSens (l - o) (u - o) :=
  PM.sq_sens (l - o) (u - o) (x - o) (x' - o) ⟨by linarith [hx.1], by linarith [hx.2]⟩
    ⟨by linarith [hx'.1], by linarith [hx'.2]⟩
theorem sqdev_sens (l u mu x : ℝ) (hx : l ≤ x ∧ x ≤ u) :
    0 ≤ (x - mu) * (x - mu) ∧ (x - mu) * (x - mu) ≤ pmax (mu - l) (u - mu) * pmax (mu - l) (u - mu) :=
  PM.sqdev_le l u mu x hx
theorem sum_group_change_sens (l u v v' : ℝ) (hv : l ≤ v ∧ v ≤ u) (hv' : l ≤ v' ∧ v' ≤ u) :
    |v| ≤ sumSens l u ∧ |v - v'| ≤ sumSens l u ∧ |v - v'| ≤ u - l := PM.sum_group_change_sens l u v v' hv hv'
theorem var_core (m w x y S : ℝ) (hm : 0 ≤ m) (hw : 0 ≤ w) (hx0 : 0 ≤ x) (hx1 : x ≤ w) (hy0 : 0 ≤ y) (hy1 : y ≤ w)
    (hS0 : 0 ≤ S) (hS1 : S ≤ m * w) : |(x - y) * (m * (x + y) - 2 * S)| ≤ m * w ^ 2 :=
  PM.var_core m w x y S hm hw hx0 hx1 hy0 hy1 hS0 hS1
/-- class / cluster / leaf counts move by ≤ 1, and only in the ≤ 2 groups the record leaves or joins -/
theorem group_count_change (g : Rec ℝ → Nat) (c : Nat) (pre post : DS ℝ) (r r' : Rec ℝ) :
    |(((grp g c (pre ++ r :: post)).length : Nat) : ℝ) - (((grp g c (pre ++ r' :: post)).length : Nat) : ℝ)|
      ≤ (if c = g r ∨ c = g r' then 1 else 0) ∧
    (g r = g r' → (((grp g c (pre ++ r :: post)).length : Nat) : ℝ) = (((grp g c (pre ++ r' :: post)).length : Nat) : ℝ)) :=
  PM.count_change g c pre post r r'
theorem groups_touched (l : List Nat) (hl : l.Nodup) (a b : Nat) (w : ℝ) (hw : 0 ≤ w) :
    (l.map fun c => if c = a ∨ c = b then w else 0).sum ≤ (if a = b then 1 else 2) * w :=
  PM.touched_sum_le l hl a b w hw
/-- forest: disjoint row subsets ⇒ the other trees see the same rows -/
theorem forest_one_tree (p : ForestParams ℝ) (ti : Nat) (pre post : DS ℝ) (r r' : Rec ℝ)
    (h : p.treeOf.getD pre.length 0 ≠ ti) : rowsOf p ti (pre ++ r :: post) = rowsOf p ti (pre ++ r' :: post) :=
  PM.rowsOf_other p ti pre post r r' h
/-- forest: within its tree a replaced record changes ≤ 2 (leaf, class) counts, each by one -/
theorem forest_leaf_counts (leaf : Rec ℝ → Nat) (code : Nat → Nat → Nat) (cell : Nat) (pre post : DS ℝ) (r r' : Rec ℝ) :
    |(((grp (fun q => code (leaf q) q.y) cell (pre ++ r :: post)).length : Nat) : ℝ) -
        (((grp (fun q => code (leaf q) q.y) cell (pre ++ r' :: post)).length : Nat) : ℝ)|
      ≤ (if cell = code (leaf r) r.y ∨ cell = code (leaf r') r'.y then 1 else 0) :=
  PM.leaf_class_count_change leaf code cell pre post r r'

/-! ### regression witnesses of the repaired defects (what the old formulas got wrong) -/

theorem kmeans_swapped_split_exceeds (ε c : ℝ) (d iters : ℕ) (hd : 1 < d) (hi : 0 < iters) (hc : 1 < c) (hε : 0 < ε) :
    ε / iters < 1 * (ε / iters / (d + c)) + d * (c * (ε / iters / (d + c))) :=
  PM.kmeans_swapped_exceeds ε c d iters hd hi hc hε
/-- `cbrt(4·d·0.225²) > 1` from d = 5 on: the radicand exceeds 1 -/
theorem kmeans_swapped_from_d5 : (1 : ℝ) < 4 * 5 * (225 / 1000 * (225 / 1000)) := PM.kmeans_swapped_d5
theorem linreg_old_intercept_exceeds (ε : ℝ) (d : ℕ) (hε : 0 < ε) :
    ε < ε * (1 / ((d : ℝ) + 1)) + ε * (1 / ((d : ℝ) + 1)) + ε * (1 - 1 / ((d : ℝ) + 1)) :=
  PM.linreg_old_intercept_exceeds ε d hε
theorem linreg_old_count_exceeds (e : ℝ) (d t : ℕ) (he : 0 < e) (ht : 1 < t) :
    e < e / (1 + (t * d : ℕ) + ((d * (d + 1) : ℕ) : ℝ) / 2) * (((t + t * d : ℕ) : ℝ) + ((d * (d + 1) : ℕ) : ℝ) / 2) :=
  PM.linreg_old_count_exceeds e d t he ht
theorem linreg_old_sq_sens_cex :
    ¬ (∀ l u x x' : ℝ, l ≤ x ∧ x ≤ u → l ≤ x' ∧ x' ≤ u → |x * x - x' * x'| ≤ sqSens l l) := PM.linreg_old_sq_sens_cex
theorem sum_old_sens_cex : ¬ (∀ l u v : ℝ, l ≤ v ∧ v ≤ u → |v| ≤ u - l) := PM.sum_old_sens_cex

/-! ### non-vacuity -/

example : ∃ p : GnbParams ℝ, 0 ≤ p.eps ∧ 0 < p.d ∧ ∀ j, nth p.lo j ≤ nth p.hi j :=
  ⟨⟨1, [10], [11], 2, 1, 2⟩, by norm_num, by norm_num, by intro j; cases j <;> simp [nth] <;> norm_num⟩
example : ∃ p : LinParams ℝ, 0 ≤ p.eps ∧ 0 < p.d ∧ 0 < p.t ∧ (∀ j, nth p.lo j ≤ nth p.hi j) ∧
    (∀ i, nth p.ylo i ≤ nth p.yhi i) ∧ (p.y1d = true → p.t = 1) :=
  ⟨⟨1, [-1], [2], [0], [3], 2, 1, 1, true, true, 0⟩, by norm_num, by norm_num, by norm_num,
    by intro j; cases j <;> simp [nth] <;> norm_num, by intro j; cases j <;> simp [nth] <;> norm_num, fun _ => rfl⟩
/-- the bounds are attained: a GaussianNB record leaving a class at a bound moves the class sum by exactly the
configured sensitivity (bounds (10, 11)) -/
example : sumSens (10 : ℝ) 11 = 11 ∧ |(11 : ℝ)| = sumSens 10 11 := by
  have : sumSens (10 : ℝ) 11 = 11 := by rw [sumSens_eq]; norm_num [abs_of_pos]
  exact ⟨this, by rw [this]; norm_num⟩

/-- forest, non-vacuity: a one-leaf tree and one record whose label is replaced — the hypotheses of
`forest_model_privloss` hold (complete run, same occupancy) -/
example : ∃ (p : ForestParams ℝ) (r r' : Rec ℝ) (outs : List ℝ), 0 ≤ p.eps ∧
    ([] : DS ℝ).length + 1 + ([] : DS ℝ).length ≤ p.n ∧
    ((forestPlan p).run ([] ++ r :: []) outs).probes = ((forestPlan p).run ([] ++ r' :: []) outs).probes ∧
    ((forestPlan p).run ([] ++ r :: []) outs).release ≠ none ∧ r.y ≠ r'.y := by
  refine ⟨⟨1, [0], [1], 1, 2, [⟨[0], [0], [-1], [-1], 0⟩], [0], 0⟩, ⟨[0], 0, []⟩, ⟨[0], 1, []⟩, [0], by norm_num,
    by norm_num, ?_, ?_, by decide⟩
  · simp [forestPlan, forList, treePlan, Plan.run, Plan.bind, one, rowsOf, Tree.leaves, Tree.leafOf, Tree.leafOf.go]
  · simp [forestPlan, forList, treePlan, Plan.run, Plan.bind, one, rowsOf, Tree.leaves, Tree.leafOf, Tree.leafOf.go]

/-- forest, the factor 2 is attained: a label swap inside one leaf (class counts (1,1) → (0,2)) has weight
(1 + 1)/1 = 2 while max_j |u_j − u′_j| / sensitivity = 1 … -/
example (p : ForestParams ℝ) :
    wtDispV 2 2 (pfCall p) (packCounts 2 2 [0, 1]) (packCounts 2 2 [1, 1]) = 2 ∧
    relDispV 2 2 (pfCall p) (packCounts 2 2 [0, 1]) (packCounts 2 2 [1, 1]) = 1 := by
  unfold wtDispV relDispV
  rw [isVec_pfCall, if_pos rfl, if_pos rfl, decode_pack 2 2 [0, 1] (by simp), decode_pack 2 2 [1, 1] (by simp)]
  have h1 : ((List.range 2).map fun c => (([0, 1] : List ℕ).filter (· == c)).length) = [1, 1] := by decide
  have h2 : ((List.range 2).map fun c => (([1, 1] : List ℕ).filter (· == c)).length) = [0, 2] := by decide
  rw [h1, h2]
  norm_num [vecWt, vecRel, maxIncr, pfCall]

/-- … and a pure removal from a leaf (class counts (1,1) → (0,1)) has weight 1 -/
example (p : ForestParams ℝ) :
    wtDispV 2 2 (pfCall p) (packCounts 2 2 [0, 1]) (packCounts 2 2 [1]) = 1 := by
  unfold wtDispV
  rw [isVec_pfCall, if_pos rfl, decode_pack 2 2 [0, 1] (by simp), decode_pack 2 2 [1] (by simp)]
  have h1 : ((List.range 2).map fun c => (([0, 1] : List ℕ).filter (· == c)).length) = [1, 1] := by decide
  have h2 : ((List.range 2).map fun c => (([1] : List ℕ).filter (· == c)).length) = [0, 1] := by decide
  rw [h1, h2]
  norm_num [vecWt, maxIncr, pfCall]

/-- StandardScaler, non-vacuity -/
example : ∃ p : ScalerParams ℝ, 0 ≤ p.eps ∧ 0 < p.d ∧ (∀ j, nth p.lo j ≤ nth p.hi j) ∧
    p.n = ([] : DS ℝ).length + 1 + ([] : DS ℝ).length :=
  ⟨⟨1, [0], [1], 1, 1, true, true⟩, by norm_num, by norm_num, by intro j; cases j <;> simp [nth], rfl⟩

/-! ## Adaptive composition: from the bounded privacy-loss sum to ε-DP of the output law

`Plan.law M p D` is the law of the release when invocation `c` on input `a` draws from the measure `M c a`
(`Plan.lawOn`: the same as a set function, for every plan and every set, no measurability side condition).
`MetricDP P M`: on the invocations satisfying `P`, inputs within the configured sensitivity give laws within
`exp(ε·|a−b|/sens)` on every measurable set — what C02 proves for the Laplace family (`C02.laplace_dp`,
`C02.laplace_truncated_dp`, from `Cont.lapMeasure_ratio`; discharged here as `laplace_family_metricDP`). -/

section Compose
open MeasureTheory ProbabilityTheory

/-- adaptive composition of two pure-DP stages, JOINT law of (first output, second output) -/
theorem adaptive_composition_pure {Y Z : Type*} [MeasurableSpace Y] [MeasurableSpace Z] (μ μ' : Measure Y)
    [SFinite μ] [SFinite μ'] (κ κ' : Kernel Y Z) [IsSFiniteKernel κ] [IsSFiniteKernel κ'] (ε₁ ε₂ : ℝ)
    (hμ : ∀ S, MeasurableSet S → μ S ≤ ENNReal.ofReal (Real.exp ε₁) * μ' S)
    (hκ : ∀ y S, MeasurableSet S → κ y S ≤ ENNReal.ofReal (Real.exp ε₂) * κ' y S)
    (S : Set (Y × Z)) (hS : MeasurableSet S) :
    (μ.compProd κ) S ≤ ENNReal.ofReal (Real.exp (ε₁ + ε₂)) * (μ'.compProd κ') S :=
  Compose.adaptive_composition_pure μ μ' κ κ' ε₁ ε₂ hμ hκ S hS

/-- … and of the released second output only (`Measure.bind`) -/
theorem adaptive_composition_bind {Y Z : Type*} [MeasurableSpace Y] [MeasurableSpace Z] (μ μ' : Measure Y)
    (κ κ' : Kernel Y Z) (ε₁ ε₂ : ℝ)
    (hμ : ∀ S, MeasurableSet S → μ S ≤ ENNReal.ofReal (Real.exp ε₁) * μ' S)
    (hκ : ∀ y S, MeasurableSet S → κ y S ≤ ENNReal.ofReal (Real.exp ε₂) * κ' y S)
    (T : Set Z) (hT : MeasurableSet T) :
    (μ.bind κ) T ≤ ENNReal.ofReal (Real.exp (ε₁ + ε₂)) * (μ'.bind κ') T :=
  Compose.adaptive_composition_bind μ μ' κ κ' ε₁ ε₂ hμ hκ T hT

/-- n-fold: a list of stages `(εᵢ, κᵢ, κᵢ′)` on a state space `Y` (e.g. the history of outputs); the ε's add up -/
theorem adaptive_composition_list {Y : Type*} [MeasurableSpace Y] (l : List (ℝ × Kernel Y Y × Kernel Y Y))
    (hl : ∀ t ∈ l, ∀ y S, MeasurableSet S → t.2.1 y S ≤ ENNReal.ofReal (Real.exp t.1) * t.2.2 y S)
    (μ μ' : Measure Y) (ε₀ : ℝ) (hμ : ∀ S, MeasurableSet S → μ S ≤ ENNReal.ofReal (Real.exp ε₀) * μ' S)
    (S : Set Y) (hS : MeasurableSet S) :
    Compose.iter (fun t => t.2.1) μ l S ≤
      ENNReal.ofReal (Real.exp (ε₀ + (l.map Prod.fst).sum)) * Compose.iter (fun t => t.2.2) μ' l S :=
  Compose.adaptive_composition_list l hl μ μ' ε₀ hμ S hS

/-- non-vacuity of the stage hypotheses: identical stages are 0-close -/
example (μ : Measure ℝ) (κ : Kernel ℝ ℝ) :
    (∀ S, MeasurableSet S → μ S ≤ ENNReal.ofReal (Real.exp 0) * μ S) ∧
    (∀ y S, MeasurableSet S → κ y S ≤ ENNReal.ofReal (Real.exp 0) * κ y S) := by
  simp

/-- **the semantic step** (closes the gap of the header): a plan with privacy-loss sum `≤ B` along EVERY sequence of
forced outputs (`lossLe`, the conclusion of every `…_privloss` theorem above), agreeing probes, measurable
continuations and metric-DP mechanisms has `B`-DP output law -/
theorem plan_dp_of_lossLe {δ ρ : Type} [MeasurableSpace ρ] (P : MechCall ℝ → Prop) (M : MechCall ℝ → ℝ → Measure ℝ)
    (hM : MetricDP P M) (D D' : δ) (p : Plan δ ℝ ρ) (B : ℝ) (hp : lossLe D D' p B) (hpr : p.probesAgree D D')
    (hc : p.callsSat P) (hm : p.Meas M) (S : Set ρ) (hS : MeasurableSet S) :
    p.law M D S ≤ ENNReal.ofReal (Real.exp B) * p.law M D' S :=
  PM.plan_dp_of_lossLe P M hM D D' p B hp hpr hc hm S hS

/-- the same for the set-function semantics: EVERY plan (arbitrary continuations), EVERY set -/
theorem plan_lawOn_dp_of_lossLe {δ ρ : Type} (P : MechCall ℝ → Prop) (M : MechCall ℝ → ℝ → Measure ℝ)
    (hM : MetricDP P M) (D D' : δ) (p : Plan δ ℝ ρ) (B : ℝ) (hp : lossLe D D' p B) (hpr : p.probesAgree D D')
    (hc : p.callsSat P) (S : Set ρ) :
    p.lawOn M D S ≤ ENNReal.ofReal (Real.exp B) * p.lawOn M D' S :=
  PM.lawOn_dp_of_lossLe P M hM D D' p B hp hpr hc S

/-- the two semantics coincide on measurable sets when the continuations are measurable -/
theorem plan_law_eq_lawOn {δ ρ : Type} [MeasurableSpace ρ] (M : MechCall ℝ → ℝ → Measure ℝ) (p : Plan δ ℝ ρ)
    (hm : p.Meas M) (D : δ) (S : Set ρ) (hS : MeasurableSet S) : p.law M D S = p.lawOn M D S :=
  PM.law_eq_lawOn M p hm D S hS

/-- the law of a sequential composition is the mixture (so `Plan.law` is the intended semantics of `Plan.bind`) -/
theorem plan_law_bind {δ ρ σ : Type} [MeasurableSpace ρ] [MeasurableSpace σ] (M : MechCall ℝ → ℝ → Measure ℝ)
    (p : Plan δ ℝ ρ) (q : ρ → Plan δ ℝ σ) (hp : p.Meas M) (hq : ∀ D, Measurable fun r => (q r).law M D) (D : δ) :
    (p.bind q).law M D = (p.law M D).bind (fun r => (q r).law M D) :=
  PM.law_bind M p q hp hq D

/-- the metric-DP hypothesis holds for the Laplace family (scale sens/ε) and for its truncation to the configured
bounds (`LaplaceTruncated`), on invocations with positive ε and sensitivity; both are families of probability laws -/
theorem laplace_family_metricDP :
    MetricDP (fun c => 0 < c.eps ∧ 0 < c.sens) lapKernel ∧ MetricDP (fun c => 0 < c.eps ∧ 0 < c.sens) truncLapKernel ∧
    (∀ c a, IsProbabilityMeasure (lapKernel c a)) ∧ (∀ c a, IsProbabilityMeasure (truncLapKernel c a)) :=
  ⟨lapKernel_metricDP, truncLapKernel_metricDP, lapKernel_isProb, truncLapKernel_isProb⟩

/-- the textbook form of the hypothesis implies `MetricDP` -/
theorem metricDP_of_abs (P : MechCall ℝ → Prop) (M : MechCall ℝ → ℝ → Measure ℝ)
    (h : ∀ c, P c → ∀ a b, |a - b| ≤ c.sens → ∀ S, MeasurableSet S →
      M c a S ≤ ENNReal.ofReal (Real.exp (c.eps * |a - b| / c.sens)) * M c b S)
    (hP : ∀ c, P c → 0 < c.sens) : MetricDP P M :=
  PM.metricDP_of_abs P M h hP

/-- the measurability side condition holds for the StandardScaler plan, for ANY family of probability laws
(releases: pairs of lists of reals with the σ-algebra generated by length and coordinates, `PM.listMS`) -/
theorem scaler_plan_meas (M : MechCall ℝ → ℝ → Measure ℝ) (hprob : ∀ c a, IsProbabilityMeasure (M c a))
    (p : ScalerParams ℝ) : (scalerPlan p).Meas M :=
  meas_scalerPlan M hprob p

/-- **StandardScaler.fit is ε-DP**: for every dataset, every single-record replacement, every family of probability
mechanisms that is metric-DP on invocations with positive ε and sensitivity, and every measurable set of releases
(noisy means, noisy variances).  `2 ≤ n` and strict bounds make every configured sensitivity positive. -/
theorem scaler_fit_dp (p : ScalerParams ℝ) (hε : 0 < p.eps) (hd : 0 < p.d) (hn2 : 2 ≤ p.n)
    (hb : ∀ j, nth p.lo j ≤ nth p.hi j) (hb' : ∀ j, j < p.d → nth p.lo j < nth p.hi j)
    (pre post : DS ℝ) (r r' : Rec ℝ) (hn : p.n = pre.length + 1 + post.length)
    (M : MechCall ℝ → ℝ → Measure ℝ) (hprob : ∀ c a, IsProbabilityMeasure (M c a))
    (hM : MetricDP (fun c => 0 < c.eps ∧ 0 < c.sens) M) (S : Set (List ℝ × List ℝ)) (hS : MeasurableSet S) :
    (scalerPlan p).law M (pre ++ r :: post) S ≤
      ENNReal.ofReal (Real.exp p.eps) * (scalerPlan p).law M (pre ++ r' :: post) S :=
  PM.plan_dp_of_lossLe _ M hM _ _ _ _ (scaler_privloss_free p hε.le hd hb pre post r r' hn)
    (probesAgree_of_probeFree _ _ _ (scalerPlan_probeFree p)) (callsSat_scalerPlan p hε hd hn2 hb')
    (meas_scalerPlan M hprob p) S hS

/-- … in particular with every invocation drawn from the truncated Laplace law (no hypothesis on the mechanisms left;
the `LaplaceBoundedDomain` draws of the variances are modelled by the same truncated Laplace family here) -/
theorem scaler_fit_dp_laplace (p : ScalerParams ℝ) (hε : 0 < p.eps) (hd : 0 < p.d) (hn2 : 2 ≤ p.n)
    (hb : ∀ j, nth p.lo j ≤ nth p.hi j) (hb' : ∀ j, j < p.d → nth p.lo j < nth p.hi j)
    (pre post : DS ℝ) (r r' : Rec ℝ) (hn : p.n = pre.length + 1 + post.length)
    (S : Set (List ℝ × List ℝ)) (hS : MeasurableSet S) :
    (scalerPlan p).law truncLapKernel (pre ++ r :: post) S ≤
      ENNReal.ofReal (Real.exp p.eps) * (scalerPlan p).law truncLapKernel (pre ++ r' :: post) S :=
  scaler_fit_dp p hε hd hn2 hb hb' pre post r r' hn truncLapKernel truncLapKernel_isProb truncLapKernel_metricDP S hS

/-- non-vacuity of the hypotheses of `scaler_fit_dp` (ε = 1, one column with bounds (0, 1), two records) -/
example : ∃ (p : ScalerParams ℝ) (pre post : DS ℝ), 0 < p.eps ∧ 0 < p.d ∧ 2 ≤ p.n ∧
    (∀ j, nth p.lo j ≤ nth p.hi j) ∧ (∀ j, j < p.d → nth p.lo j < nth p.hi j) ∧
    p.n = pre.length + 1 + post.length :=
  ⟨⟨1, [0], [1], 2, 1, true, true⟩, [⟨[0], 0, []⟩], [], by norm_num, by norm_num, by norm_num,
    by intro j; cases j <;> simp [nth], by intro j hj; interval_cases j; simp [nth], rfl⟩

/-- non-vacuity of `Plan.Meas` beyond the scaler: a genuinely adaptive two-call plan — the release adds the first
output to the second — has measurable continuations for every family of probability laws -/
example (M : MechCall ℝ → ℝ → Measure ℝ) (hprob : ∀ c a, IsProbabilityMeasure (M c a)) (c₁ c₂ : MechCall ℝ)
    (i₁ i₂ : DS ℝ → ℝ) :
    (Plan.call c₁ i₁ fun o₁ => Plan.call c₂ i₂ fun o₂ => Plan.release (o₁ + o₂)).Meas M := by
  refine ⟨fun D => ?_, fun o₁ => ⟨fun D => ?_, fun _ => trivial⟩⟩
  · have := law_isProb M hprob (one c₂ i₂) (meas_one M c₂ i₂) D
    refine measurable_law_bind_param M (one c₂ i₂) (meas_one M c₂ i₂) D (fun o₁ o₂ => Plan.release (o₁ + o₂))
      (fun D => ?_)
    simp only [Plan.law]
    exact Measure.measurable_dirac.comp (measurable_fst.add measurable_snd)
  · simp only [Plan.law]
    exact Measure.measurable_dirac.comp (measurable_const.add measurable_id)

/-- **GaussianNB.fit is ε-DP (2ε when the replaced record changes label)**, set-function semantics (`Plan.lawOn`: every
set of releases, no measurability condition on the count-repair post-processing): for every dataset and
single-record replacement that keeps the label-presence pattern (the plan's only probe, C06), every metric-DP family.
`hocc` is NOT implied by `gnb_privloss` (`lossLe` assumes agreeing probes, it does not prove them) and cannot be
dropped: `np.unique(y)` is released as `classes_` without noise, so the guarantee of the code is "ε-DP given that the
set of classes present is public / unchanged by the replacement" — exactly this hypothesis -/
theorem gnb_fit_dp (p : GnbParams ℝ) (hε : 0 < p.eps) (hd : 0 < p.d) (hb : ∀ j, nth p.lo j ≤ nth p.hi j)
    (hb' : ∀ j, j < p.d → nth p.lo j < nth p.hi j) (pre post : DS ℝ) (r r' : Rec ℝ)
    (hocc : ((List.range p.K).map fun c => (pre ++ r :: post).any (fun q => q.y == c)) =
      ((List.range p.K).map fun c => (pre ++ r' :: post).any (fun q => q.y == c)))
    (M : MechCall ℝ → ℝ → Measure ℝ) (hM : MetricDP (fun c => 0 < c.eps ∧ 0 < c.sens) M) (S : Set (GnbRelease ℝ)) :
    (gnbPlan p).lawOn M (pre ++ r :: post) S ≤
      ENNReal.ofReal (Real.exp ((if r.y = r'.y then 1 else 2) * p.eps)) * (gnbPlan p).lawOn M (pre ++ r' :: post) S :=
  PM.lawOn_dp_of_lossLe _ M hM _ _ _ _ (gnb_privloss p hε.le hd hb pre post r r')
    (probesAgree_gnbPlan p _ _ hocc) (callsSat_gnbPlan p hε hd hb') S

/-- non-vacuity of the hypotheses of `gnb_fit_dp`: two classes, both still present after the replacement -/
example : ∃ (p : GnbParams ℝ) (pre post : DS ℝ) (r r' : Rec ℝ), 0 < p.eps ∧ 0 < p.d ∧
    (∀ j, nth p.lo j ≤ nth p.hi j) ∧ (∀ j, j < p.d → nth p.lo j < nth p.hi j) ∧ r.y ≠ r'.y ∧
    ((List.range p.K).map fun c => (pre ++ r :: post).any (fun q => q.y == c)) =
      ((List.range p.K).map fun c => (pre ++ r' :: post).any (fun q => q.y == c)) :=
  ⟨⟨1, [10], [11], 3, 1, 2⟩, [⟨[10], 0, []⟩, ⟨[11], 1, []⟩], [], ⟨[10], 0, []⟩, ⟨[10], 1, []⟩, by norm_num, by norm_num,
    by intro j; cases j <;> simp [nth] <;> norm_num, by intro j hj; interval_cases j; simp [nth]; norm_num, by decide, by decide⟩

/-! ### general convention (vector inputs, input-aware side predicate), more estimators, kernels for the counts -/

/-- the semantic step for an arbitrary per-invocation convention `(rel, wt)` (`lossLeW`) and a side predicate that sees
the invocation AND its two inputs (`callsSatAt`), output-law form -/
theorem plan_dp_of_lossLeW {δ ρ : Type} [MeasurableSpace ρ] (rel wt : Conv) (P : MechCall ℝ → ℝ → ℝ → Prop)
    (M : MechCall ℝ → ℝ → Measure ℝ) (hM : MetricDPW rel wt P M) (D D' : δ) (p : Plan δ ℝ ρ) (B : ℝ)
    (hp : lossLeW rel wt D D' p B) (hpr : p.probesAgree D D') (hc : p.callsSatAt P D D') (hm : p.Meas M)
    (S : Set ρ) (hS : MeasurableSet S) :
    p.law M D S ≤ ENNReal.ofReal (Real.exp B) * p.law M D' S :=
  PM.plan_dp_of_lossLeW rel wt P M hM D D' p B hp hpr hc hm S hS

/-- … set-function form (every plan, every set) -/
theorem plan_lawOn_dp_of_lossLeW {δ ρ : Type} (rel wt : Conv) (P : MechCall ℝ → ℝ → ℝ → Prop)
    (M : MechCall ℝ → ℝ → Measure ℝ) (hM : MetricDPW rel wt P M) (D D' : δ) (p : Plan δ ℝ ρ) (B : ℝ)
    (hp : lossLeW rel wt D D' p B) (hpr : p.probesAgree D D') (hc : p.callsSatAt P D D') (S : Set ρ) :
    p.lawOn M D S ≤ ENNReal.ofReal (Real.exp B) * p.lawOn M D' S :=
  PM.lawOn_dp_of_lossLeW rel wt P M hM D D' p B hp hpr hc S

/-- the geometric count mechanism (`geomKernel`: Geometric(ε, sensitivity 1) on the integer input, clamped to the
configured bounds) is a probability family and metric-DP on integer inputs — from C01's `geom_dp` via
`Discrete.geom_post_dp`; so is the class-dispatching family `codeKernel` (geometric classes ↦ `geomKernel`,
"Laplace" ↦ `lapKernel`, every other class ↦ `truncLapKernel`) on invocations satisfying `CodeOk` -/
theorem code_kernel_metricDP :
    MetricDPW relDisp relDisp (fun c a b => 0 < c.eps ∧ GeomOk c a b) geomKernel ∧
    MetricDPW relDisp relDisp CodeOk codeKernel ∧
    (∀ c a, IsProbabilityMeasure (geomKernel c a)) ∧ (∀ c a, IsProbabilityMeasure (codeKernel c a)) :=
  ⟨geomKernel_metricDPW, codeKernel_metricDPW, geomKernel_isProb, codeKernel_isProb⟩

/-- GaussianNB with NO hypothesis on the mechanisms: counts from the geometric kernel, sums from the (truncated)
Laplace kernel (`codeKernel`) -/
theorem gnb_fit_dp_code (p : GnbParams ℝ) (hε : 0 < p.eps) (hd : 0 < p.d) (hb : ∀ j, nth p.lo j ≤ nth p.hi j)
    (hb' : ∀ j, j < p.d → nth p.lo j < nth p.hi j) (pre post : DS ℝ) (r r' : Rec ℝ)
    (hocc : ((List.range p.K).map fun c => (pre ++ r :: post).any (fun q => q.y == c)) =
      ((List.range p.K).map fun c => (pre ++ r' :: post).any (fun q => q.y == c)))
    (S : Set (GnbRelease ℝ)) :
    (gnbPlan p).lawOn codeKernel (pre ++ r :: post) S ≤
      ENNReal.ofReal (Real.exp ((if r.y = r'.y then 1 else 2) * p.eps)) *
        (gnbPlan p).lawOn codeKernel (pre ++ r' :: post) S :=
  PM.lawOn_dp_of_lossLeW _ _ _ _ codeKernel_metricDPW _ _ _ _
    ((lossLeW_scalar _ _ _ _).mpr (gnb_privloss p hε.le hd hb pre post r r'))
    (probesAgree_gnbPlan p _ _ hocc) (callsSatAt_gnbPlan_code p hε hd hb' _ _) S

/-- GaussianNB for the output LAW, relative to the measurability of the plan's continuations (`Plan.Meas`, for any
σ-algebra on the releases) — which is what remains open for this plan, see `gnb_plan_meas_full` -/
theorem gnb_fit_dp_law_partial [MeasurableSpace (GnbRelease ℝ)] (p : GnbParams ℝ) (hε : 0 < p.eps) (hd : 0 < p.d)
    (hb : ∀ j, nth p.lo j ≤ nth p.hi j) (hb' : ∀ j, j < p.d → nth p.lo j < nth p.hi j) (pre post : DS ℝ)
    (r r' : Rec ℝ)
    (hocc : ((List.range p.K).map fun c => (pre ++ r :: post).any (fun q => q.y == c)) =
      ((List.range p.K).map fun c => (pre ++ r' :: post).any (fun q => q.y == c)))
    (hmeas : (gnbPlan p).Meas codeKernel) (S : Set (GnbRelease ℝ)) (hS : MeasurableSet S) :
    (gnbPlan p).law codeKernel (pre ++ r :: post) S ≤
      ENNReal.ofReal (Real.exp ((if r.y = r'.y then 1 else 2) * p.eps)) *
        (gnbPlan p).law codeKernel (pre ++ r' :: post) S :=
  PM.plan_dp_of_lossLeW _ _ _ _ codeKernel_metricDPW _ _ _ _
    ((lossLeW_scalar _ _ _ _).mpr (gnb_privloss p hε.le hd hb pre post r r'))
    (probesAgree_gnbPlan p _ _ hocc) (callsSatAt_gnbPlan_code p hε hd hb' _ _) hmeas S hS

/-- NOT proved: there is a σ-algebra on the GaussianNB releases (with measurable points) for which the plan's
continuations are measurable for the kernel family `codeKernel`.  (For an ARBITRARY family `M` the statement is false:
the bounds and the sensitivity of the per-feature invocations depend on earlier noisy outputs, so `M` would have to be
measurable in the invocation's parameters as well — unlike StandardScaler, where `scaler_plan_meas` holds for every
family.)  Open obstacles: measurability of the count-repair post-processing `repairCounts` (`argsort` + a fuel-bounded
loop on lists of reals), of `forList` over a list whose length depends on a noisy output, and of the Laplace kernels
jointly in (scale, bounds, input) -/
def gnb_plan_meas_full : Prop :=
  ∃ _ : MeasurableSpace (GnbRelease ℝ), (∀ x : GnbRelease ℝ, MeasurableSet ({x} : Set (GnbRelease ℝ))) ∧
    ∀ p : GnbParams ℝ, (gnbPlan p).Meas codeKernel

/-- **KMeans.fit is 2ε-DP** (a record touches ≤ 2 clusters per iteration), set-function semantics, every metric-DP
family.  `hocc`: the cluster-occupancy probes (which clusters are non-empty, for every value of the noisy centres)
are the same for both datasets — the code branches on it without noise, so it is part of the public shape -/
theorem kmeans_fit_dp (p : KmParams ℝ) (hε : 0 < p.eps) (hd : 0 < p.d) (hb : ∀ j, nth p.lo j ≤ nth p.hi j)
    (hb' : ∀ j, j < p.d → nth p.lo j < nth p.hi j) (pre post : DS ℝ) (r r' : Rec ℝ)
    (hocc : ∀ cs, ((List.range p.k).map fun c => (pre ++ r :: post).any (fun q => assign p.lo p.hi cs q == c)) =
      ((List.range p.k).map fun c => (pre ++ r' :: post).any (fun q => assign p.lo p.hi cs q == c)))
    (M : MechCall ℝ → ℝ → Measure ℝ) (hM : MetricDP PosCall M) (S : Set (List (List ℝ))) :
    (kmPlan p).lawOn M (pre ++ r :: post) S ≤
      ENNReal.ofReal (Real.exp (2 * p.eps)) * (kmPlan p).lawOn M (pre ++ r' :: post) S :=
  PM.lawOn_dp_of_lossLe _ M hM _ _ _ _ (kmeans_privloss p hε.le hd hb pre post r r')
    (probesAgree_kmPlan p _ _ hocc) (callsSat_kmPlan p hε hd hb') S

/-- … ε-DP, and no probe hypothesis at all, when the replaced record stays in its cluster whatever the centres are -/
theorem kmeans_fit_dp_stay (p : KmParams ℝ) (hε : 0 < p.eps) (hd : 0 < p.d) (hb : ∀ j, nth p.lo j ≤ nth p.hi j)
    (hb' : ∀ j, j < p.d → nth p.lo j < nth p.hi j) (pre post : DS ℝ) (r r' : Rec ℝ)
    (hsame : ∀ cs, assign p.lo p.hi cs r = assign p.lo p.hi cs r')
    (M : MechCall ℝ → ℝ → Measure ℝ) (hM : MetricDP PosCall M) (S : Set (List (List ℝ))) :
    (kmPlan p).lawOn M (pre ++ r :: post) S ≤
      ENNReal.ofReal (Real.exp p.eps) * (kmPlan p).lawOn M (pre ++ r' :: post) S :=
  PM.lawOn_dp_of_lossLe _ M hM _ _ _ _ (kmeans_privloss_stay p hε.le hd hb pre post r r' hsame)
    (probesAgree_kmPlan p _ _ (fun cs => by simp [List.any_append, hsame cs])) (callsSat_kmPlan p hε hd hb') S

/-- KMeans with NO hypothesis on the mechanisms (`codeKernel`: geometric counts, truncated-Laplace sums) -/
theorem kmeans_fit_dp_code (p : KmParams ℝ) (hε : 0 < p.eps) (hd : 0 < p.d) (hb : ∀ j, nth p.lo j ≤ nth p.hi j)
    (hb' : ∀ j, j < p.d → nth p.lo j < nth p.hi j) (pre post : DS ℝ) (r r' : Rec ℝ)
    (hocc : ∀ cs, ((List.range p.k).map fun c => (pre ++ r :: post).any (fun q => assign p.lo p.hi cs q == c)) =
      ((List.range p.k).map fun c => (pre ++ r' :: post).any (fun q => assign p.lo p.hi cs q == c)))
    (S : Set (List (List ℝ))) :
    (kmPlan p).lawOn codeKernel (pre ++ r :: post) S ≤
      ENNReal.ofReal (Real.exp (2 * p.eps)) * (kmPlan p).lawOn codeKernel (pre ++ r' :: post) S :=
  PM.lawOn_dp_of_lossLeW _ _ _ _ codeKernel_metricDPW _ _ _ _
    ((lossLeW_scalar _ _ _ _).mpr (kmeans_privloss p hε.le hd hb pre post r r'))
    (probesAgree_kmPlan p _ _ hocc) (callsSatAt_kmPlan_code p hε hd hb' _ _) S

/-- **LinearRegression.fit is ε-DP** (no probe: no side condition on the datasets), set-function semantics, every
metric-DP family; strict bounds make every configured sensitivity positive -/
theorem linreg_fit_dp (p : LinParams ℝ) (hε : 0 < p.eps) (hd : 0 < p.d) (ht : 0 < p.t)
    (hb : ∀ j, nth p.lo j ≤ nth p.hi j) (hby : ∀ i, nth p.ylo i ≤ nth p.yhi i)
    (hb' : ∀ j, j < p.d → nth p.lo j < nth p.hi j) (hby' : ∀ i, i < p.t → nth p.ylo i < nth p.yhi i)
    (h1d : p.y1d = true → p.t = 1) (pre post : DS ℝ) (r r' : Rec ℝ) (hn : p.n = pre.length + 1 + post.length)
    (M : MechCall ℝ → ℝ → Measure ℝ) (hM : MetricDP PosCall M)
    (S : Set ((List ℝ × List ℝ) × (List ℝ × List ℝ × List ℝ))) :
    (linPlan p).lawOn M (pre ++ r :: post) S ≤
      ENNReal.ofReal (Real.exp p.eps) * (linPlan p).lawOn M (pre ++ r' :: post) S :=
  PM.lawOn_dp_of_lossLe _ M hM _ _ _ _ (linreg_privloss p hε.le hd ht hb hby h1d pre post r r' hn)
    (probesAgree_of_probeFree _ _ _ (linPlan_probeFree p)) (callsSat_linPlan p hε hd ht (by omega) hb' hby') S

/-- … with the Laplace family (`lapCodeKernel`: "Laplace" ↦ `lapKernel`, "LaplaceTruncated"/"LaplaceFolded" ↦ the
truncated Laplace law): no hypothesis on the mechanisms -/
theorem linreg_fit_dp_laplace (p : LinParams ℝ) (hε : 0 < p.eps) (hd : 0 < p.d) (ht : 0 < p.t)
    (hb : ∀ j, nth p.lo j ≤ nth p.hi j) (hby : ∀ i, nth p.ylo i ≤ nth p.yhi i)
    (hb' : ∀ j, j < p.d → nth p.lo j < nth p.hi j) (hby' : ∀ i, i < p.t → nth p.ylo i < nth p.yhi i)
    (h1d : p.y1d = true → p.t = 1) (pre post : DS ℝ) (r r' : Rec ℝ) (hn : p.n = pre.length + 1 + post.length)
    (S : Set ((List ℝ × List ℝ) × (List ℝ × List ℝ × List ℝ))) :
    (linPlan p).lawOn lapCodeKernel (pre ++ r :: post) S ≤
      ENNReal.ofReal (Real.exp p.eps) * (linPlan p).lawOn lapCodeKernel (pre ++ r' :: post) S :=
  linreg_fit_dp p hε hd ht hb hby hb' hby' h1d pre post r r' hn lapCodeKernel lapCodeKernel_metricDP S

/-- **RandomForest / DecisionTree fit is 2ε-DP**, set-function semantics, relative to the vector metric-DP of the
PermuteAndFlip kernel in the mechanism's own convention (`hPF`: utility vectors with max_j|u_j−u′_j| ≤ sensitivity give
laws within exp(ε·(max increase + max decrease)/sensitivity) — exponential / permute-and-flip mechanism, monotonic
utility; hypothesis, not proved here) and to agreeing leaf-occupancy probes (`hocc`, public shape as for KMeans) -/
theorem forest_fit_dp (p : ForestParams ℝ) (hε : 0 ≤ p.eps) (pre post : DS ℝ) (r r' : Rec ℝ)
    (hn : pre.length + 1 + post.length ≤ p.n)
    (hocc : ∀ ti ∈ p.trees.zipIdx,
      (ti.1.leaves.map fun l => (rowsOf p ti.2 (pre ++ r :: post)).any
        (fun q => ti.1.leafOf (clipRow p.lo p.hi q) == l)) =
      (ti.1.leaves.map fun l => (rowsOf p ti.2 (pre ++ r' :: post)).any
        (fun q => ti.1.leafOf (clipRow p.lo p.hi q) == l)))
    (M : MechCall ℝ → ℝ → Measure ℝ)
    (hPF : MetricDPW (relDispV p.n p.K) (wtDispV p.n p.K) (fun c _ _ => c = pfCall p) M)
    (S : Set (List (List (Nat × ℝ)))) :
    (forestPlan p).lawOn M (pre ++ r :: post) S ≤
      ENNReal.ofReal (Real.exp (2 * p.eps)) * (forestPlan p).lawOn M (pre ++ r' :: post) S :=
  PM.lawOn_dp_of_lossLeW _ _ _ M hPF _ _ _ _ (forest_privloss p hε pre post r r' hn)
    (probesAgree_forestPlan p _ _ hocc) (callsSatAt_forestPlan p _ _) S

/-- … and the two output laws are within factor e⁰ = 1 of each other when the replaced record keeps its leaf and its
class in every tree -/
theorem forest_fit_dp_stay (p : ForestParams ℝ) (hε : 0 ≤ p.eps) (pre post : DS ℝ) (r r' : Rec ℝ)
    (hn : pre.length + 1 + post.length ≤ p.n)
    (hsame : ∀ tr ∈ p.trees, tr.leafOf (clipRow p.lo p.hi r) = tr.leafOf (clipRow p.lo p.hi r') ∧ r.y = r'.y)
    (hocc : ∀ ti ∈ p.trees.zipIdx,
      (ti.1.leaves.map fun l => (rowsOf p ti.2 (pre ++ r :: post)).any
        (fun q => ti.1.leafOf (clipRow p.lo p.hi q) == l)) =
      (ti.1.leaves.map fun l => (rowsOf p ti.2 (pre ++ r' :: post)).any
        (fun q => ti.1.leafOf (clipRow p.lo p.hi q) == l)))
    (M : MechCall ℝ → ℝ → Measure ℝ)
    (hPF : MetricDPW (relDispV p.n p.K) (wtDispV p.n p.K) (fun c _ _ => c = pfCall p) M)
    (S : Set (List (List (Nat × ℝ)))) :
    (forestPlan p).lawOn M (pre ++ r :: post) S ≤
      ENNReal.ofReal (Real.exp 0) * (forestPlan p).lawOn M (pre ++ r' :: post) S :=
  PM.lawOn_dp_of_lossLeW _ _ _ M hPF _ _ _ _ (forest_privloss_stay p hε pre post r r' hn hsame)
    (probesAgree_forestPlan p _ _ hocc) (callsSatAt_forestPlan p _ _) S

/-- non-vacuity of `hPF`: a constant kernel satisfies it when ε ≥ 0 (weights are ≥ 0) -/
example (p : ForestParams ℝ) (hε : 0 ≤ p.eps) (ν : Measure ℝ) :
    MetricDPW (relDispV p.n p.K) (wtDispV p.n p.K) (fun c _ _ => c = pfCall p) (fun _ _ => ν) := by
  rintro c a b rfl _ S _
  have hw : 0 ≤ wtDispV p.n p.K (pfCall p) a b := by
    unfold wtDispV
    rw [isVec_pfCall, if_pos rfl]
    unfold vecWt
    simp only
    split
    · exact le_refl _
    · have : (pfCall p).sens = 1 := rfl
      rw [this]; positivity
  have : (1 : ENNReal) ≤ ENNReal.ofReal (Real.exp ((pfCall p).eps * wtDispV p.n p.K (pfCall p) a b)) := by
    rw [← ENNReal.ofReal_one]
    exact ENNReal.ofReal_le_ofReal (Real.one_le_exp (mul_nonneg hε hw))
  exact le_mul_of_one_le_left' this

/-- non-vacuity of the hypotheses of `linreg_fit_dp` and of `kmeans_fit_dp_stay` -/
example : ∃ (p : LinParams ℝ) (pre post : DS ℝ), 0 < p.eps ∧ 0 < p.d ∧ 0 < p.t ∧ (∀ j, nth p.lo j ≤ nth p.hi j) ∧
    (∀ i, nth p.ylo i ≤ nth p.yhi i) ∧ (∀ j, j < p.d → nth p.lo j < nth p.hi j) ∧
    (∀ i, i < p.t → nth p.ylo i < nth p.yhi i) ∧ (p.y1d = true → p.t = 1) ∧ p.n = pre.length + 1 + post.length :=
  ⟨⟨1, [-1], [2], [0], [3], 1, 1, 1, true, true, 0⟩, [], [], by norm_num, by norm_num, by norm_num,
    by intro j; cases j <;> simp [nth] <;> norm_num, by intro j; cases j <;> simp [nth],
    by intro j hj; interval_cases j; simp [nth]; norm_num, by intro j hj; interval_cases j; simp [nth],
    fun _ => rfl, rfl⟩
example : ∃ (p : KmParams ℝ) (r r' : Rec ℝ), 0 < p.eps ∧ 0 < p.d ∧ (∀ j, nth p.lo j ≤ nth p.hi j) ∧
    (∀ j, j < p.d → nth p.lo j < nth p.hi j) ∧ r ≠ r' ∧ ∀ cs, assign p.lo p.hi cs r = assign p.lo p.hi cs r' :=
  ⟨⟨1, [0], [1], 2, 1, 1, [[0]], 0⟩, ⟨[0], 0, []⟩, ⟨[0], 1, []⟩, by norm_num, by norm_num,
    by intro j; cases j <;> simp [nth], by intro j hj; interval_cases j; simp [nth], by simp, fun _ => rfl⟩

/-- **PCA.fit / covariance_eig is ε-DP**, set-function semantics, relative to the cited sensitivity facts of
`pca_model_privloss` (`hEig1`, `hEigSum`, `hBing`) and to a metric-DP family (which here includes the Bingham kernel:
`hM` at the "Bingham" invocations is the guarantee of the Bingham mechanism for its abstract scalar input) -/
theorem pca_fit_dp (p : PcaParams ℝ) (eig bing : DS ℝ → List ℝ → Nat → ℝ) (hε : 0 < p.eps) (hd : 0 < p.d)
    (hk : p.k ≤ p.d) (hb : ∀ j, nth p.lo j ≤ nth p.hi j) (hb' : ∀ j, j < p.d → nth p.lo j < nth p.hi j)
    (pre post : DS ℝ) (r r' : Rec ℝ) (hn : p.n = pre.length + 1 + post.length)
    (hEig1 : ∀ mean i, |eig (pre ++ r :: post) mean i - eig (pre ++ r' :: post) mean i| ≤ 2)
    (hEigSum : ∀ mean, ((List.range p.d).map fun i =>
        |eig (pre ++ r :: post) mean i - eig (pre ++ r' :: post) mean i|).sum ≤ 2)
    (hBing : ∀ mean i, |bing (pre ++ r :: post) mean i - bing (pre ++ r' :: post) mean i| ≤ 1)
    (M : MechCall ℝ → ℝ → Measure ℝ) (hM : MetricDP PosCall M) (S : Set (List ℝ × List ℝ)) :
    (pcaPlan p eig bing).lawOn M (pre ++ r :: post) S ≤
      ENNReal.ofReal (Real.exp p.eps) * (pcaPlan p eig bing).lawOn M (pre ++ r' :: post) S :=
  PM.lawOn_dp_of_lossLe _ M hM _ _ _ _
    (pca_privloss p eig bing hε.le hd hk hb pre post r r' hn hEig1 hEigSum hBing)
    (probesAgree_of_probeFree _ _ _ (pcaPlan_probeFree p eig bing))
    (callsSat_pcaPlan p eig bing hε hd (by omega) hb') S

end Compose

end DPL.C08
