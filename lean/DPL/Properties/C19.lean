import DPL.Model.Moments
namespace DPL.C19
end DPL.C19
