/-
C19 — reported bias, variance and MSE match the mechanism's actual distribution; variance is monotone.

The closed forms are the executable model `DPL/Model/Moments.lean` (run on IEEE doubles against the Python
`bias()/variance()/mse()` by `Drivers/Continuous.lean` on every check); here the same definitions are instantiated at ℝ.

Proved in full:  Geometric (the coded closed form is `2r/(1-r)²`, which is the second moment of the two-sided geometric
                 pmf; bias 0), Laplace (`2b²` is the second central moment of the Laplace density — integral computed —
                 and the mean is the value), Uniform, Gaussian (`gaussian_variance_normal`: for Mathlib's normal law, no
                 hypothesis left), the MSE decomposition, monotonicity of every closed form in ε and in the
                 sensitivity, and that the overflow-free `LaplaceFolded.bias` of commit 21336e0 is the previous expression.
                 FOR A VALUE INSIDE A FINITE DOMAIN and scale > 0, hypothesis-free, with the output law as a measure:
                 * truncated Laplace (`truncated_moments`): law = push-forward of the Laplace measure under the clamp
                   (density on (l,u), point masses P[X ≤ l] at l and P[X > u] at u);
                 * bounded-domain Laplace (`bounded_domain_moments`): law = Laplace measure conditioned on [l,u], for
                   whatever scale the calibration returned;
                   both: mean − v = coded bias, second moment − mean² = coded variance, also as E[Y − v], E[(Y − EY)²];
                   all integral evaluations (elementary antiderivatives, tails) are proved;
                 * folded Laplace (`folded_bias`): mean of the reflected law − v = coded bias (periods + geometric
                   series), also for the model of the code's `_fold` (`fold_model_is_foldMap`).
Partial / kept:  `truncated_moments_partial`, `bounded_domain_moments_partial` (the algebra, integral values as
                 hypotheses) are kept; the hypothesis-free theorems above are derived from them.
                 The regions excluded are exactly the open known findings: value outside the domain
                 (`…:value-outside-domain`; `truncated_moments_full` stays an unproved — false — `def`), infinite bounds
                 (`…:nan-infinite-bound`); floating-point cancellation (`…:float-cancellation`) is outside any theorem
                 over ℝ.  The folded mechanism reports no variance (NotImplementedError), so there is nothing to prove.
-/
import DPL.Model.Moments
import DPL.Proofs.RealCarrier
import DPL.Proofs.ContinuousCalib
import DPL.Proofs.ContinuousIntegrals
import DPL.Proofs.ContinuousMoments
import DPL.Proofs.ContinuousTruncIntegrals
import DPL.Proofs.ContinuousTruncLaw
import DPL.Proofs.ContinuousFoldSum
import DPL.Proofs.ContinuousFoldModel
import DPL.Proofs.ContinuousGaussMoments
import Mathlib.MeasureTheory.Integral.IntervalIntegral.FundThmCalculus
import Mathlib.Analysis.SpecialFunctions.Integrals.Basic
import Mathlib.Analysis.Complex.ExponentialBounds

namespace DPL.C19
open DPL DPL.Cont MeasureTheory ProbabilityTheory

/-! ## Geometric -/

/-- the coded `2·lf·(g + 3g² + 2g³)` with `lf = (1-r)/(1+r)`, `g = r/(1-r)`, `r = e^{scale}` is `2r/(1-r)²` -/
theorem geometric_variance_closed_form (scale : ℝ) (hs : scale < 0) :
    geomVarianceOf scale = 2 * Real.exp scale / (1 - Real.exp scale) ^ 2 := by
  rw [geomVarianceOf_real]
  exact geom_closed_form _ (by rw [← Real.exp_zero]; exact Real.exp_lt_exp.mpr hs) (Real.exp_pos _).le

/-- **geometric_variance**: the two-sided geometric pmf `P[k] = (1-r)/(1+r) · r^|k|` (the noise law of `Geometric`,
`r = e^{-ε/sens}`) has second moment equal to the reported variance, and first moment 0 (the reported bias) -/
theorem geometric_variance (eps : ℝ) (sens : ℕ) (he : 0 < eps) (hsens : 0 < sens) :
    let r := Real.exp (Cont.geomScale eps sens)
    HasSum (fun k : ℤ => (k : ℝ) ^ 2 * ((1 - r) / (1 + r) * r ^ k.natAbs)) (geomVarianceOf (Cont.geomScale eps sens)) ∧
    HasSum (fun k : ℤ => (k : ℝ) * ((1 - r) / (1 + r) * r ^ k.natAbs)) 0 := by
  intro r
  have hneg : Cont.geomScale eps sens < 0 := by
    unfold Cont.geomScale
    have : (0:ℝ) < (sens : ℝ) := by exact_mod_cast hsens
    exact div_neg_of_neg_of_pos (by linarith) this
  have h1 : r < 1 := by
    show Real.exp (Cont.geomScale eps sens) < 1
    rw [← Real.exp_zero]; exact Real.exp_lt_exp.mpr hneg
  have h0 : 0 ≤ r := (Real.exp_pos _).le
  refine ⟨?_, hasSum_geom_first_moment r h0 h1⟩
  rw [geometric_variance_closed_form _ hneg]
  exact hasSum_geom_second_moment r h0 h1

/-! ## Laplace -/

/-- **laplace_variance**: the reported `2·(sens/(ε - log(1-δ)))²` is the second central moment of the Laplace density
with the scale the sampler uses, and the first central moment (bias) is 0 -/
theorem laplace_variance (eps delta sens x : ℝ) (hs : 0 < sens) (hpos : 0 < eps - Real.log (1 - delta)) :
    ∫ y, (y - x) ^ 2 * lapDensity (Cont.laplaceScale eps delta sens) x y = laplaceVariance eps delta sens ∧
    ∫ y, (y - x) * lapDensity (Cont.laplaceScale eps delta sens) x y = (laplaceBias : ℝ) := by
  have hb : 0 < Cont.laplaceScale eps delta sens := by rw [laplaceScale_real]; positivity
  refine ⟨?_, ?_⟩
  · rw [integral_sq_mul_lapDensity _ x hb, laplaceVariance_real]
  · rw [integral_sub_mul_lapDensity]; rfl

/-! ## Uniform -/

/-- **uniform_variance**: the reported `(sens/δ)²/12` is the second central moment of the uniform density on
`[x - w, x + w]`, `w = sens/δ/2` the half width the sampler uses -/
theorem uniform_variance (delta sens x : ℝ) (hd : 0 < delta) (hs : 0 < sens) :
    let w := uniformHalfWidth delta sens
    (∫ y in (x - w)..(x + w), (y - x) ^ 2 * (1 / (2 * w))) = uniformVariance delta sens := by
  intro w
  have hw : w = sens / delta / 2 := uniformHalfWidth_real delta sens
  have hw0 : 0 < w := by rw [hw]; positivity
  rw [intervalIntegral.integral_mul_const]
  have h1 : (∫ y in (x - w)..(x + w), (y - x) ^ 2) = ∫ t in (-w)..w, t ^ 2 := by
    have := intervalIntegral.integral_comp_sub_right (fun t : ℝ => t ^ 2) (a := x - w) (b := x + w) x
    rw [this]; congr 1 <;> ring
  rw [h1, integral_pow, uniformVariance_real, hw]
  have hq : (0:ℝ) < sens / delta := by positivity
  clear hw hw0 h1
  generalize sens / delta = q at hq
  have hq' : q ≠ 0 := hq.ne'
  push_cast
  field_simp
  ring

/-! ## Gaussian -/

/-- **gaussian_variance**: the noise is `σ·Z`; for ANY law of `Z` with `E[Z²] = 1` and `E[Z] = 0` (cited for the standard
normal) the second moment of the noise is the reported `σ²` and its mean 0 -/
theorem gaussian_variance (μ : Measure ℝ) (sigma : ℝ) (h2 : ∫ z, z ^ 2 ∂μ = 1) (h1 : ∫ z, z ∂μ = 0) :
    ∫ z, (sigma * z) ^ 2 ∂μ = gaussVarianceOf sigma ∧ ∫ z, sigma * z ∂μ = 0 := by
  constructor
  · have : (fun z : ℝ => (sigma * z) ^ 2) = fun z => sigma ^ 2 * z ^ 2 := by funext z; ring
    rw [this, integral_const_mul, h2, gaussVarianceOf_real]; ring
  · rw [integral_const_mul, h1]; ring

/-- **gaussian_variance for the normal law itself** (no hypothesis left): with `Z ~ N(0,1)` (Mathlib's `gaussianReal 0 1`)
the noise `σ·Z` has second moment the reported `σ²` and mean 0; and `σ·Z ~ N(0, σ²)`, whose mean and second moment are
`0` and `σ²` -/
theorem gaussian_variance_normal (sigma : ℝ) :
    (∫ z, (sigma * z) ^ 2 ∂(gaussianReal 0 1) = gaussVarianceOf sigma ∧ ∫ z, sigma * z ∂(gaussianReal 0 1) = 0) ∧
    (gaussianReal 0 1).map (fun z => sigma * z) = gaussianReal 0 (NNReal.mk (sigma ^ 2) (sq_nonneg sigma)) ∧
    ∫ y, y ∂(gaussianReal 0 (NNReal.mk (sigma ^ 2) (sq_nonneg sigma))) = 0 ∧
    ∫ y, y ^ 2 ∂(gaussianReal 0 (NNReal.mk (sigma ^ 2) (sq_nonneg sigma))) = gaussVarianceOf sigma := by
  refine ⟨gaussian_variance _ sigma integral_sq_stdGaussian integral_id_stdGaussian,
    gaussianReal_map_sigma_mul sigma, (gaussian_noise_moments sigma).1, ?_⟩
  rw [(gaussian_noise_moments sigma).2, gaussVarianceOf_real]

/-! ## MSE -/

/-- **mse_decomp**: `mse = variance + bias²`; with `bias = E[Y - x]` and `variance = E[(Y-x)²] - (E[Y-x])²` this is the
mean squared error `E[(Y - x)²]` -/
theorem mse_decomp (variance bias m1 m2 : ℝ) :
    mse variance bias = variance + bias ^ 2 ∧ mse (m2 - m1 ^ 2) m1 = m2 := by
  constructor
  · exact mse_real variance bias
  · rw [mse_real]; ring

/-! ## monotonicity -/

/-- **variance_monotone** (Laplace): antitone in ε, monotone in the sensitivity -/
theorem variance_monotone_laplace (delta : ℝ) :
    (∀ eps1 eps2 sens : ℝ, 0 ≤ sens → 0 < eps1 - Real.log (1 - delta) → eps1 ≤ eps2 →
        laplaceVariance eps2 delta sens ≤ laplaceVariance eps1 delta sens) ∧
    (∀ eps sens1 sens2 : ℝ, 0 < eps - Real.log (1 - delta) → 0 ≤ sens1 → sens1 ≤ sens2 →
        laplaceVariance eps delta sens1 ≤ laplaceVariance eps delta sens2) := by
  constructor
  · intro e1 e2 s hs h1 h
    rw [laplaceVariance_real, laplaceVariance_real, laplaceScale_real, laplaceScale_real]
    have := sq_div_antitone s (e1 - Real.log (1 - delta)) (e2 - Real.log (1 - delta)) hs h1 (by linarith)
    linarith
  · intro e s1 s2 h1 hs h
    rw [laplaceVariance_real, laplaceVariance_real, laplaceScale_real, laplaceScale_real]
    have := sq_div_monotone s1 s2 (e - Real.log (1 - delta)) hs h h1
    linarith

/-- **variance_monotone** (Geometric): antitone in ε, monotone in the sensitivity -/
theorem variance_monotone_geometric :
    (∀ (eps1 eps2 : ℝ) (sens : ℕ), 0 < sens → 0 < eps1 → eps1 ≤ eps2 →
        geomVarianceOf (Cont.geomScale eps2 sens) ≤ geomVarianceOf (Cont.geomScale eps1 sens)) ∧
    (∀ (eps : ℝ) (sens1 sens2 : ℕ), 0 < eps → 0 < sens1 → sens1 ≤ sens2 →
        geomVarianceOf (Cont.geomScale eps sens1) ≤ geomVarianceOf (Cont.geomScale eps sens2)) := by
  have key : ∀ s1 s2 : ℝ, s1 ≤ s2 → s2 < 0 → geomVarianceOf s1 ≤ geomVarianceOf s2 := by
    intro s1 s2 h hneg
    rw [geometric_variance_closed_form s1 (by linarith), geometric_variance_closed_form s2 hneg]
    exact geom_var_monotone _ _ (Real.exp_pos _).le (Real.exp_le_exp.mpr h)
      (by rw [← Real.exp_zero]; exact Real.exp_lt_exp.mpr hneg)
  constructor
  · intro e1 e2 s hs he h
    have hs' : (0:ℝ) < (s : ℝ) := by exact_mod_cast hs
    apply key
    · unfold Cont.geomScale; exact div_le_div_of_nonneg_right (by linarith) hs'.le
    · unfold Cont.geomScale; exact div_neg_of_neg_of_pos (by linarith) hs'
  · intro e s1 s2 he hs h
    have hs1 : (0:ℝ) < (s1 : ℝ) := by exact_mod_cast hs
    have h12 : (s1 : ℝ) ≤ (s2 : ℝ) := by exact_mod_cast h
    have hs2 : (0:ℝ) < (s2 : ℝ) := lt_of_lt_of_le hs1 h12
    apply key
    · unfold Cont.geomScale
      rw [neg_div, neg_div, neg_le_neg_iff]
      exact div_le_div_of_nonneg_left he.le hs1 h12
    · unfold Cont.geomScale; exact div_neg_of_neg_of_pos (by linarith) hs2

/-- **variance_monotone** (classical Gaussian, `σ = √(2 log(1.25/δ))·sens/ε`): antitone in ε, monotone in the sensitivity -/
theorem variance_monotone_gaussian (delta : ℝ) :
    (∀ eps1 eps2 sens : ℝ, 0 ≤ sens → 0 < eps1 → eps1 ≤ eps2 →
        gaussVarianceOf (gaussSigma eps2 delta sens) ≤ gaussVarianceOf (gaussSigma eps1 delta sens)) ∧
    (∀ eps sens1 sens2 : ℝ, 0 < eps → 0 ≤ sens1 → sens1 ≤ sens2 →
        gaussVarianceOf (gaussSigma eps delta sens1) ≤ gaussVarianceOf (gaussSigma eps delta sens2)) := by
  have hc : 0 ≤ Real.sqrt (2 * Real.log (5 / 4 / delta)) := Real.sqrt_nonneg _
  constructor
  · intro e1 e2 s hs h1 h
    rw [gaussVarianceOf_real, gaussVarianceOf_real, gaussSigma_real, gaussSigma_real]
    exact sq_div_antitone _ e1 e2 (by positivity) h1 h
  · intro e s1 s2 he hs h
    rw [gaussVarianceOf_real, gaussVarianceOf_real, gaussSigma_real, gaussSigma_real]
    exact sq_div_monotone _ _ e (by positivity) (mul_le_mul_of_nonneg_left h hc) he

/-- **variance_monotone** (Uniform, ε fixed at 0): monotone in the sensitivity -/
theorem variance_monotone_uniform (delta sens1 sens2 : ℝ) (hd : 0 < delta) (hs : 0 ≤ sens1) (h : sens1 ≤ sens2) :
    uniformVariance delta sens1 ≤ uniformVariance delta sens2 := by
  rw [uniformVariance_real, uniformVariance_real]
  have := sq_div_monotone sens1 sens2 delta hs h hd
  linarith

example : (0:ℝ) < 1 - Real.log (1 - 0) := by simp

/-! ## folded Laplace -/

/-- the overflow-free expression `LaplaceFolded.bias` uses since commit 21336e0 is the same real function as the
expression it replaced (which evaluated to `inf/inf` for wide domains) -/
theorem folded_bias_same_function (b l u v : ℝ) (hb : b ≠ 0) : foldBiasOf b l u v = foldBiasOld b l u v :=
  foldBias_eq_old b l u v hb

/-! ## zero noise scale (sensitivity 0) -/

/-- with a zero scale the mechanisms add no noise: the output is the truncated / folded / clamped value itself, so the
bias is that point minus the value and the variance 0 — which is what the guards added in commit dab9e69 return -/
theorem zero_scale_moments (l u v folded : ℝ) :
    truncBiasOf 0 l u v = truncateV l u v - v ∧ truncVarianceOf 0 l u v = 0 ∧
    foldBiasAt 0 l u v folded = folded - v ∧
    bdBiasOf 0 l u v = pyMax2 (pyMin2 v u) l - v ∧ bdVarianceOf 0 l u v = 0 := by
  simp [truncBiasOf, truncVarianceOf, foldBiasAt, bdBiasOf, bdVarianceOf, feq_real]

/-! ## truncated and bounded-domain Laplace: the algebra (integral values as hypotheses) -/

/-- the full statements (not proved): for EVERY value and EVERY (possibly infinite) bounds the reported numbers are
the moments of the output law.  They are FALSE for the code as it is (open known findings
`C19:…:value-outside-domain`, `C19:…:nan-infinite-bound`): the closed forms assume `lower ≤ value ≤ upper`, finite. -/
def truncated_moments_full : Prop :=
  ∀ (b l u v : ℝ), 0 < b → l ≤ u →
    let clampLaw := (volume.withDensity (fun y => ENNReal.ofReal (lapDensity b v y))).map (fun y => max l (min y u))
    (∫ y, (y - v) ∂clampLaw) = truncBiasOf b l u v

/-- the counter-example behind the open finding `C19:LaplaceTruncated:value-outside-domain`: for the domain `[0, 0]`,
scale 1 and value 1 the output is always 0, so the bias is `-1`, but the coded expression gives `(e⁻¹ - e)/2 ≈ -1.18`;
hence `truncated_moments_full` is FALSE (and stays an unproved `def`) -/
theorem truncated_moments_full_cex : ¬ truncated_moments_full := by
  intro h
  have h1 := h 1 0 0 1 one_pos le_rfl
  dsimp only at h1
  have hφ : (fun y : ℝ => max (0:ℝ) (min y 0)) = fun _ => 0 := by
    funext y; exact max_eq_left (min_le_right y 0)
  have hμ : (volume.withDensity (fun y => ENNReal.ofReal (lapDensity 1 1 y))) Set.univ = 1 :=
    lapMeasure_univ 1 1 one_pos
  rw [hφ, Measure.map_const, hμ, one_smul, integral_dirac] at h1
  unfold truncBiasOf at h1
  simp only [feq_real, one_ne_zero, decide_false, Bool.false_eq_true, if_false, transc_exp] at h1
  have e1 : Real.exp ((0 - 1) / 1) = (Real.exp 1)⁻¹ := by rw [← Real.exp_neg]; norm_num
  have e2 : Real.exp ((1 - 0) / 1) = Real.exp 1 := by norm_num
  rw [e1, e2] at h1
  have hE := Real.exp_one_gt_d9
  have hpos : 0 < (Real.exp 1)⁻¹ := inv_pos.mpr (Real.exp_pos 1)
  have hinv : (Real.exp 1)⁻¹ < 1 / 2 := by
    rw [inv_lt_comm₀ (Real.exp_pos 1) (by norm_num)]; norm_num; linarith
  linarith

/-- **truncated Laplace, partial** (value inside a finite domain, `l ≤ v ≤ u`).  The law of `clamp(v + Laplace(b))` has
point masses `E₁/2` at `l`, `E₂/2` at `u` (`E₁ = e^{(l-v)/b}`, `E₂ = e^{(v-u)/b}`) and the Laplace density in between.
Given the evaluations of the four integrals of `y^j · density` over `[l, v]` and `[v, u]` (hypotheses `hI₁ hI₂ hJ₁ hJ₂`:
the elementary antiderivatives `(y ∓ b)e^{±(y-v)/b}/2`, `(y² ∓ 2by + 2b²)e^{±(y-v)/b}/2`), the mean minus `v` is the
coded bias and the second moment minus the squared mean is the coded variance. -/
theorem truncated_moments_partial (b l u v I1 I2 J1 J2 : ℝ) (hb : b ≠ 0)
    (hI1 : I1 = (v - b) / 2 - (l - b) * Real.exp ((l - v) / b) / 2)
    (hI2 : I2 = (v + b) / 2 - (u + b) * Real.exp ((v - u) / b) / 2)
    (hJ1 : J1 = (v ^ 2 - 2 * b * v + 2 * b ^ 2) / 2 - (l ^ 2 - 2 * b * l + 2 * b ^ 2) * Real.exp ((l - v) / b) / 2)
    (hJ2 : J2 = (v ^ 2 + 2 * b * v + 2 * b ^ 2) / 2 - (u ^ 2 + 2 * b * u + 2 * b ^ 2) * Real.exp ((v - u) / b) / 2) :
    let mean := l * (Real.exp ((l - v) / b) / 2) + I1 + I2 + u * (Real.exp ((v - u) / b) / 2)
    let second := l ^ 2 * (Real.exp ((l - v) / b) / 2) + J1 + J2 + u ^ 2 * (Real.exp ((v - u) / b) / 2)
    mean - v = truncBiasOf b l u v ∧ second - mean ^ 2 = truncVarianceOf b l u v := by
  intro mean second
  have hbias : mean - v = truncBiasOf b l u v := by
    show l * (Real.exp ((l - v) / b) / 2) + I1 + I2 + u * (Real.exp ((v - u) / b) / 2) - v = _
    unfold truncBiasOf
    simp only [feq_real, hb, decide_false, Bool.false_eq_true, if_false, transc_exp]
    rw [hI1, hI2]; ring
  refine ⟨hbias, ?_⟩
  have hm : mean = truncBiasOf b l u v + v := by linarith
  rw [hm]
  show l ^ 2 * (Real.exp ((l - v) / b) / 2) + J1 + J2 + u ^ 2 * (Real.exp ((v - u) / b) / 2) - _ = _
  unfold truncVarianceOf truncBiasOf
  simp only [feq_real, hb, decide_false, Bool.false_eq_true, if_false, sq_real, transc_exp]
  rw [hJ1, hJ2]; ring

/-- the first of those integral evaluations, discharged by the fundamental theorem of calculus (the other three are
the same computation with the antiderivatives named above) -/
theorem truncated_integral_I1 (b l v : ℝ) (hb : 0 < b) :
    (∫ y in l..v, y * (Real.exp ((y - v) / b) / (2 * b))) =
      (v - b) / 2 - (l - b) * Real.exp ((l - v) / b) / 2 := by
  have hderiv : ∀ y ∈ Set.uIcc l v,
      HasDerivAt (fun y => (y - b) * Real.exp ((y - v) / b) / 2) (y * (Real.exp ((y - v) / b) / (2 * b))) y := by
    intro y _
    have h1 : HasDerivAt (fun y : ℝ => (y - v) / b) (1 / b) y := by
      simpa using ((hasDerivAt_id y).sub_const v).div_const b
    have h2 : HasDerivAt (fun y : ℝ => Real.exp ((y - v) / b)) (Real.exp ((y - v) / b) * (1 / b)) y := h1.exp
    have h3 : HasDerivAt (fun y : ℝ => y - b) 1 y := (hasDerivAt_id y).sub_const b
    have h4 := (h3.mul h2).div_const 2
    have hb' : b ≠ 0 := hb.ne'
    refine h4.congr_deriv ?_
    field_simp
    ring
  have hint : IntervalIntegrable (fun y => y * (Real.exp ((y - v) / b) / (2 * b))) volume l v := by
    apply Continuous.intervalIntegrable
    fun_prop
  rw [intervalIntegral.integral_eq_sub_of_hasDerivAt hderiv hint]
  simp only [sub_self, zero_div, Real.exp_zero, mul_one]

/-- **bounded-domain Laplace, partial** (value inside a finite domain): the law is the Laplace density restricted to
`[l, u]` and divided by `C = 1 - E₁/2 - E₂/2`; with the same four integral evaluations the mean minus `v` is the coded
bias and the second moment minus the squared mean the coded variance — for whatever scale `s` the calibration returned -/
theorem bounded_domain_moments_partial (s l u v I1 I2 J1 J2 : ℝ) (hs : s ≠ 0)
    (hC : 1 - Real.exp ((l - v) / s) / 2 - Real.exp ((v - u) / s) / 2 ≠ 0)
    (hI1 : I1 = (v - s) / 2 - (l - s) * Real.exp ((l - v) / s) / 2)
    (hI2 : I2 = (v + s) / 2 - (u + s) * Real.exp ((v - u) / s) / 2)
    (hJ1 : J1 = (v ^ 2 - 2 * s * v + 2 * s ^ 2) / 2 - (l ^ 2 - 2 * s * l + 2 * s ^ 2) * Real.exp ((l - v) / s) / 2)
    (hJ2 : J2 = (v ^ 2 + 2 * s * v + 2 * s ^ 2) / 2 - (u ^ 2 + 2 * s * u + 2 * s ^ 2) * Real.exp ((v - u) / s) / 2) :
    let C := 1 - Real.exp ((l - v) / s) / 2 - Real.exp ((v - u) / s) / 2
    let mean := (I1 + I2) / C
    let second := (J1 + J2) / C
    mean - v = bdBiasOf s l u v ∧ second - mean ^ 2 = bdVarianceOf s l u v := by
  intro C mean second
  have hbias : mean - v = bdBiasOf s l u v := by
    show (I1 + I2) / (1 - Real.exp ((l - v) / s) / 2 - Real.exp ((v - u) / s) / 2) - v = _
    unfold bdBiasOf
    simp only [feq_real, hs, decide_false, Bool.false_eq_true, if_false, transc_exp]
    rw [hI1, hI2]
    generalize Real.exp ((l - v) / s) = A at *
    generalize Real.exp ((v - u) / s) = B at *
    have hD : 2 - A - B ≠ 0 := by intro h; apply hC; linarith
    field_simp
    ring
  refine ⟨hbias, ?_⟩
  have hm : mean = bdBiasOf s l u v + v := by linarith
  rw [hm]
  show (J1 + J2) / (1 - Real.exp ((l - v) / s) / 2 - Real.exp ((v - u) / s) / 2) - _ = _
  unfold bdVarianceOf bdBiasOf
  simp only [feq_real, hs, decide_false, Bool.false_eq_true, if_false, sq_real, transc_exp]
  have e1 : Real.exp (-(v - l) / s) = Real.exp ((l - v) / s) := by congr 1; ring
  have e2 : Real.exp (-(u - v) / s) = Real.exp ((v - u) / s) := by congr 1; ring
  rw [e1, e2, hJ1, hJ2]
  have hC' : 1 - (Real.exp ((l - v) / s) + Real.exp ((v - u) / s)) / 2 ≠ 0 := by
    have : 1 - (Real.exp ((l - v) / s) + Real.exp ((v - u) / s)) / 2
        = 1 - Real.exp ((l - v) / s) / 2 - Real.exp ((v - u) / s) / 2 := by ring
    rw [this]; exact hC
  generalize Real.exp ((l - v) / s) = A at *
  generalize Real.exp ((v - u) / s) = B at *
  have hD : 2 - A - B ≠ 0 := by intro h; apply hC; linarith
  have hD' : 2 - (A + B) ≠ 0 := by intro h; apply hD; linarith
  field_simp
  ring

/-! ## truncated and bounded-domain Laplace: the integral evaluations discharged, hypothesis-free statements -/

/-- the second integral evaluation of `truncated_moments_partial` (hypothesis `hI2`) -/
theorem truncated_integral_I2 (b u v : ℝ) (hb : b ≠ 0) :
    (∫ y in v..u, y * (Real.exp ((v - y) / b) / (2 * b))) =
      (v + b) / 2 - (u + b) * Real.exp ((v - u) / b) / 2 := by
  rw [integral_down1 b v v u hb]
  simp only [sub_self, zero_div, Real.exp_zero, mul_one]

/-- the third (hypothesis `hJ1`) -/
theorem truncated_integral_J1 (b l v : ℝ) (hb : b ≠ 0) :
    (∫ y in l..v, y ^ 2 * (Real.exp ((y - v) / b) / (2 * b))) =
      (v ^ 2 - 2 * b * v + 2 * b ^ 2) / 2 - (l ^ 2 - 2 * b * l + 2 * b ^ 2) * Real.exp ((l - v) / b) / 2 := by
  rw [integral_up2 b v l v hb]
  simp only [sub_self, zero_div, Real.exp_zero, mul_one]

/-- the fourth (hypothesis `hJ2`) -/
theorem truncated_integral_J2 (b u v : ℝ) (hb : b ≠ 0) :
    (∫ y in v..u, y ^ 2 * (Real.exp ((v - y) / b) / (2 * b))) =
      (v ^ 2 + 2 * b * v + 2 * b ^ 2) / 2 - (u ^ 2 + 2 * b * u + 2 * b ^ 2) * Real.exp ((v - u) / b) / 2 := by
  rw [integral_down2 b v v u hb]
  simp only [sub_self, zero_div, Real.exp_zero, mul_one]

/-- the point masses of the truncated law are the Laplace tails: `P[X ≤ l] = e^{(l-v)/b}/2`, `P[X > u] = e^{(v-u)/b}/2`,
and the mass of the domain is `1 - E₁/2 - E₂/2` (the normaliser `C` of the bounded-domain law) -/
theorem laplace_tail_masses (b l u v : ℝ) (hb : 0 < b) (hlv : l ≤ v) (hvu : v ≤ u) :
    lapMeasure b v (Set.Iic l) = ENNReal.ofReal (Real.exp ((l - v) / b) / 2) ∧
    lapMeasure b v (Set.Ioi u) = ENNReal.ofReal (Real.exp ((v - u) / b) / 2) ∧
    lapMeasure b v (Set.Icc l u) =
      ENNReal.ofReal (1 - Real.exp ((l - v) / b) / 2 - Real.exp ((v - u) / b) / 2) := by
  refine ⟨?_, ?_, lapMeasure_Icc b l u v hb hlv hvu⟩
  · rw [lapMeasure_eq_ofReal b v hb _ measurableSet_Iic, integral_lapDensity_Iic b v l hb hlv]
  · rw [lapMeasure_eq_ofReal b v hb _ measurableSet_Ioi, integral_lapDensity_Ioi b v u hb hvu]

/-- both laws are probability laws -/
theorem moment_laws_normalised (b l u v : ℝ) (hb : 0 < b) (hlu : l < u) (hlv : l ≤ v) (hvu : v ≤ u) :
    truncLaw b l u v Set.univ = 1 ∧ bdLaw b l u v Set.univ = 1 :=
  ⟨truncLaw_univ b l u v hb, bdLaw_univ b l u v hb hlu hlv hvu⟩

/-- **truncated Laplace** (`LaplaceTruncated.bias/variance`), hypothesis-free: for a value inside a finite domain
(`l ≤ v ≤ u`) and scale `b > 0`, with `law` = the law of `clamp(v + Laplace(b))` (`truncLaw`: the push-forward of the
Laplace measure under `y ↦ max l (min y u)`),
  mean − v = coded bias,   second moment − mean² = coded variance,
and in the forms  `E[Y − v]`  and  `E[(Y − E Y)²]`. -/
theorem truncated_moments (b l u v : ℝ) (hb : 0 < b) (hlv : l ≤ v) (hvu : v ≤ u) :
    (∫ y, y ∂(truncLaw b l u v)) - v = truncBiasOf b l u v ∧
    (∫ y, y ^ 2 ∂(truncLaw b l u v)) - (∫ y, y ∂(truncLaw b l u v)) ^ 2 = truncVarianceOf b l u v ∧
    (∫ y, (y - v) ∂(truncLaw b l u v)) = truncBiasOf b l u v ∧
    (∫ y, (y - ∫ z, z ∂(truncLaw b l u v)) ^ 2 ∂(truncLaw b l u v)) = truncVarianceOf b l u v := by
  have hb' : b ≠ 0 := hb.ne'
  have hM0 := lap_M0 b l u v hb' hlv hvu
  have hM1 := lap_M1 b l u v hb' hlv hvu
  have hM2 := lap_M2 b l u v hb' hlv hvu
  have hmean : (∫ y, y ∂(truncLaw b l u v)) =
      l * (Real.exp ((l - v) / b) / 2) + (∫ y in l..u, y * lapDensity b v y) + u * (Real.exp ((v - u) / b) / 2) :=
    integral_clampLaw (fun y => y) continuous_id b l u v hb hlv hvu
  have hsec : (∫ y, y ^ 2 ∂(truncLaw b l u v)) =
      l ^ 2 * (Real.exp ((l - v) / b) / 2) + (∫ y in l..u, y ^ 2 * lapDensity b v y) +
        u ^ 2 * (Real.exp ((v - u) / b) / 2) :=
    integral_clampLaw (fun y => y ^ 2) (by fun_prop) b l u v hb hlv hvu
  have hcen1 : (∫ y, (y - v) ∂(truncLaw b l u v)) =
      (l - v) * (Real.exp ((l - v) / b) / 2) + (∫ y in l..u, (y - v) * lapDensity b v y) +
        (u - v) * (Real.exp ((v - u) / b) / 2) :=
    integral_clampLaw (fun y => y - v) (by fun_prop) b l u v hb hlv hvu
  generalize (∫ y, y ∂(truncLaw b l u v)) = mean at *
  have hcen2 : (∫ y, (y - mean) ^ 2 ∂(truncLaw b l u v)) =
      (l - mean) ^ 2 * (Real.exp ((l - v) / b) / 2) + (∫ y in l..u, (y - mean) ^ 2 * lapDensity b v y) +
        (u - mean) ^ 2 * (Real.exp ((v - u) / b) / 2) :=
    integral_clampLaw (fun y => (y - mean) ^ 2) (by fun_prop) b l u v hb hlv hvu
  rw [lap_centered1, hM0] at hcen1
  rw [lap_centered2, hM0] at hcen2
  have hp := truncated_moments_partial b l u v _ _ _ _ hb' rfl rfl rfl rfl
  dsimp only at hp
  obtain ⟨p1, p2⟩ := hp
  rw [hM1] at hmean hcen1 hcen2
  rw [hM2] at hsec hcen2
  have hm' : mean = l * (Real.exp ((l - v) / b) / 2) + ((v - b) / 2 - (l - b) * Real.exp ((l - v) / b) / 2) +
      ((v + b) / 2 - (u + b) * Real.exp ((v - u) / b) / 2) + u * (Real.exp ((v - u) / b) / 2) := by
    rw [hmean]; ring
  have c1 : mean - v = truncBiasOf b l u v := by rw [hm']; exact p1
  have c2 : (∫ y, y ^ 2 ∂(truncLaw b l u v)) - mean ^ 2 = truncVarianceOf b l u v := by
    rw [← p2, hsec, hm']; ring
  refine ⟨c1, c2, ?_, ?_⟩
  · rw [← c1, hcen1, hmean]; ring
  · rw [← c2, hcen2, hsec]
    linear_combination (2 * mean) * hmean

/-- **bounded-domain Laplace** (`LaplaceBoundedDomain.bias/variance`), hypothesis-free: for a value inside a finite
non-degenerate domain (`l ≤ v ≤ u`, `l < u`) and ANY scale `s > 0` (whatever the calibration returned), with `law` = the
Laplace law conditioned on `[l, u]` (`bdLaw`: the restriction divided by the mass of the domain),
  mean − v = coded bias,   second moment − mean² = coded variance,
and in the forms  `E[Y − v]`  and  `E[(Y − E Y)²]`. -/
theorem bounded_domain_moments (s l u v : ℝ) (hs : 0 < s) (hlu : l < u) (hlv : l ≤ v) (hvu : v ≤ u) :
    (∫ y, y ∂(bdLaw s l u v)) - v = bdBiasOf s l u v ∧
    (∫ y, y ^ 2 ∂(bdLaw s l u v)) - (∫ y, y ∂(bdLaw s l u v)) ^ 2 = bdVarianceOf s l u v ∧
    (∫ y, (y - v) ∂(bdLaw s l u v)) = bdBiasOf s l u v ∧
    (∫ y, (y - ∫ z, z ∂(bdLaw s l u v)) ^ 2 ∂(bdLaw s l u v)) = bdVarianceOf s l u v := by
  have hs' : s ≠ 0 := hs.ne'
  have hC := lap_M0_pos s l u v hs hlu hlv hvu
  have hM0 := lap_M0 s l u v hs' hlv hvu
  have hM1 := lap_M1 s l u v hs' hlv hvu
  have hM2 := lap_M2 s l u v hs' hlv hvu
  have hmean : (∫ y, y ∂(bdLaw s l u v)) = _ := integral_condLaw (fun y => y) s l u v hs hlu hlv hvu
  have hsec : (∫ y, y ^ 2 ∂(bdLaw s l u v)) = _ := integral_condLaw (fun y => y ^ 2) s l u v hs hlu hlv hvu
  have hcen1 : (∫ y, (y - v) ∂(bdLaw s l u v)) = _ := integral_condLaw (fun y => y - v) s l u v hs hlu hlv hvu
  generalize (∫ y, y ∂(bdLaw s l u v)) = mean at *
  have hcen2 : (∫ y, (y - mean) ^ 2 ∂(bdLaw s l u v)) = _ :=
    integral_condLaw (fun y => (y - mean) ^ 2) s l u v hs hlu hlv hvu
  rw [lap_centered1, hM0] at hcen1
  rw [lap_centered2, hM0] at hcen2
  have hp := bounded_domain_moments_partial s l u v _ _ _ _ hs' hC.ne' rfl rfl rfl rfl
  dsimp only at hp
  obtain ⟨p1, p2⟩ := hp
  rw [hM1] at hmean hcen1 hcen2
  rw [hM2] at hsec hcen2
  have c1 : mean - v = bdBiasOf s l u v := by rw [hmean]; exact p1
  have c2 : (∫ y, y ^ 2 ∂(bdLaw s l u v)) - mean ^ 2 = bdVarianceOf s l u v := by
    rw [← p2, hsec, hmean]
  refine ⟨c1, c2, ?_, ?_⟩
  · rw [← c1, hcen1, hmean]
    generalize (1 - Real.exp ((l - v) / s) / 2 - Real.exp ((v - u) / s) / 2) = C at *
    have hC' : C ≠ 0 := hC.ne'
    field_simp
  · rw [← c2, hcen2, hsec]
    generalize (1 - Real.exp ((l - v) / s) / 2 - Real.exp ((v - u) / s) / 2) = C at *
    have hC' : C ≠ 0 := hC.ne'
    generalize ((v - s) / 2 - (l - s) * Real.exp ((l - v) / s) / 2 +
      ((v + s) / 2 - (u + s) * Real.exp ((v - u) / s) / 2)) = N1 at *
    rw [hmean]
    field_simp
    ring

/-- non-vacuity of the hypotheses of `truncated_moments` / `bounded_domain_moments` -/
example : (0:ℝ) < 1 ∧ (0:ℝ) < 2 ∧ (0:ℝ) ≤ 1 ∧ (1:ℝ) ≤ 2 := by norm_num

/-! ## folded Laplace: the mean of the folded law is the coded bias -/

/-- what `foldMap l u` is: the reflection of the real line into `[l, u]` — on the `k`-th translate
`[l + k w, l + (k+1) w]` of the domain (`w = u - l`) it is `y - k w` for even `k` and `2l + (k+1) w - y` for odd `k`;
its values lie in `[l, u]`; it is the identity on `[l, u]` -/
theorem foldMap_spec (l u y : ℝ) (hlu : l < u) :
    (∀ k : ℤ, l + k * (u - l) ≤ y → y ≤ l + (k + 1) * (u - l) →
      (Even k → foldMap l u y = y - k * (u - l)) ∧ (Odd k → foldMap l u y = 2 * l + (k + 1) * (u - l) - y)) ∧
    (l ≤ foldMap l u y ∧ foldMap l u y ≤ u) ∧ (l ≤ y → y ≤ u → foldMap l u y = y) :=
  ⟨fun k h1 h2 => ⟨fun hk => foldMap_even l u y hlu k hk h1 h2, fun hk => foldMap_odd l u y hlu k hk h1 h2⟩,
    foldMap_mem l u y hlu, foldMap_id l u y hlu⟩

/-- the model of the code's `_fold` (C12's `Range.fold`: modulo step, then the reflection loop) computes `foldMap`:
over ℝ it returns, after at most two reflections, exactly `foldMap lo hi v` -/
theorem fold_model_is_foldMap (lo hi v : ℝ) (hw : lo < hi) (fuel : ℕ) (hf : 3 ≤ fuel) :
    ∃ k, k ≤ 2 ∧ fold lo hi v fuel = some (foldMap lo hi v, k) :=
  fold_spec lo hi v hw fuel hf

/-- **folded_bias** (`LaplaceFolded.bias`): for a value inside a finite non-degenerate domain (`l ≤ v ≤ u`, `l < u`)
and scale `b > 0`, the mean of the law of `fold(v + Laplace(b))` minus `v` is the coded expression.
Stated (i) for the push-forward of the Laplace measure under the reflection map, (ii) as an integral against the
density, and (iii) for the MODEL OF THE CODE'S `_fold` applied to the Laplace variable, with the whole method
`foldBiasAt` (its `shape == 0` branch included).
Proof: the line is cut into the periods `(l + 2nw, l + 2(n+1)w]`; on each the integral is an elementary one
(`ContinuousFoldPieces`), the periods right / left of the domain form two geometric series in `e^{-2w/b}`
(`ContinuousFoldSum`). -/
theorem folded_bias (b l u v : ℝ) (hb : 0 < b) (hlu : l < u) (hlv : l ≤ v) (hvu : v ≤ u) :
    (∫ y, y ∂((lapMeasure b v).map (foldMap l u))) - v = foldBiasOf b l u v ∧
    (∫ y, foldMap l u y * lapDensity b v y) - v = foldBiasOf b l u v ∧
    (∫ y, foldOut l u y ∂(lapMeasure b v)) - v = foldBiasAt b l u v (foldOut l u v) := by
  refine ⟨folded_mean_law b l u v hb hlu hlv hvu, folded_mean b l u v hb hlu hlv hvu, ?_⟩
  rw [folded_model_mean b l u v hb hlu hlv hvu]
  unfold foldBiasAt
  simp only [feq_real, hb.ne', decide_false, Bool.false_eq_true, if_false]

/-- non-vacuity of the hypotheses of `folded_bias` -/
example : (0:ℝ) < 1 ∧ (0:ℝ) < 2 ∧ (0:ℝ) ≤ 1 ∧ (1:ℝ) ≤ 2 := by norm_num

end DPL.C19
