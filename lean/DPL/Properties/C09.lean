/-
C09 — a query or fit charges exactly its ε, once, to the right accountant.

The model is `DPL/Model/Charged.lean` (resolve / check / run / spend, `_check_cells`, `fit` with sub-queries on
throw-away accountants) composed with the accountant machine of `DPL/Model/Accountant.lean`; `Drivers/Tools.lean`
runs these very definitions on IEEE doubles against the real tools and estimators.

★ = holds for ANY numeric carrier with arbitrary arithmetic and comparisons — hence also for the doubles the code
computes with: these are facts about control flow (check first, spend last, nothing in between touches an
accountant).  The multi-cell theorems need one arithmetic fact — a history that fits the ceiling still fits when its
last spend is dropped — which is a hypothesis of the ★ version and is proved over ℝ (monotonicity of `total`, C05).
-/
import DPL.Model.Charged
import DPL.Model.PlanTools
import DPL.Proofs.Charged
import DPL.Proofs.ChargeIR
import Mathlib.Tactic.FieldSimp
import Mathlib.Tactic.NormNum

namespace DPL.C09
open DPL DPL.Charged

section generic
variable {α : Type} [OfNat α 0] [OfNat α 1] [OfNat α 2] [Add α] [Sub α] [Mul α] [Div α] [Neg α]
  [LT α] [LE α] [DecidableLT α] [DecidableLE α] [NatCast α] [Transc α] [HasInf α]
variable {ρ : Type}

/-- ★ scalar_charge_once: for every scalar query (any body: every scalar-output tool plan, the scalar quantile
including its NaN path, a histogram) and every state of the world: if the resolved accountant's check passes then
exactly one spend `(ε, 0)` is appended to it, no other accountant changes, the body's mechanisms ran and the
release is produced; otherwise the call fails with the check's error, NO mechanism ran and no accountant changed. -/
theorem scalar_charge_once (w : World α) (explicit : Option Nat) (ε : α) (b : Body ρ) (a : Acc α)
    (hi : w.accs[resolve w explicit]? = some a) :
    (a.check ε 0 = .ok () →
        (scalarQ explicit ε b w).res = .ok b.release ∧
        (scalarQ explicit ε b w).accs = w.accs.set (resolve w explicit) { a with spent := a.spent ++ [⟨ε, 0⟩] } ∧
        (∀ j, j ≠ resolve w explicit → (scalarQ explicit ε b w).accs[j]? = w.accs[j]?) ∧
        (scalarQ explicit ε b w).mechCalls = b.calls) ∧
    (∀ x, a.check ε 0 = .error x → scalarQ explicit ε b w = ⟨.error x, w.accs, 0⟩) := by
  constructor
  · intro hc
    rw [scalarQ_ok w explicit ε b a hi hc]
    refine ⟨rfl, rfl, ?_, rfl⟩
    intro j hj
    exact List.getElem?_set_ne (Ne.symm hj)
  · intro x hc
    exact scalarQ_err w explicit ε b a x hi hc

/-- ★ instance for a release plan run with forced mechanism outputs: the number of mechanism invocations is the
length of the plan's trace -/
theorem scalar_charge_once_plan {δ σ : Type} (p : Plan δ α σ) (D : δ) (outs : List α)
    (w : World α) (explicit : Option Nat) (ε : α) (a : Acc α)
    (hi : w.accs[resolve w explicit]? = some a) :
    (a.check ε 0 = .ok () →
        (scalarQ explicit ε (Body.ofPlan p D outs) w).res = .ok (p.run D outs).release ∧
        (scalarQ explicit ε (Body.ofPlan p D outs) w).mechCalls = (p.run D outs).calls.length) ∧
    (∀ x, a.check ε 0 = .error x →
        (scalarQ explicit ε (Body.ofPlan p D outs) w).mechCalls = 0 ∧
        (scalarQ explicit ε (Body.ofPlan p D outs) w).accs = w.accs) := by
  have h := scalar_charge_once w explicit ε (Body.ofPlan p D outs) a hi
  constructor
  · intro hc; exact ⟨(h.1 hc).1, (h.1 hc).2.2.2⟩
  · intro x hc; rw [h.2 x hc]; exact ⟨rfl, rfl⟩

/-- ★ explicit_overrides_default: with an explicit accountant the default in force is irrelevant; without one the
default is the accountant that is used -/
theorem explicit_overrides_default (w : World α) (i d' : Nat) (ε : α) (b : Body ρ) :
    scalarQ (some i) ε b { w with dflt := d' } = scalarQ (some i) ε b w ∧
    scalarQ none ε b w = scalarQ (some w.dflt) ε b w := ⟨rfl, rfl⟩

/-- ★ multi_cell_charge (any carrier, given that fitting histories are closed under dropping their last spend):
`_wrap_axis` on `n ≥ 1` cells.  If `_check_cells` refuses, nothing ran and nothing changed.  If it accepts, NO
per-cell check refuses: all `n` bodies run and exactly `n` spends of `ε/n` are appended to the resolved accountant. -/
theorem multi_cell_charge_gen (w : World α) (explicit : Option Nat) (ε : α) (bodies : List (Body ρ)) (a : Acc α)
    (hi : w.accs[resolve w explicit]? = some a)
    (hmono : ∀ l sp, Fits a (l ++ [sp]) → Fits a l)
    (hmin : ¬ (0 < ε / (bodies.length : α) ∧ ε / (bodies.length : α) < a.minEps)) :
    (∀ x, checkCells a ε (ε / (bodies.length : α)) bodies.length = .error x →
        wrapAxisQ explicit ε bodies w = ⟨.error x, w.accs, 0⟩) ∧
    (checkCells a ε (ε / (bodies.length : α)) bodies.length = .ok () →
        wrapAxisQ explicit ε bodies w =
          ⟨.ok (bodies.map (·.release)),
            w.accs.set (resolve w explicit)
              { a with spent := a.spent ++ List.replicate bodies.length ⟨ε / (bodies.length : α), 0⟩ },
            (bodies.map (·.calls)).sum⟩) := by
  constructor
  · intro x hx
    simp [wrapAxisQ, cellsQ, getAcc_some w _ a hi, hx]
  · intro hc
    have hpass := cells_checks_pass a ε _ bodies.length hmono hmin hc
    have := runAll_scalar explicit (ε / (bodies.length : α)) bodies w a hi hpass
    simp only [wrapAxisQ, cellsQ, getAcc_some w _ a hi, hc]
    rw [this]
    rfl

/-- ★ multi_quantile_charge (any carrier, same closure hypothesis): a LIST of `m ≥ 1` quantiles over an axis with
`n` output cells.  The up-front `_check_cells(ε, ε/m/n, m·n)` tests exactly the `m·n` spends that will be recorded;
each quantile's own `_wrap_axis` up-front check and every per-cell check test a PREFIX of that sequence.  Hence: if the
up-front check refuses, nothing ran and nothing changed; if it accepts, the query is never refused part-way — all
`m·n` spends of `ε/m/n` are appended to the resolved accountant and the call returns. -/
theorem multi_quantile_charge_gen (w : World α) (explicit : Option Nat) (ε : α) (bodies : List (List (Body ρ)))
    (n : Nat) (a : Acc α) (hm : 0 < bodies.length) (hlen : ∀ bs ∈ bodies, bs.length = n)
    (hi : w.accs[resolve w explicit]? = some a)
    (hmono : ∀ l sp, Fits a (l ++ [sp]) → Fits a l)
    (hmin : ¬ (0 < ε / (bodies.length : α) / (n : α) ∧ ε / (bodies.length : α) / (n : α) < a.minEps))
    (hv : checkEpsDelta (ε / (bodies.length : α)) 0 = .ok ()) :
    (∀ x, checkCells a ε (ε / (bodies.length : α) / (n : α)) (bodies.length * n) = .error x →
        multiQuantileQ explicit ε true bodies w = ⟨.error x, w.accs, 0⟩) ∧
    (checkCells a ε (ε / (bodies.length : α) / (n : α)) (bodies.length * n) = .ok () →
        ∃ rs k, multiQuantileQ explicit ε true bodies w =
          ⟨.ok rs, w.accs.set (resolve w explicit)
            { a with spent := a.spent ++ List.replicate (bodies.length * n) ⟨ε / (bodies.length : α) / (n : α), 0⟩ },
            k⟩) := by
  have hhead : (bodies.headD []).length = n := by
    cases bodies with
    | nil => simp at hm
    | cons b bs => exact hlen b (by simp)
  have hhead' : (bodies.head?.getD []).length = n := by simpa using hhead
  constructor
  · intro x hx
    simp [multiQuantileQ, cellsQ, hhead', getAcc_some w _ a hi, hx]
  · intro hc
    obtain ⟨_, hfit⟩ := checkCells_ok a ε _ _ hc
    simp only [multiQuantileQ, cellsQ, hhead, if_true, getAcc_some w _ a hi, hc]
    have hb := runAll_blocks (resolve w explicit) n ⟨ε / (bodies.length : α) / (n : α), 0⟩
      (bodies.map (fun bs => wrapAxisQ explicit (ε / (bodies.length : α)) bs)) w a hi ?_
    · obtain ⟨rs, k, h⟩ := hb
      refine ⟨rs, k, ?_⟩
      rw [h]
      simp [Acc.plus]
    · intro j hj w' hd hacc
      have hj' : j < bodies.length := by simpa using hj
      have hl : bodies[j].length = n := hlen _ (List.getElem_mem hj')
      have hres : resolve w' explicit = resolve w explicit := by simp [resolve, hd]
      set aj := Acc.plus a (List.replicate (j * n) ⟨ε / (bodies.length : α) / (n : α), 0⟩) with haj
      have hi' : w'.accs[resolve w' explicit]? = some aj := by rw [hres]; exact hacc
      -- the prefix of the whole sequence that ends with quantile j's cells fits
      have hk : bodies.length * n = (j + 1) * n + (bodies.length - (j + 1)) * n := by
        rw [← Nat.add_mul]; congr 1; omega
      rw [hk] at hfit
      have hpre := fits_drop_replicate a hmono a.spent _ ((j + 1) * n) _ hfit
      have hsp : aj.spent ++ List.replicate n ⟨ε / (bodies.length : α) / (n : α), 0⟩ =
          a.spent ++ List.replicate ((j + 1) * n) ⟨ε / (bodies.length : α) / (n : α), 0⟩ := by
        simp only [haj, Acc.plus, List.append_assoc, List.replicate_append_replicate]
        congr 2
        rw [Nat.succ_mul]
      have hfitj : Fits aj (aj.spent ++ List.replicate n ⟨ε / (bodies.length : α) / (n : α), 0⟩) := by
        rw [hsp]; exact hpre
      have hcj := checkCells_of_fits aj (ε / (bodies.length : α)) _ n hv hfitj
      have hgen := multi_cell_charge_gen w' explicit (ε / (bodies.length : α)) bodies[j] aj hi'
        (fun l sp h => hmono l sp h) (by rw [hl]; exact hmin)
      rw [hl] at hgen
      have hq := hgen.2 hcj
      refine ⟨bodies[j].map (·.release), (bodies[j].map (·.calls)).sum, ?_⟩
      simp only [List.getElem_map]
      rw [hq, hres]
      congr 2
      show Acc.plus aj _ = _
      rw [haj, plus_plus, List.replicate_append_replicate]
      congr 2
      rw [Nat.succ_mul]

/-- ★ model_charge_once: a `fit` whose sub-queries leave the caller's accountants alone (they run on throw-away
accountants).  Refused by the check: nothing ran, nothing changed.  Otherwise the sub-queries and the body's
mechanisms run and exactly one spend `(ε, 0)` is appended to the accountant that was resolved when the estimator
was CONSTRUCTED — whatever the default is at `fit` time; if a sub-query fails nothing is charged. -/
theorem model_charge_once {σ : Type} (w : World α) (m : Model) (ε : α) (subs : Query α σ) (b : σ → Body ρ)
    (a : Acc α) (hi : w.accs[m.acc]? = some a) (hframe : (subs w).accs = w.accs) :
    (∀ x, a.check ε 0 = .error x → fitQ m ε subs b w = ⟨.error x, w.accs, 0⟩) ∧
    (a.check ε 0 = .ok () → ∀ s, (subs w).res = .ok s →
        fitQ m ε subs b w = ⟨.ok (b s).release, w.accs.set m.acc { a with spent := a.spent ++ [⟨ε, 0⟩] },
          (subs w).mechCalls + (b s).calls⟩) ∧
    (a.check ε 0 = .ok () → ∀ x, (subs w).res = .error x →
        (fitQ m ε subs b w).res = .error x ∧ (fitQ m ε subs b w).accs = w.accs) := by
  refine ⟨?_, ?_, ?_⟩
  · intro x hx
    simp [fitQ, getAcc_some w _ a hi, hx]
  · intro hc s hs
    have hi' : getAcc { w with accs := (subs w).accs } m.acc = .ok a := by
      rw [hframe]; exact getAcc_some w _ a hi
    simp only [fitQ, getAcc_some w _ a hi, hc, hs, hi', spend_of_check a ε 0 hc, hframe]
    rfl
  · intro hc x hx
    simp [fitQ, getAcc_some w _ a hi, hc, hx, hframe]

/-- ★ the accountant of an estimator is the explicit one, else the default in force at construction -/
theorem model_accountant_fixed_at_construction (w₀ : World α) (explicit : Option Nat) :
    (construct w₀ explicit).acc = explicit.getD w₀.dflt := rfl

/-- ★ sub-queries handed a throw-away `BudgetAccountant()` — a scalar tool, or a tool with `axis=` as in
`StandardScaler` (`nanmean`/`nanvar`, axis 0), `LinearRegression` (`mean`, axis 0) and `PCA` (`mean`, axis 0) — charge
none of the caller's accountants, so they satisfy the frame hypothesis of `model_charge_once` -/
theorem throwAway_frame (fresh : Acc α) (ε : α) (b : Body ρ) (bodies : List (Body ρ)) (w : World α) :
    (withThrowAway fresh (fun ex => scalarQ ex ε b) w).accs = w.accs ∧
    (withThrowAway fresh (fun ex => wrapAxisQ ex ε bodies) w).accs = w.accs :=
  ⟨withThrowAway_frame fresh _ (fun k => scalarQ_frameAt k ε b) w,
   withThrowAway_frame fresh _ (fun k => wrapAxisQ_frameAt k ε bodies) w⟩

end generic

/-! ## over ℝ: the arithmetic hypothesis of `multi_cell_charge_gen` is a theorem, and the charge adds up to ε -/

/-- multi_cell_charge over ℝ (any slack): with the up-front `_check_cells` as coded, acceptance implies that every
per-cell check passes; the `n` recorded spends add up to exactly `ε`; refusal charges nothing and runs nothing.
Hypotheses: the accountant's slack lies in [0, 1] (an invariant of the constructor and the slack setter) and the
per-cell epsilon is not below the accountant's `min_epsilon` (= ceiling × 1e-14 in the code). -/
theorem multi_cell_charge (w : World ℝ) (explicit : Option Nat) (ε : ℝ) {ρ : Type} (bodies : List (Body ρ))
    (a : Acc ℝ) (hn : 0 < bodies.length) (hi : w.accs[resolve w explicit]? = some a)
    (hs0 : 0 ≤ a.slack) (hs1 : a.slack ≤ 1)
    (hmin : ¬ (0 < ε / (bodies.length : ℝ) ∧ ε / (bodies.length : ℝ) < a.minEps)) :
    (∀ x, checkCells a ε (ε / (bodies.length : ℝ)) bodies.length = .error x →
        wrapAxisQ explicit ε bodies w = ⟨.error x, w.accs, 0⟩) ∧
    (checkCells a ε (ε / (bodies.length : ℝ)) bodies.length = .ok () →
        wrapAxisQ explicit ε bodies w =
          ⟨.ok (bodies.map (·.release)),
            w.accs.set (resolve w explicit)
              { a with spent := a.spent ++ List.replicate bodies.length ⟨ε / (bodies.length : ℝ), 0⟩ },
            (bodies.map (·.calls)).sum⟩) ∧
    ((List.replicate bodies.length (⟨ε / (bodies.length : ℝ), 0⟩ : Spend ℝ)).map (·.eps)).sum = ε := by
  have h := multi_cell_charge_gen w explicit ε bodies a hi (fits_prefix_real a hs0 hs1) hmin
  refine ⟨h.1, h.2, ?_⟩
  have hne : (bodies.length : ℝ) ≠ 0 := by exact_mod_cast hn.ne'
  simp [List.map_replicate, List.sum_replicate]
  field_simp

/-- multi_quantile_charge over ℝ (any slack): a list of `m ≥ 1` quantiles over an axis with `n ≥ 1` cells is either
refused up front (nothing ran, nothing changed) or charged completely — never refused part-way — and the `m·n`
recorded spends of `ε/m/n` add up to exactly `ε`. -/
theorem multi_quantile_charge (w : World ℝ) (explicit : Option Nat) (ε : ℝ) {ρ : Type} (bodies : List (List (Body ρ)))
    (n : Nat) (a : Acc ℝ) (hm : 0 < bodies.length) (hn : 0 < n) (hlen : ∀ bs ∈ bodies, bs.length = n)
    (hi : w.accs[resolve w explicit]? = some a) (hε : 0 < ε) (hs0 : 0 ≤ a.slack) (hs1 : a.slack ≤ 1)
    (hmin : ¬ (0 < ε / (bodies.length : ℝ) / (n : ℝ) ∧ ε / (bodies.length : ℝ) / (n : ℝ) < a.minEps)) :
    (∀ x, checkCells a ε (ε / (bodies.length : ℝ) / (n : ℝ)) (bodies.length * n) = .error x →
        multiQuantileQ explicit ε true bodies w = ⟨.error x, w.accs, 0⟩) ∧
    (checkCells a ε (ε / (bodies.length : ℝ) / (n : ℝ)) (bodies.length * n) = .ok () →
        ∃ rs k, multiQuantileQ explicit ε true bodies w =
          ⟨.ok rs, w.accs.set (resolve w explicit)
            { a with spent := a.spent ++ List.replicate (bodies.length * n) ⟨ε / (bodies.length : ℝ) / (n : ℝ), 0⟩ },
            k⟩) ∧
    ((List.replicate (bodies.length * n) (⟨ε / (bodies.length : ℝ) / (n : ℝ), 0⟩ : Spend ℝ)).map (·.eps)).sum = ε := by
  have hm' : (0 : ℝ) < bodies.length := by exact_mod_cast hm
  have hn' : (0 : ℝ) < n := by exact_mod_cast hn
  have h := multi_quantile_charge_gen w explicit ε bodies n a hm hlen hi (fits_prefix_real a hs0 hs1) hmin
    (checkEpsDelta_of_pos _ (div_pos hε hm'))
  refine ⟨h.1, h.2, ?_⟩
  simp [List.map_replicate, List.sum_replicate]
  field_simp


/-! ## static charge skeletons (translator tie: `DPL/Generated/C09Charges.lean` is regenerated from /repo's AST on every
run and `wellCharged sk_<entry> = true` is decided for every public tool, `wellChargedM` for every estimator method that
touches `self.accountant`, `ctorResolves` for every estimator `__init__`) -/

section static
open DPL.ChargeIR

/-- static_skeleton_sound: the boolean the generated obligations decide is meaningful.  If `wellCharged sk` then EVERY
path through the skeleton (any number of iterations of every loop) leaves the function by an explicit return / raise and
consists of `resolve`s followed by exactly one of the shapes of `ChargeIR.Tail`:
  direct      `check(ε, d)` on the own, RESOLVED accountant · only noise (mechanisms / sub-queries on throw-away
              accountants) · `spend(ε, d)` — same expressions, same accountant · exit        (nothing else: no noise before
              the check, none after the spend, no second spend, no delegation)
  unreleased  `check(ε, d)` then `return self` / `raise` with no noise drawn
  refused     `raise` before anything
  delegated   ONE call handing on the own accountant and the own ε, then exit (no own spend, no noise)
  cells       `_check_cells` for `n` spends of `ce` sharing out ε, then only cell queries on the own accountant. -/
theorem static_skeleton_sound {sk : Sk} (h : wellCharged sk = true) (k : Nat) :
    ∀ p ∈ runs k sk, p.2 = true ∧ ∃ rs tail res, p.1 = rs ++ tail ∧ (∀ v ∈ rs, v = .resolve) ∧
      (res = true → rs ≠ []) ∧ Tail res tail := by
  intro p hp
  obtain ⟨h1, rs, tail, res, h2, h3, h4, h5⟩ := wellChargedFrom_sound (r := false) h k p hp
  exact ⟨h1, rs, tail, res, h2, h3, fun hr => (h4 hr).resolve_left (by simp), h5⟩

/-- the same for estimator methods (`self.accountant` resolved by `__init__`, obligation `ctorResolves`) -/
theorem static_skeleton_sound_method {sk : Sk} (h : wellChargedM sk = true) (k : Nat) :
    ∀ p ∈ runs k sk, p.2 = true ∧ ∃ rs tail res, p.1 = rs ++ tail ∧ (∀ v ∈ rs, v = .resolve) ∧ Tail res tail := by
  intro p hp
  obtain ⟨h1, rs, tail, res, h2, h3, _, h5⟩ := wellChargedFrom_sound (r := true) h k p hp
  exact ⟨h1, rs, tail, res, h2, h3, h5⟩

/-- the form asked for by the property text, for every path on which noise is drawn: resolve first, then
`pre ++ [check ε d] ++ mids ++ [spend ε d] ++ [exit]` with only `resolve`s in `pre` and only noise in `mids` -/
theorem static_skeleton_noise_is_charged {sk : Sk} (h : wellCharged sk = true) (k : Nat) (p : List Ev × Bool)
    (hp : p ∈ runs k sk) (hn : ∃ v ∈ p.1, v.mechlike = true) :
    ∃ pre d mids x, p.1 = pre ++ [.check true epsP d] ++ mids ++ [.spend true epsP d] ++ [x] ∧ pre ≠ [] ∧
      (∀ v ∈ pre, v = .resolve) ∧ (∀ v ∈ mids, v.mechlike = true) ∧ x.isExit = true := by
  obtain ⟨_, rs, tail, res, h2, h3, h4, h5⟩ := static_skeleton_sound h k p hp
  obtain ⟨v, hv, hm⟩ := hn
  rw [h2] at hv
  have hrs : v ∉ rs := fun hin => by rw [h3 v hin] at hm; simp [Ev.mechlike] at hm
  have hv' : v ∈ tail := (List.mem_append.mp hv).resolve_left hrs
  cases h5 with
  | direct d mids x hr hmids hx =>
    exact ⟨rs, d, mids, x, by simp [h2], h4 hr, h3, hmids, hx⟩
  | unreleased d x hr hx =>
    rcases hx with rfl | rfl <;> simp at hv' <;> (rcases hv' with rfl | rfl <;> simp [Ev.mechlike] at hm)
  | refused => simp at hv'; subst hv'; simp [Ev.mechlike] at hm
  | delegated x hx =>
    simp at hv'
    rcases hv' with rfl | rfl
    · simp [Ev.mechlike] at hm
    · cases v <;> simp [Ev.mechlike, Ev.isExit] at hm hx
  | cells ce n calls x hs hall hx =>
    simp at hv'
    rcases hv' with rfl | hc | rfl
    · simp [Ev.mechlike] at hm
    · obtain ⟨e', rfl, _⟩ := hall v hc
      simp [Ev.mechlike] at hm
    · cases v <;> simp [Ev.mechlike, Ev.isExit] at hm hx

/-- the skeleton generated for `tools.utils._mean` at HEAD (expression 2 is the literal `0`, mechanism 1 is
`LaplaceTruncated`, 0 is `.randomise(`) -/
def skMean : Sk := Sk.block [
  .branch (Sk.block [.atom (.call true (.atom 0)), .atom (.ret false)]) .skip,
  .atom .resolve, .atom (.check true (.atom 0) (.atom 2)), .atom (.mech 1), .atom (.mech 0),
  .atom (.spend true (.atom 0) (.atom 2)), .atom (.ret false)]

/-- non-vacuity: the hypothesis holds for it, it has a path that draws noise and a delegating path; -/
example : wellCharged skMean = true ∧ (∃ p ∈ runs 1 skMean, ∃ v ∈ p.1, v.mechlike = true) ∧
    ([Ev.call true epsP, .ret false], true) ∈ runs 1 skMean := by decide

/-- … and the checker refuses: the spend moved before the mechanism, `spend(epsilon / 2)`, a spend on another accountant,
the check after the mechanism, a missing spend on an early return, a second charge after delegating. -/
example :
    wellCharged (Sk.block [.atom .resolve, .atom (.check true epsP (.atom 2)), .atom (.spend true epsP (.atom 2)),
      .atom (.mech 0), .atom (.ret false)]) = false ∧
    wellCharged (Sk.block [.atom .resolve, .atom (.check true epsP (.atom 2)), .atom (.mech 0),
      .atom (.spend true (.div epsP (.atom 5)) (.atom 2)), .atom (.ret false)]) = false ∧
    wellCharged (Sk.block [.atom .resolve, .atom (.check true epsP (.atom 2)), .atom (.mech 0),
      .atom (.spend false epsP (.atom 2)), .atom (.ret false)]) = false ∧
    wellCharged (Sk.block [.atom .resolve, .atom (.mech 0), .atom (.check true epsP (.atom 2)),
      .atom (.spend true epsP (.atom 2)), .atom (.ret false)]) = false ∧
    wellCharged (Sk.block [.atom .resolve, .atom (.check true epsP (.atom 2)),
      .branch (.atom (.ret false)) .skip, .atom (.mech 0), .atom (.spend true epsP (.atom 2)),
      .atom (.ret false)]) = false ∧
    wellCharged (Sk.block [.atom (.call true epsP), .atom .resolve, .atom (.spend true epsP (.atom 2)),
      .atom (.ret false)]) = false := by decide

end static

/-! ## non-vacuity -/

/-- a finite accountant (ceiling 1) accepts a scalar query of ε = 1/2 and refuses one of ε = 2 -/
example : (Acc.check (⟨1, 0, 0, 0, []⟩ : Acc ℝ) (1 / 2) 0 = .ok ()) ∧
    (Acc.check (⟨1, 0, 0, 0, []⟩ : Acc ℝ) 2 0 = .error .budgetError) := by
  constructor <;>
  norm_num [Acc.check, checkEpsDelta, feq, Acc.unlimited, totalCore, epsSums, totalDeltaSafe, sortAsc, insertSorted,
    mkBudget, bind, Except.bind, pure, Except.pure, HasInf.isPosInf, List.forM, List.foldl, throw, throwThe,
    MonadExceptOf.throw]

end DPL.C09
