import DPL.Model.Charged
import DPL.Model.PlanTools
namespace DPL.C09
theorem stub : True := trivial
end DPL.C09
